import Drpc.Metadata
import Drpc.Proto
import Drpc.Lemmas.Roundtrip
/-
  Helper lemmas for C11 (metadata codec and NewServerStream's metadata scoping).
  `bitLen`/`varintSize` arithmetic, the spec varint, field/entry round trips, unfolding and totality
  of `decode`, equality with the protobuf spec encoder, the loop of NewServerStream.
-/
namespace Drpc.Metadata
open Drpc

theorem bitLen_zero : bitLen 0 = 0 := by rw [bitLen]
theorem bitLen_pos {n : Nat} (h : 0 < n) : bitLen n = bitLen (n / 2) + 1 := by
  cases n with
  | zero => omega
  | succ k => rw [bitLen]

theorem bitLen_le : ∀ (k n : Nat), n < 2 ^ k → bitLen n ≤ k := by
  intro k
  induction k with
  | zero => intro n h; have : n = 0 := by simpa using h
            subst this; simp [bitLen_zero]
  | succ k ih =>
    intro n h
    rcases Nat.eq_zero_or_pos n with h0 | h0
    · subst h0; simp [bitLen_zero]
    · rw [bitLen_pos h0]
      have : n / 2 < 2 ^ k := by
        rw [Nat.pow_succ] at h; omega
      have := ih _ this
      omega

theorem bitLen_ge_one {n : Nat} (h : 0 < n) : 1 ≤ bitLen n := by
  rw [bitLen_pos h]; omega

/-- `bitLen n` is the minimal number of bits: `2^(bitLen n - 1) ≤ n < 2^(bitLen n)` -/
theorem bitLen_spec : ∀ (n : Nat), 0 < n → 2 ^ (bitLen n - 1) ≤ n ∧ n < 2 ^ bitLen n := by
  intro n
  induction n using Nat.strongRecOn with
  | _ n ih =>
    intro h
    rw [bitLen_pos h]
    rcases Nat.eq_zero_or_pos (n / 2) with h0 | h0
    · have : n = 1 := by omega
      subst this; simp [bitLen_zero]
    · have ⟨h1, h2⟩ := ih (n / 2) (by omega) h0
      have hb := bitLen_ge_one h0
      constructor
      · have e : bitLen (n / 2) + 1 - 1 = (bitLen (n / 2) - 1) + 1 := by omega
        rw [e, Nat.pow_succ]; omega
      · rw [Nat.pow_succ]; omega

theorem bitLen_div128 {n : Nat} (h : 128 ≤ n) : bitLen n = bitLen (n / 128) + 7 := by
  have e : n / 128 = n / 2 / 2 / 2 / 2 / 2 / 2 / 2 := by omega
  rw [e]
  rw [bitLen_pos (n := n) (by omega), bitLen_pos (n := n / 2) (by omega),
    bitLen_pos (n := n / 2 / 2) (by omega), bitLen_pos (n := n / 2 / 2 / 2) (by omega),
    bitLen_pos (n := n / 2 / 2 / 2 / 2) (by omega), bitLen_pos (n := n / 2 / 2 / 2 / 2 / 2) (by omega),
    bitLen_pos (n := n / 2 / 2 / 2 / 2 / 2 / 2) (by omega)]

/-- number of 7-bit groups for a `b`-bit value (one group for zero) -/
def groups (b : Nat) : Nat := if b = 0 then 1 else (b + 6) / 7

theorem appendVarint_length (x : U64) : (appendVarint x).length = groups (bitLen x.toNat) := by
  induction x using appendVarint.induct with
  | case1 x h ih =>
    rw [appendVarint]; simp only [h, ↓reduceDIte, List.length_cons, ih]
    have e : (x >>> 7).toNat = x.toNat / 128 := by
      simp [BitVec.toNat_ushiftRight, Nat.shiftRight_eq_div_pow]
    rw [e, bitLen_div128 h]
    have := bitLen_ge_one (n := x.toNat / 128) (by omega)
    unfold groups; split <;> split <;> omega
  | case2 x h =>
    rw [appendVarint]; simp only [h, ↓reduceDIte, List.length_cons, List.length_nil]
    have := bitLen_le 7 x.toNat (by omega)
    unfold groups; split <;> omega

theorem nine_trick : ∀ b, b < 65 → (9 * b + 64) / 64 = groups b := by decide

theorem bitLen_u64 (x : U64) : bitLen x.toNat ≤ 64 := bitLen_le 64 _ x.isLt

theorem varintSize_toNat (x : U64) : (varintSize x).toNat = (appendVarint x).length := by
  have hb := bitLen_u64 x
  rw [appendVarint_length, ← nine_trick _ (by omega)]
  unfold varintSize
  simp only [BitVec.toNat_udiv, BitVec.toNat_add, BitVec.toNat_mul, BitVec.toNat_ofNat]
  have h1 : bitLen x.toNat % 2 ^ 64 = bitLen x.toNat := Nat.mod_eq_of_lt (by omega)
  rw [h1]
  have h2 : 9 % 2 ^ 64 = 9 := by decide
  have h3 : 64 % 2 ^ 64 = 64 := by decide
  rw [h2, h3]
  have h4 : 9 * bitLen x.toNat % 2 ^ 64 = 9 * bitLen x.toNat := Nat.mod_eq_of_lt (by omega)
  rw [h4]
  have h5 : (9 * bitLen x.toNat + 64) % 2 ^ 64 = 9 * bitLen x.toNat + 64 := Nat.mod_eq_of_lt (by omega)
  rw [h5]

theorem appendVarint_length_le (x : U64) : (appendVarint x).length ≤ 10 := by
  have hb := bitLen_u64 x
  rw [appendVarint_length]; unfold groups; split <;> omega


/-! ### the spec varint equals the drpcwire varint -/

theorem cont_byte_nat : ∀ b : BitVec 8, ((b &&& 127#8) ||| 128#8) = BitVec.ofNat 8 (b.toNat % 128 + 128) := by decide

theorem appendVarint_eq_proto (x : U64) : appendVarint x = Proto.varint x.toNat := by
  induction x using appendVarint.induct with
  | case1 x h ih =>
    rw [appendVarint, Proto.varint]
    have h' : ¬ x.toNat < 128 := by omega
    simp only [h, h', ↓reduceDIte]
    have e : (x >>> 7).toNat = x.toNat / 128 := by
      simp [BitVec.toNat_ushiftRight, Nat.shiftRight_eq_div_pow]
    rw [ih, e, cont_byte_nat]
    congr 2
    simp only [BitVec.truncate_eq_setWidth, BitVec.toNat_setWidth]
    omega
  | case2 x h =>
    rw [appendVarint, Proto.varint]
    have h' : x.toNat < 128 := by omega
    simp only [h, h', ↓reduceDIte]
    congr 1

theorem appendVarint_ofNat_eq_proto {n : Nat} (h : n < 2 ^ 64) :
    appendVarint (BitVec.ofNat 64 n) = Proto.varint n := by
  rw [appendVarint_eq_proto, BitVec.toNat_ofNat, Nat.mod_eq_of_lt h]

/-! ### one tagged, length-prefixed field -/

theorem readField_append (tag : Byte) (payload rest : Bytes) (h : payload.length < 2 ^ 64) :
    readField tag (tag :: (appendVarint (BitVec.ofNat 64 payload.length) ++ (payload ++ rest)))
      = .ok payload rest := by
  unfold readField
  simp only [List.length_cons, show ¬ (appendVarint (BitVec.ofNat 64 payload.length) ++ (payload ++ rest)).length + 1 < 1 by omega,
    ↓reduceIte, ne_eq, not_true_eq_false, varint_roundtrip]
  have e : (BitVec.ofNat 64 payload.length).toNat = payload.length := by
    rw [BitVec.toNat_ofNat]; exact Nat.mod_eq_of_lt h
  rw [e]
  have h2 : ¬ (payload.length + rest.length < payload.length) := by omega
  simp [h2]


/-! ### entries -/

/-- the embedded message of one entry, as `appendEntry` writes it -/
def entryBody (k v : Bytes) : Bytes :=
  tagKey :: (appendVarint (BitVec.ofNat 64 k.length) ++ (k ++
    (tagValue :: (appendVarint (BitVec.ofNat 64 v.length) ++ v))))

theorem entryBody_length (k v : Bytes) : (entryBody k v).length =
    (1 + (appendVarint (BitVec.ofNat 64 k.length)).length + k.length) +
    (1 + (appendVarint (BitVec.ofNat 64 v.length)).length + v.length) := by
  simp [entryBody]; omega

theorem varintSize_eq (x : U64) : varintSize x = BitVec.ofNat 64 (appendVarint x).length := by
  apply BitVec.eq_of_toNat_eq
  rw [varintSize_toNat, BitVec.toNat_ofNat, Nat.mod_eq_of_lt]
  have := appendVarint_length_le x; omega

theorem encodedStringSize_eq (x : Bytes) : encodedStringSize x =
    BitVec.ofNat 64 (1 + (appendVarint (BitVec.ofNat 64 x.length)).length + x.length) := by
  unfold encodedStringSize
  rw [varintSize_eq, BitVec.ofNat_add, BitVec.ofNat_add]

/-- the length prefix `appendEntry` computes is the length of what follows (mod 2^64) -/
theorem entry_size_eq (k v : Bytes) :
    encodedStringSize k + encodedStringSize v = BitVec.ofNat 64 (entryBody k v).length := by
  rw [encodedStringSize_eq, encodedStringSize_eq, entryBody_length, ← BitVec.ofNat_add]

theorem appendEntry_eq (k v : Bytes) :
    appendEntry k v = tagKey :: (appendVarint (BitVec.ofNat 64 (entryBody k v).length) ++ entryBody k v) := by
  unfold appendEntry
  rw [entry_size_eq]; rfl

theorem appendEntry_ne_nil (k v : Bytes) : appendEntry k v ≠ [] := by
  rw [appendEntry_eq]; simp

/-- an entry fits when its body is shorter than 2^64 bytes -/
theorem entryBody_lt {k v : Bytes} (h : k.length + v.length + 22 < 2 ^ 64) : (entryBody k v).length < 2 ^ 64 := by
  rw [entryBody_length]
  have := appendVarint_length_le (BitVec.ofNat 64 k.length)
  have := appendVarint_length_le (BitVec.ofNat 64 v.length)
  omega

theorem readKeyValue_entryBody (k v : Bytes) (hk : k.length < 2 ^ 64) (hv : v.length < 2 ^ 64) :
    readKeyValue (entryBody k v) = .ok k v := by
  unfold readKeyValue entryBody
  rw [readField_append tagKey k _ hk]
  simp only
  have e : tagValue :: (appendVarint (BitVec.ofNat 64 v.length) ++ v)
      = tagValue :: (appendVarint (BitVec.ofNat 64 v.length) ++ (v ++ [])) := by simp
  rw [e, readField_append tagValue v [] hv]
  simp

theorem readEntry_appendEntry (k v rest : Bytes) (h : k.length + v.length + 22 < 2 ^ 64) :
    readEntry (appendEntry k v ++ rest) = .ok rest k v := by
  rw [appendEntry_eq]
  simp only [List.cons_append, List.append_assoc]
  unfold readEntry
  rw [readField_append tagKey _ rest (entryBody_lt h)]
  simp only
  rw [readKeyValue_entryBody k v (by omega) (by omega)]

/-! ### unfolding `decode` -/

theorem decode_nil : decode [] = .ok [] := by rw [decode]; simp

theorem decode_ok {buf rem k v : Bytes} (h : readEntry buf = .ok rem k v) :
    decode buf = match decode rem with | .ok m => .ok ((k, v) :: m) | e => e := by
  have hlen := readEntry_ok_length h
  rw [decode]
  split
  · split
    · simp_all
    · simp_all
    · simp_all
    · rename_i rem' k' v' h'
      rw [h] at h'
      cases h'
      rfl
  · omega

theorem decode_bad {buf : Bytes} (hb : buf ≠ []) (h : readEntry buf = .bad) : decode buf = .invalid := by
  have : buf.length > 0 := List.length_pos_iff.mpr hb
  rw [decode]; split
  · split <;> simp_all
  · omega

theorem decode_err {buf : Bytes} (hb : buf ≠ []) (h : readEntry buf = .err) : decode buf = .tooLong := by
  have : buf.length > 0 := List.length_pos_iff.mpr hb
  rw [decode]; split
  · split <;> simp_all
  · omega

theorem decode_panic {buf : Bytes} (hb : buf ≠ []) (h : readEntry buf = .panic) : decode buf = .panic := by
  have : buf.length > 0 := List.length_pos_iff.mpr hb
  rw [decode]; split
  · split <;> simp_all
  · omega

/-! ### round trip -/

/-- every entry of `m` has a body shorter than 2^64 bytes (always true of Go strings in memory) -/
def Fits (m : Pairs) : Prop := ∀ kv ∈ m, kv.1.length + kv.2.length + 22 < 2 ^ 64

/-- what `Decode` does after a valid prefix: the writes of the prefix come first -/
def DR.prepend (m : Pairs) : DR → DR
  | .ok m' => .ok (m ++ m')
  | e => e

theorem decode_encode_append (m : Pairs) (rest : Bytes) (h : Fits m) :
    decode (encode m ++ rest) = (decode rest).prepend m := by
  induction m with
  | nil => simp only [encode, List.nil_append]; cases decode rest <;> rfl
  | cons kv m ih =>
    obtain ⟨k, v⟩ := kv
    have hkv := h (k, v) (by simp)
    have hm : Fits m := fun x hx => h x (by simp [hx])
    simp only [encode, List.append_assoc]
    rw [decode_ok (readEntry_appendEntry k v _ hkv), ih hm]
    cases decode rest <;> rfl

/-! ### totality -/

theorem readField_no_panic (tag : Byte) (buf : Bytes) : readField tag buf ≠ .panic := by
  unfold readField
  split
  · simp
  · cases buf with
    | nil => simp at *
    | cons t r =>
      simp only
      split
      · simp
      · cases readVarint r with
        | short => simp
        | tooLong => simp
        | ok rem len =>
          simp only
          split
          · simp
          · simp

theorem readKeyValue_no_panic (buf : Bytes) : readKeyValue buf ≠ .panic := by
  unfold readKeyValue
  cases h1 : readField tagKey buf with
  | bad => simp
  | err => simp
  | panic => exact absurd h1 (readField_no_panic _ _)
  | ok key b =>
    simp only
    cases h2 : readField tagValue b with
    | bad => simp
    | err => simp
    | panic => exact absurd h2 (readField_no_panic _ _)
    | ok value b' => simp only; split <;> simp

theorem readEntry_no_panic (buf : Bytes) : readEntry buf ≠ .panic := by
  unfold readEntry
  cases h1 : readField tagKey buf with
  | bad => simp
  | err => simp
  | panic => exact absurd h1 (readField_no_panic _ _)
  | ok e r =>
    simp only
    cases h2 : readKeyValue e with
    | bad => simp
    | err => simp
    | panic => exact absurd h2 (readKeyValue_no_panic _)
    | ok k v => simp

theorem decode_no_panic : ∀ (n : Nat) (buf : Bytes), buf.length ≤ n → decode buf ≠ .panic := by
  intro n
  induction n with
  | zero =>
    intro buf h
    have : buf = [] := List.eq_nil_of_length_eq_zero (by omega)
    subst this; rw [decode_nil]; simp
  | succ n ih =>
    intro buf h
    rcases List.eq_nil_or_concat buf with hb | ⟨_, _, hb'⟩
    · subst hb; rw [decode_nil]; simp
    · have hb : buf ≠ [] := by rw [hb']; simp
      cases he : readEntry buf with
      | bad => rw [decode_bad hb he]; simp
      | err => rw [decode_err hb he]; simp
      | panic => exact absurd he (readEntry_no_panic _)
      | ok rem k v =>
        have hl := readEntry_ok_length he
        rw [decode_ok he]
        have := ih rem (by omega)
        cases hd : decode rem with
        | ok m => simp
        | invalid => simp
        | tooLong => simp
        | panic => exact absurd hd this


/-! ### agreement with the protobuf spec encoder -/

theorem proto_varint_small {n : Nat} (h : n < 128) : Proto.varint n = [BitVec.ofNat 8 n] := by
  rw [Proto.varint]; simp [h]

theorem entryBody_eq_proto (k v : Bytes) (hk : k.length < 2 ^ 64) (hv : v.length < 2 ^ 64) :
    entryBody k v = Proto.mapEntry k v := by
  unfold entryBody Proto.mapEntry Proto.lenDelim Proto.tag Proto.wtLen
  rw [appendVarint_ofNat_eq_proto hk, appendVarint_ofNat_eq_proto hv,
    proto_varint_small (by decide : 1 * 8 + 2 < 128), proto_varint_small (by decide : 2 * 8 + 2 < 128)]
  simp [tagKey, tagValue]

theorem appendEntry_eq_proto (k v : Bytes) (h : k.length + v.length + 22 < 2 ^ 64) :
    appendEntry k v = Proto.lenDelim 1 (Proto.mapEntry k v) := by
  rw [appendEntry_eq, appendVarint_ofNat_eq_proto (entryBody_lt h), entryBody_eq_proto k v (by omega) (by omega)]
  unfold Proto.lenDelim Proto.tag Proto.wtLen
  rw [proto_varint_small (by decide : 1 * 8 + 2 < 128)]
  simp [tagKey]

theorem encode_eq_proto (m : Pairs) (h : Fits m) : encode m = Proto.encodeMap m := by
  unfold Proto.encodeMap
  induction m with
  | nil => rfl
  | cons kv m ih =>
    obtain ⟨k, v⟩ := kv
    have hkv := h (k, v) (by simp)
    have hm : Fits m := fun x hx => h x (by simp [hx])
    simp only [encode, Proto.encodeMapField]
    rw [appendEntry_eq_proto k v hkv, ih hm]

/-! ### empty map, empty bytes -/

theorem encode_eq_nil_iff (m : Pairs) : encode m = [] ↔ m = [] := by
  cases m with
  | nil => simp [encode]
  | cons kv m =>
    obtain ⟨k, v⟩ := kv
    simp only [encode, List.append_eq_nil_iff, reduceCtorEq, iff_false, not_and]
    intro h; exact absurd h (appendEntry_ne_nil k v)

theorem decode_ok_nil_iff (b : Bytes) : decode b = .ok [] ↔ b = [] := by
  constructor
  · intro h
    rcases List.eq_nil_or_concat b with hb | ⟨_, _, hb'⟩
    · exact hb
    · have hb : b ≠ [] := by rw [hb']; simp
      cases he : readEntry b with
      | bad => rw [decode_bad hb he] at h; cases h
      | err => rw [decode_err hb he] at h; cases h
      | panic => rw [decode_panic hb he] at h; cases h
      | ok rem k v =>
        rw [decode_ok he] at h
        cases hd : decode rem <;> simp [hd] at h
  · intro h; subst h; exact decode_nil

/-! ### the map observed through `get` -/

theorem get_nil (k : Bytes) : Pairs.get [] k = none := rfl

theorem get_concat (m : Pairs) (k v k' : Bytes) :
    Pairs.get (m ++ [(k, v)]) k' = if k = k' then some v else Pairs.get m k' := by
  simp [Pairs.get, List.foldl_append]

theorem get_foldl_acc (m : Pairs) (k : Bytes) (acc : Option Bytes) :
    m.foldl (fun acc kv => if kv.1 = k then some kv.2 else acc) acc =
      match Pairs.get m k with | some v => some v | none => acc := by
  induction m generalizing acc with
  | nil => rfl
  | cons kv m ih =>
    simp only [Pairs.get, List.foldl_cons]
    rw [ih, ih (if kv.1 = k then some kv.2 else none)]
    cases Pairs.get m k with
    | some v => rfl
    | none => simp only []; split <;> rfl

theorem get_append (m m' : Pairs) (k : Bytes) :
    Pairs.get (m ++ m') k = match Pairs.get m' k with | some v => some v | none => Pairs.get m k := by
  unfold Pairs.get
  rw [List.foldl_append]
  exact get_foldl_acc m' k _

/-! ### wrong first tag -/

theorem readEntry_wrong_tag (t : Byte) (rest : Bytes) (h : t ≠ tagKey) : readEntry (t :: rest) = .bad := by
  simp [readEntry, readField, h]

/-! ### NewServerStream's loop -/

/-- the last metadata packet of a packet sequence -/
def lastMeta : List Pkt → Option Pkt
  | [] => none
  | p :: ps =>
    match lastMeta ps with
    | some q => some q
    | none => if p.kind = kindInvokeMetadata then some p else none

/-- the writes `Decode` produced (nothing for undecodable data) -/
def decoded (b : Bytes) : Pairs := match decode b with | .ok m => m | _ => []

/-- no invoke among the packets and every metadata packet decodes -/
def Quiet (pre : List Pkt) : Prop :=
  ∀ p ∈ pre, p.kind ≠ kindInvoke ∧ (p.kind = kindInvokeMetadata → ∃ m, decode p.data = .ok m)

theorem quiet_cons {p : Pkt} {ps : List Pkt} (h : Quiet (p :: ps)) :
    (p.kind ≠ kindInvoke ∧ (p.kind = kindInvokeMetadata → ∃ m, decode p.data = .ok m)) ∧ Quiet ps :=
  ⟨h p (by simp), fun q hq => h q (by simp [hq])⟩

theorem serverLoop_quiet (base : Option Pairs) (pre : List Pkt) (inv : Pkt) (rest : List Pkt)
    (hinv : inv.kind = kindInvoke) :
    ∀ (mt : Pairs) (metaID : U64), Quiet pre →
    serverLoop base mt metaID (pre ++ inv :: rest) =
      .stream inv.sid inv.data
        (match lastMeta pre with
         | some p => if p.sid = inv.sid then addPairs base (decoded p.data) else base
         | none => if metaID = inv.sid then addPairs base mt else base) rest := by
  induction pre with
  | nil =>
    intro mt metaID _
    have hne : ¬ kindInvoke = kindInvokeMetadata := by decide
    simp [serverLoop, hinv, hne, lastMeta]
  | cons p ps ih =>
    intro mt metaID hq
    obtain ⟨⟨hni, hdec⟩, hps⟩ := quiet_cons hq
    simp only [List.cons_append, serverLoop]
    by_cases hm : p.kind = kindInvokeMetadata
    · obtain ⟨m, hm'⟩ := hdec hm
      simp only [hm, ↓reduceIte, hm']
      rw [ih m p.sid hps]
      simp only [lastMeta, hm, ↓reduceIte]
      cases lastMeta ps with
      | some q => rfl
      | none => simp [decoded, hm']
    · simp only [hm, ↓reduceIte, hni]
      rw [ih mt metaID hps]
      simp only [lastMeta, hm, ↓reduceIte]
      cases lastMeta ps <;> rfl

theorem serverLoop_quiet_skip (base : Option Pairs) (pre l : List Pkt) :
    ∀ (mt : Pairs) (metaID : U64), Quiet pre →
    ∃ mt' metaID', serverLoop base mt metaID (pre ++ l) = serverLoop base mt' metaID' l := by
  induction pre with
  | nil => intro mt metaID _; exact ⟨mt, metaID, rfl⟩
  | cons p ps ih =>
    intro mt metaID hq
    obtain ⟨⟨hni, hdec⟩, hps⟩ := quiet_cons hq
    simp only [List.cons_append, serverLoop]
    by_cases hm : p.kind = kindInvokeMetadata
    · obtain ⟨m, hm'⟩ := hdec hm
      simp only [hm, ↓reduceIte, hm']
      exact ih m p.sid hps
    · simp only [hm, ↓reduceIte, hni]
      exact ih mt metaID hps

theorem lastMeta_mem {pre : List Pkt} {p : Pkt} (h : lastMeta pre = some p) :
    p ∈ pre ∧ p.kind = kindInvokeMetadata := by
  induction pre with
  | nil => simp [lastMeta] at h
  | cons q qs ih =>
    simp only [lastMeta] at h
    cases hl : lastMeta qs with
    | some r =>
      simp only [hl] at h; cases h
      have := ih hl
      exact ⟨by simp [this.1], this.2⟩
    | none =>
      simp only [hl] at h
      split at h
      · cases h; rename_i hk; exact ⟨by simp, hk⟩
      · cases h

theorem lastMeta_append_meta (pre : List Pkt) (p : Pkt) (h : p.kind = kindInvokeMetadata) :
    lastMeta (pre ++ [p]) = some p := by
  induction pre with
  | nil => simp [lastMeta, h]
  | cons q qs ih => simp [lastMeta, ih]

theorem serve_cons {pkts : List Pkt} {sid rpc md rest}
    (h : newServerStream none pkts = .stream sid rpc md rest) :
    serve pkts = .served sid rpc md :: serve rest := by
  rw [serve]
  split
  · rename_i sid' rpc' md' rest' h'
    rw [h] at h'; cases h'; rfl
  all_goals simp_all

/-- monotone ids: the last metadata packet has the invoke's id iff some metadata packet has -/
def lastMetaFor (sid : U64) (pre : List Pkt) : Option Pkt := lastMeta (pre.filter (fun p => p.sid = sid))


theorem lastMeta_append (a b : List Pkt) :
    lastMeta (a ++ b) = match lastMeta b with | some r => some r | none => lastMeta a := by
  induction a with
  | nil => simp only [List.nil_append, lastMeta]; cases lastMeta b <;> rfl
  | cons q qs ih =>
    simp only [List.cons_append, lastMeta, ih]
    cases lastMeta b with
    | some r => rfl
    | none => rfl

/-- stream ids never decrease along the sequence (what drpcwire.Reader enforces) -/
def Mono (l : List Pkt) : Prop := List.Pairwise (fun a b => a.sid.toNat ≤ b.sid.toNat) l

theorem mono_split (pre : List Pkt) (inv : Pkt) (h : Mono (pre ++ [inv])) :
    ∃ A B, pre = A ++ B ∧ (∀ a ∈ A, a.sid ≠ inv.sid) ∧ (∀ b ∈ B, b.sid = inv.sid) := by
  induction pre with
  | nil => exact ⟨[], [], rfl, by simp, by simp⟩
  | cons q qs ih =>
    simp only [Mono, List.cons_append, List.pairwise_cons] at h
    obtain ⟨hq, hqs⟩ := h
    by_cases hs : q.sid = inv.sid
    · refine ⟨[], q :: qs, rfl, by simp, ?_⟩
      intro b hb
      rcases List.mem_cons.mp hb with rfl | hb
      · exact hs
      · have h1 := hq b (by simp [hb])
        have h2 : b.sid.toNat ≤ inv.sid.toNat := by
          have := List.pairwise_append.mp hqs
          exact this.2.2 b hb inv (by simp)
        apply BitVec.eq_of_toNat_eq
        rw [hs] at h1; omega
    · obtain ⟨A, B, e, hA, hB⟩ := ih hqs
      refine ⟨q :: A, B, by simp [e], ?_, hB⟩
      intro a ha
      rcases List.mem_cons.mp ha with rfl | ha
      · exact hs
      · exact hA a ha

theorem lastMetaFor_mono (pre : List Pkt) (inv : Pkt) (h : Mono (pre ++ [inv]))
    {α : Type} (F : Pkt → α) (z : α) :
    (match lastMeta pre with | some p => if p.sid = inv.sid then F p else z | none => z) =
    (match lastMetaFor inv.sid pre with | some p => F p | none => z) := by
  obtain ⟨A, B, e, hA, hB⟩ := mono_split pre inv h
  subst e
  have hfA : A.filter (fun p => p.sid = inv.sid) = [] := by
    rw [List.filter_eq_nil_iff]; intro a ha; simpa using hA a ha
  have hfB : B.filter (fun p => p.sid = inv.sid) = B := by
    rw [List.filter_eq_self]; intro b hb; simpa using hB b hb
  unfold lastMetaFor
  rw [List.filter_append, hfA, hfB, List.nil_append, lastMeta_append]
  cases hb : lastMeta B with
  | some r =>
    have := hB r (lastMeta_mem hb).1
    simp [this]
  | none =>
    simp only []
    cases ha : lastMeta A with
    | some r =>
      have := hA r (lastMeta_mem ha).1
      simp [this]
    | none => rfl

end Drpc.Metadata
