import Drpc.Lemmas.ManagerSysSimN
import Drpc.Lemmas.ManagerSysSimT
/-
  Refinement: every execution of the manager model (`ReachP`) reports a trace the protocol checker
  accepts, and uses every stream id once (`sim_reachP`).
-/
set_option linter.unusedSimpArgs false
set_option linter.unusedVariables false
namespace Drpc.Manager.Sys
open Drpc.Manager

/-- the event a thread is about to report is acceptable to the checker -/
theorem guard_ok {role : Call} {s : St} {ps : PS} (hs : Safe s) (hi : SimF role s ps) (t : Tid) :
    ∃ ps', psNext ps (s.pc t) = some ps' := by
  have hf := hi.ss.hf t
  cases hp : s.pc t
  all_goals rw [hp] at hf
  all_goals first
    | exact ⟨ps, rfl⟩
    | skip
  case rDisp p c =>
    have hr1 := hi.sr.r1 t p c hp
    by_cases h1 : c ≠ 0 ∧ p.sid = c
    · rw [psNext, pcEv_deliver h1.1 h1.2]
      simp only [allowed]
      rw [if_pos ⟨by rw [h1.2]; exact hr1.1, by rw [h1.2]; exact h1.1⟩]
      exact ⟨_, rfl⟩
    · by_cases h2 : c ≠ 0 ∧ p.sid < c
      · rw [psNext, pcEv_drop h2.1 h2.2]
        simp only [allowed]
        rw [if_pos ⟨c, hr1.1, h2.2⟩]
        exact ⟨_, rfl⟩
      · rw [psNext, pcEv_newer (by somega)]
        exact ⟨_, rfl⟩
  case rEvQueue p | rEvOrphan p | rEvWait p c =>
    obtain ⟨c', h1, h2, -⟩ := hi.sr.r2 t p (by rw [hp]; rfl)
    simp only [psNext, pcEv, allowed]
    rw [if_pos ⟨c', h1, h2⟩]
    exact ⟨_, rfl⟩
  case tEvTerm k =>
    have := hi.st.tfTerm t k hp
    simp only [psNext, pcEv, allowed, this]
    exact ⟨_, rfl⟩
  case tEvClose k =>
    have := hi.st.tfClose t k hp
    simp only [psNext, pcEv, allowed]
    rw [if_pos this]
    exact ⟨_, rfl⟩
  case mEvSfin sid rel =>
    have := hi.sm.mf t sid (by rw [hp]; rfl)
    simp only [psNext, pcEv, allowed]
    rw [if_pos this]
    exact ⟨_, rfl⟩
  case mEvRel | aFailEvRel | sFailEvRel =>
    have h := hf rfl
    simp only [psNext, pcEv, allowed]
    rw [if_pos ⟨h.1, h.2.1, h.2.2⟩]
    exact ⟨_, rfl⟩
  case aEvAcq c =>
    have h := hf rfl
    simp only [psNext, pcEv, allowed, h.1]
    exact ⟨_, rfl⟩
  case aEvPrevNone c =>
    have h := hf rfl
    simp only [psNext, pcEv, allowed]
    rw [if_pos ⟨h.1, h.2.2.2, h.2.1.1⟩]
    exact ⟨_, rfl⟩
  case aEvPrevDone c p =>
    have h := hf rfl
    simp only [psNext, pcEv, allowed]
    rw [if_pos ⟨h.1, h.2.2.2.1, h.2.2.2.2, h.2.1.1⟩]
    exact ⟨_, rfl⟩
  case nEvBegin c sid =>
    have h := hf rfl
    simp only [psNext, pcEv, allowed]
    rw [if_pos ⟨h.1, h.2.1, h.2.2.1, h.2.2.2.2.1⟩]
    exact ⟨_, rfl⟩
  case nEvEnd c sid =>
    have h := hf rfl
    simp only [psNext, pcEv, allowed]
    rw [if_pos h.2.1]
    exact ⟨_, rfl⟩
  case nEvOffer c sid =>
    have h := hf rfl
    simp only [psNext, pcEv, allowed]
    rw [if_pos ⟨h.1, h.2.1, h.2.2.1, h.2.2.2.1, h.2.2.2.2⟩]
    exact ⟨_, rfl⟩
  case nEvRetract c sid =>
    have h := hf rfl
    simp only [psNext, pcEv, allowed]
    rw [if_pos ⟨h.1, h.2.1, h.2.2.1, h.2.2.2.1, h.2.2.2.2.1, h.2.2.2.2.2⟩]
    exact ⟨_, rfl⟩

/-- no stream id is used twice -/
theorem fresh_of_sim {role : Call} {s : St} {ps : PS} (hs : Safe s) (hi : SimF role s ps) (t : Tid) :
    FreshStep s t := by
  intro c sid hp
  have hf := hi.ss.hf t (by rw [hp]; rfl)
  rw [hp] at hf
  cases hm : (s.sh.strm sid).made with
  | false => rfl
  | true =>
    exfalso
    rcases hi.sn.g6 sid hm with h | ⟨u, c', hu⟩
    · have : ps.newest = ps.curr := by simp [PS.newest, hf.2.2.1]
      rw [this] at h
      have h2 := hf.2.2.2.2.1
      exact absurd (Nat.lt_of_lt_of_le h2 h) (Nat.lt_irrefl _)
    · have h1 : holds s.sh (s.pc u) = true := by rw [hu]; rfl
      have h2 : holds s.sh (s.pc t) = true := by rw [hp]; rfl
      have := hs.sem.uniq u t h1 h2
      subst this
      rw [hp] at hu; cases hu

theorem init_pc (soft : Bool) (t : Tid) :
    (({ sh := { soft := soft } } : St).pc t) = .rTop ∨ (({ sh := { soft := soft } } : St).pc t) = .mTop ∨
    (({ sh := { soft := soft } } : St).pc t) = .idle := by
  show (if t = 0 then PC.rTop else if t = 1 then .mTop else .idle) = .rTop ∨ _ = PC.mTop ∨ _ = PC.idle
  by_cases h0 : t = 0
  · simp [h0]
  · by_cases h1 : t = 1
    · simp [h1]
    · simp [h0, h1]

theorem sim_init (soft : Bool) (role : Call) : SimF role { sh := { soft := soft } } {} := by
  have hp := init_pc soft
  refine ⟨⟨?_, ?_, ?_⟩, ⟨?_, ?_⟩, ⟨?_, ?_, ?_⟩, ⟨?_, ?_, ?_, ?_, ?_, ?_, ?_⟩, ⟨?_, ?_, ?_, ?_, ?_⟩⟩
  · intro t h; rcases hp t with h' | h' | h' <;> rw [h'] at h <;> cases h
  · intro h; cases h
  · intro _; exact ⟨rfl, Or.inl rfl⟩
  · intro t sid h; rcases hp t with h' | h' | h' <;> rw [h'] at h <;> cases h
  · intro t u sid h; rcases hp t with h' | h' | h' <;> rw [h'] at h <;> cases h
  · intro t k h; rcases hp t with h' | h' | h' <;> rw [h'] at h <;> cases h
  · intro t k h; rcases hp t with h' | h' | h' <;> rw [h'] at h <;> cases h
  · intro h; cases h
  · intro t p h; rcases hp t with h' | h' | h' <;> rw [h'] at h <;> cases h
  · intro t p c h; rcases hp t with h' | h' | h' <;> rw [h'] at h <;> cases h
  · intro t p h; rcases hp t with h' | h' | h' <;> rw [h'] at h <;> cases h
  · left; simp
  · left; simp [PS.currs]
  · simp [PS.newest]
  · intro h; exact absurd rfl h
  · intro t c h; rcases hp t with h' | h' | h' <;> rw [h'] at h <;> cases h
  · intro _; simp [PS.newest]
  · intro _ p h; rcases h with h | ⟨t, h⟩
    · cases h
    · rcases hp t with h' | h' | h' <;> rw [h'] at h <;> cases h
  · intro t p h; rcases hp t with h' | h' | h' <;> rw [h'] at h <;> cases h
  · intro x h; cases h

theorem etr_trace {s : St} {t : Tid} {sh' : Sh} {p' : PC} (h : ETr s t sh' p') : sh'.trace = s.sh.trace := by
  cases h <;> rfl

theorem simF_etr {role : Call} {s : St} {t : Tid} {sh' : Sh} {p' : PC} {ps : PS} (hs : Safe s) (hi : SimF role s ps)
    (h : ETr s t sh' p') (hc : ∀ c, p' = .aStart c → c = role)
    (he : ∀ q, p' = .rGot q → q.sid ≠ 0 ∧ (q.kind = .invoke → s.sh.invoked < q.sid)) :
    SimF role (s.upd t sh' p') ps :=
  ⟨simS_etr hi.ss h, simM_etr hi.sm h, simT_etr hi.st h, simR_etr hs hi.sr h (fun q hq => (he q hq).1),
   simN_etr hi.sn h hc (fun q hq => (he q hq).2)⟩

theorem sim_env {role : Call} {s s' : St} {e : Env} {ps : PS} (hs : Safe s) (hi : SimF role s ps)
    (h : envStep s e = some s') (hp : EnvP role s e) : SimF role s' ps ∧ s'.sh.trace = s.sh.trace := by
  have hrd : ∀ q, s.pc readerTid = .rGot q → q.sid ≠ 0 ∧ (q.kind = .invoke → s.sh.invoked < q.sid) := by
    intro q hq
    exact ⟨hi.sr.r0 readerTid q (by rw [hq]; rfl), hi.sn.n4 readerTid q (by rw [hq]; rfl)⟩
  have hst : ∀ c, s.pc readerTid = .aStart c → c = role := by
    intro c hc
    exact hi.sn.callRole readerTid c (by rw [hc]; rfl)
  cases e with
  | spawn t c =>
    simp only [envStep] at h
    split at h
    · cases h
      rename_i hg
      simp only [EnvP] at hp
      cases c
      · exact ⟨simF_etr hs hi (.spawnCall hg.1 hg.2 (by simp)) (by intro c h; cases h; simpa using hp) (by intro q h; cases h), rfl⟩
      · exact ⟨simF_etr hs hi (.spawnCall hg.1 hg.2 (by simp)) (by intro c h; cases h; simpa using hp) (by intro q h; cases h), rfl⟩
      · exact ⟨simF_etr hs hi (.spawnClose hg.1 hg.2) (by intro c h; cases h) (by intro q h; cases h), rfl⟩
    · cases h
  | ctxCancel t =>
    simp only [envStep] at h
    cases h
    rw [setSh_eq_upd _ _ readerTid]
    exact ⟨simF_etr hs hi (.ctxCancel t) hst hrd, rfl⟩
  | arrive p =>
    simp only [envStep] at h
    split at h
    · cases h
      exact ⟨simF_etr hs hi (.arrive p (by assumption)) (by intro c h; cases h) (by intro q h; cases h; exact hp), rfl⟩
    · cases h
  | readErr =>
    simp only [envStep] at h
    split at h
    · cases h
      exact ⟨simF_etr hs hi (.readErr (by assumption)) (by intro c h; cases h) (by intro q h; cases h), rfl⟩
    · cases h
  | appTerm sid =>
    simp only [envStep] at h
    split at h
    · cases h
      rw [setSh_eq_upd _ _ readerTid]
      exact ⟨simF_etr hs hi (.appTerm sid (by assumption)) hst hrd, rfl⟩
    · cases h
  | appFin sid =>
    simp only [envStep] at h
    split at h
    · cases h
      rename_i hg
      rw [setSh_eq_upd _ _ readerTid]
      exact ⟨simF_etr hs hi (.appFin sid hg.1 hg.2.1 (by simpa using hg.2.2)) hst hrd, rfl⟩
    · cases h
  | tokSend =>
    simp only [envStep] at h
    split at h
    · cases h
      rename_i hg
      rw [setSh_eq_upd _ _ readerTid]
      exact ⟨simF_etr hs hi (.tokSend hg.1 (by simpa using hg.2)) hst hrd, rfl⟩
    · cases h
  | consume =>
    simp only [envStep] at h
    split at h
    · cases h
      exact ⟨simF_etr hs hi (.consume (by assumption)) (by intro c h; cases h) (by intro q h; cases h), rfl⟩
    · cases h

theorem envF_of_envP {role : Call} {s : St} {e : Env} (h : EnvP role s e) : EnvF e := by
  intro p hp
  subst hp
  exact h.1

/-- the refinement: along every execution the state is related to the checker state its trace leads to,
    and no stream id is used twice -/
theorem sim_reachP {soft : Bool} {role : Call} {s : St} (h : ReachP soft role s) : ReachF soft s ∧ Sim role s := by
  induction h with
  | init => exact ⟨.init, {}, rfl, sim_init soft role⟩
  | @step s0 s1 t ch _ hstep hP ih =>
    obtain ⟨hF, ps, hrun, hi⟩ := ih
    have hs := safe_reachF hF
    obtain ⟨sh', p', htr, rfl⟩ := step_tr hstep
    obtain ⟨ps', hn⟩ := guard_ok hs hi t
    have hfresh := fresh_of_sim hs hi t
    have hF' : ReachF soft (_) := .step t ch hF hstep hfresh
    have hs' := safe_reachF hF'
    have hv := (tinv_of_run hrun).inv
    have hle := tr_le hs.loc rfl hfresh htr
    refine ⟨hF', ps', run_psNext htr hrun hn, ?_⟩
    have hst : ∀ c, s0.pc t = .aSel c → p' = .aEvAcq c → ¬ stale s0 := by
      intro c h1 h2
      exact hP c h1 (by rw [upd_pc_self]; exact h2)
    exact ⟨simS_tr hs hs'.sem hv hi.ss hi.sm hi.sr hi.sn rfl hst htr hn, simM_tr hs hv hi.ss hi.sm rfl htr hn,
      simT_tr hs hv hi.st rfl htr hn, simR_tr hs hv hi.ss hi.sr hle rfl htr hn, simN_tr hs hv hi.ss hi.sn rfl htr hn⟩
  | env e _ hstep hP ih =>
    obtain ⟨hF, ps, hrun, hi⟩ := ih
    have hs := safe_reachF hF
    obtain ⟨hi', htrace⟩ := sim_env hs hi hstep hP
    exact ⟨.env e hF hstep (envF_of_envP hP), ps, by rw [htrace]; exact hrun, hi'⟩

end Drpc.Manager.Sys
