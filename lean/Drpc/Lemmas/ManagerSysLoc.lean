import Drpc.Lemmas.ManagerSysTerm
/-
  Stream records and what the program counters refer to (`Loc s`): the flags of a stream only ever go
  up (made ≤ pub ≤ term ≤ fin), every stream a thread works on is published, the creator of a stream is
  recorded as its owner.  `Le sh sh'`: what never goes back in the shared state.
-/
set_option linter.unusedSimpArgs false
namespace Drpc.Manager.Sys
open Drpc.Manager

def TK.sid? : TK → Option Sid
  | .mgrSoft x | .mgrHard x => some x
  | _ => none

/-- the stream a program counter refers to as existing and published -/
def sidOf : PC → Option Sid
  | .rHandle _ c | .rPut c => some c
  | .xCancel sid _ | .xTok sid _ => some sid
  | .mStream sid | .mRecv sid _ | .mEvSfin sid _ | .mSendCancel sid
  | .mSendCancelTok sid _ | .mSoftAfter sid _ => some sid
  | .tSet k | .tEvTerm k | .tEvClose k | .tClose k | .tTport k | .tSbuf k => k.sid?
  | .nEvEnd _ sid | .nEvOffer _ sid | .nOffer _ sid | .nOffered _ sid | .nEvRetract _ sid => some sid
  | .aPrevChk _ p | .aPrevSel _ p | .aEvPrevDone _ p => some p
  | _ => none

/-- a value loaded from the current-stream pointer (0: nil) -/
def sidOpt : PC → Option Sid
  | .rDisp _ c | .rCancelCurr _ c => some c
  | _ => none

/-- the stream a caller is creating (from `NewWithOptions` on) -/
def nSid : PC → Option Sid
  | .nEvBegin _ sid | .nSet _ sid | .nEvEnd _ sid | .nEvOffer _ sid | .nOffer _ sid | .nOffered _ sid
  | .nEvRetract _ sid => some sid
  | _ => none

def FlagOK (y : SS) : Prop := (y.fin = true → y.term = true) ∧ (y.term = true → y.pub = true) ∧ (y.pub = true → y.made = true)

structure Loc (s : St) : Prop where
  flags : ∀ x, FlagOK (s.sh.strm x)
  pubAt : ∀ t sid, sidOf (s.pc t) = some sid → (s.sh.strm sid).pub = true
  pubOpt : ∀ t c, sidOpt (s.pc t) = some c → c = 0 ∨ (s.sh.strm c).pub = true
  cur : s.sh.sbufCur ≠ 0 → (s.sh.strm s.sh.sbufCur).pub = true
  ch : ∀ sid, s.sh.streamsCh = some sid → (s.sh.strm sid).pub = true
  own : ∀ t sid, nSid (s.pc t) = some sid → (s.sh.strm sid).made = true ∧ (s.sh.strm sid).owner = t
  retr : ∀ t c sid, s.pc t = .nEvRetract c sid → s.sh.term = true

/-- what never goes back -/
structure Le (sh sh' : Sh) : Prop where
  term : sh.term = true → sh'.term = true
  made : ∀ x, (sh.strm x).made = true → (sh'.strm x).made = true ∧ (sh'.strm x).owner = (sh.strm x).owner
  pub : ∀ x, (sh.strm x).pub = true → (sh'.strm x).pub = true
  sterm : ∀ x, (sh.strm x).term = true → (sh'.strm x).term = true
  fin : ∀ x, (sh.strm x).fin = true → (sh'.strm x).fin = true

theorem le_refl_strm {sh sh' : Sh} (ht : sh.term = true → sh'.term = true) (hs : sh'.strm = sh.strm) : Le sh sh' := by
  refine ⟨ht, ?_, ?_, ?_, ?_⟩ <;> intro x <;> rw [hs] <;> simp

/-- changing one record upwards -/
theorem le_setStrm {sh : Sh} {sid : Sid} {y : SS}
    (h1 : (sh.strm sid).made = true → y.made = true ∧ y.owner = (sh.strm sid).owner)
    (h2 : (sh.strm sid).pub = true → y.pub = true) (h3 : (sh.strm sid).term = true → y.term = true)
    (h4 : (sh.strm sid).fin = true → y.fin = true) : Le sh (sh.setStrm sid y) := by
  refine ⟨fun h => h, ?_, ?_, ?_, ?_⟩ <;> intro x <;> rw [setStrm_strm] <;> split
  all_goals first
    | (subst_vars; assumption)
    | simp

theorem le_trans_sh {sh sh' sh'' : Sh} (h : Le sh sh') (ht : sh'.term = true → sh''.term = true)
    (hs : sh''.strm = sh'.strm) : Le sh sh'' := by
  refine ⟨fun x => ht (h.term x), ?_, ?_, ?_, ?_⟩ <;> intro x <;> rw [hs]
  · exact h.made x
  · exact h.pub x
  · exact h.sterm x
  · exact h.fin x

theorem flags_setStrm {sh : Sh} {sid : Sid} {y : SS} (h : ∀ x, FlagOK (sh.strm x)) (hy : FlagOK y) :
    ∀ x, FlagOK ((sh.setStrm sid y).strm x) := by
  intro x
  rw [setStrm_strm]
  split
  · exact hy
  · exact h x

theorem tr_le {s : St} {t : Tid} {p : PC} {sh' : Sh} {p' : PC} (hi : Loc s) (hp : s.pc t = p)
    (hf : FreshStep s t) (h : Tr s t p sh' p') : Le s.sh sh' := by
  cases h
  all_goals
    first
    | exact le_refl_strm (fun h => h) rfl
    | exact le_refl_strm (fun _ => rfl) rfl
    | exact le_setStrm (fun h => ⟨h, rfl⟩) (fun h => h) (fun _ => rfl) (fun h => h)
    | exact le_setStrm (fun h => ⟨h, rfl⟩) (fun h => h) (fun _ => rfl) (fun _ => rfl)
    | exact le_setStrm (fun h => ⟨h, rfl⟩) (fun _ => rfl) (fun h => h) (fun h => h)
    | exact le_trans_sh (le_setStrm (fun h => ⟨h, rfl⟩) (fun _ => rfl) (fun h => h) (fun h => h)) (fun h => h) rfl
    | skip
  case nNew c sid =>
    have hm := hf c sid hp
    have hfl := hi.flags sid
    have hpub : (s.sh.strm sid).pub = false := by
      cases hx : (s.sh.strm sid).pub with
      | false => rfl
      | true => have := hfl.2.2 hx; rw [hm] at this; cases this
    have hterm : (s.sh.strm sid).term = false := by
      cases hx : (s.sh.strm sid).term with
      | false => rfl
      | true => have := hfl.2.1 hx; rw [hpub] at this; cases this
    have hfin : (s.sh.strm sid).fin = false := by
      cases hx : (s.sh.strm sid).fin with
      | false => rfl
      | true => have := hfl.1 hx; rw [hterm] at this; cases this
    exact le_setStrm (by simp [hm]) (by simp [hpub]) (by simp [hterm]) (by simp [hfin])
  case nSetStore c sid _ =>
    exact le_trans_sh (sh' := s.sh.setStrm sid { s.sh.strm sid with pub := true })
      (le_setStrm (fun h => ⟨h, rfl⟩) (fun _ => rfl) (fun h => h) (fun h => h)) (fun h => h) rfl

theorem etr_le {s : St} {t : Tid} {sh' : Sh} {p' : PC} (h : ETr s t sh' p') : Le s.sh sh' := by
  cases h
  all_goals
    first
    | exact le_refl_strm (fun h => h) rfl
    | exact le_setStrm (fun h => ⟨h, rfl⟩) (fun h => h) (fun _ => rfl) (fun h => h)
    | skip
  case appFin sid _ _ _ =>
    exact le_trans_sh (sh' := s.sh.setStrm sid { s.sh.strm sid with fin := true })
      (le_setStrm (fun h => ⟨h, rfl⟩) (fun h => h) (fun h => h) (fun _ => rfl)) (fun h => h) rfl

theorem loc_upd {s : St} {t : Tid} {sh' : Sh} {p' : PC} (hi : Loc s) (hle : Le s.sh sh')
    (hflags : ∀ x, FlagOK (sh'.strm x))
    (hpa : ∀ sid, sidOf p' = some sid → (sh'.strm sid).pub = true)
    (hpo : ∀ c, sidOpt p' = some c → c = 0 ∨ (sh'.strm c).pub = true)
    (hcur : sh'.sbufCur ≠ 0 → (sh'.strm sh'.sbufCur).pub = true)
    (hch : ∀ sid, sh'.streamsCh = some sid → (sh'.strm sid).pub = true)
    (hown : ∀ sid, nSid p' = some sid → (sh'.strm sid).made = true ∧ (sh'.strm sid).owner = t)
    (hretr : ∀ c sid, p' = .nEvRetract c sid → sh'.term = true) : Loc (s.upd t sh' p') := by
  refine ⟨hflags, ?_, ?_, hcur, hch, ?_, ?_⟩
  · intro u sid hs
    rw [upd_pc] at hs
    split at hs
    · exact hpa sid hs
    · exact hle.pub _ (hi.pubAt u sid hs)
  · intro u c hs
    rw [upd_pc] at hs
    split at hs
    · exact hpo c hs
    · exact (hi.pubOpt u c hs).imp id (hle.pub _)
  · intro u sid hs
    rw [upd_pc] at hs
    split at hs
    · subst_vars; exact hown sid hs
    · have := hi.own u sid hs
      have h2 := hle.made _ this.1
      exact ⟨h2.1, h2.2.trans this.2⟩
  · intro u c sid hs
    rw [upd_pc] at hs
    split at hs
    · exact hretr c sid hs
    · exact hle.term (hi.retr u c sid hs)

theorem sidOf_afterTerminate (k : TK) : sidOf (afterTerminate k) = k.sid? := by cases k <;> rfl
theorem sidOpt_afterTerminate (k : TK) : sidOpt (afterTerminate k) = none := by cases k <;> rfl
theorem nSid_afterTerminate (k : TK) : nSid (afterTerminate k) = none := by cases k <;> rfl
theorem sidOpt_afterCancel (r : Bool) (k : CK) : sidOpt (afterCancel r k) = none := by cases k <;> cases r <;> rfl
theorem nSid_afterCancel (r : Bool) (k : CK) : nSid (afterCancel r k) = none := by cases k <;> cases r <;> rfl
theorem sidOf_afterCancel {r : Bool} {k : CK} {sid x : Sid} (hk : k.sidOk sid = true)
    (h : sidOf (afterCancel r k) = some x) : x = sid := by
  cases k <;> cases r <;> simp_all [afterCancel, sidOf, CK.sidOk, TK.sid?]
theorem sidOf_failHolding (c : Call) : sidOf (failHolding c) = none := by cases c <;> rfl
theorem sidOpt_failHolding (c : Call) : sidOpt (failHolding c) = none := by cases c <;> rfl
theorem nSid_failHolding (c : Call) : nSid (failHolding c) = none := by cases c <;> rfl
theorem ne_retract_afterTerminate (k : TK) (c : Call) (sid : Sid) : afterTerminate k ≠ .nEvRetract c sid := by
  cases k <;> simp [afterTerminate]
theorem ne_retract_afterCancel (r : Bool) (k : CK) (c : Call) (sid : Sid) : afterCancel r k ≠ .nEvRetract c sid := by
  cases k <;> cases r <;> simp [afterCancel]
theorem ne_retract_failHolding (c' : Call) (c : Call) (sid : Sid) : failHolding c' ≠ .nEvRetract c sid := by
  cases c' <;> simp [failHolding]

theorem loc_tr {s : St} {t : Tid} {p : PC} {sh' : Sh} {p' : PC} (hi : Loc s) (hty : okAt t p) (hp : s.pc t = p)
    (hf : FreshStep s t) (h : Tr s t p sh' p') : Loc (s.upd t sh' p') := by
  have hle := tr_le hi hp hf h
  have hpa := hi.pubAt t
  have hpo := hi.pubOpt t
  have hown := hi.own t
  rw [hp] at hpa hpo hown
  cases h
  all_goals
    refine loc_upd hi hle ?_ ?_ ?_ ?_ ?_ ?_ ?_
  all_goals
    first
    | exact hi.flags
    | exact hi.cur
    | exact hi.ch
    | (intro h; exact hle.pub _ (hi.cur h))
    | (intro sid h; exact hle.pub _ (hi.ch sid h))
    | (refine flags_setStrm hi.flags ?_; have hfl := hi.flags; have hpb := hpa _ rfl; simp_all [FlagOK]; done)
    | (intro x hx; simp only [sidOpt_afterTerminate, sidOpt_afterCancel, sidOpt_failHolding, reduceCtorEq] at hx; done)
    | (intro x hx; simp only [sidOpt, reduceCtorEq] at hx; done)
    | (intro x hx; simp only [nSid_afterTerminate, nSid_afterCancel, nSid_failHolding, reduceCtorEq] at hx; done)
    | (intro x hx; simp only [nSid, reduceCtorEq] at hx; done)
    | (intro x hx; simp only [sidOf_failHolding, reduceCtorEq] at hx; done)
    | (intro x hx; simp only [sidOf, TK.sid?, reduceCtorEq] at hx; done)
    | (intro c sid hx; simp only [reduceCtorEq] at hx; done)
    | (intro c sid hx; exact absurd hx (ne_retract_afterTerminate _ _ _))
    | (intro c sid hx; exact absurd hx (ne_retract_afterCancel _ _ _ _))
    | (intro c sid hx; exact absurd hx (ne_retract_failHolding _ _ _))
    | (intro x hx; exact hle.pub _ (hpa x hx))
    | (intro x hx; rw [sidOf_afterTerminate] at hx; exact hle.pub _ (hpa x hx))
    | (intro x hx; simp only [sidOf, TK.sid?, Option.some.injEq] at hx; subst hx; exact hle.pub _ (hpa _ rfl))
    | (intro x hx; simp only [nSid, Option.some.injEq] at hx; subst hx
       ; exact ⟨(hle.made _ (hown _ rfl).1).1, (hle.made _ (hown _ rfl).1).2.trans (hown _ rfl).2⟩)
    | (intro x hx; have := sidOf_afterCancel (by simpa [wfPC] using hty.2) hx; subst this; exact hle.pub _ (hpa _ rfl))
    | skip
  case rGot.refine_3 =>
    intro c hc
    simp only [sidOpt, Option.some.injEq] at hc
    subst hc
    by_cases h0 : s.sh.sbufCur = 0
    · exact Or.inl h0
    · exact Or.inr (hi.cur h0)
  case rDeliver.refine_2 =>
    intro x hx
    simp only [sidOf, Option.some.injEq] at hx
    subst hx
    rcases hpo _ rfl with h | h
    · contradiction
    · exact h
  case rNewer.refine_3 =>
    intro c hc
    simp only [sidOpt, Option.some.injEq] at hc
    subst hc
    exact hpo _ rfl
  case rCancelYesW.refine_2 | rCancelYesQ.refine_2 =>
    intro x hx
    simp only [sidOf, Option.some.injEq] at hx
    subst hx
    rcases hpo _ rfl with h | h
    · contradiction
    · exact h
  case mTopTake.refine_2 =>
    intro x hx
    simp only [sidOf, Option.some.injEq] at hx
    subst hx
    exact hi.ch _ (by assumption)
  case aPrevSome.refine_2 =>
    intro x hx
    simp only [sidOf, Option.some.injEq] at hx
    subst hx
    exact hi.cur (by assumption)
  case nNew.refine_1 => exact flags_setStrm hi.flags (by simp [FlagOK])
  case nNew.refine_6 =>
    intro x hx
    simp only [nSid, Option.some.injEq] at hx
    subst hx
    simp
  case nSetClosed.refine_1 | nSetStore.refine_1 =>
    refine flags_setStrm hi.flags ?_
    have hfl := hi.flags
    have hm := (hown _ rfl).1
    simp_all [FlagOK]
  case nSetClosed.refine_2 | nSetStore.refine_2 =>
    intro x hx
    simp only [sidOf, Option.some.injEq] at hx
    subst hx
    simp
  case nSetStore.refine_4 => intro _; simp
  case nOfferRetract.refine_7 | nOfferedRetract.refine_7 => intro _ _ _; assumption

theorem loc_etr {s : St} {t : Tid} {sh' : Sh} {p' : PC} (hi : Loc s) (h : ETr s t sh' p') : Loc (s.upd t sh' p') := by
  have hle := etr_le h
  have hpa := hi.pubAt readerTid
  have hpo := hi.pubOpt readerTid
  have hown := hi.own readerTid
  have hretr := hi.retr readerTid
  cases h
  all_goals
    refine loc_upd hi hle ?_ ?_ ?_ ?_ ?_ ?_ ?_
  all_goals
    first
    | exact hi.flags
    | exact hi.cur
    | exact hi.ch
    | exact hpo
    | exact hown
    | exact hretr
    | exact hpa
    | (intro h; exact hle.pub _ (hi.cur h))
    | (intro sid h; exact hle.pub _ (hi.ch sid h))
    | (intro x hx; simp only [sidOpt, reduceCtorEq] at hx; done)
    | (intro x hx; simp only [nSid, reduceCtorEq] at hx; done)
    | (intro x hx; simp only [sidOf, TK.sid?, reduceCtorEq] at hx; done)
    | (intro c sid hx; simp only [reduceCtorEq] at hx; done)
    | (intro x hx; exact hle.pub _ (hpa x hx))
    | (intro x hx; exact (hpo x hx).imp id (hle.pub _))
    | skip
  case appTerm.refine_1 =>
    refine flags_setStrm hi.flags ?_
    have hfl := hi.flags
    simp_all [FlagOK]
  case appFin.refine_1 =>
    refine flags_setStrm hi.flags ?_
    have hfl := hi.flags
    simp_all [FlagOK]
  case appTerm.refine_6 | appFin.refine_6 =>
    intro x hx
    have := hown x hx
    exact ⟨(hle.made _ this.1).1, (hle.made _ this.1).2.trans this.2⟩

theorem loc_init (soft : Bool) : Loc { sh := { soft := soft } } := by
  have hp : ∀ t, (({ sh := { soft := soft } } : St).pc t) = (if t = 0 then .rTop else if t = 1 then .mTop else .idle) :=
    fun _ => rfl
  refine ⟨?_, ?_, ?_, ?_, ?_, ?_, ?_⟩
  · intro x; simp [FlagOK]
  · intro t sid h; rw [hp] at h; split at h <;> (try split at h) <;> simp [sidOf] at h
  · intro t sid h; rw [hp] at h; split at h <;> (try split at h) <;> simp [sidOpt] at h
  · intro h; exact absurd rfl h
  · intro sid h; cases h
  · intro t sid h; rw [hp] at h; split at h <;> (try split at h) <;> simp [nSid] at h
  · intro t c sid h; rw [hp] at h; split at h <;> (try split at h) <;> cases h

end Drpc.Manager.Sys
