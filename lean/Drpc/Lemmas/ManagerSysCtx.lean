import Drpc.Lemmas.ManagerSysClose
/-
  Cancellation and termination seen from the callers: which waits a cancelled context ends, that the
  hand-over of a new stream to manageStreams never waits for another stream, and that termination leaves
  no call blocked.
-/
set_option linter.unusedSimpArgs false
set_option linter.unusedVariables false
namespace Drpc.Manager.Sys
open Drpc.Manager

/-! ### a cancelled context ends every wait that selects on it -/

theorem enabled_of_ctx {s : St} {t : Tid} (hctx : s.sh.ctx t = true)
    (hp : (∃ c, s.pc t = .aStart c) ∨ (∃ c, s.pc t = .aSel c) ∨ (∃ c p, s.pc t = .aPrevSel c p) ∨ s.pc t = .sSel) :
    Enabled s t := by
  refine ⟨0, ?_⟩
  unfold step
  rcases hp with ⟨c, hp⟩ | ⟨c, hp⟩ | ⟨c, p, hp⟩ | hp <;> rw [hp] <;> simp [stepPC, hctx, pick_cons_zero]

/-- the other positions at which a caller can be blocked do not look at its context -/
theorem blocked_ctx_independent {s : St} {t : Tid} {p : PC} (ctx' : Tid → Bool)
    (hp : (∃ c sid, p = .nOffer c sid) ∨ (∃ c sid, p = .nOffered c sid) ∨ (∃ q, p = .sGot q) ∨ p = .aFailRel ∨
      p = .sFailRel ∨ p = .cWaitStream ∨ p = .cWaitRead ∨ p = .cWaitTport ∨ p = .idle ∨ ∃ b, p = .done b) :
    BlockedAt { s with sh := { s.sh with ctx := ctx' } } t p ↔ BlockedAt s t p := by
  rcases hp with ⟨c, sid, rfl⟩ | ⟨c, sid, rfl⟩ | ⟨q, rfl⟩ | rfl | rfl | rfl | rfl | rfl | rfl | ⟨b, rfl⟩ <;> exact Iff.rfl

/-! ### the hand-over never waits for another stream -/

/-- a program counter of manageStreams at which it does not hold the semaphore -/
theorem mgr_idle_of_not_holds {s : St} (hs : Safe s) (hl : Lx s) (hnorf : ∀ t, relFalse (s.pc t) = false)
    (hh : holds s.sh (s.pc mgrTid) = false) : s.pc mgrTid = .mTop ∨ s.sh.term = true := by
  have hrole := (hs.typ mgrTid).1
  have hn := hnorf mgrTid
  cases hpc : s.pc mgrTid <;> rw [hpc] at hh hrole hn
  all_goals first
    | exact Or.inl rfl
    | (have := hrole _ rfl; simp [tidRole, readerTid, mgrTid] at this; done)
    | (simp [holds] at hh; done)
    | skip
  case done b => exact Or.inr (hl.mdone b hpc).1
  case mExit => exact Or.inr (hl.exitTerm mgrTid (by rw [hpc]; rfl))
  case mRecv m rel => simp [holds] at hh; subst hh; simp [relFalse] at hn
  case mEvSfin m rel => simp [holds] at hh; subst hh; simp [relFalse] at hn
  case xCancel x k | xTok x k =>
    have := hrole _ rfl
    cases k <;> simp_all [holds, CK.hold, CK.role, tidRole, readerTid, mgrTid]
  all_goals
    rename_i k
    have := hrole _ rfl
    cases k <;> simp_all [holds, TK.hold, TK.role, tidRole, readerTid, mgrTid]

theorem handoff_mgr_ready {s : St} (hs : Safe s) (hl : Lx s) (hnorf : ∀ t, relFalse (s.pc t) = false) {t : Tid}
    (ht : holds s.sh (s.pc t) = true) (htm : t ≠ mgrTid) : s.pc mgrTid = .mTop ∨ s.sh.term = true := by
  apply mgr_idle_of_not_holds hs hl hnorf
  cases hx : holds s.sh (s.pc mgrTid) with
  | false => rfl
  | true => exact absurd (hs.sem.uniq t mgrTid ht hx) htm

theorem tid_ne_mgr_of_cl {s : St} (hs : Safe s) {t : Tid} (h : pcRole (s.pc t) = some .cl) : t ≠ mgrTid := by
  have := tid_of_cl hs.typ h
  unfold mgrTid; somega

/-- a caller that has offered its stream: manageStreams is at its select (and can take it) or the manager
    is terminated (and the caller can retract); `.nOffer` is never blocked -/
theorem handoff_ok {s : St} (hs : Safe s) (hl : Lx s) (hnorf : ∀ t, relFalse (s.pc t) = false) {t : Tid} :
    (∀ c sid, s.pc t = .nOffered c sid → s.sh.streamsCh = some sid → s.pc mgrTid = .mTop ∨ s.sh.term = true) ∧
    (∀ c sid, s.pc t = .nOffered c sid → Enabled s mgrTid ∨ Enabled s t) ∧
    (∀ c sid, s.pc t = .nOffer c sid → Enabled s t) := by
  have h1 : ∀ c sid, s.pc t = .nOffered c sid → s.sh.streamsCh = some sid → s.pc mgrTid = .mTop ∨ s.sh.term = true := by
    intro c sid hp hch
    exact handoff_mgr_ready hs hl hnorf (t := t) (by rw [hp]; simp [holds, hch])
      (tid_ne_mgr_of_cl hs (by rw [hp]; rfl))
  refine ⟨h1, ?_, ?_⟩
  · intro c sid hp
    by_cases hch : s.sh.streamsCh = some sid
    · rcases h1 c sid hp hch with hm | hterm
      · left
        refine ⟨0, ?_⟩
        unfold step; rw [hm]; simp [stepPC, hch]
      · right
        refine ⟨0, ?_⟩
        unfold step; rw [hp]; simp [stepPC, hch, hterm]
    · right
      refine ⟨0, ?_⟩
      unfold step; rw [hp]; simp [stepPC, hch]
  · intro c sid hp
    have hnone : s.sh.streamsCh = none := by
      cases hx : s.sh.streamsCh with
      | none => rfl
      | some x =>
        obtain ⟨k, hk⟩ := hs.sem.chOwner x hx t (by rw [hp]; rfl)
        rw [hp] at hk; cases hk
    refine ⟨0, ?_⟩
    unfold step; rw [hp]; simp [stepPC, hnone]

/-! ### termination leaves no call blocked -/

theorem callers_done_of_stuck_term {s : St} (hs : Safe s) (hst : Stuck s) (hterm : s.sh.term = true)
    (hcw : ∀ t, s.pc t ≠ .cWaitStream ∧ s.pc t ≠ .cWaitRead ∧ s.pc t ≠ .cWaitTport) :
    ∀ t, 2 ≤ t → s.pc t = .idle ∨ ∃ b, s.pc t = .done b := by
  intro t ht
  have hb := blocked_of_not_enabled (hst t)
  have hrole := (hs.typ t).1
  have hcl : tidRole t = .cl := by
    unfold tidRole readerTid mgrTid
    rw [if_neg (by somega), if_neg (by somega)]
  rw [hcl] at hrole
  have hc := hcw t
  cases hpc : s.pc t <;> rw [hpc] at hb hrole hc <;> simp only [BlockedAt] at hb
  all_goals first
    | exact hb.elim
    | exact Or.inl rfl
    | exact Or.inr ⟨_, rfl⟩
    | (have := hrole _ rfl; simp at this; done)
    | (rw [hterm] at hb; simp at hb; done)
    | (simp at hc; done)
    | skip
  case xTok x k =>
    have := hrole _ rfl
    cases k <;> simp [CK.role] at this
  case sGot q =>
    have := (hs.pk.got t (by rw [hpc]; rfl)).1
    rw [hb] at this; cases this
  case aFailRel | sFailRel =>
    have := hs.sem.held t (by rw [hpc]; rfl)
    rw [hb] at this; cases this

/-! ### a transport read error -/

/-- the reader after a read error: on its way through `terminate` and out -/
def errPc : PC → Bool
  | .tSet .reader | .tEvTerm .reader | .tEvClose .reader | .tClose .reader | .tTport .reader | .tSbuf .reader
  | .rExit | .done _ => true
  | _ => false

theorem errPc_tr {s : St} {t : Tid} {p : PC} {sh' : Sh} {p' : PC} (h : Tr s t p sh' p') (hp : errPc p = true) :
    errPc p' = true := by
  cases h <;> first | rfl | (simp [errPc] at hp; done) | skip
  all_goals first
    | (rename_i k; cases k <;> simp_all [errPc, afterTerminate]; done)
    | (rename_i k _; cases k <;> simp_all [errPc, afterTerminate]; done)

theorem errPc_step {s s' : St} {t : Tid} {ch : Nat} (h : step s t ch = some s')
    (he : errPc (s.pc readerTid) = true) : errPc (s'.pc readerTid) = true := by
  obtain ⟨sh', p', htr, rfl⟩ := step_tr h
  rw [upd_pc]; split
  · rename_i ht; rw [ht] at he; exact errPc_tr htr he
  · exact he

theorem errPc_env {s s' : St} {e : Env} (h : envStep s e = some s')
    (he : errPc (s.pc readerTid) = true) : errPc (s'.pc readerTid) = true := by
  obtain ⟨t, sh', p', htr, rfl⟩ := env_tr h
  rw [upd_pc]; split
  · rename_i ht
    subst ht
    cases htr
    all_goals first
      | exact he
      | (exfalso; have h2 : 2 ≤ readerTid := by assumption
         exact absurd h2 (by decide))
      | (rename_i hq; rw [hq] at he; cases he; done)
  · exact he

/-- once the reader is past `m.sigs.term.Set` the manager is terminated -/
theorem term_of_errPc {s : St} (hs : Safe s) (hl : Lx s) (he : errPc (s.pc readerTid) = true)
    (hn : s.pc readerTid ≠ .tSet .reader) : s.sh.term = true := by
  cases hp : s.pc readerTid <;> rw [hp] at he hn <;> try (cases he; done)
  case rExit => exact hl.exitTerm readerTid (by rw [hp]; rfl)
  case done b => exact (hl.rdone b hp).1
  case tSet k => cases k <;> first | exact absurd rfl hn | cases he
  all_goals exact tm_term_of_in hs.tm (t := readerTid) (by rw [hp]; rfl)

theorem tSet_reader_step {s s' : St} {ch : Nat} (hp : s.pc readerTid = .tSet .reader) :
    Enabled s readerTid ∧ (step s readerTid ch = some s' → s'.sh.term = true) := by
  refine ⟨⟨0, by unfold step; rw [hp]; simp only [stepPC]; split <;> rfl⟩, ?_⟩
  intro h
  unfold step at h
  rw [hp] at h
  simp only [stepPC] at h
  split at h
  · cases h; assumption
  · cases h; rfl

/-! ### the profiles -/

theorem reachFE_of_reachP_client {soft : Bool} {s : St} (h : ReachP soft .client s) : ReachFE EnvNoServer soft s := by
  induction h with
  | init => exact .init
  | @step s0 s1 t ch hr hs _ ih =>
    obtain ⟨hF, ps, hrun, hsim⟩ := sim_reachP hr
    exact .step t ch ih hs (fresh_of_sim (safe_reachF hF) hsim t)
  | @env s0 s1 e _ hs hp ih =>
    refine .env e ih hs (envF_of_envP hp) ?_
    cases e <;> simp only [EnvNoServer]
    simp only [EnvP] at hp
    rcases hp with rfl | rfl <;> simp

theorem unblocked_client {soft : Bool} {s : St} (h : ReachFE EnvNoServer soft s) (hst : Stuck s) (hq : EnvQuiet s)
    (hterm : s.sh.term = true) :
    (∀ t, 2 ≤ t → s.pc t = .idle ∨ ∃ b, s.pc t = .done b) ∧ (∃ b, s.pc readerTid = .done b) ∧
    (∃ b, s.pc mgrTid = .done b) ∧ s.sh.closes = 1 ∧ s.sh.readDone = true ∧ s.sh.streamDone = true ∧
    s.sh.tportSet = true := by
  obtain ⟨h1, h2, h3, h4, h5, h6, h7⟩ := closed_client h hst hq hterm
  exact ⟨callers_done_of_stuck_term (safe_reachF h.reachF) hst hterm h7, h5, h6, h4, h1, h2, h3⟩

theorem unblocked_serve {soft : Bool} {s : St} (h : ReachServe soft s) (hst : Stuck s) (hq : EnvQuiet s)
    (hterm : s.sh.term = true) :
    (∀ t, 2 ≤ t → s.pc t = .idle ∨ ∃ b, s.pc t = .done b) ∧ (∃ b, s.pc readerTid = .done b) ∧
    (∃ b, s.pc mgrTid = .done b) ∧ s.sh.closes = 1 ∧ s.sh.readDone = true ∧ s.sh.streamDone = true ∧
    s.sh.tportSet = true := by
  obtain ⟨h1, h2, h3, h4, h5, h6, h7⟩ := closed_serve h hst hq hterm
  exact ⟨callers_done_of_stuck_term (safe_reachF (reachFE_of_serve h).reachF) hst hterm h7, h5, h6, h4, h1, h2, h3⟩

end Drpc.Manager.Sys
