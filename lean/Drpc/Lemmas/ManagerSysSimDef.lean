import Drpc.Lemmas.ManagerSysSafe
/-
  Refinement of the protocol checker (`Drpc.Manager.allowed`) by the atomic-step model: definitions.

  * `ReachP soft role s` — the executions for which the refinement holds (see the three side conditions).
  * `pcEv p` — the event a thread at `p` reports with its next step; `tr_trace`.
  * `SimF role s ps` — the simulation relation between a model state and the checker state reached by
    its trace.
-/
set_option linter.unusedSimpArgs false
namespace Drpc.Manager.Sys
open Drpc.Manager

/-! ### the executions considered -/

/-- the current-stream pointer lags behind: some published stream has a larger id (only possible once
    `terminate` has closed the stream buffer, which then ignores `Set`) -/
def stale (s : St) : Prop := ∃ sid, (s.sh.strm sid).pub = true ∧ s.sh.sbufCur < sid

/-- side condition on thread steps: nobody wins the semaphore once the pointer is stale -/
def StepP (s : St) (t : Tid) (s' : St) : Prop :=
  ∀ c, s.pc t = .aSel c → s'.pc t = .aEvAcq c → ¬ stale s

/-- side conditions on the environment: one kind of caller per manager; packets have a non-zero stream
    id (guaranteed by `drpcwire.Reader`); the remote invokes a stream at most once, with increasing ids -/
def EnvP (role : Call) (s : St) : Env → Prop
  | .spawn _ c => c = role ∨ c = .close
  | .arrive p => p.sid ≠ 0 ∧ (p.kind = .invoke → s.sh.invoked < p.sid)
  | _ => True

inductive ReachP (soft : Bool) (role : Call) : St → Prop
  | init : ReachP soft role { sh := { soft := soft } }
  | step {s s' : St} (t : Tid) (ch : Nat) : ReachP soft role s → step s t ch = some s' → StepP s t s' → ReachP soft role s'
  | env {s s' : St} (e : Env) : ReachP soft role s → envStep s e = some s' → EnvP role s e → ReachP soft role s'

theorem ReachP.reach {soft : Bool} {role : Call} {s : St} (h : ReachP soft role s) : Reach soft s := by
  induction h with
  | init => exact .init
  | step t ch _ hs _ ih => exact .step t ch ih hs
  | env e _ hs _ ih => exact .env e ih hs

/-! ### the event a program counter is about to report -/

def pcEv : PC → Option Ev
  | .rDisp p c => if c ≠ 0 ∧ p.sid = c then some (.deliver p.sid) else if c ≠ 0 ∧ p.sid < c then some (.drop p.sid) else none
  | .rEvQueue p => some (.queue p.sid)
  | .rEvOrphan p => some (.orphan p.sid)
  | .rEvWait p _ => some (.wait p.sid)
  | .tEvTerm _ => some .term
  | .tEvClose _ => some .tportClose
  | .mEvSfin sid _ => some (.sfinRecv sid)
  | .mEvRel | .aFailEvRel | .sFailEvRel => some .semRel
  | .aEvAcq _ => some .semAcq
  | .aEvPrevNone _ => some .prevNone
  | .aEvPrevDone _ p => some (.prevDone p)
  | .nEvBegin _ sid => some (.newBegin sid)
  | .nEvEnd _ sid => some (.newEnd sid)
  | .nEvOffer _ sid => some (.newOffer sid)
  | .nEvRetract _ sid => some (.newRetract sid)
  | _ => none

theorem tr_trace {s : St} {t : Tid} {p : PC} {sh' : Sh} {p' : PC} (h : Tr s t p sh' p') :
    sh'.trace = s.sh.trace ++ (pcEv p).toList := by
  cases h
  all_goals first
    | (simp [pcEv]; done)
    | (simp_all [pcEv]; done)
    | skip
  case rDrop h1 h2 => simp only [pcEv]; rw [if_neg (by somega), if_pos ⟨h1, h2⟩]; simp
  case rNewer h1 => simp only [pcEv]; rw [if_neg (by somega), if_neg (by somega)]; simp

theorem pcEv_deliver {p : Pkt} {c : Sid} (h1 : c ≠ 0) (h2 : p.sid = c) : pcEv (.rDisp p c) = some (.deliver p.sid) := by
  simp only [pcEv]; rw [if_pos ⟨h1, h2⟩]
theorem pcEv_drop {p : Pkt} {c : Sid} (h1 : c ≠ 0) (h2 : p.sid < c) : pcEv (.rDisp p c) = some (.drop p.sid) := by
  simp only [pcEv]; rw [if_neg (by somega), if_pos ⟨h1, h2⟩]
theorem pcEv_newer {p : Pkt} {c : Sid} (h1 : c = 0 ∨ c < p.sid) : pcEv (.rDisp p c) = none := by
  simp only [pcEv]; rw [if_neg (by somega), if_neg (by somega)]

/-- the checker state after the step of a thread at `p` -/
def psNext (ps : PS) (p : PC) : Option PS :=
  match pcEv p with
  | none => some ps
  | some e => allowed ps e

theorem run_psNext {s : St} {t : Tid} {p : PC} {sh' : Sh} {p' : PC} {ps ps' : PS} (h : Tr s t p sh' p')
    (hr : run {} s.sh.trace = some ps) (hn : psNext ps p = some ps') : run {} sh'.trace = some ps' := by
  rw [tr_trace h, run_append, hr]
  unfold psNext at hn
  cases he : pcEv p with
  | none => rw [he] at hn; simpa [run] using hn
  | some e => rw [he] at hn; simpa [run_single] using hn

/-- resolve `psNext ps p = some ps'` for a concrete `p`: afterwards `ps'` is explicit -/
macro "ps_cases " hn:ident : tactic => `(tactic| (
  simp only [psNext, pcEv, allowed] at $hn:ident
  first
    | (cases $hn:ident; done)
    | cases $hn:ident
    | (split at $hn:ident <;> first | (cases $hn:ident; done) | cases $hn:ident)))

/-- the same for the reader's dispatch step (`Tr.rDeliver h1 h2`, `Tr.rDrop h1 h2`) -/
macro "ps_cases_deliver " hn:ident h1:ident h2:ident : tactic => `(tactic| (
  rw [psNext, pcEv_deliver $h1 $h2] at $hn:ident
  simp only [allowed] at $hn:ident
  split at $hn:ident <;> first | (cases $hn:ident; done) | cases $hn:ident))
macro "ps_cases_drop " hn:ident h1:ident h2:ident : tactic => `(tactic| (
  rw [psNext, pcEv_drop $h1 $h2] at $hn:ident
  simp only [allowed] at $hn:ident
  split at $hn:ident <;> first | (cases $hn:ident; done) | cases $hn:ident))
macro "ps_cases_newer " hn:ident h1:ident : tactic => `(tactic| (
  rw [psNext, pcEv_newer $h1] at $hn:ident
  cases $hn:ident))

/-! ### the simulation relation -/

/-- the checker is in a state in which the semaphore may be released -/
def QuietP (ps : PS) : Prop := ps.pending = none ∧ (ps.curr = 0 ∨ ps.curr ∈ ps.offered)

/-- what the checker state looks like while the thread at this program counter holds the semaphore
    (only consulted for `holds`) -/
def HF (sh : Sh) (ps : PS) : PC → Prop
  | .aEvAcq _ => ps.sem = false ∧ sh.sbufCur = ps.curr
  | .aPrev _ => ps.sem = true ∧ QuietP ps ∧ sh.sbufCur = ps.curr
  | .aEvPrevNone _ => ps.sem = true ∧ QuietP ps ∧ sh.sbufCur = ps.curr ∧ ps.curr = 0
  | .aPrevChk _ p | .aPrevSel _ p | .aEvPrevDone _ p =>
    ps.sem = true ∧ QuietP ps ∧ sh.sbufCur = ps.curr ∧ p = ps.curr ∧ p ≠ 0
  | .aFailRel | .sFailRel | .mRel => ps.sem = false
  | .aGot _ | .sSel => ps.sem = true ∧ ps.prevOk = true ∧ QuietP ps ∧ sh.sbufCur = ps.curr
  | .sGot p => ps.sem = true ∧ ps.prevOk = true ∧ QuietP ps ∧ sh.sbufCur = ps.curr ∧
      (p.kind = .invoke → ps.curr < p.sid ∧ p.sid ≤ sh.invoked)
  | .nNew c sid | .nEvBegin c sid => ps.sem = true ∧ ps.prevOk = true ∧ ps.pending = none ∧ sh.sbufCur = ps.curr ∧
      ps.curr < sid ∧ (c = .server → sid ≤ sh.invoked)
  | .nSet _ sid => ps.sem = true ∧ ps.pending = some sid ∧ sh.sbufCur = ps.curr ∧ sid ∈ ps.window
  | .nEvEnd _ sid => ps.sem = true ∧ ps.pending = some sid ∧
      (sh.sbufCur = sid ∨ (sh.sbufClosed = true ∧ sh.sbufCur = ps.curr))
  | .nEvOffer _ sid => ps.sem = true ∧ ps.pending = none ∧ ps.curr = sid ∧ sid ∈ ps.created ∧ sid ∉ ps.offered
  | .nOffer _ sid | .nOffered _ sid | .nEvRetract _ sid =>
    ps.sem = true ∧ ps.pending = none ∧ ps.curr = sid ∧ sid ∈ ps.offered ∧ sid ∉ ps.retracted ∧ sid ∉ ps.sfin
  | _ => ps.sem = true ∧ QuietP ps

/-- the stream manageStream is working on, until it reports `sfin.recv` -/
def mgrSid : PC → Option Sid
  | .mStream sid | .mRecv sid _ | .mEvSfin sid _ | .mSendCancel sid
  | .mSendCancelTok sid _ | .mSoftAfter sid _ => some sid
  | .xCancel sid k | .xTok sid k => if k.role = .mg then some sid else none
  | .tSet k | .tEvTerm k | .tEvClose k | .tClose k | .tTport k | .tSbuf k => k.sid?
  | _ => none

/-- the stream a creator has offered (or is about to offer) on `m.streams` -/
def offSid : PC → Option Sid
  | .nOffer _ sid | .nOffered _ sid | .nEvRetract _ sid => some sid
  | _ => none

def CK.pkt? : CK → Option Pkt
  | .rdQueue p | .rdWait p _ => some p
  | _ => none

/-- the packet the reader is dispatching (before it is forwarded) -/
def pktOf : PC → Option Pkt
  | .rGot p | .rDisp p _ | .rCancelCurr p _ | .rEvQueue p | .rOrphan p _ | .rEvOrphan p | .rEvWait p _ | .rWait p _ => some p
  | .xCancel _ k | .xTok _ k => k.pkt?
  | _ => none

/-- … after the reader decided that it belongs to a newer stream, before it reports that -/
def newerOf : PC → Option Pkt
  | .rCancelCurr p _ | .rEvQueue p | .rOrphan p _ | .rEvOrphan p | .rEvWait p _ => some p
  | .xCancel _ k | .xTok _ k => k.pkt?
  | _ => none

/-- about to load the current-stream pointer -/
def loads : PC → Bool
  | .rRead | .rGot _ => true
  | _ => false

/-- the id of the stream a server call is about to create -/
def hsid : PC → Option Sid
  | .sGot q => if q.kind = .invoke then some q.sid else none
  | .nNew _ x | .nEvBegin _ x => some x
  | _ => none

/-- the API a caller's program counter belongs to -/
def callOf : PC → Option Call
  | .aStart c | .aSel c | .aEvAcq c | .aPrev c | .aEvPrevNone c | .aPrevChk c _ | .aPrevSel c _ | .aEvPrevDone c _
  | .aGot c | .nNew c _ | .nEvOffer c _ | .nOffer c _ | .nOffered c _ | .nEvRetract c _ | .nEvBegin c _ | .nSet c _
  | .nEvEnd c _ => some c
  | .sSel | .sGot _ | .sFailEvRel | .sFailRel => some .server
  | _ => none

/-- semaphore -/
structure SimS (s : St) (ps : PS) : Prop where
  hf : ∀ t, holds s.sh (s.pc t) = true → HF s.sh ps (s.pc t)
  h3 : ps.sem = true → s.sh.sem = true
  g3 : ps.sem = false → QuietP ps

/-- manageStream -/
structure SimM (s : St) (ps : PS) : Prop where
  mf : ∀ t sid, mgrSid (s.pc t) = some sid → sid ∈ ps.offered ∧ sid ∉ ps.retracted ∧ sid ∉ ps.sfin
  m3 : ∀ t u sid, mgrSid (s.pc t) = some sid → holds s.sh (s.pc u) = true → offSid (s.pc u) ≠ some sid

/-- terminate -/
structure SimT (s : St) (ps : PS) : Prop where
  tfTerm : ∀ t k, s.pc t = .tEvTerm k → ps.term = false
  tfClose : ∀ t k, s.pc t = .tEvClose k → ps.term = true ∧ ps.closes = 0
  x3 : ps.term = true → s.sh.term = true

/-- reader and the current-stream pointer -/
structure SimR (s : St) (ps : PS) : Prop where
  r0 : ∀ t p, pktOf (s.pc t) = some p → p.sid ≠ 0
  r1 : ∀ t p c, s.pc t = .rDisp p c → c ∈ ps.window ∧ c ≤ s.sh.sbufCur
  r2 : ∀ t p, newerOf (s.pc t) = some p → ∃ c ∈ ps.window, c < p.sid ∧ c ≤ s.sh.sbufCur
  r3 : s.sh.sbufCur ∈ ps.window ∨ (s.sh.sbufClosed = true ∧ ∀ t, loads (s.pc t) = false)
  g4 : s.sh.sbufCur ∈ ps.currs ∨ s.sh.sbufClosed = true
  g5 : s.sh.sbufCur ≤ ps.newest
  g2 : ps.curr ≠ 0 → (s.sh.strm ps.curr).pub = true

/-- stream ids -/
structure SimN (role : Call) (s : St) (ps : PS) : Prop where
  callRole : ∀ t c, callOf (s.pc t) = some c → c = role
  n1 : role = .server → ps.newest ≤ s.sh.invoked
  n3 : role = .server → ∀ p, (s.sh.pkts = some p ∨ ∃ t, s.pc t = .rQueue p) → p.kind = .invoke →
    p.sid = s.sh.invoked ∧ ps.newest < p.sid ∧ ∀ u x, hsid (s.pc u) = some x → x < p.sid
  n4 : ∀ t p, pktOf (s.pc t) = some p → p.kind = .invoke → s.sh.invoked < p.sid
  g6 : ∀ x, (s.sh.strm x).made = true → x ≤ ps.newest ∨ ∃ t c, s.pc t = .nEvBegin c x

structure SimF (role : Call) (s : St) (ps : PS) : Prop where
  ss : SimS s ps
  sm : SimM s ps
  st : SimT s ps
  sr : SimR s ps
  sn : SimN role s ps

/-- the state is related to the checker state its trace leads to -/
def Sim (role : Call) (s : St) : Prop := ∃ ps, run {} s.sh.trace = some ps ∧ SimF role s ps

end Drpc.Manager.Sys
