import Drpc.Lemmas.StreamInvWire
import Drpc.Lemmas.Reader
import Drpc.Lemmas.Roundtrip
/-
  A conforming reader (the reassembly of C09, `drain`) accepts the encoding of every well-formed
  frame stream: link between `WellFormed` (C07) and `assembleStep` (C09).
-/
namespace Drpc.Stream

/-- the bytes of a frame sequence -/
def encodeFrames (fs : List Frame) : Bytes := (fs.map appendFrame).flatten

/-- size of the packet under assembly after frame `f`, given message id and size before -/
def accNext (acc : Option (U64 × Nat)) (f : Frame) : Nat :=
  (match acc with | some (m, n) => if m = f.mid then n else 0 | none => 0) + f.data.length

/-- every (possibly unfinished) packet of the frame sequence — the data of consecutive frames of one
    message id, up to each frame — has at most `mx` bytes.  `acc` = message id and accumulated
    size of the unfinished packet before the sequence. -/
def packetsFit (mx : Nat) : Option (U64 × Nat) → List Frame → Bool
  | _, [] => true
  | acc, f :: fs =>
    decide (accNext acc f ≤ mx) && packetsFit mx (if f.done then none else some (f.mid, accNext acc f)) fs

/-- the reader state (`rid`, `cur`) that corresponds to the scan state `st` of a well-formed
    frame stream and the accumulated size `acc` -/
def Linked (sid : U64) (st : Option Last) (acc : Option (U64 × Nat)) (rid : U64 × U64) (cur : Option Cur) : Prop :=
  match st with
  | none => cur = none ∧ rid = (1#64, 1#64) ∧ acc = none
  | some l =>
    if l.done then cur = none ∧ rid = (sid, l.mid + 1#64) ∧ acc = none
    else ∃ c, cur = some c ∧ c.kind = l.kind ∧ rid = (sid, l.mid) ∧ acc = some (l.mid, c.data.length)

/-- a fresh packet: the reader is between packets (`cur = none`) and the frame's id is not below
    the watermark -/
theorem assemble_fresh {mx : Nat} {rid : U64 × U64} {f : Frame}
    (hid : idLess f.sid f.mid rid.1 rid.2 = false) (hfit : f.data.length ≤ mx) :
    (f.done = true → ∃ pkt, assembleStep mx rid none f = .emit pkt (f.sid, f.mid + 1#64)) ∧
    (f.done = false → ∃ c, assembleStep mx rid none f = .cont (f.sid, f.mid) c ∧ c.kind = f.kind ∧
      c.data.length = f.data.length) := by
  unfold assembleStep
  simp only [hid, Bool.false_eq_true, if_false, Option.isNone_none, Bool.or_true, if_true, List.nil_append]
  have : ¬ (f.data.length > mx) := by omega
  simp only [this, if_false]
  constructor
  · intro hd; simp [hd]
  · intro hd; simp [hd]

theorem assemble_linked {sid : U64} {mx : Nat} {st : Option Last} {acc : Option (U64 × Nat)}
    {rid : U64 × U64} {cur : Option Cur} {f : Frame}
    (hl : Linked sid st acc rid cur) (hacc : accepts sid st f = true) (hsid : 1 ≤ sid.toNat)
    (hmid : 1 ≤ f.mid.toNat) (hfit : accNext acc f ≤ mx) :
    (f.done = true → ∃ pkt, assembleStep mx rid cur f = .emit pkt (sid, f.mid + 1#64)) ∧
    (f.done = false → ∃ c, assembleStep mx rid cur f = .cont (sid, f.mid) c ∧ c.kind = f.kind ∧
      c.data.length = accNext acc f) := by
  simp only [accepts, Bool.and_eq_true, beq_iff_eq] at hacc
  obtain ⟨hs, hfol⟩ := hacc
  cases st with
  | none =>
    obtain ⟨rfl, rfl, rfl⟩ := hl
    have hid : idLess f.sid f.mid (1#64, 1#64).1 (1#64, 1#64).2 = false := by
      simp [idLess, hs]; omega
    have := assemble_fresh (mx := mx) hid (by simpa [accNext] using hfit)
    simpa [hs, accNext] using this
  | some l =>
    simp only [Linked] at hl
    simp only [follows, Bool.or_eq_true, decide_eq_true_eq, Bool.and_eq_true, beq_iff_eq, Bool.not_eq_true'] at hfol
    by_cases hd : l.done = true
    · simp only [hd, if_true] at hl
      obtain ⟨rfl, rfl, rfl⟩ := hl
      have hlt : l.mid.toNat < f.mid.toNat := by
        rcases hfol with h | ⟨_, h⟩
        · exact h
        · rw [hd] at h; cases h
      have hid : idLess f.sid f.mid (sid, l.mid + 1#64).1 (sid, l.mid + 1#64).2 = false := by
        have := f.mid.isLt
        simp [idLess, hs, BitVec.toNat_add]; omega
      have := assemble_fresh (mx := mx) hid (by simpa [accNext] using hfit)
      simpa [hs, accNext] using this
    · simp only [hd, Bool.false_eq_true, if_false] at hl
      obtain ⟨c, rfl, hck, rfl, rfl⟩ := hl
      have hle : l.mid.toNat ≤ f.mid.toNat := by
        rcases hfol with h | ⟨⟨h, _⟩, _⟩
        · omega
        · rw [h]; exact Nat.le_refl _
      have hid : idLess f.sid f.mid sid l.mid = false := by
        simp [idLess, hs]; omega
      by_cases hm : l.mid = f.mid
      · -- continuation of the packet under assembly
        have hk : l.kind = f.kind := by
          rcases hfol with h | ⟨⟨_, h⟩, _⟩
          · rw [hm] at h; omega
          · exact h
        have hid2 : idLess sid f.mid sid f.mid = false := by simp [idLess]
        simp only [accNext, hm, if_true] at hfit ⊢
        unfold assembleStep
        simp only [hid2, Bool.false_eq_true, if_false, hs, ne_eq, not_true_eq_false, decide_false,
          Option.isNone_some, Bool.or_false, hck, hk, List.length_append]
        have : ¬ (c.data.length + f.data.length > mx) := by omega
        simp only [this, if_false]
        constructor
        · intro hd; simp [hd]
        · intro hd; simp [hd]
      · -- a later message: the unfinished packet is discarded
        have hne : ((sid, l.mid) : U64 × U64) ≠ (f.sid, f.mid) := by
          intro h; exact hm (Prod.mk.inj h).2
        simp only [accNext, hm, if_false, Nat.zero_add] at hfit ⊢
        unfold assembleStep
        simp only [hid, Bool.false_eq_true, if_false, ne_eq, hne, not_false_eq_true, decide_true, Bool.true_or,
          if_true, List.nil_append]
        have : ¬ (f.data.length > mx) := by omega
        simp only [this, if_false]
        constructor
        · intro hd; simp [hd, hs]
        · intro hd; simp [hd, hs]

theorem accNext_ge (acc : Option (U64 × Nat)) (f : Frame) : f.data.length ≤ accNext acc f := by
  unfold accNext; omega

/-- A conforming reader (the C09 reassembly) consumes the encoding of a well-formed frame stream
    completely and without rejecting anything. -/
theorem drain_wellformed {sid : U64} {mx : Nat} (hsid : 1 ≤ sid.toNat) (hmx : mx < 2^64) :
    ∀ (fs : List Frame) (st : Option Last) (acc : Option (U64 × Nat)) (rid : U64 × U64) (cur : Option Cur),
      Linked sid st acc rid cur → (wfScan sid st fs).isSome = true → packetsFit mx acc fs = true →
      (∀ f ∈ fs, f.kind.toNat < 64 ∧ 1 ≤ f.mid.toNat) →
      ∃ rid' cur', (drain mx rid cur (encodeFrames fs)).2 = .stuck rid' cur' [] := by
  intro fs
  induction fs with
  | nil =>
    intro st acc rid cur _ _ _ _
    have hs : parseFrame ([] : Bytes) = .short := by simp [parseFrame]
    exact ⟨rid, cur, by simp [encodeFrames, drain_short hs]⟩
  | cons f fs ih =>
    intro st acc rid cur hl hwf hfit hall
    have hf := hall f (by simp)
    simp only [wfScan] at hwf
    by_cases hacc : accepts sid st f = true
    · simp only [hacc, if_true] at hwf
      simp only [packetsFit, Bool.and_eq_true, decide_eq_true_eq] at hfit
      obtain ⟨hfit1, hfit2⟩ := hfit
      have hlen : f.data.length < 2^64 := Nat.lt_of_le_of_lt (Nat.le_trans (accNext_ge acc f) hfit1) hmx
      have henc : encodeFrames (f :: fs) = appendFrame f ++ encodeFrames fs := by simp [encodeFrames]
      have hparse := frame_roundtrip_aux f (encodeFrames fs) hf.1 hlen
      rw [henc, drain_ok hparse]
      obtain ⟨h1, h2⟩ := assemble_linked (mx := mx) hl hacc hsid hf.2 hfit1
      have hall' : ∀ g ∈ fs, g.kind.toNat < 64 ∧ 1 ≤ g.mid.toNat := fun g hg => hall g (by simp [hg])
      cases hd : f.done with
      | true =>
        obtain ⟨pkt, hp⟩ := h1 hd
        rw [hp]
        simp only [hd, if_true] at hfit2
        exact ih (some (Last.of f)) none _ none (by simp [Linked, Last.of, hd]) hwf hfit2 hall'
      | false =>
        obtain ⟨c, hp, hk, hc⟩ := h2 hd
        rw [hp]
        simp only [hd, Bool.false_eq_true, if_false] at hfit2
        exact ih (some (Last.of f)) _ _ (some c) (by simp [Linked, Last.of, hd, hk, hc]) hwf hfit2 hall'
    · simp [hacc] at hwf

end Drpc.Stream
