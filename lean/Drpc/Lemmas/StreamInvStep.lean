import Drpc.Lemmas.StreamInvSig
import Drpc.Generated.Consts
/-
  Facts about single steps of the atomic-step stream model that need no induction (or only the
  invariants of parts 1 and 2): signals are set-once, who may touch the writer, what a step can
  still emit, and the abstraction to the documented state graph (`drpcstream/state.dot`).
-/
namespace Drpc.Stream
attribute [local simp] firstSec flushSec getInflight getOnce relSh Option.join_eq_some_iff Option.join_eq_none_iff

/-! ### signals are set-once -/

/-- every signal that is set keeps its value -/
def SigMono (sh sh' : Sh) : Prop :=
  (∀ e, sh.send = some e → sh'.send = some e) ∧ (∀ e, sh.recv = some e → sh'.recv = some e) ∧
  (∀ e, sh.term = some e → sh'.term = some e) ∧ (∀ e, sh.cancel = some e → sh'.cancel = some e) ∧
  (sh.fin = true → sh'.fin = true) ∧ (sh.ctxDone = true → sh'.ctxDone = true)

theorem setOnce_mono (o : Option Err) (x e : Err) (h : o = some e) : setOnce o x = some e := by
  subst h; rfl

theorem step_sigMono {s s' : St} {t : Tid} (h : step s t = some s') : SigMono s.sh s'.sh := by
  unfold step at h
  pc_cases s t hp =>
    step_explode h hp
    all_goals (simp (config := { contextual := true }) [SigMono, setOnce_mono])

theorem env_sigMono {s s' : St} {e : Env} (h : envStep s e = some s') : SigMono s.sh s'.sh := by
  obtain ⟨h1, h2, h3, h4, h5, h6, _⟩ := env_signals h
  simp [SigMono, *]

/-- `fin` is set only by a thread that is at the last read of `checkFinished` -/
theorem step_fin_new {s s' : St} {t : Tid} (h : step s t = some s') (hf : s'.sh.fin = true) :
    s.sh.fin = true ∨ atCf3 (s.pc t) = true := by
  unfold step at h
  pc_cases s t hp =>
    step_explode h hp
    all_goals (simp at hf ⊢)
    all_goals (try simp_all)

/-! ### who touches the writer -/

/-- the writer (buffer, flag, transport, message id) and its ghost history are unchanged -/
def WrEq (sh sh' : Sh) : Prop :=
  sh'.wbuf = sh.wbuf ∧ sh'.wFlag = sh.wFlag ∧ sh'.inflight = sh.inflight ∧ sh'.wire = sh.wire ∧
  sh'.mid = sh.mid ∧ sh'.hist = sh.hist ∧ sh'.midN = sh.midN ∧ sh'.failed = sh.failed

theorem step_writer_owner {s s' : St} {t : Tid} (h : step s t = some s') :
    holdsW (s.pc t) = true ∨ WrEq s.sh s'.sh := by
  unfold step at h
  pc_cases s t hp =>
    step_explode h hp
    all_goals (simp [WrEq])

theorem env_writer_owner {s s' : St} {e : Env} (h : envStep s e = some s') :
    (∃ t fs, s.sh.inflight = some (t, fs) ∧ inWriting (s.pc t) = true ∧ s'.sh.inflight = none) ∨ WrEq s.sh s'.sh := by
  env_cases h with t hp hi =>
    first
    | (left; exact ⟨t, _, hi, by simp [hp], by simp⟩)
    | (right; simp [WrEq])

/-! ### what can still be emitted -/

/-- nothing was appended to the writer, no transport write begun or ended -/
def EmEq (sh sh' : Sh) : Prop :=
  sh'.wbuf = sh.wbuf ∧ sh'.wFlag = sh.wFlag ∧ sh'.inflight = sh.inflight ∧ sh'.wire = sh.wire ∧
  sh'.hist = sh.hist ∧ sh'.failed = sh.failed

/-- a step that appends a frame or begins a transport write is taken from a `danger` pc, or has
    just read `send`/`term` unset -/
theorem step_emit {s s' : St} {t : Tid} (h : step s t = some s') (ok : pcOK (s.pc t) = true) :
    EmEq s.sh s'.sh ∨ danger (s.pc t) = true ∨ s.sh.term = none := by
  unfold step at h
  pc_cases s t hp =>
    rw [hp] at ok
    step_explode h hp
    all_goals (simp at ok)
    all_goals (simp [EmEq, *])
    all_goals (try grind)

/-! ### the documented state graph -/

/-- the states of `drpcstream/state.dot` -/
inductive Abs where
  | opened | sendClosed | recvClosed | terminated | canceled | finished
deriving DecidableEq, Repr

/-- node names of `state.dot` -/
def Abs.name : Abs → String
  | .opened => "open" | .sendClosed => "send-closed" | .recvClosed => "recv-closed"
  | .terminated => "terminated" | .canceled => "canceled" | .finished => "finished"

def absB (send recv term cancel fin : Bool) : Abs :=
  if fin then .finished
  else if cancel then .canceled
  else if term || (send && recv) then .terminated
  else if send then .sendClosed
  else if recv then .recvClosed
  else .opened

/-- abstraction of the signals to the documented states: finished if `fin`; else canceled if
    `cancel` is set; else terminated if `term` is set or both directions are closed; else
    send-closed / recv-closed / open. -/
def abs (sh : Sh) : Abs :=
  absB sh.send.isSome sh.recv.isSome sh.term.isSome sh.cancel.isSome sh.fin

/-- `(a, b)` is an edge (with any label) of the graph regenerated from `drpcstream/state.dot` -/
def docEdge (a b : Abs) : Bool :=
  Drpc.Generated.stateEdges.any fun e => e.1 == a.name && e.2.2 == b.name

/-- the same relation as an explicit table (checked against the regenerated graph below) -/
def edgeB : Abs → Abs → Bool
  | .opened, .sendClosed | .opened, .recvClosed | .opened, .terminated | .opened, .canceled | .opened, .opened
  | .sendClosed, .terminated | .sendClosed, .canceled | .sendClosed, .sendClosed
  | .recvClosed, .terminated | .recvClosed, .canceled | .recvClosed, .recvClosed
  | .canceled, .finished | .terminated, .finished => true
  | _, _ => false

theorem edgeB_eq_docEdge : ∀ a b, edgeB a b = docEdge a b := by
  intro a b; cases a <;> cases b <;> decide

/-- Signals only ever get set, and `fin` only once `term` is: then the abstract state stays, moves
    along a documented edge, or goes from terminated to canceled. -/
theorem absB_step : ∀ (S R T C F S' R' T' C' F' : Bool),
    (S = true → S' = true) → (R = true → R' = true) → (T = true → T' = true) → (C = true → C' = true) →
    (F = true → F' = true) → (F' = true → F = true ∨ T = true) →
    absB S' R' T' C' F' = absB S R T C F ∨ edgeB (absB S R T C F) (absB S' R' T' C' F') = true ∨
      (absB S R T C F = .terminated ∧ absB S' R' T' C' F' = .canceled) := by
  decide

theorem isSome_mono {o o' : Option Err} (h : ∀ e, o = some e → o' = some e) : o.isSome = true → o'.isSome = true := by
  cases o with
  | none => intro h; cases h
  | some e => intro _; rw [h e rfl]; rfl

theorem abs_of_mono {sh sh' : Sh} (hm : SigMono sh sh') (hf : sh'.fin = true → sh.fin = true ∨ sh.term.isSome = true) :
    abs sh' = abs sh ∨ docEdge (abs sh) (abs sh') = true ∨ (abs sh = .terminated ∧ abs sh' = .canceled) := by
  obtain ⟨h1, h2, h3, h4, h5, _⟩ := hm
  rw [← edgeB_eq_docEdge]
  exact absB_step _ _ _ _ _ _ _ _ _ _ (isSome_mono h1) (isSome_mono h2) (isSome_mono h3) (isSome_mono h4) h5 hf

/-! ### the call-level runs of `StreamSolo` are reachable runs -/

theorem reach_runSolo (n : Nat) {s : St} (t : Tid) (h : Reach s) : Reach (runSolo n s t) := by
  induction n generalizing s with
  | zero => exact h
  | succ n ih =>
    rw [runSolo_succ]
    cases hs : step s t with
    | none => exact h
    | some s' => exact ih (h.step hs)

theorem reach_call {s : St} {t : Tid} (c : Call) (h : Reach s) (hd : ∃ r, s.pc t = .done r) :
    Reach (call s t c) :=
  reach_runSolo _ t (h.spawn hd)

/-! ### a witness state for the terminated → canceled transition -/

/-- thread 0 is inside `MsgSend` (parked in Marshal, holding the write lock), thread 1 has handled
    a remote `KindError` (stream terminated, not finished), thread 2 is inside `Cancel`, about to
    set the `cancel` signal -/
def tcState : St :=
  runSolo 3 ((call (call {} 0 (.msgSend [] true)) 1 (.handle kindError false true [])).setPc 2 (.start (.cancel 7))) 2

end Drpc.Stream
