import Drpc.Stream.Conc
/-
  Sequential (one call at a time) semantics of the atomic-step stream model: `call s t c` issues
  call `c` on thread `t` and runs that thread alone until it returns or blocks.  Plus the `solo`
  tactic that evaluates such runs symbolically, one step at a time.
-/
namespace Drpc.Stream

def runSolo : Nat → St → Tid → St
  | 0, s, _ => s
  | n + 1, s, t => match step s t with
    | some s' => runSolo n s' t
    | none => s

structure Quiet (sh : Sh) : Prop where
  mu : sh.mu = none
  w : sh.w = none
  wHeld : sh.wHeld = false
  r : sh.r = none
  rHeld : sh.rHeld = false
  inflight : sh.inflight = none
  pheld : sh.pheld = false
  once : ∀ u, sh.once ≠ some (some u)

def call (s : St) (t : Tid) (c : Call) : St := runSolo 64 (s.setPc t (.start c)) t

@[simp] theorem setPc_eq_upd (s : St) (t : Tid) (p : PC) : s.setPc t p = s.upd t s.sh p := by
  simp [St.upd, St.setSh]
@[simp] theorem upd_pc_self (s : St) (t : Tid) (sh : Sh) (p : PC) : (s.upd t sh p).pc t = p := by
  simp [St.upd, St.setPc, St.setSh]
@[simp] theorem upd_sh (s : St) (t : Tid) (sh : Sh) (p : PC) : (s.upd t sh p).sh = sh := by
  simp [St.upd, St.setPc, St.setSh]
@[simp] theorem upd_opts (s : St) (t : Tid) (sh : Sh) (p : PC) : (s.upd t sh p).opts = s.opts := by
  simp [St.upd, St.setPc, St.setSh]
@[simp] theorem upd_upd (s : St) (t : Tid) (sh sh' : Sh) (p p' : PC) : (s.upd t sh p).upd t sh' p' = s.upd t sh' p' := by
  simp [St.upd, St.setPc, St.setSh]
  funext u; split <;> rfl

theorem runSolo_succ (n : Nat) (s : St) (t : Tid) :
    runSolo (n+1) s t = match step s t with | some s' => runSolo n s' t | none => s := rfl

/-- symbolic execution of one thread: unfold one `runSolo` step at a time and let `simp` resolve
    it (never unfolding the remaining `runSolo`, so no work is done under unresolved binders) -/
macro "solo" : tactic => `(tactic|
  (unfold call
   repeat (rw [runSolo_succ]; simp (config := { maxSteps := 400000 }) [step, stepPC, afterTerm, handleRet,
    termErrOf, packetOf, flushSec, pbufClose, cancelWrap, kindInvoke, kindMessage, kindError, kindCancel, kindClose,
    kindCloseSend, *])))

@[simp] theorem setOnce_none (e : Err) : setOnce none e = some e := rfl
@[simp] theorem setOnce_some (x e : Err) : setOnce (some x) e = some x := rfl
@[simp] theorem setOnce_isSome (o : Option Err) (e : Err) : (setOnce o e).isSome = true := by cases o <;> rfl
@[simp] theorem setOnce_isNone (o : Option Err) (e : Err) : (setOnce o e).isNone = false := by cases o <;> rfl
@[simp] theorem setOnce_ne_none (o : Option Err) (e : Err) : (setOnce o e = none) = False := by cases o <;> simp [setOnce]

/-- finish a goal `{ s.sh with … } = s.sh` (or a conjunction of field equalities) -/
macro "sh_eq" : tactic => `(tactic|
  (first | done | (rename_i s; generalize hsh : St.sh _ = sh at *; cases sh; simp_all)))


theorem framesOf_cons (o : Opts) (mid : U64) (k : Byte) (d : Bytes) :
    ∃ fr rest, framesOf o mid k d = fr :: rest := by
  unfold framesOf
  rw [splitFrames]
  split <;> exact ⟨_, _, rfl⟩

/-- `k` is none of the packet kinds the stream understands (Invoke … CloseSend) -/
def UnknownKind (k : Byte) : Prop :=
  k ≠ kindInvoke ∧ k ≠ kindMessage ∧ k ≠ kindError ∧ k ≠ kindCancel ∧ k ≠ kindClose ∧ k ≠ kindCloseSend

/-! ### a step of thread `t` never touches another thread's program counter -/

theorem upd_pc_other (s : St) (t u : Tid) (sh : Sh) (p : PC) (h : u ≠ t) : (s.upd t sh p).pc u = s.pc u := by
  simp [St.upd, St.setPc, St.setSh, h]

set_option maxHeartbeats 1000000 in
theorem step_pc_other {s s' : St} {t u : Tid} (hne : u ≠ t) (h : step s t = some s') : s'.pc u = s.pc u := by
  unfold step at h
  cases hp : s.pc t <;> rw [hp] at h <;> simp only [stepPC] at h
  all_goals (repeat' split at h)
  all_goals (first
    | (cases h; done)
    | (injection h with h; subst h; simp [upd_pc_other _ _ _ _ _ hne]))

theorem runSolo_pc_other (n : Nat) (s : St) (t u : Tid) (hne : u ≠ t) : (runSolo n s t).pc u = s.pc u := by
  induction n generalizing s with
  | zero => rfl
  | succ n ih =>
    rw [runSolo_succ]
    cases h : step s t with
    | none => rfl
    | some s' => simp only; rw [ih, step_pc_other hne h]

theorem call_pc_other (s : St) (t u : Tid) (c : Call) (hne : u ≠ t) : (call s t c).pc u = s.pc u := by
  unfold call
  rw [runSolo_pc_other _ _ _ _ hne]
  simp [upd_pc_other _ _ _ _ _ hne]

end Drpc.Stream
