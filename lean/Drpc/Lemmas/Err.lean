import Drpc.ErrRpc
/-
  Helper lemmas for C10 (error codec, code extraction, handler outcome → client view).
-/
namespace Drpc

/-! ### big-endian code -/

theorem be64_length (c : U64) : (be64 c).length = 8 := rfl

theorem be64Read_be64 (c : U64) (rest : Bytes) : be64Read (be64 c ++ rest) = c := by
  simp only [be64, be64Read, List.cons_append, List.nil_append, BitVec.toNat_ofNat]
  apply BitVec.eq_of_toNat_eq
  have h := c.isLt
  simp only [BitVec.toNat_ofNat]
  omega

/-! ### the loop of `Code` -/

theorem Err.view_apply (w : Wrap) (e : Err) : (w.apply e).view = .next e false := by
  cases w <;> rfl

/-- `ws.length` code-less wrappers cost exactly `ws.length` iterations. -/
theorem codeLoop_wrapAll (ws : List Wrap) : ∀ (n : Nat) (e : Err),
    codeLoop Err.view n (some (wrapAll ws e)) =
      if ws.length < n then codeLoop Err.view (n - ws.length) (some e) else 0#64 := by
  induction ws with
  | nil => intro n e; cases n <;> simp [wrapAll, codeLoop]
  | cons w ws ih =>
    intro n e
    cases n with
    | zero => simp [codeLoop]
    | succ n =>
      have : wrapAll (w :: ws) e = w.apply (wrapAll ws e) := rfl
      rw [this, codeLoop, Err.view_apply]
      simp only [Bool.false_eq_true, if_false]
      rw [ih]
      simp only [List.length_cons, Nat.add_lt_add_iff_right, Nat.add_sub_add_right]

theorem code_coded (c : U64) (i : Err) : code (some (.coded c i)) = c := rfl
theorem code_errsT_leaf (cls : Option Bytes) (m : Bytes) : code (some (.errsT cls (.leaf m))) = 0#64 := rfl

theorem code_withCode' (x : Err) (c : U64) (hx : code (some x) = 0#64) : code (some (withCode' x c)) = c := by
  unfold withCode'
  split
  · next h => rw [hx, h]
  · rfl

/-- `n`-fold following of Cause()/Unwrap() in an arbitrary error structure. -/
def reach {α : Type} (view : α → Step α) : Nat → α → Option α
  | 0, e => some e
  | n + 1, e =>
    match view e with
    | .next e' _ => reach view n e'
    | _ => none

def Step.isCode {α : Type} : Step α → Bool
  | .code _ => true
  | _ => false

/-- If nothing reachable has a `Code()` method, the loop returns 0 — on every structure, cyclic or not. -/
theorem codeLoop_no_code {α : Type} (view : α → Step α) :
    ∀ (fuel : Nat) (e : α), (∀ n x, reach view n e = some x → (view x).isCode = false) →
      codeLoop view fuel (some e) = 0#64 := by
  intro fuel
  induction fuel with
  | zero => intro e _; rfl
  | succ k ih =>
    intro e h
    have h0 := h 0 e rfl
    unfold codeLoop
    cases hv : view e with
    | code c => rw [hv] at h0; simp [Step.isCode] at h0
    | plain => rfl
    | nextNil => cases k <;> rfl
    | next e' same =>
      simp only
      split
      · rfl
      · apply ih
        intro n x hr
        apply h (n + 1) x
        simp only [reach, hv]
        exact hr

/-! ### text -/

theorem text_errsT_none (i : Err) : (Err.errsT none i).text = i.text := by
  simp [Err.text]

theorem text_errsWrap_none (e : Err) : (errsWrap none e).text = e.text := by
  cases e <;> simp [errsWrap, text_errsT_none]

theorem code_errsT (cls : Option Bytes) (i : Err) :
    code (some (.errsT cls i)) = codeLoop Err.view (codeIters - 1) (some i) := by
  show codeLoop Err.view (99 + 1) (some (.errsT cls i)) = codeLoop Err.view 99 (some i)
  rw [codeLoop]; rfl

theorem text_errsT_some (c : Bytes) (i : Err) (hc : c.length > 0) (ht : i.text.length > 0) :
    (Err.errsT (some c) i).text = c ++ asciiBytes ": " ++ i.text := by
  simp only [Err.text]
  rw [if_pos hc, if_pos ht]

theorem text_unknownRpcErr (rpc : Bytes) :
    (unknownRpcErr rpc).text = asciiBytes "protocol error: unknown rpc: " ++ quote rpc := by
  unfold unknownRpcErr
  rw [text_errsT_some _ _ (by decide) (by simp [Err.text, quote]; omega)]
  have h3 : asciiBytes "protocol error" ++ asciiBytes ": " ++ asciiBytes "unknown rpc: "
      = asciiBytes "protocol error: unknown rpc: " := by decide
  rw [← h3]; simp [Err.text]

/-- `errs.Wrap` costs the code search at most one iteration. -/
theorem code_errsWrap_none (e : Err) :
    code (some (errsWrap none e)) = code (some e) ∨
    code (some (errsWrap none e)) = codeLoop Err.view (codeIters - 1) (some e) := by
  cases e with
  | errsT cls i => left; simp [errsWrap]
  | _ => right; exact code_errsT _ _

/-! ### codec -/

theorem unmarshal_pair (c : U64) (msg : Bytes) :
    unmarshalError (be64 c ++ msg) = withCode' (.errsT none (.leaf msg)) c := by
  unfold unmarshalError
  have hl : ¬ (be64 c ++ msg).length < 8 := by simp [be64_length]
  rw [if_neg hl, be64Read_be64]
  have : (be64 c ++ msg).drop 8 = msg := by
    rw [← be64_length c]; exact List.drop_left
  rw [this]

theorem text_withCode' (x : Err) (c : U64) : (withCode' x c).text = x.text := by
  unfold withCode'; split <;> simp [Err.text]

theorem unmarshal_pair_text (c : U64) (msg : Bytes) : (unmarshalError (be64 c ++ msg)).text = msg := by
  rw [unmarshal_pair, text_withCode', text_errsT_none]; rfl

theorem unmarshal_pair_code (c : U64) (msg : Bytes) : code (some (unmarshalError (be64 c ++ msg))) = c := by
  rw [unmarshal_pair]; exact code_withCode' _ _ (code_errsT_leaf _ _)

theorem unmarshal_marshal_text (e : Err) : (unmarshalError (marshalError e)).text = e.text :=
  unmarshal_pair_text _ _

theorem unmarshal_marshal_code (e : Err) : code (some (unmarshalError (marshalError e))) = code (some e) :=
  unmarshal_pair_code _ _

/-! ### server side -/

def msgPkt (d : Bytes) : Pkt := ⟨kMessage, d⟩

theorem runOps_sends (msgs : List Bytes) : ∀ (s : SStream), s.sendSet = false → s.term = false →
    s.runOps (msgs.map .send) = { s with out := s.out ++ msgs.map msgPkt } := by
  induction msgs with
  | nil => intro s _ _; simp [SStream.runOps]
  | cons m ms ih =>
    intro s h1 h2
    simp only [SStream.runOps, List.map_cons, List.foldl_cons] at ih ⊢
    have hs : s.runOp (.send m) = { s with out := s.out ++ [msgPkt m] } := by
      simp [SStream.runOp, SStream.msgSend, h1, h2, msgPkt]
    rw [hs, ih _ (by simpa using h1) (by simpa using h2)]
    simp

/-- The packets of an RPC whose handler sends `msgs` and returns `e`. -/
theorem serve_fail_out (h : Handler) (msgs : List Bytes) (e : Err) (b : Bool)
    (hh : h { recvSet := b } = (SStream.runOps { recvSet := b } (msgs.map .send), some e)) :
    (serve h { recvSet := b }).out = msgs.map msgPkt ++ [⟨kError, marshalError e⟩] := by
  unfold serve
  rw [hh, runOps_sends msgs _ rfl rfl]
  simp [SStream.sendError]

/-- The packets of an RPC whose handler sends `msgs` and returns nil. -/
theorem serve_ok_out (h : Handler) (msgs : List Bytes) (b : Bool)
    (hh : h { recvSet := b } = (SStream.runOps { recvSet := b } (msgs.map .send), none)) :
    (serve h { recvSet := b }).out = msgs.map msgPkt ++ [⟨kCloseSend, []⟩] := by
  unfold serve
  rw [hh, runOps_sends msgs _ rfl rfl]
  simp [SStream.closeSend]

/-! ### client side -/

theorem handleAll_msgs (msgs : List Bytes) : ∀ (c : CStream), c.term = false → c.closed = none →
    c.handleAll (msgs.map msgPkt) = { c with delivered := c.delivered ++ msgs } := by
  induction msgs with
  | nil => intro c _ _; simp [CStream.handleAll]
  | cons m ms ih =>
    intro c h1 h2
    simp only [CStream.handleAll, List.map_cons, List.foldl_cons] at ih ⊢
    have hs : c.handle (msgPkt m) = { c with delivered := c.delivered ++ [m] } := by
      simp [CStream.handle, h1, h2, msgPkt, kMessage]
    rw [hs, ih _ (by simpa using h1) (by simpa using h2)]
    simp

theorem handleAll_append (c : CStream) (a b : List Pkt) : c.handleAll (a ++ b) = (c.handleAll a).handleAll b := by
  simp [CStream.handleAll]

theorem client_fail (msgs : List Bytes) (data : Bytes) (b : Bool) :
    CStream.handleAll { sendSet := b } (msgs.map msgPkt ++ [⟨kError, data⟩]) =
      { delivered := msgs, closed := some (.err (unmarshalError data)), sendSet := true, term := true } := by
  rw [handleAll_append, handleAll_msgs msgs _ rfl rfl]
  simp [CStream.handleAll, CStream.handle, kError, kMessage]

theorem client_ok (msgs : List Bytes) (b : Bool) :
    CStream.handleAll { sendSet := b } (msgs.map msgPkt ++ [⟨kCloseSend, []⟩]) =
      { delivered := msgs, closed := some .eof, sendSet := b, term := b } := by
  rw [handleAll_append, handleAll_msgs msgs _ rfl rfl]
  simp [CStream.handleAll, CStream.handle, kError, kMessage, kCloseSend]

theorem recv_delivered (c : CStream) (u : Bool) (n : Nat) (h : n < c.delivered.length) :
    c.recv u n = .msg c.delivered[n] := by
  simp [CStream.recv, h]

theorem recv_after_err (c : CStream) (u : Bool) (n : Nat) (e : Err) (h : c.delivered.length ≤ n)
    (hc : c.closed = some (.err e)) : c.recv u n = .error e.text (code (some e)) := by
  have : c.delivered[n]? = none := by simp [h]
  simp [CStream.recv, this, hc]

theorem recv_after_eof (c : CStream) (u : Bool) (n : Nat) (h : c.delivered.length ≤ n)
    (hc : c.closed = some .eof) : c.recv u n = .eof := by
  have : c.delivered[n]? = none := by simp [h]
  simp [CStream.recv, this, hc]

/-! ### no error packet ⇒ no error at the client -/

def noErrPkt (ps : List Pkt) : Prop := ∀ p ∈ ps, p.kind ≠ kError

theorem runOp_noErr (s : SStream) (op : HOp) (h : noErrPkt s.out) : noErrPkt (s.runOp op).out := by
  cases op with
  | send d =>
    simp only [SStream.runOp, SStream.msgSend]
    split
    · exact h
    · intro p hp
      simp only [List.mem_append, List.mem_singleton] at hp
      rcases hp with hp | rfl
      · exact h p hp
      · simp [kMessage, kError]
  | closeSend =>
    simp only [SStream.runOp, SStream.closeSend]
    split
    · exact h
    · intro p hp
      simp only [List.mem_append, List.mem_singleton] at hp
      rcases hp with hp | rfl
      · exact h p hp
      · simp [kCloseSend, kError]

theorem runOps_noErr (ops : List HOp) : ∀ (s : SStream), noErrPkt s.out → noErrPkt (s.runOps ops).out := by
  induction ops with
  | nil => intro s h; exact h
  | cons op ops ih =>
    intro s h
    simp only [SStream.runOps, List.foldl_cons]
    exact ih _ (runOp_noErr s op h)

theorem closeSend_noErr (s : SStream) (h : noErrPkt s.out) : noErrPkt s.closeSend.out :=
  runOp_noErr s .closeSend h

def CStream.noErr (c : CStream) : Prop := ∀ e, c.closed ≠ some (.err e)

theorem handle_noErr (c : CStream) (p : Pkt) (hp : p.kind ≠ kError) (hc : c.noErr) : (c.handle p).noErr := by
  unfold CStream.handle
  simp only [hp, if_false]
  split
  · exact hc
  · split
    · split <;> exact hc
    · split
      · intro e
        cases hcl : c.closed with
        | none => simp
        | some x => simpa [hcl] using hc e
      · exact hc

theorem handleAll_noErr (ps : List Pkt) : ∀ (c : CStream), noErrPkt ps → c.noErr → (c.handleAll ps).noErr := by
  induction ps with
  | nil => intro c _ h; exact h
  | cons p ps ih =>
    intro c hps hc
    simp only [CStream.handleAll, List.foldl_cons]
    exact ih _ (fun q hq => hps q (List.mem_cons_of_mem _ hq))
      (handle_noErr c p (hps p List.mem_cons_self) hc)

theorem recv_noErr (c : CStream) (hc : c.noErr) (u : Bool) (n : Nat) : ∀ t k, c.recv u n ≠ .error t k := by
  intro t k
  unfold CStream.recv
  simp only
  split
  · simp
  · split
    · simp
    · next e he => exact absurd he (hc e)
    · simp

/-! ### both ends -/

theorem clientOf_fail (h : Handler) (msgs : List Bytes) (e : Err) (b : Bool)
    (hh : h { recvSet := b } = (SStream.runOps { recvSet := b } (msgs.map .send), some e)) :
    clientOf h b = { delivered := msgs, closed := some (.err (unmarshalError (marshalError e))),
                     sendSet := true, term := true } := by
  unfold clientOf
  rw [serve_fail_out h msgs e b hh, client_fail]

theorem clientOf_ok (h : Handler) (msgs : List Bytes) (b : Bool)
    (hh : h { recvSet := b } = (SStream.runOps { recvSet := b } (msgs.map .send), none)) :
    clientOf h b = { delivered := msgs, closed := some .eof, sendSet := b, term := b } := by
  unfold clientOf
  rw [serve_ok_out h msgs b hh, client_ok]

/-- what the client observes of a stream that delivered `msgs` and was then closed with error `e` -/
theorem recv_of_fail (c : CStream) (msgs : List Bytes) (e : Err)
    (hc : c = { delivered := msgs, closed := some (.err (unmarshalError (marshalError e))),
                sendSet := true, term := true }) :
    c.delivered = msgs ∧
    (∀ u n (hn : n < msgs.length), c.recv u n = .msg msgs[n]) ∧
    (∀ u n, msgs.length ≤ n → c.recv u n = .error e.text (code (some e))) := by
  subst hc
  refine ⟨rfl, ?_, ?_⟩
  · intro u n hn
    exact recv_delivered _ u n hn
  · intro u n hn
    rw [recv_after_err _ u n _ hn rfl, unmarshal_marshal_text, unmarshal_marshal_code]

theorem recv_of_ok (c : CStream) (msgs : List Bytes) (b : Bool)
    (hc : c = { delivered := msgs, closed := some .eof, sendSet := b, term := b }) :
    c.delivered = msgs ∧
    (∀ u n (hn : n < msgs.length), c.recv u n = .msg msgs[n]) ∧
    (∀ u n, msgs.length ≤ n → c.recv u n = .eof) := by
  subst hc
  refine ⟨rfl, ?_, ?_⟩
  · intro u n hn
    exact recv_delivered _ u n hn
  · intro u n hn
    exact recv_after_eof _ u n hn rfl

end Drpc
