import Drpc.Lemmas.ManagerSysSimS
/-
  Simulation, part "reader": the value the reader loaded from the current-stream pointer is one of
  the checker's `window` values, and stays one until the reader reports its decision (`SimR`).
-/
set_option linter.unusedSimpArgs false
set_option linter.unusedVariables false
namespace Drpc.Manager.Sys
open Drpc.Manager

theorem simR_frame {s : St} {t : Tid} {sh' : Sh} {p' : PC} {ps ps' : PS} (hi : SimR s ps) (hle : Le s.sh sh')
    (hcur : sh'.sbufCur = s.sh.sbufCur) (hcl : s.sh.sbufClosed = true → sh'.sbufClosed = true)
    (hw : ∀ c, c ∈ ps.window → c ∈ ps'.window) (hcurrs : ∀ c, c ∈ ps.currs → c ∈ ps'.currs)
    (hnew : ps.newest ≤ ps'.newest) (hc : ps'.curr = ps.curr)
    (h0 : ∀ q, pktOf p' = some q → q.sid ≠ 0)
    (h1 : ∀ q c, p' = .rDisp q c → c ∈ ps'.window ∧ c ≤ sh'.sbufCur)
    (h2 : ∀ q, newerOf p' = some q → ∃ c ∈ ps'.window, c < q.sid ∧ c ≤ sh'.sbufCur)
    (h3 : loads p' = true → sh'.sbufCur ∈ ps'.window) : SimR (s.upd t sh' p') ps' := by
  refine ⟨?_, ?_, ?_, ?_, ?_, ?_, ?_⟩
  · intro u q hu
    rw [upd_pc] at hu
    split at hu
    · exact h0 q hu
    · exact hi.r0 u q hu
  · intro u q c hu
    rw [upd_pc] at hu
    split at hu
    · exact h1 q c hu
    · simp only [upd_sh, hcur]
      have := hi.r1 u q c hu
      exact ⟨hw c this.1, this.2⟩
  · intro u q hu
    rw [upd_pc] at hu
    split at hu
    · exact h2 q hu
    · simp only [upd_sh, hcur]
      obtain ⟨c, hc1, hc2, hc3⟩ := hi.r2 u q hu
      exact ⟨c, hw c hc1, hc2, hc3⟩
  · simp only [upd_sh]
    rcases hi.r3 with h | ⟨hc1, hc2⟩
    · left; rw [hcur]; exact hw _ h
    · cases hl : loads p' with
      | true => left; exact h3 hl
      | false =>
        right
        refine ⟨hcl hc1, ?_⟩
        intro u
        rw [upd_pc]
        split
        · exact hl
        · exact hc2 u
  · simp only [upd_sh, hcur]
    exact hi.g4.imp (hcurrs _) hcl
  · simp only [upd_sh, hcur]
    exact Nat.le_trans hi.g5 hnew
  · intro h
    simp only [upd_sh, hc] at h ⊢
    exact hle.pub _ (hi.g2 h)

theorem pktOf_afterTerminate (k : TK) : pktOf (afterTerminate k) = none := by cases k <;> rfl
theorem pktOf_afterCancel (r : Bool) (k : CK) : pktOf (afterCancel r k) = k.pkt? := by cases k <;> cases r <;> rfl
theorem pktOf_failHolding (c : Call) : pktOf (failHolding c) = none := by cases c <;> rfl
theorem newerOf_afterTerminate (k : TK) : newerOf (afterTerminate k) = none := by cases k <;> rfl
theorem newerOf_afterCancel (r : Bool) (k : CK) : newerOf (afterCancel r k) = k.pkt? := by cases k <;> cases r <;> rfl
theorem newerOf_failHolding (c : Call) : newerOf (failHolding c) = none := by cases c <;> rfl
theorem loads_afterTerminate (k : TK) : loads (afterTerminate k) = false := by cases k <;> rfl
theorem loads_afterCancel (r : Bool) (k : CK) : loads (afterCancel r k) = false := by cases k <;> cases r <;> rfl
theorem loads_failHolding (c : Call) : loads (failHolding c) = false := by cases c <;> rfl
theorem ne_rDisp_afterTerminate (k : TK) (q : Pkt) (c : Sid) : afterTerminate k ≠ .rDisp q c := by
  cases k <;> simp [afterTerminate]
theorem ne_rDisp_afterCancel (r : Bool) (k : CK) (q : Pkt) (c : Sid) : afterCancel r k ≠ .rDisp q c := by
  cases k <;> cases r <;> simp [afterCancel]
theorem ne_rDisp_failHolding (c' : Call) (q : Pkt) (c : Sid) : failHolding c' ≠ .rDisp q c := by
  cases c' <;> simp [failHolding]

theorem role_of_newerOf {p : PC} {q : Pkt} (h : newerOf p = some q) : pcRole p = some .rd := by
  cases p <;> simp [newerOf] at h <;> try rfl
  all_goals (rename_i k; cases k <;> simp_all [CK.pkt?, pcRole, CK.role])

theorem role_of_loads {p : PC} (h : loads p = true) : pcRole p = some .rd := by
  cases p <;> simp [loads] at h <;> rfl

/-- the reader reports a dispatch decision compatible with a value `c` of the window that is not above
    the pointer -/
theorem simR_read {s : St} {t : Tid} {sh' : Sh} {p' : PC} {ps : PS} {ok : Nat → Bool} (hs : Safe s)
    (hi : SimR s ps) (hle : Le s.sh sh') (hcur : sh'.sbufCur = s.sh.sbufCur)
    (hcl : sh'.sbufClosed = s.sh.sbufClosed) (ht : t = readerTid)
    (hwit : ∃ c ∈ ps.window, ok c = true ∧ c ≤ s.sh.sbufCur)
    (h0 : ∀ q, pktOf p' = some q → q.sid ≠ 0) (hnd : ∀ q c, p' ≠ .rDisp q c) (hnn : newerOf p' = none)
    (hl : loads p' = false) : SimR (s.upd t sh' p') (ps.afterRead ok) := by
  subst ht
  refine ⟨?_, ?_, ?_, ?_, ?_, ?_, ?_⟩
  · intro u q hu
    rw [upd_pc] at hu
    split at hu
    · exact h0 q hu
    · exact hi.r0 u q hu
  · intro u q c hu
    rw [upd_pc] at hu
    split at hu
    · exact absurd hu (hnd q c)
    · rename_i hne
      exact absurd (tid_of_rd hs.typ (by rw [hu]; rfl)) hne
  · intro u q hu
    rw [upd_pc] at hu
    split at hu
    · rw [hnn] at hu; cases hu
    · rename_i hne
      exact absurd (tid_of_rd hs.typ (role_of_newerOf hu)) hne
  · simp only [upd_sh, hcur, hcl]
    cases hc : s.sh.sbufClosed with
    | true =>
      right
      refine ⟨rfl, ?_⟩
      intro u
      rw [upd_pc]
      split
      · exact hl
      · rename_i hne
        cases hx : loads (s.pc u) with
        | false => rfl
        | true => exact absurd (tid_of_rd hs.typ (role_of_loads hx)) hne
    | false =>
      left
      rw [mem_afterRead_window]
      refine ⟨?_, hwit⟩
      rcases hi.g4 with h | h
      · exact h
      · rw [hc] at h; cases h
  · simp only [upd_sh, hcur, hcl]; exact hi.g4
  · simp only [upd_sh, hcur]; exact hi.g5
  · intro h; exact hle.pub _ (hi.g2 h)

theorem simR_tr {s : St} {t : Tid} {p : PC} {sh' : Sh} {p' : PC} {ps ps' : PS}
    (hs : Safe s) (hv : Inv ps) (hss : SimS s ps) (hi : SimR s ps) (hle : Le s.sh sh') (hp : s.pc t = p)
    (h : Tr s t p sh' p') (hn : psNext ps p = some ps') : SimR (s.upd t sh' p') ps' := by
  have hr0 := hi.r0 t
  have hr2 := hi.r2 t
  rw [hp] at hr0 hr2
  cases h
  case rDeliver pk c h1 h2 =>
    ps_cases_deliver hn h1 h2
    have hr1 := hi.r1 t pk c hp
    exact simR_read hs hi hle rfl rfl (tid_of_rd hs.typ (by rw [hp]; rfl)) ⟨c, hr1.1, by simp [h2], hr1.2⟩
      (by intro q h; cases h) (by intro q c h; cases h) rfl rfl
  case rDrop pk c h1 h2 =>
    ps_cases_drop hn h1 h2
    have hr1 := hi.r1 t pk c hp
    exact simR_read hs hi hle rfl rfl (tid_of_rd hs.typ (by rw [hp]; rfl)) ⟨c, hr1.1, by simpa using h2, hr1.2⟩
      (by intro q h; cases h) (by intro q c h; cases h) rfl rfl
  case rNewer pk c h1 =>
    ps_cases_newer hn h1
    have hr1 := hi.r1 t pk c hp
    refine simR_frame hi hle rfl (fun h => h) (fun _ h => h) (fun _ h => h) (Nat.le_refl _) rfl
      (by intro q hq; exact hr0 q hq) (by intro q c h; cases h) ?_ (by intro h; cases h)
    intro q hq
    simp only [newerOf, Option.some.injEq] at hq
    subst hq
    refine ⟨c, hr1.1, ?_, hr1.2⟩
    have := hr0 _ rfl
    somega
  all_goals ps_cases hn
  all_goals
    first
    | exact simR_frame hi hle rfl (fun h => h) (fun _ h => h) (fun _ h => h) (Nat.le_refl _) rfl
        (by intro q hq; first
          | (cases hq; done)
          | exact hr0 q hq
          | (simp only [pktOf_afterTerminate, pktOf_failHolding, reduceCtorEq] at hq; done)
          | (rw [pktOf_afterCancel] at hq; exact hr0 q hq))
        (by intro q c hq; first
          | (cases hq; done)
          | exact absurd hq (ne_rDisp_afterTerminate _ _ _)
          | exact absurd hq (ne_rDisp_afterCancel _ _ _ _)
          | exact absurd hq (ne_rDisp_failHolding _ _ _))
        (by intro q hq; first
          | (cases hq; done)
          | exact hr2 q hq
          | (simp only [newerOf_afterTerminate, newerOf_failHolding, reduceCtorEq] at hq; done)
          | (rw [newerOf_afterCancel] at hq; exact hr2 q hq))
        (by intro hl; first
          | (cases hl; done)
          | (rw [loads_afterTerminate] at hl; cases hl)
          | (rw [loads_afterCancel] at hl; cases hl)
          | (rw [loads_failHolding] at hl; cases hl))
    | skip
  case rTopGo.refl hterm =>
    refine simR_frame hi hle rfl (fun h => h) (fun _ h => h) (fun _ h => h) (Nat.le_refl _) rfl
      (by intro q h; cases h) (by intro q c h; cases h) (by intro q h; cases h) ?_
    intro _
    rcases hi.r3 with h | ⟨h, -⟩
    · exact h
    · rw [(hs.tm.none hterm).2.2.2] at h; cases h
  case rGot.refl pk =>
    refine simR_frame hi hle rfl (fun h => h) (fun _ h => h) (fun _ h => h) (Nat.le_refl _) rfl
      (by intro q hq; exact hr0 q hq) ?_ (by intro q h; cases h) (by intro h; cases h)
    intro q c hq
    cases hq
    refine ⟨?_, Nat.le_refl _⟩
    rcases hi.r3 with h | ⟨-, h⟩
    · exact h
    · have := h t; rw [hp] at this; cases this
  case rEvQueueInv.isTrue.refl pk hk hg =>
    obtain ⟨c, hc1, hc2, hc3⟩ := hr2 pk rfl
    exact simR_read (ok := fun x => decide (x < pk.sid)) hs hi hle (by rfl) (by rfl)
      (tid_of_rd hs.typ (by rw [hp]; rfl)) ⟨c, hc1, by simpa using hc2, hc3⟩
      (by intro q h; cases h) (by intro q c h; cases h) rfl rfl
  case rEvQueueMeta.isTrue.refl pk hk hg =>
    obtain ⟨c, hc1, hc2, hc3⟩ := hr2 pk rfl
    exact simR_read (ok := fun x => decide (x < pk.sid)) hs hi hle (by rfl) (by rfl)
      (tid_of_rd hs.typ (by rw [hp]; rfl)) ⟨c, hc1, by simpa using hc2, hc3⟩
      (by intro q h; cases h) (by intro q c h; cases h) rfl rfl
  case rEvOrphan.isTrue.refl pk hg =>
    obtain ⟨c, hc1, hc2, hc3⟩ := hr2 pk rfl
    exact simR_read (ok := fun x => decide (x < pk.sid)) hs hi hle (by rfl) (by rfl)
      (tid_of_rd hs.typ (by rw [hp]; rfl)) ⟨c, hc1, by simpa using hc2, hc3⟩
      (by intro q h; cases h) (by intro q c h; cases h) rfl rfl
  case rEvWait.isTrue.refl pk c0 hg =>
    obtain ⟨c, hc1, hc2, hc3⟩ := hr2 pk rfl
    exact simR_read (ok := fun x => decide (x < pk.sid)) hs hi hle (by rfl) (by rfl)
      (tid_of_rd hs.typ (by rw [hp]; rfl)) ⟨c, hc1, by simpa using hc2, hc3⟩
      (by intro q h; simp only [pktOf, Option.some.injEq] at h; subst h; exact hr0 _ rfl)
      (by intro q c h; cases h) rfl rfl
  case rWaitWoken.refl pk c0 hcl hne =>
    refine simR_frame hi hle rfl (fun h => h) (fun _ h => h) (fun _ h => h) (Nat.le_refl _) rfl
      (by intro q hq; exact hr0 q hq) (by intro q c h; cases h) (by intro q h; cases h) ?_
    intro _
    rcases hi.r3 with h | ⟨h, -⟩
    · exact h
    · rw [hcl] at h; cases h
  case tSbuf.refl k =>
    exact simR_frame hi hle rfl (fun _ => rfl) (fun _ h => h) (fun _ h => h) (Nat.le_refl _) rfl
      (by intro q hq; rw [pktOf_afterTerminate] at hq; cases hq)
      (by intro q c hq; exact absurd hq (ne_rDisp_afterTerminate _ _ _))
      (by intro q hq; rw [newerOf_afterTerminate] at hq; cases hq)
      (by intro hl; rw [loads_afterTerminate] at hl; cases hl)
  case nEvBegin.isTrue.refl c sid hg =>
    have hcurrs : ps.currs = [ps.curr] := by simp [PS.currs, hg.2.2.1]
    have hnewest : ps.newest = ps.curr := by simp [PS.newest, hg.2.2.1]
    refine simR_frame hi hle rfl (fun h => h) (fun _ h => by simp [h]) ?_ ?_ rfl
      (by intro q h; cases h) (by intro q c h; cases h) (by intro q h; cases h) (by intro h; cases h)
    · intro x hx
      rw [hcurrs] at hx
      simp only [List.mem_singleton] at hx
      subst hx
      simp [PS.currs]
    · rw [hnewest]
      simp only [PS.newest, Option.getD_some]
      exact Nat.le_of_lt hg.2.2.2
  case nSetStore.refl c sid hcl =>
    have hf := hss.hf t (by rw [hp]; rfl)
    rw [hp] at hf
    have hlt := (hv.pendIn sid hf.2.1).2
    have hold : s.sh.sbufCur < sid := by rw [hf.2.2.1]; exact hlt
    refine ⟨?_, ?_, ?_, Or.inl hf.2.2.2, Or.inl (mem_currs.2 (Or.inr hf.2.1)), ?_, ?_⟩
    · intro u q hu
      rw [upd_pc] at hu
      split at hu
      · cases hu
      · exact hi.r0 u q hu
    · intro u q c' hu
      rw [upd_pc] at hu
      split at hu
      · cases hu
      · have := hi.r1 u q c' hu
        exact ⟨this.1, Nat.le_of_lt (Nat.lt_of_le_of_lt this.2 hold)⟩
    · intro u q hu
      rw [upd_pc] at hu
      split at hu
      · cases hu
      · obtain ⟨c', h1, h2, h3⟩ := hi.r2 u q hu
        exact ⟨c', h1, h2, Nat.le_of_lt (Nat.lt_of_le_of_lt h3 hold)⟩
    · show sid ≤ ps.newest
      simp [PS.newest, hf.2.1]
    · intro h; exact hle.pub _ (hi.g2 h)
  case nEvEnd.isTrue.refl c sid hg =>
    have hf := hss.hf t (by rw [hp]; rfl)
    rw [hp] at hf
    have h5 := hi.g5
    simp only [PS.newest, hg, Option.getD_some] at h5
    refine ⟨?_, ?_, ?_, ?_, ?_, ?_, ?_⟩
    · intro u q hu
      rw [upd_pc] at hu
      split at hu
      · cases hu
      · exact hi.r0 u q hu
    · intro u q c' hu
      rw [upd_pc] at hu
      split at hu
      · cases hu
      · exact hi.r1 u q c' hu
    · intro u q hu
      rw [upd_pc] at hu
      split at hu
      · cases hu
      · exact hi.r2 u q hu
    · rcases hi.r3 with h | ⟨h1, h2⟩
      · exact Or.inl h
      · right
        refine ⟨h1, ?_⟩
        intro u
        rw [upd_pc]
        split
        · rfl
        · exact h2 u
    · rcases hf.2.2 with h | h
      · left; simp [PS.currs]; exact h
      · right; exact h.1
    · simpa [PS.newest] using h5
    · intro _
      exact hs.loc.pubAt t sid (by rw [hp]; rfl)

theorem simR_etr {s : St} {t : Tid} {sh' : Sh} {p' : PC} {ps : PS} (hs : Safe s) (hi : SimR s ps)
    (h : ETr s t sh' p') (he : ∀ q, p' = .rGot q → q.sid ≠ 0) : SimR (s.upd t sh' p') ps := by
  have hle := etr_le h
  have hr0 := hi.r0 readerTid
  have hr1 := hi.r1 readerTid
  have hr2 := hi.r2 readerTid
  cases h
  case arrive q hrd =>
    refine simR_frame hi hle rfl (fun h => h) (fun _ h => h) (fun _ h => h) (Nat.le_refl _) rfl
      (by intro q' h; cases h; exact he q rfl) (by intro q c h; cases h) (by intro q h; cases h) ?_
    intro _
    rcases hi.r3 with h | ⟨-, h⟩
    · exact h
    · have := h readerTid; rw [hrd] at this; cases this
  all_goals
    first
    | exact simR_frame hi hle rfl (fun h => h) (fun _ h => h) (fun _ h => h) (Nat.le_refl _) rfl hr0 hr1 hr2
        (by intro hl; rcases hi.r3 with h | ⟨-, h⟩; exact h; rw [h readerTid] at hl; cases hl)
    | exact simR_frame hi hle rfl (fun h => h) (fun _ h => h) (fun _ h => h) (Nat.le_refl _) rfl
        (by intro q h; cases h; done) (by intro q c h; cases h; done) (by intro q h; cases h; done) (by intro h; cases h; done)
    | skip

end Drpc.Manager.Sys
