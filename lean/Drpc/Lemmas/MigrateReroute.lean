import Drpc.Lemmas.MigrateMux
/-
  Fourth inductive invariant of the ListenMux transition system (C16): ownership of the route entries.

  `monitorListener(prefix, lis)` deletes `m.routes[prefix]` — by prefix, not by listener.  That is only
  right because a prefix is never re-registered while the monitor of its previous listener has not
  done its delete: `Route` returns the registered listener (closed or not) instead of replacing it.
  The invariant says exactly this: as long as the monitor of listener `l` (created for prefix `p`) has
  not executed its delete, the entry of `p` is `l`.  Consequences (Props/C16.lean): a listener that is
  not closed is the registered route of its prefix however often the prefix was registered, closed and
  re-registered before, and a monitor's delete never removes another listener's entry.
-/
set_option linter.unusedSimpArgs false
namespace Drpc.Migrate.Mux

theorem lookupRoute_cons_ne (p k : Bytes) (l : Lid) (rs : List (Bytes × Lid)) (h : p ≠ k) :
    lookupRoute ((p, l) :: rs) k = lookupRoute rs k := by
  simp [lookupRoute, h]

theorem lookupRoute_cons_eq (p : Bytes) (l : Lid) (rs : List (Bytes × Lid)) :
    lookupRoute ((p, l) :: rs) p = some l := by
  simp [lookupRoute]

theorem lookupRoute_filter_ne (rs : List (Bytes × Lid)) (p k : Bytes) (h : k ≠ p) :
    lookupRoute (rs.filter (fun r => r.1 ≠ p)) k = lookupRoute rs k := by
  induction rs with
  | nil => rfl
  | cons r rs ih =>
    obtain ⟨q, l⟩ := r
    simp only [List.filter_cons]
    split
    · simp only [lookupRoute]
      split
      · rfl
      · exact ih
    · rename_i hq
      have hq' : q = p := by simpa using hq
      have : q ≠ k := fun e => h (e.symm.trans hq')
      simp only [lookupRoute, this, ↓reduceIte]
      exact ih

theorem lookupRoute_filter_eq (rs : List (Bytes × Lid)) (p : Bytes) :
    lookupRoute (rs.filter (fun r => r.1 ≠ p)) p = none := by
  induction rs with
  | nil => rfl
  | cons r rs ih =>
    obtain ⟨q, l⟩ := r
    simp only [List.filter_cons]
    split
    · rename_i hq
      have hq' : q ≠ p := by simpa using hq
      simp only [lookupRoute, hq', ↓reduceIte]
      exact ih
    · exact ih

/-- the monitor of listener `l` has not yet executed `delete(m.routes, prefix)` -/
def monPending : MonPC → Option Bytes
  | .select p | .delete p => some p
  | _ => none

structure InvOwn (s : State) : Prop where
  /-- listeners that do not exist yet have no monitor -/
  fresh : ∀ l, s.nextLid ≤ l → s.mon l = .absent
  /-- while l's monitor has not done its delete, the entry of l's prefix is l -/
  own : ∀ l p, monPending (s.mon l) = some p → lookupRoute s.routes p = some l

theorem invOwn_init : InvOwn init := by
  constructor <;> simp [init, monPending]

theorem route_effect (N : Nat) (s s' : State) (p : Bytes) (hs : step N s (.route p) = some s') :
    (s'.routes = s.routes ∧ s'.nextLid = s.nextLid ∧ s'.mon = s.mon) ∨
    (lookupRoute s.routes p = none ∧ s'.routes = (p, s.nextLid) :: s.routes ∧ s'.nextLid = s.nextLid + 1 ∧
      s'.mon = fun u => if u = s.nextLid then MonPC.select p else s.mon u) := by
  simp only [step] at hs
  repeat' (split at hs)
  all_goals first
    | (cases hs; done)
    | (cases hs; left; exact ⟨rfl, rfl, rfl⟩)
    | (cases hs; right; rename_i h; exact ⟨h, rfl, rfl, rfl⟩)

theorem monFire_effect (N : Nat) (s s' : State) (lid : Lid) (hs : step N s (.monFire lid) = some s') :
    ∃ p, s.mon lid = .select p ∧ s'.routes = s.routes ∧ s'.nextLid = s.nextLid ∧
      s'.mon = fun u => if u = lid then MonPC.delete p else s.mon u := by
  cases hm : s.mon lid with
  | select p =>
    refine ⟨p, rfl, ?_⟩
    simp only [step, hm] at hs
    split at hs
    · cases hs; simp [State.setMon]
    · split at hs
      · cases hs; simp [State.setMon]
      · cases hs
  | absent => simp [step, hm] at hs
  | delete p => simp [step, hm] at hs
  | finished p => simp [step, hm] at hs

theorem monDelete_effect (N : Nat) (s s' : State) (lid : Lid) (hs : step N s (.monDelete lid) = some s') :
    ∃ p, s.mon lid = .delete p ∧ s'.routes = s.routes.filter (fun r => r.1 ≠ p) ∧ s'.nextLid = s.nextLid ∧
      s'.mon = fun u => if u = lid then MonPC.finished p else s.mon u := by
  cases hm : s.mon lid with
  | delete p =>
    refine ⟨p, rfl, ?_⟩
    simp only [step, hm] at hs
    split at hs
    · cases hs
    · cases hs; simp [State.setMon]
  | absent => simp only [step, hm] at hs; split at hs <;> cases hs
  | select p => simp only [step, hm] at hs; split at hs <;> cases hs
  | finished p => simp only [step, hm] at hs; split at hs <;> cases hs

theorem invOwn_step (N : Nat) (s s' : State) (l : Label) (hi : InvOwn s) (hs : step N s l = some s') : InvOwn s' := by
  obtain ⟨fresh, own⟩ := hi
  cases l with
  | route p =>
    rcases route_effect N s s' p hs with ⟨hr, hn, hm⟩ | ⟨hnone, hr, hn, hm⟩
    · exact ⟨by rw [hn, hm]; exact fresh, by rw [hr, hm]; exact own⟩
    · constructor
      · intro l hl
        rw [hn] at hl
        rw [hm]
        have hl' : s.nextLid + 1 ≤ l := hl
        have : l ≠ s.nextLid := fun e => by rw [e] at hl'; exact Nat.not_succ_le_self _ hl'
        simp only [this, ↓reduceIte]
        exact fresh l (Nat.le_of_succ_le hl')
      · intro l q hq
        rw [hm] at hq
        rw [hr]
        by_cases hl : l = s.nextLid
        · subst hl
          simp only [↓reduceIte, monPending, Option.some.injEq] at hq
          subst hq
          exact lookupRoute_cons_eq _ _ _
        · simp only [hl, ↓reduceIte] at hq
          have ho := own l q hq
          have hne : p ≠ q := by
            intro e; subst e; rw [hnone] at ho; cases ho
          rw [lookupRoute_cons_ne _ _ _ _ hne]
          exact ho
  | monFire lid =>
    obtain ⟨p, hsel, hr, hn, hm⟩ := monFire_effect N s s' lid hs
    constructor
    · intro l hl
      rw [hn] at hl
      rw [hm]
      by_cases h : l = lid
      · subst h; have := fresh l hl; rw [this] at hsel; cases hsel
      · simp only [h, ↓reduceIte]; exact fresh l hl
    · intro l q hq
      rw [hm] at hq
      rw [hr]
      by_cases h : l = lid
      · subst h
        simp only [↓reduceIte, monPending, Option.some.injEq] at hq
        subst hq
        exact own l p (by simp [hsel, monPending])
      · simp only [h, ↓reduceIte] at hq
        exact own l q hq
  | monDelete lid =>
    obtain ⟨p, hdel, hr, hn, hm⟩ := monDelete_effect N s s' lid hs
    constructor
    · intro l hl
      rw [hn] at hl
      rw [hm]
      by_cases h : l = lid
      · subst h; have := fresh l hl; rw [this] at hdel; cases hdel
      · simp only [h, ↓reduceIte]; exact fresh l hl
    · intro l q hq
      rw [hm] at hq
      rw [hr]
      by_cases h : l = lid
      · subst h; simp [monPending] at hq
      · simp only [h, ↓reduceIte] at hq
        have ho := own l q hq
        have hown := own lid p (by simp [hdel, monPending])
        have hne : q ≠ p := by
          intro e; subst e; rw [ho] at hown; cases hown; exact h rfl
        rw [lookupRoute_filter_ne _ _ _ hne]
        exact ho
  | _ =>
    simp only [step] at hs
    repeat' (split at hs)
    all_goals first
      | (cases hs; done)
      | (cases hs
         constructor
         · simpa using fresh
         · simpa using own)

theorem invOwn_reachable (N : Nat) (s : State) (h : Reachable N s) : InvOwn s := by
  induction h with
  | init => exact invOwn_init
  | step l _ hs ih => exact invOwn_step N _ _ l ih hs

end Drpc.Migrate.Mux
