import Drpc.Lemmas.StreamInvSig
/-
  Invariants of the atomic-step stream model, part 4: the one-slot packet buffer
  (`drpcstream/pktbuf.go`) with the ghost logs `putLog` (payloads stored by `Put`) and `getLog`
  (payloads handed out by `Get`): FIFO, exactly-once, the lent buffer is not overwritten.
-/
namespace Drpc.Stream
attribute [local simp] firstSec flushSec getInflight getOnce relSh Option.join_eq_some_iff Option.join_eq_none_iff

/-- between `pbuf.Get` (which lends the buffer: `held := true`) and `pbuf.Done` -/
def pHeldSec : PC → Bool
  | .unmarshal .. | .pdone _ => true
  | _ => false

def Ret.data? : Ret → Option Bytes | .data d => some d | _ => none

/-- the payload a receive is holding / about to return -/
def recvData : PC → Option Bytes
  | .unmarshal d _ => some d
  | .pdone r => r.data?
  | _ => none

gen_ctor_simp pHeldSec
gen_ctor_simp Ret.data?
gen_ctor_simp recvData
@[simp] theorem pHeldSec_afterTerm (c : Call) : pHeldSec (afterTerm c) = false := by cases c <;> rfl
@[simp] theorem recvData_afterTerm (c : Call) : recvData (afterTerm c) = none := by cases c <;> rfl

theorem pHeldSec_holdsR (p : PC) (h : pHeldSec p = true) : holdsR p = true := by cases p <;> simp_all
theorem recvData_holdsR (p : PC) (d : Bytes) (h : recvData p = some d) : holdsR p = true := by cases p <;> simp_all

@[simp] theorem pbufClose_pset (sh : Sh) (e : Err) :
    (pbufClose sh e).pset = (if sh.perr.isNone then false else sh.pset) := rfl
@[simp] theorem pbufClose_pdata (sh : Sh) (e : Err) :
    (pbufClose sh e).pdata = (if sh.perr.isNone then [] else sh.pdata) := rfl
@[simp] theorem pbufClose_perr (sh : Sh) (e : Err) : (pbufClose sh e).perr = setOnce sh.perr e := rfl

/-- the state of the slot and the two logs -/
structure PB (sh : Sh) : Prop where
  held : sh.pheld = true → sh.pset = true ∧ sh.perr = none
  err : sh.perr.isSome = true → sh.pset = false
  /-- stored and not yet handed out: it is the one payload `putLog` is ahead by -/
  stored : sh.pset = true → sh.pheld = false → sh.putLog = sh.getLog ++ [sh.pdata]
  /-- handed out (lent) and not yet returned: the logs agree and it is the last one handed out -/
  lent : sh.pheld = true → sh.putLog = sh.getLog ∧ sh.getLog.getLast? = some sh.pdata
  /-- slot empty: everything stored was handed out — unless `Close` dropped the one stored payload -/
  empty : sh.pset = false → sh.putLog = sh.getLog ∨ (sh.perr.isSome = true ∧ ∃ d, sh.putLog = sh.getLog ++ [d])

theorem step_pheld1 {s s' : St} {t : Tid} (h : step s t = some s')
    (hr : LockInv (·.r) holdsR s) (hpb : PB s.sh)
    (ih : ∀ u, pHeldSec (s.pc u) = true → s.sh.pheld = true) :
    ∀ u, pHeldSec (s'.pc u) = true → s'.sh.pheld = true := by
  have iht := ih t
  have hoth : holdsR (s.pc t) = true → NoOther pHeldSec s t := fun h1 => (hr.others h1).mono pHeldSec_holdsR
  have hh := hpb.held
  unfold step at h
  pc_cases s t hp =>
    rw [hp] at iht hoth
    step_explode h hp
    all_goals (simp at iht hoth)
    all_goals (refine loc_step (Q := fun sh => sh.pheld = true) ih ?_ ?_)
    all_goals (simp (config := { contextual := true }) [*])
    all_goals (try grind)

theorem step_pheld2 {s s' : St} {t : Tid} (h : step s t = some s')
    (hr : LockInv (·.r) holdsR s)
    (ih : FlagInv (·.pheld) (·.r) pHeldSec s) : FlagInv (·.pheld) (·.r) pHeldSec s' := by
  have hrt := hr t
  have ihf : s.sh.pheld = true → s.sh.r = some t → pHeldSec (s.pc t) = true := by
    intro h1 h2; obtain ⟨u, hu1, hu2⟩ := ih h1; dsimp only at hu1; rw [h2] at hu1; cases hu1; exact hu2
  unfold step at h
  pc_cases s t hp =>
    rw [hp] at hrt ihf
    step_explode h hp
    all_goals (simp at hrt ihf)
    all_goals (refine flag_step ih ?_)
    all_goals (simp (config := { contextual := true }) [*])
    all_goals (try grind)

theorem step_PB {s s' : St} {t : Tid} (h : step s t = some s')
    (hr : LockInv (·.r) holdsR s)
    (h1 : ∀ u, pHeldSec (s.pc u) = true → s.sh.pheld = true)
    (h2 : FlagInv (·.pheld) (·.r) pHeldSec s)
    (ih : PB s.sh) : PB s'.sh := by
  have hrt := hr t
  have h1t := h1 t
  have ihf : s.sh.pheld = true → s.sh.r = some t → pHeldSec (s.pc t) = true := by
    intro h1 h2'; obtain ⟨u, hu1, hu2⟩ := h2 h1; dsimp only at hu1; rw [h2'] at hu1; cases hu1; exact hu2
  obtain ⟨i1, i2, i3, i4, i5⟩ := ih
  unfold step at h
  pc_cases s t hp =>
    rw [hp] at hrt h1t ihf
    step_explode h hp
    all_goals (simp at hrt h1t ihf)
    all_goals (first | exact ⟨i1, i2, i3, i4, i5⟩ | skip)
    all_goals (constructor <;> simp (config := { contextual := true }) [*])
    all_goals (cases hps : s.sh.pset <;> cases hpe : s.sh.perr <;> cases hph : s.sh.pheld <;> simp_all)

/-- `∀ u, R (pc u) sh` for a relation that is trivial outside `cls` -/
theorem rel_step {cls : PC → Bool} {R : PC → Sh → Prop} {s : St} {t : Tid} {sh' : Sh} {p' : PC}
    (htriv : ∀ p sh, cls p = false → R p sh)
    (ih : ∀ u, R (s.pc u) s.sh)
    (hA : R p' sh')
    (hB : (∀ p, R p s.sh → R p sh') ∨ NoOther cls s t) :
    ∀ u, R ((s.upd t sh' p').pc u) (s.upd t sh' p').sh := by
  intro u
  rw [upd_sh]
  by_cases hu : u = t
  · subst hu; rw [upd_pc_self]; exact hA
  · rw [upd_pc_ne _ _ _ _ _ hu]
    rcases hB with h | h
    · exact h _ (ih u)
    · exact htriv _ _ (h u hu)

/-- what a receive holds is the payload handed out last -/
def RecvLast (p : PC) (sh : Sh) : Prop := ∀ d, recvData p = some d → sh.getLog.getLast? = some d

theorem recvLast_triv (p : PC) (sh : Sh) (h : holdsR p = false) : RecvLast p sh := by
  intro d hd; rw [recvData_holdsR p d hd] at h; cases h

theorem step_recvLast {s s' : St} {t : Tid} (h : step s t = some s')
    (hr : LockInv (·.r) holdsR s)
    (ih : ∀ u, RecvLast (s.pc u) s.sh) : ∀ u, RecvLast (s'.pc u) s'.sh := by
  have iht := ih t
  have hoth : holdsR (s.pc t) = true → NoOther holdsR s t := fun h1 => hr.others h1
  unfold step at h
  pc_cases s t hp =>
    rw [hp] at iht hoth
    step_explode h hp
    all_goals (simp [RecvLast] at iht hoth)
    all_goals (refine rel_step recvLast_triv ih ?_ ?_)
    all_goals (simp (config := { contextual := true }) [RecvLast, *])
    all_goals (try grind)

/-! ### environment steps -/

theorem env_pbuf {s s' : St} {e : Env} (h : envStep s e = some s') :
    s'.sh.pset = s.sh.pset ∧ s'.sh.pheld = s.sh.pheld ∧ s'.sh.pdata = s.sh.pdata ∧ s'.sh.perr = s.sh.perr ∧
    s'.sh.putLog = s.sh.putLog ∧ s'.sh.getLog = s.sh.getLog := by
  env_cases h with t hp hi => simp

theorem env_pheld1 {s s' : St} {e : Env} (h : envStep s e = some s')
    (ih : ∀ u, pHeldSec (s.pc u) = true → s.sh.pheld = true) :
    ∀ u, pHeldSec (s'.pc u) = true → s'.sh.pheld = true := by
  env_cases h with t hp hi =>
    have iht := ih t
    rw [hp] at iht
    simp at iht
    refine loc_step (Q := fun sh => sh.pheld = true) ih ?_ ?_ <;> simp [*]

theorem env_pheld2 {s s' : St} {e : Env} (h : envStep s e = some s')
    (hr : LockInv (·.r) holdsR s)
    (ih : FlagInv (·.pheld) (·.r) pHeldSec s) : FlagInv (·.pheld) (·.r) pHeldSec s' := by
  env_cases h with t hp hi =>
    have hrt := hr t
    rw [hp] at hrt
    simp at hrt
    refine flag_step ih ?_
    simp (config := { contextual := true }) [*]

theorem env_recvLast {s s' : St} {e : Env} (h : envStep s e = some s')
    (ih : ∀ u, RecvLast (s.pc u) s.sh) : ∀ u, RecvLast (s'.pc u) s'.sh := by
  env_cases h with t hp hi =>
    have iht := ih t
    rw [hp] at iht
    simp [RecvLast] at iht
    refine rel_step recvLast_triv ih ?_ (.inl ?_) <;> simp (config := { contextual := true }) [RecvLast, *]
    try (split <;> simp)

/-! ### all of it, in every reachable state -/

structure PktBuf (s : St) : Prop where
  /-- `held` is set exactly while the read-lock owner is between `Get` and `Done` -/
  pheld1 : ∀ u, pHeldSec (s.pc u) = true → s.sh.pheld = true
  pheld2 : FlagInv (·.pheld) (·.r) pHeldSec s
  pb : PB s.sh
  recvLast : ∀ u, RecvLast (s.pc u) s.sh

theorem PktBuf.init (o : Opts) : PktBuf { opts := o } := by
  refine ⟨by simp, by intro h; simp at h, ⟨by simp, by simp, by simp, by simp, by simp⟩, ?_⟩
  intro u d hd; simp at hd

theorem PktBuf.step {s s' : St} {t : Tid} (h : step s t = some s') (l : Locks s) (i : PktBuf s) : PktBuf s' :=
  { pheld1 := step_pheld1 h l.r i.pb i.pheld1
    pheld2 := step_pheld2 h l.r i.pheld2
    pb := step_PB h l.r i.pheld1 i.pheld2 i.pb
    recvLast := step_recvLast h l.r i.recvLast }

theorem PktBuf.env {s s' : St} {e : Env} (h : envStep s e = some s') (l : Locks s) (i : PktBuf s) : PktBuf s' := by
  obtain ⟨h1, h2, h3, h4, h5, h6⟩ := env_pbuf h
  exact
  { pheld1 := env_pheld1 h i.pheld1
    pheld2 := env_pheld2 h l.r i.pheld2
    pb := by
      obtain ⟨a, b, c, d, e⟩ := i.pb
      constructor <;> simp only [h1, h2, h3, h4, h5, h6] <;> assumption
    recvLast := env_recvLast h i.recvLast }

theorem PktBuf.spawn {s : St} {t : Tid} {c : Call} (hd : ∃ r, s.pc t = .done r) (l : Locks s) (i : PktBuf s) :
    PktBuf (s.setPc t (.start c)) := by
  obtain ⟨r, hp⟩ := hd
  rw [setPc_eq_upd]
  have hrt := l.r t
  rw [hp] at hrt
  simp at hrt
  exact
  { pheld1 := loc_step (Q := fun sh => sh.pheld = true) i.pheld1 (by simp) (by simp)
    pheld2 := flag_step i.pheld2 (by simp (config := { contextual := true }) [*])
    pb := by simpa using i.pb
    recvLast := rel_step recvLast_triv i.recvLast (by intro d hd; simp at hd) (.inl fun _ h => h) }

theorem reach_pktbuf {s : St} (h : Reach s) : PktBuf s := by
  induction h with
  | init o => exact PktBuf.init o
  | step hr hs ih => exact ih.step hs (reach_locks hr)
  | env hr he ih => exact ih.env he (reach_locks hr)
  | spawn hr hd ih => exact ih.spawn hd (reach_locks hr)

/-! ### the lent buffer -/

/-- while the buffer is lent (`held`), the only step that touches the packet buffer or its logs is
    the `Done` of the receive that holds it -/
theorem step_lend {s s' : St} {t : Tid} (h : step s t = some s') (l : Locks s) (i : PktBuf s)
    (hh : s.sh.pheld = true) :
    (∃ r, s.pc t = .pdone r) ∨
    (s'.sh.pset = s.sh.pset ∧ s'.sh.pheld = true ∧ s'.sh.pdata = s.sh.pdata ∧ s'.sh.perr = s.sh.perr ∧
     s'.sh.putLog = s.sh.putLog ∧ s'.sh.getLog = s.sh.getLog) := by
  have hrt := l.r t
  have ihf : s.sh.r = some t → pHeldSec (s.pc t) = true := by
    intro h2; obtain ⟨u, hu1, hu2⟩ := i.pheld2 hh; dsimp only at hu1; rw [h2] at hu1; cases hu1; exact hu2
  obtain ⟨hps, hpe⟩ := i.pb.held hh
  unfold step at h
  pc_cases s t hp =>
    rw [hp] at hrt ihf
    step_explode h hp
    all_goals (simp at hrt ihf)
    all_goals (simp_all)

end Drpc.Stream
