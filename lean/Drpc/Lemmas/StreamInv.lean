import Drpc.Lemmas.StreamSolo
import Drpc.Lemmas.CtorSimp
/-
  Invariants of all reachable states of the atomic-step stream model (`Drpc/Stream/Conc.lean`),
  part 1: reachability, program-counter classifiers, generic preservation lemmas, the lock
  discipline (`mu`, `write`, `read`, the two `held` flags, the transport write in flight, the
  flush `sync.Once`).

  Method (DESIGN Appendix D): every invariant is a statement about `Bool` classifiers of `pc`
  and fields of `sh`; a step of thread `t` always has the form `s.upd t sh' p'`, so each
  invariant shape gets ONE generic preservation lemma about `s.upd t sh' p'` and the per-step
  work is `simp` on the side conditions (one lemma per invariant, one goal per step case).
-/
namespace Drpc.Stream

/-- States reachable from a fresh stream: steps of threads, environment events, and any thread
    that is not running a call may start any call. -/
inductive Reach : St → Prop where
  | init (o : Opts) : Reach { opts := o }
  | step {s s' : St} {t : Tid} : Reach s → step s t = some s' → Reach s'
  | env {s s' : St} {e : Env} : Reach s → envStep s e = some s' → Reach s'
  | spawn {s : St} {t : Tid} {c : Call} : Reach s → (∃ r, s.pc t = .done r) → Reach (s.setPc t (.start c))

theorem upd_pc (s : St) (t u : Tid) (sh : Sh) (p : PC) : (s.upd t sh p).pc u = if u = t then p else s.pc u := by
  simp [St.upd, St.setPc, St.setSh]
theorem upd_pc_ne (s : St) (t u : Tid) (sh : Sh) (p : PC) (h : u ≠ t) : (s.upd t sh p).pc u = s.pc u := by
  simp [upd_pc, h]

theorem nisSome {α} (o : Option α) : (¬ o.isSome = true) ↔ o = none := by cases o <;> simp
theorem isSomeF {α} (o : Option α) : (o.isSome = false) ↔ o = none := by cases o <;> simp
theorem isNoneT {α} (o : Option α) : (o.isNone = true) ↔ o = none := by cases o <;> simp

/-! ### `pbufClose` touches only the packet buffer -/
@[simp] theorem pbufClose_send (sh : Sh) (e : Err) : (pbufClose sh e).send = sh.send := rfl
@[simp] theorem pbufClose_recv (sh : Sh) (e : Err) : (pbufClose sh e).recv = sh.recv := rfl
@[simp] theorem pbufClose_term (sh : Sh) (e : Err) : (pbufClose sh e).term = sh.term := rfl
@[simp] theorem pbufClose_fin (sh : Sh) (e : Err) : (pbufClose sh e).fin = sh.fin := rfl
@[simp] theorem pbufClose_cancel (sh : Sh) (e : Err) : (pbufClose sh e).cancel = sh.cancel := rfl
@[simp] theorem pbufClose_ctxDone (sh : Sh) (e : Err) : (pbufClose sh e).ctxDone = sh.ctxDone := rfl
@[simp] theorem pbufClose_finTokens (sh : Sh) (e : Err) : (pbufClose sh e).finTokens = sh.finTokens := rfl
@[simp] theorem pbufClose_mu (sh : Sh) (e : Err) : (pbufClose sh e).mu = sh.mu := rfl
@[simp] theorem pbufClose_w (sh : Sh) (e : Err) : (pbufClose sh e).w = sh.w := rfl
@[simp] theorem pbufClose_wHeld (sh : Sh) (e : Err) : (pbufClose sh e).wHeld = sh.wHeld := rfl
@[simp] theorem pbufClose_r (sh : Sh) (e : Err) : (pbufClose sh e).r = sh.r := rfl
@[simp] theorem pbufClose_rHeld (sh : Sh) (e : Err) : (pbufClose sh e).rHeld = sh.rHeld := rfl
@[simp] theorem pbufClose_once (sh : Sh) (e : Err) : (pbufClose sh e).once = sh.once := rfl
@[simp] theorem pbufClose_mid (sh : Sh) (e : Err) : (pbufClose sh e).mid = sh.mid := rfl
@[simp] theorem pbufClose_wbuf (sh : Sh) (e : Err) : (pbufClose sh e).wbuf = sh.wbuf := rfl
@[simp] theorem pbufClose_wFlag (sh : Sh) (e : Err) : (pbufClose sh e).wFlag = sh.wFlag := rfl
@[simp] theorem pbufClose_inflight (sh : Sh) (e : Err) : (pbufClose sh e).inflight = sh.inflight := rfl
@[simp] theorem pbufClose_wire (sh : Sh) (e : Err) : (pbufClose sh e).wire = sh.wire := rfl
@[simp] theorem pbufClose_pheld (sh : Sh) (e : Err) : (pbufClose sh e).pheld = sh.pheld := rfl
@[simp] theorem pbufClose_hist (sh : Sh) (e : Err) : (pbufClose sh e).hist = sh.hist := rfl
@[simp] theorem pbufClose_midN (sh : Sh) (e : Err) : (pbufClose sh e).midN = sh.midN := rfl
@[simp] theorem pbufClose_failed (sh : Sh) (e : Err) : (pbufClose sh e).failed = sh.failed := rfl
@[simp] theorem pbufClose_putLog (sh : Sh) (e : Err) : (pbufClose sh e).putLog = sh.putLog := rfl
@[simp] theorem pbufClose_getLog (sh : Sh) (e : Err) : (pbufClose sh e).getLog = sh.getLog := rfl
@[simp] theorem pbufClose_started (sh : Sh) (e : Err) : (pbufClose sh e).started = sh.started := rfl
@[simp] theorem pbufClose_sendRets (sh : Sh) (e : Err) : (pbufClose sh e).sendRets = sh.sendRets := rfl

/-! ### classifiers of calls, continuations, write sections -/

def Call.isSendCancel : Call → Bool | .sendCancel _ => true | _ => false
/-- msgSend / rawWrite: calls whose write section appends checked frames -/
def Call.isSend : Call → Bool | .msgSend .. | .rawWrite .. => true | _ => false
/-- calls that run `terminate` (or `terminateIfBothClosed`) while holding `s.write`:
    everything that reaches `pre` except Cancel and HandlePacket -/
def wCall : Call → Bool
  | .cancel _ | .handle .. => false
  | _ => true
/-- `checkFinished` inside `terminate` of a call that holds `s.write` -/
def kW : K → Bool | .term c => wCall c | _ => false
/-- `checkFinished` inside `terminate` (always under `s.mu`) -/
def kMu : K → Bool | .term _ => true | _ => false
def kRecv : K → Bool | .recv _ => true | _ => false
def FlushMode.isUnchecked : FlushMode → Bool | .unchecked => true | _ => false
/-- the RawFlush that MsgRecv runs inside `flush.Do` (not the ManualFlush re-flush) -/
def firstSec (sec : WSec) : Bool := sec.recvAfter.isSome && !sec.second

/-! ### classifiers of program counters -/

/-- owns `s.mu` -/
def holdsMu : PC → Bool
  | .chkTerm _ | .lockWmu _ | .heldWmu _ | .tryW _ | .pre _ | .hPClose _ | .tSet .. | .tClose ..
  | .unlockMu _ | .hRet _ => true
  | .cf1 k | .cf2 k | .cf3 k | .cfEnd k => kMu k
  | _ => false

/-- owns `s.write` (from the successful Lock/TryLock up to the `Mutex.Unlock` step) -/
def holdsW : PC → Bool
  | .heldW .. | .marshal .. | .heldWmu _ | .unlockMu _ | .frame _ | .writing .. | .flush _ | .ret ..
  | .unlockW .. => true
  | .chkTerm c => c.isSendCancel
  | .pre c | .hPClose c | .tSet _ c | .tClose _ c => wCall c
  | .cf1 k | .cf2 k | .cf3 k | .cfEnd k => kW k
  | _ => false

/-- between the `write.held := 1` store and the `write.held := 0` store -/
def wHeldSec : PC → Bool
  | .marshal .. | .unlockMu _ | .frame _ | .writing .. | .flush _ | .ret .. => true
  | .chkTerm c => c.isSendCancel
  | .pre c | .hPClose c | .tSet _ c | .tClose _ c => wCall c
  | .cf1 k | .cf2 k | .cf3 k | .cfEnd k => kW k
  | _ => false

/-- owns `s.read` -/
def holdsR : PC → Bool
  | .heldR _ | .get _ | .unmarshal .. | .pdone _ | .relR _ | .unlockR _ => true
  | _ => false

/-- between the `read.held := 1` store and the `read.held := 0` store -/
def rHeldSec : PC → Bool
  | .get _ | .unmarshal .. | .pdone _ | .relR _ => true
  | _ => false

/-- parked in a transport write -/
def inWriting : PC → Bool
  | .writing .. => true
  | _ => false

/-- certainly inside the `flush.Do` body of MsgRecv (in the write section of its RawFlush) -/
def onceSec : PC → Bool
  | .lockW _ sec | .heldW _ sec | .marshal _ sec | .frame sec | .writing sec _ | .flush sec | .ret sec _
  | .unlockW sec _ => firstSec sec
  | _ => false

/-- possibly inside the `flush.Do` body of MsgRecv: `onceSec`, or in the `checkFinished` that ends
    a RawFlush (the continuation `K` does not record whether that RawFlush was the one inside
    `flush.Do`; `sh.once` does) -/
def onceMay : PC → Bool
  | .lockW _ sec | .heldW _ sec | .marshal _ sec | .frame sec | .writing sec _ | .flush sec | .ret sec _
  | .unlockW sec _ => firstSec sec
  | .cf1 k | .cf2 k | .cf3 k | .cfEnd k => !kMu k
  | _ => false

/-- Shape of the program counters that the calls can actually produce (rules out junk such as
    `lockMu (sendCancel _)`, which `start` never generates).  Purely thread-local. -/
def pcOK : PC → Bool
  | .lockMu c => !c.isSendCancel
  | .lockWmu c | .heldWmu c => wCall c
  | .lockW c sec | .heldW c sec =>
    !sec.flush.isUnchecked && (!c.isSend || sec.checks) && (!firstSec sec || !c.isSend)
  | .marshal _ sec => !sec.flush.isUnchecked && sec.checks
  | .frame sec => !sec.checks || !sec.flush.isUnchecked
  | .writing sec fromFlush => fromFlush || !sec.checks || !sec.flush.isUnchecked
  | _ => true

gen_ctor_simp Call.isSendCancel
gen_ctor_simp Call.isSend
gen_ctor_simp wCall
gen_ctor_simp kW
gen_ctor_simp kMu
gen_ctor_simp kRecv
gen_ctor_simp FlushMode.isUnchecked
gen_ctor_simp holdsMu
gen_ctor_simp holdsW
gen_ctor_simp wHeldSec
gen_ctor_simp holdsR
gen_ctor_simp rHeldSec
gen_ctor_simp inWriting
gen_ctor_simp onceSec
gen_ctor_simp onceMay
gen_ctor_simp pcOK

@[simp] theorem holdsMu_afterTerm (c : Call) : holdsMu (afterTerm c) = true := by cases c <;> rfl
@[simp] theorem holdsW_afterTerm (c : Call) : holdsW (afterTerm c) = wCall c := by cases c <;> rfl
@[simp] theorem wHeldSec_afterTerm (c : Call) : wHeldSec (afterTerm c) = wCall c := by cases c <;> rfl
@[simp] theorem holdsR_afterTerm (c : Call) : holdsR (afterTerm c) = false := by cases c <;> rfl
@[simp] theorem rHeldSec_afterTerm (c : Call) : rHeldSec (afterTerm c) = false := by cases c <;> rfl
@[simp] theorem inWriting_afterTerm (c : Call) : inWriting (afterTerm c) = false := by cases c <;> rfl
@[simp] theorem onceSec_afterTerm (c : Call) : onceSec (afterTerm c) = false := by cases c <;> rfl
@[simp] theorem onceMay_afterTerm (c : Call) : onceMay (afterTerm c) = false := by cases c <;> rfl
@[simp] theorem pcOK_afterTerm (c : Call) : pcOK (afterTerm c) = true := by cases c <;> rfl

theorem wHeldSec_holdsW (p : PC) (h : wHeldSec p = true) : holdsW p = true := by
  cases p <;> simp_all [wHeldSec, holdsW]
theorem rHeldSec_holdsR (p : PC) (h : rHeldSec p = true) : holdsR p = true := by
  cases p <;> simp_all [rHeldSec, holdsR]
theorem inWriting_holdsW (p : PC) (h : inWriting p = true) : holdsW p = true := by
  cases p <;> simp_all [inWriting, holdsW]
theorem inWriting_wHeldSec (p : PC) (h : inWriting p = true) : wHeldSec p = true := by
  cases p <;> simp_all [inWriting, wHeldSec]
theorem onceSec_onceMay (p : PC) (h : onceSec p = true) : onceMay p = true := by
  cases p <;> simp_all [onceSec, onceMay]

/-! ### the case analysis of one step -/

/-- case analysis on `s.pc t`, with the `Call` / `K` argument split where `stepPC` matches on it -/
syntax "pc_cases " ident ident ident " => " tacticSeq : tactic
macro_rules
| `(tactic| pc_cases $s $t $hp => $tac) => `(tactic|
   cases $hp:ident : St.pc $s $t with
   | start c => cases c <;> ($tac)
   | once c => cases c <;> ($tac)
   | heldW c sec => cases c <;> ($tac)
   | marshal c sec => cases c <;> ($tac)
   | chkTerm c => cases c <;> ($tac)
   | pre c => cases c <;> ($tac)
   | hPClose c => cases c <;> ($tac)
   | hTerm c => cases c <;> ($tac)
   | cfEnd k => cases k <;> ($tac)
   | _ => ($tac))

/-- turn `h : stepPC s t (s.pc t) = some s'` (with `hp : s.pc t = …`) into one goal per branch of
    the step, with `s'` replaced by `s.upd t sh' p'` and the branch conditions normalised -/
syntax "step_explode " ident ident : tactic
macro_rules
| `(tactic| step_explode $h $hp) => `(tactic|
   (rw [$hp:ident] at $h:ident
    simp only [stepPC] at $h:ident
    try (repeat' split at $h:ident)
    all_goals (first | (simp only [reduceCtorEq] at $h:ident; done) | contradiction | skip)
    all_goals (simp only [Option.some.injEq, setPc_eq_upd] at $h:ident; subst $h:ident)
    all_goals (try simp only [Bool.or_eq_true, Bool.and_eq_true, not_or, not_and, nisSome, isSomeF, isNoneT] at *)))

/-! ### generic preservation lemmas -/

/-- a lock-like cell `get sh : Option Tid` is owned exactly by the thread whose pc is in `cls` -/
def LockInv (get : Sh → Option Tid) (cls : PC → Bool) (s : St) : Prop :=
  ∀ u, get s.sh = some u ↔ cls (s.pc u) = true

theorem LockInv.unique {get : Sh → Option Tid} {cls : PC → Bool} {s : St} (h : LockInv get cls s)
    {t u : Tid} (ht : cls (s.pc t) = true) (hu : cls (s.pc u) = true) : t = u := by
  have h1 := (h t).mpr ht
  have h2 := (h u).mpr hu
  rw [h1] at h2; exact Option.some.inj h2

/-- no thread other than `t` is in `cls` (kept opaque so that `simp` does not unfold `cls (s.pc u)`) -/
def NoOther (cls : PC → Bool) (s : St) (t : Tid) : Prop := ∀ u, u ≠ t → cls (s.pc u) = false

theorem NoOther.mono {cls cls' : PC → Bool} {s : St} {t : Tid} (h : NoOther cls s t)
    (hm : ∀ p, cls' p = true → cls p = true) : NoOther cls' s t := by
  intro u hu
  cases hc : cls' (s.pc u) with
  | false => rfl
  | true => have := h u hu; rw [hm _ hc] at this; cases this

theorem LockInv.others {get : Sh → Option Tid} {cls : PC → Bool} {s : St} (h : LockInv get cls s)
    {t : Tid} (ht : cls (s.pc t) = true) : NoOther cls s t := by
  intro u hu
  cases hc : cls (s.pc u) with
  | false => rfl
  | true => exact absurd (h.unique hc ht) hu

theorem LockInv.free {get : Sh → Option Tid} {cls : PC → Bool} {s : St} (h : LockInv get cls s)
    (hn : get s.sh = none) : ∀ u, cls (s.pc u) = false := by
  intro u
  cases hc : cls (s.pc u) with
  | false => rfl
  | true => have := (h u).mpr hc; rw [hn] at this; cases this

theorem lock_step {get : Sh → Option Tid} {cls : PC → Bool} {s : St} {t : Tid} {sh' : Sh} {p' : PC}
    (ih : LockInv get cls s)
    (hA : get sh' = some t ↔ cls p' = true)
    (hB : get sh' = get s.sh ∨ (get s.sh = none ∧ get sh' = some t) ∨ (get s.sh = some t ∧ get sh' = none)) :
    LockInv get cls (s.upd t sh' p') := by
  intro u
  by_cases hu : u = t
  · subst hu; simpa using hA
  · rw [upd_pc_ne _ _ _ _ _ hu, upd_sh, ← ih u]
    rcases hB with h | ⟨h1, h2⟩ | ⟨h1, h2⟩
    · rw [h]
    · rw [h1, h2]; simp; exact fun h => hu h.symm
    · rw [h1, h2]; simp; exact fun h => hu h.symm

/-- `∀ u, cls (pc u)`: purely thread-local -/
theorem all_step {cls : PC → Bool} {s : St} {t : Tid} {sh' : Sh} {p' : PC}
    (ih : ∀ u, cls (s.pc u) = true) (hA : cls p' = true) :
    ∀ u, cls ((s.upd t sh' p').pc u) = true := by
  intro u
  by_cases hu : u = t
  · subst hu; simpa using hA
  · rw [upd_pc_ne _ _ _ _ _ hu]; exact ih u

/-- `∀ u, cls (pc u) → Q sh`: the stepping thread establishes `Q` if it enters `cls`; for the
    others `Q` is stable under the step, or no other thread is in `cls` -/
theorem loc_step {cls : PC → Bool} {Q : Sh → Prop} {s : St} {t : Tid} {sh' : Sh} {p' : PC}
    (ih : ∀ u, cls (s.pc u) = true → Q s.sh)
    (hA : cls p' = true → Q sh')
    (hB : (Q s.sh → Q sh') ∨ NoOther cls s t) :
    ∀ u, cls ((s.upd t sh' p').pc u) = true → Q (s.upd t sh' p').sh := by
  intro u hc
  rw [upd_sh]
  by_cases hu : u = t
  · subst hu; rw [upd_pc_self] at hc; exact hA hc
  · rw [upd_pc_ne _ _ _ _ _ hu] at hc
    rcases hB with h | h
    · exact h (ih u hc)
    · rw [h u hu] at hc; cases hc

/-- `∀ u, cls (pc u) → get sh = some u` (the thread certainly owns the cell) -/
theorem own_step {get : Sh → Option Tid} {cls : PC → Bool} {s : St} {t : Tid} {sh' : Sh} {p' : PC}
    (ih : ∀ u, cls (s.pc u) = true → get s.sh = some u)
    (hA : cls p' = true → get sh' = some t)
    (hB : get sh' = get s.sh ∨ get s.sh = none ∨ get s.sh = some t) :
    ∀ u, cls ((s.upd t sh' p').pc u) = true → get (s.upd t sh' p').sh = some u := by
  intro u hc
  rw [upd_sh]
  by_cases hu : u = t
  · subst hu; rw [upd_pc_self] at hc; exact hA hc
  · rw [upd_pc_ne _ _ _ _ _ hu] at hc
    have := ih u hc
    rcases hB with h | h | h
    · rw [h]; exact this
    · rw [h] at this; cases this
    · rw [h] at this; exact absurd (Option.some.inj this).symm hu

/-- `∀ u, get sh = some u → cls (pc u)` (the owner is somewhere in `cls`) -/
theorem owner_step {get : Sh → Option Tid} {cls : PC → Bool} {s : St} {t : Tid} {sh' : Sh} {p' : PC}
    (ih : ∀ u, get s.sh = some u → cls (s.pc u) = true)
    (hA : get sh' = some t → cls p' = true)
    (hB : get sh' = get s.sh ∨ get sh' = none ∨ get sh' = some t) :
    ∀ u, get (s.upd t sh' p').sh = some u → cls ((s.upd t sh' p').pc u) = true := by
  intro u hc
  rw [upd_sh] at hc
  by_cases hu : u = t
  · subst hu; rw [upd_pc_self]; exact hA hc
  · rw [upd_pc_ne _ _ _ _ _ hu]
    rcases hB with h | h | h
    · rw [h] at hc; exact ih u hc
    · rw [h] at hc; cases hc
    · rw [h] at hc; exact absurd (Option.some.inj hc).symm hu

/-- `flag sh = true → the owner (taken from `get sh`) is in `cls`` -/
def getInflight (sh : Sh) : Option Tid := sh.inflight.map (·.1)
/-- the thread running the body of `flush.Do`, if any -/
def getOnce (sh : Sh) : Option Tid := sh.once.join

def FlagInv (flag : Sh → Bool) (get : Sh → Option Tid) (cls : PC → Bool) (s : St) : Prop :=
  flag s.sh = true → ∃ u, get s.sh = some u ∧ cls (s.pc u) = true

theorem flag_step {flag : Sh → Bool} {get : Sh → Option Tid} {cls : PC → Bool} {s : St} {t : Tid}
    {sh' : Sh} {p' : PC}
    (ih : FlagInv flag get cls s)
    (h : flag sh' = true →
      (get sh' = some t ∧ cls p' = true) ∨
      (flag s.sh = true ∧ get sh' = get s.sh ∧ get s.sh ≠ some t) ∨
      (flag s.sh = true ∧ get s.sh = none)) :
    FlagInv flag get cls (s.upd t sh' p') := by
  intro hf
  rw [upd_sh] at hf ⊢
  rcases h hf with ⟨h1, h2⟩ | ⟨h1, h2, h3⟩ | ⟨h1, h2⟩
  · exact ⟨t, h1, by simpa using h2⟩
  · obtain ⟨u, hu1, hu2⟩ := ih h1
    have hne : u ≠ t := fun e => h3 (e ▸ hu1)
    exact ⟨u, h2 ▸ hu1, by rw [upd_pc_ne _ _ _ _ _ hne]; exact hu2⟩
  · obtain ⟨u, hu1, _⟩ := ih h1
    rw [h2] at hu1; cases hu1

/-! ### the case analysis of an environment step -/

/-- the shared state after the transport write carrying `frs` completed with result `err` -/
def relSh (sh : Sh) (frs : List Frame) (err : Option Nat) : Sh :=
  { sh with inflight := none, wFlag := false,
            wire := if err.isNone then sh.wire ++ [frs] else sh.wire,
            failed := sh.failed || err.isSome }

/-- case analysis of an environment step -/
@[elab_as_elim]
theorem envStep_elim {motive : St → Prop} {s s' : St} {e : Env} (h : envStep s e = some s')
    (hret : ∀ t frs sec ff err r, s.sh.inflight = some (t, frs) → s.pc t = .writing sec ff →
      motive (s.upd t (relSh s.sh frs err) (.ret sec r)))
    (hflush : ∀ t frs sec, s.sh.inflight = some (t, frs) → s.pc t = .writing sec false → sec.frames = [] →
      motive (s.upd t (relSh s.sh frs none) (.flush sec)))
    (hframe : ∀ t frs sec, s.sh.inflight = some (t, frs) → s.pc t = .writing sec false → sec.frames ≠ [] →
      motive (s.upd t (relSh s.sh frs none) (.frame sec)))
    (hmar : ∀ t d sec, s.pc t = .marshal (.msgSend d true) sec →
      motive (s.upd t s.sh (.marshal (.msgSend d false) sec)))
    (hunm : ∀ t d m, s.pc t = .unmarshal d m → m.park = true →
      motive (s.upd t s.sh (.pdone (if m.fail then .err .unmarshal else .data d)))) : motive s' := by
  unfold envStep at h
  cases e with
  | release err =>
    simp only at h
    split at h
    · cases h
    · rename_i t frs hi
      split at h
      · rename_i sec ff hp
        split at h
        · cases h; exact hret t frs sec ff err _ hi hp
        · split at h
          · cases h; exact hret t frs sec ff _ _ hi hp
          · have hff : ff = false := by simpa using ‹¬ ff = true›
            subst hff
            by_cases hfr : sec.frames = []
            · simp only [hfr, List.isEmpty_nil, if_true] at h
              cases h; exact hflush t frs sec hi hp hfr
            · have : sec.frames.isEmpty = false := by simpa using hfr
              simp only [this, Bool.false_eq_true, if_false] at h
              cases h; exact hframe t frs sec hi hp hfr
      · cases h
  | marshalDone t =>
    simp only at h
    split at h
    · rename_i d sec hp; cases h; rw [setPc_eq_upd]; exact hmar t d sec hp
    · cases h
  | unmarshalDone t =>
    simp only at h
    split at h
    · rename_i d m hp
      split at h
      · cases h; rw [setPc_eq_upd]; exact hunm t d m hp ‹_›
      · cases h
    · cases h

/-- case analysis of an environment step: `t` is the thread concerned, `hp` its pc, `hi` (release
    only) the transport write in flight -/
syntax "env_cases " ident " with " ident ident ident " => " tacticSeq : tactic
macro_rules
| `(tactic| env_cases $h with $t $hp $hi => $tac) => `(tactic|
   (refine envStep_elim $h ?_ ?_ ?_ ?_ ?_
    · intro $t frs sec ff err r $hi $hp
      ($tac)
    · intro $t frs sec $hi $hp hfr
      ($tac)
    · intro $t frs sec $hi $hp hfr
      ($tac)
    · intro $t d sec $hp
      have $hi : True := trivial
      ($tac)
    · intro $t d m $hp hm
      have $hi : True := trivial
      ($tac)))

attribute [local simp] firstSec flushSec getInflight getOnce relSh Option.join_eq_some_iff Option.join_eq_none_iff

/-! ### the program counters are well-shaped -/

theorem step_pcOK {s s' : St} {t : Tid} (h : step s t = some s')
    (ih : ∀ u, pcOK (s.pc u) = true) : ∀ u, pcOK (s'.pc u) = true := by
  have iht := ih t
  unfold step at h
  pc_cases s t hp =>
    rw [hp] at iht
    step_explode h hp
    all_goals (refine all_step ih ?_)
    all_goals (simp at iht ⊢)
    all_goals (try simp [*])

theorem env_pcOK {s s' : St} {e : Env} (h : envStep s e = some s')
    (ih : ∀ u, pcOK (s.pc u) = true) : ∀ u, pcOK (s'.pc u) = true := by
  env_cases h with t hp hi =>
    have iht := ih t
    rw [hp] at iht
    refine all_step ih ?_
    simp at iht ⊢
    try simp [*]

/-! ### `s.mu`, `s.write`, `s.read` -/

theorem step_mu {s s' : St} {t : Tid} (h : step s t = some s')
    (ih : LockInv (·.mu) holdsMu s) : LockInv (·.mu) holdsMu s' := by
  have iht := ih t
  unfold step at h
  pc_cases s t hp =>
    rw [hp] at iht
    step_explode h hp
    all_goals (simp at iht)
    all_goals (refine lock_step ih ?_ ?_ <;> simp [*])

theorem env_mu {s s' : St} {e : Env} (h : envStep s e = some s')
    (ih : LockInv (·.mu) holdsMu s) : LockInv (·.mu) holdsMu s' := by
  env_cases h with t hp hi =>
    have iht := ih t
    rw [hp] at iht
    simp at iht
    refine lock_step ih ?_ ?_ <;> simp [*]

theorem step_w {s s' : St} {t : Tid} (h : step s t = some s')
    (ok : ∀ u, pcOK (s.pc u) = true)
    (ih : LockInv (·.w) holdsW s) : LockInv (·.w) holdsW s' := by
  have iht := ih t
  have okt := ok t
  unfold step at h
  pc_cases s t hp =>
    rw [hp] at iht okt
    step_explode h hp
    all_goals (simp at iht okt)
    all_goals (refine lock_step ih ?_ ?_ <;> simp [*])

theorem env_w {s s' : St} {e : Env} (h : envStep s e = some s')
    (ih : LockInv (·.w) holdsW s) : LockInv (·.w) holdsW s' := by
  env_cases h with t hp hi =>
    have iht := ih t
    rw [hp] at iht
    simp at iht
    refine lock_step ih ?_ ?_ <;> simp [*]

theorem step_r {s s' : St} {t : Tid} (h : step s t = some s')
    (ih : LockInv (·.r) holdsR s) : LockInv (·.r) holdsR s' := by
  have iht := ih t
  unfold step at h
  pc_cases s t hp =>
    rw [hp] at iht
    step_explode h hp
    all_goals (simp at iht)
    all_goals (refine lock_step ih ?_ ?_ <;> simp [*])

theorem env_r {s s' : St} {e : Env} (h : envStep s e = some s')
    (ih : LockInv (·.r) holdsR s) : LockInv (·.r) holdsR s' := by
  env_cases h with t hp hi =>
    have iht := ih t
    rw [hp] at iht
    simp at iht
    refine lock_step ih ?_ ?_ <;> simp [*]

/-! ### the transport write in flight belongs to the thread parked in `writing` -/

theorem inflight_free {s : St} (hw : LockInv (·.w) holdsW s) (hi : LockInv getInflight inWriting s) {t : Tid}
    (h1 : holdsW (s.pc t) = true) (h2 : inWriting (s.pc t) = false) : s.sh.inflight = none := by
  cases hx : s.sh.inflight with
  | none => rfl
  | some x =>
    have h3 := (hi x.1).mp (by simp [getInflight, hx])
    have := hw.unique (inWriting_holdsW _ h3) h1
    rw [this, h2] at h3; cases h3

theorem step_inflight {s s' : St} {t : Tid} (h : step s t = some s')
    (hw : LockInv (·.w) holdsW s)
    (ih : LockInv getInflight inWriting s) : LockInv getInflight inWriting s' := by
  have iht := ih t
  have hfree := inflight_free hw ih (t := t)
  unfold step at h
  pc_cases s t hp =>
    rw [hp] at iht hfree
    step_explode h hp
    all_goals (simp at iht hfree)
    all_goals (refine lock_step ih ?_ ?_ <;> simp [*])

theorem env_inflight {s s' : St} {e : Env} (h : envStep s e = some s')
    (ih : LockInv getInflight inWriting s) : LockInv getInflight inWriting s' := by
  env_cases h with t hp hi =>
    have iht := ih t
    rw [hp] at iht
    simp at iht
    refine lock_step ih ?_ ?_ <;> simp [*]

/-! ### the `held` flags of the two inspectMutexes -/

theorem step_wHeld1 {s s' : St} {t : Tid} (h : step s t = some s')
    (ok : ∀ u, pcOK (s.pc u) = true)
    (hw : LockInv (·.w) holdsW s)
    (ih : ∀ u, wHeldSec (s.pc u) = true → s.sh.wHeld = true) :
    ∀ u, wHeldSec (s'.pc u) = true → s'.sh.wHeld = true := by
  have iht := ih t
  have okt := ok t
  have hoth : holdsW (s.pc t) = true → NoOther wHeldSec s t := fun h1 => (hw.others h1).mono wHeldSec_holdsW
  unfold step at h
  pc_cases s t hp =>
    rw [hp] at iht hoth okt
    step_explode h hp
    all_goals (simp at iht okt hoth)
    all_goals (refine loc_step (Q := fun sh => sh.wHeld = true) ih ?_ ?_)
    all_goals (simp [*] <;> assumption)

theorem env_wHeld1 {s s' : St} {e : Env} (h : envStep s e = some s')
    (ih : ∀ u, wHeldSec (s.pc u) = true → s.sh.wHeld = true) :
    ∀ u, wHeldSec (s'.pc u) = true → s'.sh.wHeld = true := by
  env_cases h with t hp hi =>
    have iht := ih t
    rw [hp] at iht
    simp at iht
    refine loc_step (Q := fun sh => sh.wHeld = true) ih ?_ ?_ <;> simp [*]

theorem step_wHeld2 {s s' : St} {t : Tid} (h : step s t = some s')
    (ok : ∀ u, pcOK (s.pc u) = true)
    (hw : LockInv (·.w) holdsW s)
    (ih : FlagInv (·.wHeld) (·.w) wHeldSec s) : FlagInv (·.wHeld) (·.w) wHeldSec s' := by
  have hwt := hw t
  have okt := ok t
  have ihf : s.sh.wHeld = true → s.sh.w = some t → wHeldSec (s.pc t) = true := by
    intro h1 h2; obtain ⟨u, hu1, hu2⟩ := ih h1; dsimp only at hu1; rw [h2] at hu1; cases hu1; exact hu2
  unfold step at h
  pc_cases s t hp =>
    rw [hp] at hwt okt ihf
    step_explode h hp
    all_goals (simp at hwt okt ihf)
    all_goals (refine flag_step ih ?_)
    all_goals (simp (config := { contextual := true }) [*])
    all_goals (try grind)

theorem env_wHeld2 {s s' : St} {e : Env} (h : envStep s e = some s')
    (hw : LockInv (·.w) holdsW s)
    (ih : FlagInv (·.wHeld) (·.w) wHeldSec s) : FlagInv (·.wHeld) (·.w) wHeldSec s' := by
  env_cases h with t hp hi =>
    have hwt := hw t
    rw [hp] at hwt
    simp at hwt
    refine flag_step ih ?_
    simp (config := { contextual := true }) [*]

theorem step_rHeld1 {s s' : St} {t : Tid} (h : step s t = some s')
    (hr : LockInv (·.r) holdsR s)
    (ih : ∀ u, rHeldSec (s.pc u) = true → s.sh.rHeld = true) :
    ∀ u, rHeldSec (s'.pc u) = true → s'.sh.rHeld = true := by
  have iht := ih t
  have hoth : holdsR (s.pc t) = true → NoOther rHeldSec s t := fun h1 => (hr.others h1).mono rHeldSec_holdsR
  unfold step at h
  pc_cases s t hp =>
    rw [hp] at iht hoth
    step_explode h hp
    all_goals (simp at iht hoth)
    all_goals (refine loc_step (Q := fun sh => sh.rHeld = true) ih ?_ ?_)
    all_goals (simp [*] <;> assumption)

theorem env_rHeld1 {s s' : St} {e : Env} (h : envStep s e = some s')
    (ih : ∀ u, rHeldSec (s.pc u) = true → s.sh.rHeld = true) :
    ∀ u, rHeldSec (s'.pc u) = true → s'.sh.rHeld = true := by
  env_cases h with t hp hi =>
    have iht := ih t
    rw [hp] at iht
    simp at iht
    refine loc_step (Q := fun sh => sh.rHeld = true) ih ?_ ?_ <;> simp [*]

theorem step_rHeld2 {s s' : St} {t : Tid} (h : step s t = some s')
    (hr : LockInv (·.r) holdsR s)
    (ih : FlagInv (·.rHeld) (·.r) rHeldSec s) : FlagInv (·.rHeld) (·.r) rHeldSec s' := by
  have hrt := hr t
  have ihf : s.sh.rHeld = true → s.sh.r = some t → rHeldSec (s.pc t) = true := by
    intro h1 h2; obtain ⟨u, hu1, hu2⟩ := ih h1; dsimp only at hu1; rw [h2] at hu1; cases hu1; exact hu2
  unfold step at h
  pc_cases s t hp =>
    rw [hp] at hrt ihf
    step_explode h hp
    all_goals (simp at hrt ihf)
    all_goals (refine flag_step ih ?_)
    all_goals (simp (config := { contextual := true }) [*])
    all_goals (try grind)

theorem env_rHeld2 {s s' : St} {e : Env} (h : envStep s e = some s')
    (hr : LockInv (·.r) holdsR s)
    (ih : FlagInv (·.rHeld) (·.r) rHeldSec s) : FlagInv (·.rHeld) (·.r) rHeldSec s' := by
  env_cases h with t hp hi =>
    have hrt := hr t
    rw [hp] at hrt
    simp at hrt
    refine flag_step ih ?_
    simp (config := { contextual := true }) [*]

/-! ### the flush `sync.Once` -/

theorem step_once1 {s s' : St} {t : Tid} (h : step s t = some s')
    (ok : ∀ u, pcOK (s.pc u) = true)
    (ih : ∀ u, onceSec (s.pc u) = true → getOnce s.sh = some u) :
    ∀ u, onceSec (s'.pc u) = true → getOnce s'.sh = some u := by
  have iht := ih t
  have okt := ok t
  unfold step at h
  pc_cases s t hp =>
    rw [hp] at iht okt
    step_explode h hp
    all_goals (simp at iht okt)
    all_goals (refine own_step ih ?_ ?_)
    all_goals (simp [*] <;> assumption)

theorem env_once1 {s s' : St} {e : Env} (h : envStep s e = some s')
    (ih : ∀ u, onceSec (s.pc u) = true → getOnce s.sh = some u) :
    ∀ u, onceSec (s'.pc u) = true → getOnce s'.sh = some u := by
  env_cases h with t hp hi =>
    have iht := ih t
    rw [hp] at iht
    simp at iht
    refine own_step ih ?_ ?_ <;> simp [*] <;> assumption

theorem step_once2 {s s' : St} {t : Tid} (h : step s t = some s')
    (ih : ∀ u, getOnce s.sh = some u → onceMay (s.pc u) = true) :
    ∀ u, getOnce s'.sh = some u → onceMay (s'.pc u) = true := by
  have iht := ih t
  unfold step at h
  pc_cases s t hp =>
    rw [hp] at iht
    step_explode h hp
    all_goals (simp at iht)
    all_goals (refine owner_step ih ?_ ?_)
    all_goals (simp [*] <;> assumption)

theorem env_once2 {s s' : St} {e : Env} (h : envStep s e = some s')
    (ih : ∀ u, getOnce s.sh = some u → onceMay (s.pc u) = true) :
    ∀ u, getOnce s'.sh = some u → onceMay (s'.pc u) = true := by
  env_cases h with t hp hi =>
    have iht := ih t
    rw [hp] at iht
    simp at iht
    refine owner_step ih ?_ ?_ <;> simp [*] <;> assumption

/-! ### the lock discipline holds in every reachable state -/

structure Locks (s : St) : Prop where
  ok : ∀ u, pcOK (s.pc u) = true
  mu : LockInv (·.mu) holdsMu s
  w : LockInv (·.w) holdsW s
  r : LockInv (·.r) holdsR s
  inflight : LockInv getInflight inWriting s
  wHeld1 : ∀ u, wHeldSec (s.pc u) = true → s.sh.wHeld = true
  wHeld2 : FlagInv (·.wHeld) (·.w) wHeldSec s
  rHeld1 : ∀ u, rHeldSec (s.pc u) = true → s.sh.rHeld = true
  rHeld2 : FlagInv (·.rHeld) (·.r) rHeldSec s
  once1 : ∀ u, onceSec (s.pc u) = true → getOnce s.sh = some u
  once2 : ∀ u, getOnce s.sh = some u → onceMay (s.pc u) = true

theorem Locks.init (o : Opts) : Locks { opts := o } := by
  constructor <;> intro u <;> simp_all [getOnce, getInflight]

theorem Locks.step {s s' : St} {t : Tid} (h : step s t = some s') (i : Locks s) : Locks s' :=
  { ok := step_pcOK h i.ok
    mu := step_mu h i.mu
    w := step_w h i.ok i.w
    r := step_r h i.r
    inflight := step_inflight h i.w i.inflight
    wHeld1 := step_wHeld1 h i.ok i.w i.wHeld1
    wHeld2 := step_wHeld2 h i.ok i.w i.wHeld2
    rHeld1 := step_rHeld1 h i.r i.rHeld1
    rHeld2 := step_rHeld2 h i.r i.rHeld2
    once1 := step_once1 h i.ok i.once1
    once2 := step_once2 h i.once2 }

theorem Locks.env {s s' : St} {e : Env} (h : envStep s e = some s') (i : Locks s) : Locks s' :=
  { ok := env_pcOK h i.ok
    mu := env_mu h i.mu
    w := env_w h i.w
    r := env_r h i.r
    inflight := env_inflight h i.inflight
    wHeld1 := env_wHeld1 h i.wHeld1
    wHeld2 := env_wHeld2 h i.w i.wHeld2
    rHeld1 := env_rHeld1 h i.rHeld1
    rHeld2 := env_rHeld2 h i.r i.rHeld2
    once1 := env_once1 h i.once1
    once2 := env_once2 h i.once2 }

theorem Locks.spawn {s : St} {t : Tid} {c : Call} (hd : ∃ r, s.pc t = .done r) (i : Locks s) :
    Locks (s.setPc t (.start c)) := by
  obtain ⟨r, hp⟩ := hd
  rw [setPc_eq_upd]
  have hmu := i.mu t
  have hw := i.w t
  have hr := i.r t
  have hi := i.inflight t
  have ho := i.once2 t
  rw [hp] at hmu hw hr hi ho
  simp at hmu hw hr hi ho
  exact {
    ok := all_step i.ok (by simp)
    mu := lock_step i.mu (by simp [*]) (by simp)
    w := lock_step i.w (by simp [*]) (by simp)
    r := lock_step i.r (by simp [*]) (by simp)
    inflight := lock_step i.inflight (by simp [*]) (by simp)
    wHeld1 := loc_step (Q := fun sh => sh.wHeld = true) i.wHeld1 (by simp) (by simp)
    wHeld2 := flag_step i.wHeld2 (by simp (config := { contextual := true }) [*])
    rHeld1 := loc_step (Q := fun sh => sh.rHeld = true) i.rHeld1 (by simp) (by simp)
    rHeld2 := flag_step i.rHeld2 (by simp (config := { contextual := true }) [*])
    once1 := own_step i.once1 (by simp) (by simp)
    once2 := owner_step i.once2 (by simp [*]) (by simp) }

theorem reach_locks {s : St} (h : Reach s) : Locks s := by
  induction h with
  | init o => exact Locks.init o
  | step _ hs ih => exact ih.step hs
  | env _ he ih => exact ih.env he
  | spawn _ hd ih => exact ih.spawn hd

end Drpc.Stream
