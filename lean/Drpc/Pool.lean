/-
  Model of drpcpool/{pool.go,entry.go} (C15), following the code as repaired by the three `fix:`
  commits recorded in known_findings.json (idempotent unlinking through `node.removed`; `Put` never
  deletes the per-key list it is about to append to; `Close` marks the entries it drops as removed).

  Go state                          model
  -------------------------------   ---------------------------------------------------------------
  *entry (heap object)              `EntryId = Nat`, allocated in `Put` order; `State.ents : Nat → Entry`
  entry.key / entry.val             `Entry.key`, `Entry.val` (a connection id)
  entry.exp (*time.Timer)           `Entry.exp : Exp` — `none` (no expiration configured), `armed`,
                                    `stopped` (Stop() returned true once), `fired` (the timer fired:
                                    Stop() is false from now on, the callback has not yet closed the
                                    connection), `cbClosed` (callback returned from val.Close(), not yet
                                    in p.removeEntry), `cbDone` (callback finished)
  entry.global.removed / local      `Entry.gRemoved`, `Entry.lRemoved`
  list{head,tail,count}             `KList{items, count}`: `items` is the head→tail walk, `count` is the
                                    STORED field, kept separately so that count/list disagreement is
                                    expressible (it is what the pre-fix code produced).  The pointer-level
                                    version (`Drpc/PoolHeap.lean`: next/prev/head/tail updated pointer by
                                    pointer) is executable and is compared with this one and with the Go
                                    code on every correspondence case; the theorems are about this one.
  p.order                           `State.order`
  p.entries (map[K]*list)           `State.locals : Nat → Option KList` (`none` = no map entry).  The code
                                    reaches per-key lists only through the map (or a pointer just read from
                                    it under the same lock), and makes one list object per key, so a list is
                                    identified by its key; `entLocal != local` is `ent.key ≠ key`.
  V (drpcpool.Conn)                 `Conn{closed, blocked}` + who called Close how often (observed by the
                                    fake connections of the harness)

  Every operation below is one atomic step: `Put`, `Take`, `Close` and the callback's `p.removeEntry`
  hold `p.mu` throughout; the timer firing and the callback's `val.Close()` happen outside the lock
  and are separate steps (`fire`, `cbClose`), as are the environment's events.
  Ghost fields (`handed`, `poolClosed`, `dropped`, `State.handouts`, `State.held`, `State.proper`)
  record what happened to each entry and what the callers hold; no model decision reads them.
-/
namespace Drpc.Pool

inductive Exp where
  | none | armed | stopped | fired | cbClosed | cbDone
deriving DecidableEq, Repr, Inhabited

structure Entry where
  key : Nat := 0
  val : Nat := 0
  exp : Exp := .none
  gRemoved : Bool := false
  lRemoved : Bool := false
  /-- ghost: returned by `Take` -/
  handed : Bool := false
  /-- ghost: `closeEntry` called `val.Close()` for this entry -/
  poolClosed : Bool := false
  /-- ghost: unlinked by `Take`, which found the connection already closed and dropped it -/
  dropped : Bool := false
deriving DecidableEq, Repr, Inhabited

structure KList where
  items : List Nat := []
  count : Int := 0
deriving DecidableEq, Repr, Inhabited

structure Conn where
  closed : Bool := false
  blocked : Bool := false
  /-- Close() calls made by Put / Take / Close of the pool (under p.mu or on Put's fast path) -/
  poolCloses : Nat := 0
  /-- Close() calls made by expiry callbacks -/
  cbCloses : Nat := 0
deriving DecidableEq, Repr, Inhabited

structure Cfg where
  capacity : Int
  keyCapacity : Int
  expiration : Bool
deriving DecidableEq, Repr

structure State where
  ents : Nat → Entry
  next : Nat
  order : KList
  locals : Nat → Option KList
  conns : Nat → Conn
  /-- ghost: entry ids returned by `Take`, oldest first -/
  handouts : List Nat
  /-- ghost: the callers hold connection v: it was never put, or `Take` returned it after its last `Put` -/
  held : Nat → Bool
  /-- ghost: so far every `Put` was of a connection its caller held (the protocol of `poolConn`) -/
  proper : Bool

def init : State :=
  { ents := fun _ => {}, next := 0, order := {}, locals := fun _ => none, conns := fun _ => {},
    handouts := [], held := fun _ => true, proper := true }

@[noinline] def upd {α : Type} (f : Nat → α) (i : Nat) (a : α) : Nat → α := fun j => if j = i then a else f j

@[simp] theorem upd_same {α : Type} (f : Nat → α) (i : Nat) (a : α) : upd f i a i = a := by simp [upd]
theorem upd_other {α : Type} (f : Nat → α) {i j : Nat} (a : α) (h : j ≠ i) : upd f i a j = f j := by
  simp [upd, h]

/-! ### entry.go -/

/-- `list.appendEntry`: link at the tail, `count++` -/
def KList.append (l : KList) (e : Nat) : KList := { items := l.items ++ [e], count := l.count + 1 }

/-- the list part of `list.removeEntry` once the `removed` guard has passed: unlink, `count--`.
    (An entry that is not in the list only loses the count — what the unguarded code did.) -/
def KList.remove (l : KList) (e : Nat) : KList :=
  { items := l.items.filter (fun x => x != e), count := l.count - 1 }

/-- `l.removeEntry(ent, localList)` for the list registered under `k` -/
def removeLocal (s : State) (k e : Nat) : State :=
  match s.locals k with
  | none => s
  | some l =>
    if (s.ents e).lRemoved then s
    else { s with ents := upd s.ents e { s.ents e with lRemoved := true },
                  locals := upd s.locals k (some (l.remove e)) }

/-- `p.order.removeEntry(ent, globalList)` -/
def removeGlobal (s : State) (e : Nat) : State :=
  if (s.ents e).gRemoved then s
  else { s with ents := upd s.ents e { s.ents e with gRemoved := true }, order := s.order.remove e }

/-- the two calls that always come together: unlink from the per-key list `k`, then from the global one -/
def unlink (s : State) (k e : Nat) : State := removeGlobal (removeLocal s k e) e

/-! ### pool.go -/

/-- the fake connection's Close() called by the pool proper -/
def poolCloseConn (s : State) (v : Nat) : State :=
  { s with conns := upd s.conns v { s.conns v with closed := true, poolCloses := (s.conns v).poolCloses + 1 } }

/-- `closeEntry`: `if ent.exp == nil || ent.exp.Stop() { ent.val.Close() }` -/
def closeEntry (s : State) (e : Nat) : State :=
  match (s.ents e).exp with
  | .none =>
    poolCloseConn { s with ents := upd s.ents e { s.ents e with poolClosed := true } } (s.ents e).val
  | .armed =>
    poolCloseConn { s with ents := upd s.ents e { s.ents e with exp := .stopped, poolClosed := true } }
      (s.ents e).val
  | _ => s   -- Stop() is false: stopped before, or fired — then the callback owns closing

inductive Status where
  | ok
  | panic     -- nil dereference (`local.head` / `p.order.head` / `p.entries[ent.key]` is nil)
  | stuck     -- out of fuel or a state the code cannot be in; shown unreachable (`Props.C15.no_panic`)
deriving DecidableEq, Repr

/-- first loop of `Put`: `for KeyCapacity != 0 && local.count >= KeyCapacity { evict local.head }` -/
def keyLoop (cfg : Cfg) (k : Nat) : Nat → State → State × Status
  | 0, s => (s, .stuck)
  | n + 1, s =>
    match s.locals k with
    | none => (s, .stuck)
    | some l =>
      if cfg.keyCapacity ≠ 0 ∧ l.count ≥ cfg.keyCapacity then
        match l.items.head? with
        | none => (s, .panic)                 -- closeEntry(nil)
        | some e => keyLoop cfg k n (unlink (closeEntry s e) k e)
      else (s, .ok)

/-- second loop of `Put`: `for Capacity != 0 && p.order.count >= Capacity { evict p.order.head }` -/
def capLoop (cfg : Cfg) (k : Nat) : Nat → State → State × Status
  | 0, s => (s, .stuck)
  | n + 1, s =>
    if cfg.capacity ≠ 0 ∧ s.order.count ≥ cfg.capacity then
      match s.order.items.head? with
      | none => (s, .panic)                   -- ent.key on nil
      | some e =>
        let ke := (s.ents e).key
        let s1 := closeEntry s e
        match s1.locals ke with
        | none => (s1, .panic)                -- entLocal.removeEntry on nil
        | some _ =>
          let s2 := unlink s1 ke e
          -- `if entLocal.count == 0 && entLocal != local { delete(p.entries, ent.key) }`
          let s3 := match s2.locals ke with
            | some l => if l.count = 0 ∧ ke ≠ k then { s2 with locals := upd s2.locals ke none } else s2
            | none => s2
          capLoop cfg k n s3
    else (s, .ok)

/-- `appendEntry` twice and the timer -/
def insert (cfg : Cfg) (s : State) (k v : Nat) : State × Status :=
  match s.locals k with
  | none => (s, .stuck)
  | some l =>
    let e := s.next
    ({ s with ents := upd s.ents e { key := k, val := v, exp := if cfg.expiration then .armed else .none },
              next := e + 1,
              locals := upd s.locals k (some (l.append e)),
              order := s.order.append e,
              held := upd s.held v false }, .ok)

def put (cfg : Cfg) (s : State) (k v : Nat) : State × Status :=
  let s : State := { s with proper := s.proper && s.held v }          -- ghost: did the caller hold v?
  if cfg.capacity < 0 ∨ cfg.keyCapacity < 0 then (poolCloseConn { s with held := upd s.held v false } v, .ok)
  else if (s.conns v).closed then ({ s with held := upd s.held v false }, .ok)
  else
    let s0 := match s.locals k with
      | none => { s with locals := upd s.locals k (some {}) }
      | some _ => s
    let fuel1 := match s0.locals k with
      | some l => l.items.length + 1
      | none => 0
    match keyLoop cfg k fuel1 s0 with
    | (s1, .ok) =>
      (match capLoop cfg k (s1.order.items.length + 1) s1 with
       | (s2, .ok) => insert cfg s2 k v
       | r => r)
    | r => r

inductive Out where
  | done
  | miss
  | taken (e v : Nat)
  | panic
  | stuck
deriving DecidableEq, Repr

/-- the loop of `Take` over the per-key list as it was on entry: unlinking an entry leaves its own
    `next` pointer alone, so the Go loop visits exactly these entries in this order -/
def takeLoop (k : Nat) : List Nat → State → State × Out
  | [], s => (s, .miss)
  | e :: rest, s =>
    if (s.conns (s.ents e).val).blocked then takeLoop k rest s
    else
      let s1 := unlink s k e
      match (s1.ents e).exp with
      | .none =>
        if (s1.conns (s1.ents e).val).closed then
          takeLoop k rest { s1 with ents := upd s1.ents e { s1.ents e with dropped := true } }
        else
          ({ s1 with ents := upd s1.ents e { s1.ents e with handed := true },
                     handouts := s1.handouts ++ [e],
                     held := upd s1.held (s1.ents e).val true }, .taken e (s1.ents e).val)
      | .armed =>                                             -- Stop() = true
        if (s1.conns (s1.ents e).val).closed then
          takeLoop k rest { s1 with ents := upd s1.ents e { s1.ents e with exp := .stopped, dropped := true } }
        else
          ({ s1 with ents := upd s1.ents e { s1.ents e with exp := .stopped, handed := true },
                     handouts := s1.handouts ++ [e],
                     held := upd s1.held (s1.ents e).val true }, .taken e (s1.ents e).val)
      | _ => takeLoop k rest s1                               -- Stop() = false

def take (s : State) (k : Nat) : State × Out :=
  match s.locals k with
  | none => (s, .miss)
  | some l => takeLoop k l.items s

/-- the loop of `Close` -/
def closeAll : List Nat → State → State
  | [], s => s
  | e :: rest, s =>
    let s1 := closeEntry s e
    closeAll rest { s1 with ents := upd s1.ents e { s1.ents e with gRemoved := true, lRemoved := true } }

def close (s : State) : State :=
  let s1 := closeAll s.order.items s
  { s1 with locals := fun _ => none, order := {} }

/-- `p.removeEntry(ent)`, the second half of the expiry callback -/
def poolRemove (s : State) (e : Nat) : State :=
  let k := (s.ents e).key
  match s.locals k with
  | none => s
  | some _ =>
    let s1 := unlink s k e
    match s1.locals k with
    | some l => if l.count = 0 then { s1 with locals := upd s1.locals k none } else s1
    | none => s1

inductive Op where
  | put (k v : Nat)
  | take (k : Nat)
  | close
  | fire (e : Nat)       -- the timer of entry e fires (enabled when armed)
  | cbClose (e : Nat)    -- its callback runs val.Close() (enabled when fired)
  | cbRemove (e : Nat)   -- its callback runs p.removeEntry(ent) (enabled after cbClose)
  | envClose (v : Nat)   -- the connection closes by itself
  | block (v : Nat)      -- Unblocked() is no longer closed
  | unblock (v : Nat)
deriving DecidableEq, Repr

def step (cfg : Cfg) (s : State) : Op → State × Out
  | .put k v =>
    match put cfg s k v with
    | (s', .ok) => (s', .done)
    | (s', .panic) => (s', .panic)
    | (s', .stuck) => (s', .stuck)
  | .take k => take s k
  | .close => (close s, .done)
  | .fire e =>
    if e < s.next ∧ (s.ents e).exp = .armed then
      ({ s with ents := upd s.ents e { s.ents e with exp := .fired } }, .done)
    else (s, .done)
  | .cbClose e =>
    if e < s.next ∧ (s.ents e).exp = .fired then
      let v := (s.ents e).val
      ({ s with ents := upd s.ents e { s.ents e with exp := .cbClosed },
                conns := upd s.conns v { s.conns v with closed := true, cbCloses := (s.conns v).cbCloses + 1 } },
       .done)
    else (s, .done)
  | .cbRemove e =>
    if e < s.next ∧ (s.ents e).exp = .cbClosed then
      let s1 := poolRemove s e
      ({ s1 with ents := upd s1.ents e { s1.ents e with exp := .cbDone } }, .done)
    else (s, .done)
  | .envClose v => ({ s with conns := upd s.conns v { s.conns v with closed := true } }, .done)
  | .block v => ({ s with conns := upd s.conns v { s.conns v with blocked := true } }, .done)
  | .unblock v => ({ s with conns := upd s.conns v { s.conns v with blocked := false } }, .done)

/-- state after a sequence of operations -/
def run (cfg : Cfg) (s : State) : List Op → State
  | [] => s
  | op :: ops => run cfg (step cfg s op).1 ops

/-- the outputs of a sequence of operations -/
def outs (cfg : Cfg) (s : State) : List Op → List Out
  | [] => []
  | op :: ops => (step cfg s op).2 :: outs cfg (step cfg s op).1 ops

end Drpc.Pool
