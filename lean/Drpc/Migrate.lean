import Drpc.Bytes
/-
  Model of drpcmigrate (C16): prefixconn.go, header.go, mux.go, listener.go.

  §1  connections as scripted readers, bytes.Reader, io.MultiReader, prefixConn.Read, io.ReadFull and
      the sequential part of routeConn (read exactly prefixLen bytes, look up, wrap on the default route)
  §2  HeaderConn.Write with sync.Once — a transition system over an unbounded set of goroutines
  §3  ListenMux: Route / routeConn / listener.Accept / listener.Close / monitorListener / Run as a
      transition system (unbounded connections, Accept callers and routed listeners)

  Core Lean only: everything here is linked into `drpcmodel`.
-/
namespace Drpc.Migrate

/-! ## §1 readers -/

/-- The error of a `Read`: `none` = nil, `some 0` = io.EOF, `some (t+1)` = another (tagged) error. -/
abbrev RdErr := Option Nat

/-- The receiving side of a net.Conn whose peer sends `data` and then ends with the error `final`
    (0 = io.EOF: the peer closed).  `attached`: the final error is returned together with the last
    data instead of by the next call.  `step` counts the data reads (index into the chunking oracle). -/
structure Conn where
  data : Bytes
  final : Nat
  attached : Bool
  step : Nat
deriving Repr, DecidableEq

/-- how many bytes a read of `n` bytes returns when the transport has `want` ready and `avail` in all -/
def clamp (want n avail : Nat) : Nat := max 1 (min want (min n avail))

/-- `conn.Read(p)` with `len(p) = n`.  `chunk i` = how many bytes the transport has ready for its
    i-th data read (any function: all splits of the peer's bytes into reads). -/
def Conn.read (chunk : Nat → Nat) (c : Conn) (n : Nat) : Bytes × RdErr × Conn :=
  if c.data = [] then ([], some c.final, c)
  else if n = 0 then ([], none, c)
  else
    let k := clamp (chunk c.step) n c.data.length
    let rest := c.data.drop k
    (c.data.take k, (if rest = [] ∧ c.attached = true then some c.final else none),
     { c with data := rest, step := c.step + 1 })

/-- `prefixConn`: `io.MultiReader(bytes.NewReader(prefix), conn)`.
    `pre = some p`: the bytes.Reader is still `mr.readers[0]` with `p` unread; `none`: it was dropped.
    `live`: the conn is still in `mr.readers`. -/
structure PrefixConn where
  pre : Option Bytes
  live : Bool
  conn : Conn
deriving Repr, DecidableEq

def newPrefixConn (p : Bytes) (c : Conn) : PrefixConn := { pre := some p, live := true, conn := c }

/-- `multiReader.Read`, unrolled for the two readers.
    bytes.Reader.Read: `if r.i >= len(r.s) { return 0, io.EOF }; n = copy(b, r.s[r.i:]); return n, nil`.
    A reader returning (0, EOF) is dropped and the next one is tried in the same call; a reader
    returning data (or a non-EOF error) ends the call, so one Read never spans two readers.
    (n>0, EOF) from the last reader is passed on unchanged and the reader is dropped. -/
def PrefixConn.read (chunk : Nat → Nat) (pc : PrefixConn) (n : Nat) : Bytes × RdErr × PrefixConn :=
  match pc.pre with
  | some (b :: bs) => ((b :: bs).take n, none, { pc with pre := some ((b :: bs).drop n) })
  | _ =>
    if pc.live then
      let r := pc.conn.read chunk n
      (r.1, r.2.1, { pre := none, live := r.2.1 != some 0, conn := r.2.2 })
    else ([], some 0, { pc with pre := none })

/-- Read with sizes `max 1 (sz i)` until the first error; the results of the individual calls. -/
def drainWith {σ : Type} (rd : σ → Nat → Bytes × RdErr × σ) (sz : Nat → Nat) :
    Nat → Nat → σ → List Bytes × RdErr
  | 0, _, _ => ([], none)
  | fuel + 1, i, s =>
    let r := rd s (max 1 (sz i))
    match r.2.1 with
    | some e => ([r.1], some e)
    | none =>
      let q := drainWith rd sz fuel (i + 1) r.2.2
      (r.1 :: q.1, q.2)

/-- everything an acceptor reads from a raw connection, read by read, and the error that ends it -/
def Conn.readAll (chunk sz : Nat → Nat) (c : Conn) : List Bytes × RdErr :=
  drainWith (Conn.read chunk) sz (c.data.length + 1) 0 c

def PrefixConn.remaining (pc : PrefixConn) : Nat := (pc.pre.getD []).length + pc.conn.data.length

def PrefixConn.readAll (chunk sz : Nat → Nat) (pc : PrefixConn) : List Bytes × RdErr :=
  drainWith (PrefixConn.read chunk) sz (pc.remaining + 1) 0 pc

/-- `io.ReadFull(conn, buf)` = `ReadAtLeast(conn, buf, len(buf))`:
    `for n < min && err == nil { nn, err = r.Read(buf[n:]); n += nn }; if n >= min { err = nil }`.
    `need` = bytes still missing; `fuel ≥ need` iterations always suffice.  Result: success?, the bytes
    read, the connection afterwards. -/
def readFullAux (chunk : Nat → Nat) : Nat → Nat → Conn → Bytes → Bool × Bytes × Conn
  | _, 0, c, acc => (true, acc, c)
  | 0, _ + 1, c, acc => (false, acc, c)
  | fuel + 1, need + 1, c, acc =>
    let r := c.read chunk (need + 1)
    if need + 1 ≤ r.1.length then (true, acc ++ r.1, r.2.2)
    else match r.2.1 with
      | some _ => (false, acc ++ r.1, r.2.2)
      | none => readFullAux chunk fuel (need + 1 - r.1.length) r.2.2 (acc ++ r.1)

def readFull (chunk : Nat → Nat) (n : Nat) (c : Conn) : Bool × Bytes × Conn := readFullAux chunk n n c []

abbrev Lid := Nat

/-- `m.routes[string(buf)]` -/
def lookupRoute : List (Bytes × Lid) → Bytes → Option Lid
  | [], _ => none
  | (p, l) :: rs, k => if p = k then some l else lookupRoute rs k

/-- what routeConn does with a connection, up to the final select -/
inductive Routed where
  | closed (c : Conn)                 -- ReadFull failed: `conn.Close()`
  | toRoute (lid : Lid) (c : Conn)    -- a route matched: the raw connection goes to that listener
  | toDefault (pc : PrefixConn)       -- no route: `newPrefixConn(buf, conn)` goes to the default listener
deriving Repr, DecidableEq

def routeConnPure (chunk : Nat → Nat) (prefixLen : Nat) (routes : List (Bytes × Lid)) (c : Conn) : Routed :=
  let r := readFull chunk prefixLen c
  if r.1 then
    match lookupRoute routes r.2.1 with
    | some lid => .toRoute lid r.2.2
    | none => .toDefault (newPrefixConn r.2.1 r.2.2)
  else .closed r.2.2

/-! ## §2 HeaderConn.Write

  func (d *HeaderConn) Write(buf []byte) (n int, err error) {
      var didOnce bool
      d.once.Do(func() { didOnce = true; n, err = d.Conn.Write(append([]byte(d.header), buf...)) })
      if didOnce { n -= len(d.header); if n < 0 { n = 0 }; return n, err }
      return d.Conn.Write(buf) }

  sync.Once is the primitive: the first caller of Do runs the function; every caller arriving while
  it runs BLOCKS until it has returned; later callers fall through.  The underlying connection is the
  list of completed writes in completion order (a net.Conn serialises concurrent Writes). -/
namespace Header

abbrev Tid := Nat

inductive PC where
  | idle
  | enter (buf : Bytes)                       -- called Write(buf), about to call d.once.Do
  | inOnce (buf : Bytes)                      -- inside the once function, in d.Conn.Write(header ++ buf)
  | waitOnce (buf : Bytes)                    -- in d.once.Do, blocked until the running function returns
  | plain (buf : Bytes)                       -- in d.Conn.Write(buf)
  | done (buf : Bytes) (n : Nat) (err : Bool) -- Write(buf) returned (n, err≠nil)
deriving Repr, DecidableEq

structure State where
  onceDone : Bool
  owner : Option Tid            -- the goroutine running the once function
  wire : List Bytes             -- completed writes of the underlying connection, in order
  log : List (Tid × Bytes)      -- ghost: (caller, its buf) of every completed underlying write, in order
  failed : Bool                 -- ghost: some underlying write returned an error
  pc : Tid → PC

def init : State := { onceDone := false, owner := none, wire := [], log := [], failed := false, pc := fun _ => .idle }

def State.setPc (s : State) (t : Tid) (p : PC) : State := { s with pc := fun u => if u = t then p else s.pc u }

inductive Label where
  | call (t : Tid) (buf : Bytes)          -- a goroutine calls Write(buf)
  | onceEnter (t : Tid)                   -- d.once.Do: run the function / start waiting / fall through
  | complete (t : Tid) (res : Option Nat) -- t's underlying Write returns: none = all written, some k = error after k bytes
  | wake (t : Tid)                        -- a blocked Do returns (the function has completed)
deriving Repr, DecidableEq

/-- the bytes an underlying write of `b` put on the connection -/
def written (b : Bytes) : Option Nat → Bytes
  | none => b
  | some k => b.take k

def step (hdr : Bytes) (s : State) : Label → Option State
  | .call t buf =>
    match s.pc t with
    | .idle | .done _ _ _ => some (s.setPc t (.enter buf))
    | _ => none
  | .onceEnter t =>
    match s.pc t with
    | .enter buf =>
      if s.onceDone then some (s.setPc t (.plain buf))
      else match s.owner with
        | none => some ({ s with owner := some t }.setPc t (.inOnce buf))
        | some _ => some (s.setPc t (.waitOnce buf))
    | _ => none
  | .wake t =>
    match s.pc t with
    | .waitOnce buf => if s.onceDone then some (s.setPc t (.plain buf)) else none
    | _ => none
  | .complete t res =>
    match s.pc t with
    | .inOnce buf =>
      let w := written (hdr ++ buf) res
      -- `n -= len(d.header); if n < 0 { n = 0 }` is the truncated subtraction
      some ({ s with onceDone := true, owner := none, wire := s.wire ++ [w], log := s.log ++ [(t, buf)],
                     failed := s.failed || res.isSome }.setPc t (.done buf (w.length - hdr.length) res.isSome))
    | .plain buf =>
      let w := written buf res
      some ({ s with wire := s.wire ++ [w], log := s.log ++ [(t, buf)],
                     failed := s.failed || res.isSome }.setPc t (.done buf w.length res.isSome))
    | _ => none

inductive Reachable (hdr : Bytes) : State → Prop where
  | init : Reachable hdr init
  | step {s s' : State} (l : Label) : Reachable hdr s → step hdr s l = some s' → Reachable hdr s'

/-- what the connection must carry after the completed writes `log`: the header once, in front -/
def expectedWire (hdr : Bytes) : List (Tid × Bytes) → List Bytes
  | [] => []
  | (_, b) :: r => (hdr ++ b) :: r.map (·.2)

end Header

/-! ## §3 ListenMux

  Atomicity.  `m.mu` protects `m.routes` only, and the critical sections of Route, routeConn (look-up)
  and monitorListener (delete) contain no blocking operation, so each of them is one atomic step that is
  enabled while Run does not hold the mutex.  Run's critical section blocks (`<-lis.done` for every
  route, then `<-m.def.done`) and is modelled step by step.  The functions passed to `listener.once` /
  `m.once` are non-blocking (set err, close the channel), so `once.Do` is one atomic step.
  The unbuffered channel `lis.conns` is a rendezvous: routeConn's send and Accept's receive are one
  joint step `deliver`.  Every `select` with several ready arms may take any of them. -/
namespace Mux

abbrev Cid := Nat
abbrev Tid := Nat

/-- `listener.err`: drpcmigrate.Closed or the error of the base listener -/
inductive LErr where
  | closed
  | base (tag : Nat)
deriving Repr, DecidableEq

/-- the routeConn goroutine of one connection -/
inductive ConnPC where
  | absent                                        -- not handed out by the base listener (yet)
  | reading                                       -- in io.ReadFull(conn, buf) (blocked while the client has not sent prefixLen bytes)
  | lookup                                        -- prefix read; about to lock m.mu and look up
  | sending (lid : Lid) (wrapped : Bool)          -- at `select { <-lis.done; lis.conns <- conn }`
  | finished                                      -- routeConn returned
deriving Repr, DecidableEq

/-- a goroutine calling listener.Accept -/
inductive AccPC where
  | idle
  | check (lid : Lid)                              -- at the first, non-blocking select
  | wait (lid : Lid)                               -- at the blocking select
  | retErr (lid : Lid) (e : Option LErr)           -- returned (nil, l.err)
  | retConn (lid : Lid) (c : Cid) (wrapped : Bool) -- returned (conn, nil)
deriving Repr, DecidableEq

/-- the monitorListener goroutine of a routed listener (one per listener; `p` = its prefix) -/
inductive MonPC where
  | absent
  | select (p : Bytes)
  | delete (p : Bytes)
  | finished (p : Bytes)
deriving Repr, DecidableEq

inductive RunPC where
  | waitDone                      -- `<-m.done`
  | lock                          -- `m.mu.Lock()`
  | waitRoutes (ls : List Lid)    -- `for _, lis := range m.routes { <-lis.done }`
  | closeDef                      -- `m.def.Close()`
  | waitDef                       -- `<-m.def.done`
  | returned (err : Option Nat)   -- unlocked, returned m.err
deriving Repr, DecidableEq

structure State where
  mdone : Bool                    -- m.done closed
  merr : Option Nat               -- m.err
  baseAlive : Bool                -- monitorBase still loops
  routes : List (Bytes × Lid)     -- m.routes
  nextLid : Lid                   -- listeners 0 (default) … nextLid-1 exist
  ldone : Lid → Bool              -- lis.done closed
  lerr : Lid → Option LErr        -- lis.err
  mon : Lid → MonPC
  run : RunPC
  conn : Cid → ConnPC
  cdata : Cid → Bytes             -- the bytes the client of the connection has sent so far
  ccloses : Cid → Bool            -- the client has closed: reads past the data end in EOF
  acc : Tid → AccPC
  accepted : List (Lid × Cid × Bool)  -- log: every connection returned by an Accept (listener, conn, wrapped)
  closedLog : List Cid                -- log: every conn.Close() made by the mux
  panics : Nat                        -- Route calls that panicked

def init : State :=
  { mdone := false, merr := none, baseAlive := true, routes := [], nextLid := 1,
    ldone := fun _ => false, lerr := fun _ => none, mon := fun _ => .absent, run := .waitDone,
    conn := fun _ => .absent, cdata := fun _ => [], ccloses := fun _ => false, acc := fun _ => .idle,
    accepted := [], closedLog := [], panics := 0 }

def State.muHeld (s : State) : Bool :=
  match s.run with
  | .waitRoutes _ | .closeDef | .waitDef => true
  | _ => false

def State.setConn (s : State) (c : Cid) (p : ConnPC) : State := { s with conn := fun u => if u = c then p else s.conn u }
def State.setAcc (s : State) (t : Tid) (p : AccPC) : State := { s with acc := fun u => if u = t then p else s.acc u }
def State.setMon (s : State) (l : Lid) (p : MonPC) : State := { s with mon := fun u => if u = l then p else s.mon u }
/-- `lis.once.Do(func() { lis.err = e; close(lis.done) })` -/
def State.closeLis (s : State) (l : Lid) (e : LErr) : State :=
  if s.ldone l then s else
  { s with ldone := fun u => if u = l then true else s.ldone u, lerr := fun u => if u = l then some e else s.lerr u }

inductive Label where
  -- API calls and environment
  | route (p : Bytes)                                   -- m.Route(p)
  | acceptCall (t : Tid) (lid : Lid)                    -- a goroutine calls Accept on listener lid
  | closeCall (lid : Lid)                               -- lis.Close()
  | cancel                                              -- Run's context is cancelled: monitorContext's once.Do
  | baseFail (tag : Nat)                                -- m.base.Accept returns an error
  | baseConn (c : Cid)                                  -- m.base.Accept returns a connection: `go m.routeConn(conn)`
  | clientData (c : Cid) (b : Bytes)                    -- more bytes of the client of connection c arrive
  | clientClose (c : Cid)                               -- the client of connection c closes (reads end in EOF)
  -- internal steps
  | readDone (c : Cid)       -- io.ReadFull returns
  | lookup (c : Cid)         -- lock; look up; wrap; unlock
  | connClose (c : Cid)      -- select arm `<-lis.done`: conn.Close()
  | deliver (c : Cid) (t : Tid)  -- select arm `lis.conns <- conn` meets `conn = <-l.conns` of an Accept
  | accCheck (t : Tid)       -- Accept's first select
  | accDone (t : Tid)        -- Accept's second select, arm `<-l.done`
  | monFire (lid : Lid)      -- monitorListener's select
  | monDelete (lid : Lid)    -- lock; delete(m.routes, prefix); unlock
  | runStep                  -- Run's next step
deriving Repr, DecidableEq

def Label.internal : Label → Bool
  | .route _ | .acceptCall _ _ | .closeCall _ | .cancel | .baseFail _ | .baseConn _ | .clientData _ _ | .clientClose _ => false
  | _ => true

def step (prefixLen : Nat) (s : State) : Label → Option State
  | .route p =>
    if s.muHeld then none
    else if p.length ≠ prefixLen then some { s with panics := s.panics + 1 }   -- deferred Unlock runs
    else match lookupRoute s.routes p with
      | some _ => some s
      | none => some ({ s with routes := (p, s.nextLid) :: s.routes, nextLid := s.nextLid + 1 }.setMon s.nextLid (.select p))
  | .acceptCall t lid =>
    if lid < s.nextLid then
      match s.acc t with
      | .idle | .retErr _ _ | .retConn _ _ _ => some (s.setAcc t (.check lid))
      | _ => none
    else none
  | .closeCall lid => if lid < s.nextLid then some (s.closeLis lid .closed) else none
  | .cancel => some { s with mdone := true }
  | .baseFail tag =>
    if s.baseAlive then
      some (if s.mdone then { s with baseAlive := false } else { s with baseAlive := false, mdone := true, merr := some tag })
    else none
  | .baseConn c =>
    if s.baseAlive then
      match s.conn c with
      | .absent => some ({ s with cdata := fun u => if u = c then [] else s.cdata u,
                                  ccloses := fun u => if u = c then false else s.ccloses u }.setConn c .reading)
      | _ => none
    else none
  | .clientData c b =>
    match s.conn c with
    | .absent => none
    | _ => if s.ccloses c then none else some { s with cdata := fun u => if u = c then s.cdata c ++ b else s.cdata u }
  | .clientClose c =>
    match s.conn c with
    | .absent => none
    | _ => some { s with ccloses := fun u => if u = c then true else s.ccloses u }
  | .readDone c =>
    match s.conn c with
    | .reading =>
      if prefixLen ≤ (s.cdata c).length then some (s.setConn c .lookup)
      else if s.ccloses c then some ({ s with closedLog := s.closedLog ++ [c] }.setConn c .finished)
      else none
    | _ => none
  | .lookup c =>
    if s.muHeld then none else
    match s.conn c with
    | .lookup =>
      match lookupRoute s.routes ((s.cdata c).take prefixLen) with
      | some lid => some (s.setConn c (.sending lid false))
      | none => some (s.setConn c (.sending 0 true))
    | _ => none
  | .connClose c =>
    match s.conn c with
    | .sending lid _ => if s.ldone lid then some ({ s with closedLog := s.closedLog ++ [c] }.setConn c .finished) else none
    | _ => none
  | .deliver c t =>
    match s.conn c, s.acc t with
    | .sending lid w, .wait lid' =>
      if lid = lid' then some (({ s with accepted := s.accepted ++ [(lid, c, w)] }.setConn c .finished).setAcc t (.retConn lid c w))
      else none
    | _, _ => none
  | .accCheck t =>
    match s.acc t with
    | .check lid => if s.ldone lid then some (s.setAcc t (.retErr lid (s.lerr lid))) else some (s.setAcc t (.wait lid))
    | _ => none
  | .accDone t =>
    match s.acc t with
    | .wait lid => if s.ldone lid then some (s.setAcc t (.retErr lid (s.lerr lid))) else none
    | _ => none
  | .monFire lid =>
    match s.mon lid with
    | .select p =>
      if s.mdone then
        some ((s.closeLis lid (match s.merr with | some e => .base e | none => .closed)).setMon lid (.delete p))
      else if s.ldone lid then some (s.setMon lid (.delete p))
      else none
    | _ => none
  | .monDelete lid =>
    if s.muHeld then none else
    match s.mon lid with
    | .delete p => some ({ s with routes := s.routes.filter (fun r => r.1 ≠ p) }.setMon lid (.finished p))
    | _ => none
  | .runStep =>
    match s.run with
    | .waitDone => if s.mdone then some { s with run := .lock } else none
    | .lock => some { s with run := .waitRoutes (s.routes.map (·.2)) }
    | .waitRoutes [] => some { s with run := .closeDef }
    | .waitRoutes (l :: ls) => if s.ldone l then some { s with run := .waitRoutes ls } else none
    | .closeDef => some { s.closeLis 0 .closed with run := .waitDef }
    | .waitDef => if s.ldone 0 then some { s with run := .returned s.merr } else none
    | .returned _ => none

inductive Reachable (prefixLen : Nat) : State → Prop where
  | init : Reachable prefixLen init
  | step {s s' : State} (l : Label) : Reachable prefixLen s → step prefixLen s l = some s' → Reachable prefixLen s'

/-- no internal step is enabled: only new API calls, the base listener or a client can move the system -/
def Quiescent (prefixLen : Nat) (s : State) : Prop := ∀ l, l.internal = true → step prefixLen s l = none

end Mux

end Drpc.Migrate
