import Drpc.Wire.Varint
import Drpc.Lemmas.Frame
/-
  Model of drpcmetadata/serialize.go, drpcmetadata/metadata.go (Encode, Decode, AddPairs/Get as far
  as the server side needs them) and of the packet loop of drpcmanager.Manager.NewServerStream.

  Go value                         model
  -------------------------------  ----------------------------------------------------------
  string / []byte                  `Bytes`
  map[string]string                `Pairs` = the list of writes `out[k] = v` in program order;
                                   what a Go program can observe of the map is `Pairs.get`
                                   (the last write of a key wins) — `Pairs.canon` is the sorted,
                                   de-duplicated form used on the line protocol
  uint64 arithmetic                `BitVec 64` with the same operators (wrapping)
  `range metadata` in Encode       the order of the argument list (Go's order is unspecified; the
                                   theorems hold for every order, the suite checks that Go's bytes
                                   are the model's encoding of SOME order of the same map)
-/
namespace Drpc.Metadata
open Drpc

abbrev Pairs := List (Bytes × Bytes)

/-- `m[k]` after the writes of `m` were executed in order: the last write wins -/
def Pairs.get (m : Pairs) (k : Bytes) : Option Bytes :=
  m.foldl (fun acc kv => if kv.1 = k then some kv.2 else acc) none

/-! ### serialize.go -/

/-- `bits.Len64`: the minimal number of bits needed to represent `n` (0 for 0) -/
def bitLen : Nat → Nat
  | 0 => 0
  | n + 1 => bitLen ((n + 1) / 2) + 1
decreasing_by omega

/-- `func varintSize(n uint64) uint64 { return (9*uint64(bits.Len64(n)) + 64) / 64 }` -/
def varintSize (n : U64) : U64 :=
  (9#64 * BitVec.ofNat 64 (bitLen n.toNat) + 64#64) / 64#64

/-- `func encodedStringSize(x string) uint64 { return 1 + varintSize(uint64(len(x))) + uint64(len(x)) }` -/
def encodedStringSize (x : Bytes) : U64 :=
  1#64 + varintSize (BitVec.ofNat 64 x.length) + BitVec.ofNat 64 x.length

/-- tag bytes: `1<<3 | 2` and `2<<3 | 2` -/
def tagKey : Byte := 10#8
def tagValue : Byte := 18#8

/-- mirrors `appendEntry` (the bytes appended to `buf`) -/
def appendEntry (key value : Bytes) : Bytes :=
  tagKey :: (appendVarint (encodedStringSize key + encodedStringSize value) ++
    (tagKey :: (appendVarint (BitVec.ofNat 64 key.length) ++ (key ++
      (tagValue :: (appendVarint (BitVec.ofNat 64 value.length) ++ value))))))

/-- mirrors `Encode` (bytes appended to `buf`), entries in list order -/
def encode : Pairs → Bytes
  | [] => []
  | (k, v) :: rest => appendEntry k v ++ encode rest

/-- Result of the step that `readEntry` and `readKeyValue` repeat three times:

      if len(buf) < 1 || buf[0] != tag { goto bad }
      buf, length, ok, err = drpcwire.ReadVarint(buf[1:])
      if !ok || err != nil || length > uint64(len(buf)) { goto bad }
      … buf[:length] … buf[length:]

    `bad` = (ok=false, err=nil); `err` = (ok=false, err="varint too long"). -/
inductive FR where
  | ok (field rest : Bytes)
  | bad
  | err
  | panic          -- an index/slice expression out of range (never reached: `decode_total`)
deriving Repr, DecidableEq

def readField (tag : Byte) (buf : Bytes) : FR :=
  if buf.length < 1 then .bad else
  match buf with
  | [] => .panic                                    -- `buf[0]`, `buf[1:]`
  | t :: rest =>
    if t ≠ tag then .bad else
    match readVarint rest with
    | .short => .bad
    | .tooLong => .err
    | .ok rem len =>
      if len.toNat > rem.length then .bad else
      if rem.length < len.toNat then .panic else    -- `buf[:length]`, `buf[length:]`
      .ok (rem.take len.toNat) (rem.drop len.toNat)

/-- result of `readKeyValue` -/
inductive KV where
  | ok (key value : Bytes)
  | bad
  | err
  | panic
deriving Repr, DecidableEq

/-- mirrors `readKeyValue` -/
def readKeyValue (buf : Bytes) : KV :=
  match readField tagKey buf with
  | .bad => .bad
  | .err => .err
  | .panic => .panic
  | .ok key buf =>
    match readField tagValue buf with
    | .bad => .bad
    | .err => .err
    | .panic => .panic
    | .ok value buf =>
      if buf.length ≠ 0 then .bad else .ok key value

/-- result of `readEntry` -/
inductive ER where
  | ok (rem key value : Bytes)
  | bad
  | err
  | panic
deriving Repr, DecidableEq

/-- mirrors `readEntry` -/
def readEntry (buf : Bytes) : ER :=
  match readField tagKey buf with
  | .bad => .bad
  | .err => .err
  | .panic => .panic
  | .ok entry rem =>
    match readKeyValue entry with
    | .bad => .bad
    | .err => .err
    | .panic => .panic
    | .ok key value => .ok rem key value

theorem readField_ok_length {tag : Byte} {buf field rest : Bytes}
    (h : readField tag buf = .ok field rest) : rest.length < buf.length := by
  unfold readField at h
  split at h
  · cases h
  · cases buf with
    | nil => cases h
    | cons t r =>
      simp only at h
      split at h
      · cases h
      · cases hv : readVarint r with
        | short => simp [hv] at h
        | tooLong => simp [hv] at h
        | ok rem len =>
          simp only [hv] at h
          have hl := (readVarint_ok_length hv).1
          split at h
          · cases h
          · cases h; simp only [List.length_drop, List.length_cons]; omega

theorem readEntry_ok_length {buf rem key value : Bytes}
    (h : readEntry buf = .ok rem key value) : rem.length < buf.length := by
  unfold readEntry at h
  cases hf : readField tagKey buf with
  | bad => simp [hf] at h
  | err => simp [hf] at h
  | panic => simp [hf] at h
  | ok entry rem' =>
    simp only [hf] at h
    cases hk : readKeyValue entry with
    | bad => simp [hk] at h
    | err => simp [hk] at h
    | panic => simp [hk] at h
    | ok k v =>
      simp only [hk] at h
      cases h
      exact readField_ok_length hf

/-- result of `Decode`: a map | errs.New("invalid data") | drpc.Error "varint too long" | panic -/
inductive DR where
  | ok (m : Pairs)
  | invalid
  | tooLong
  | panic
deriving Repr, DecidableEq

/-- mirrors `Decode`: `for len(buf) > 0 { buf, key, value, ok, err = readEntry(buf); …; out[key] = value }`.
    The result lists the writes in order (an empty list is Go's nil map). -/
def decode (buf : Bytes) : DR :=
  if buf.length > 0 then
    match h : readEntry buf with
    | .err => .tooLong
    | .bad => .invalid
    | .panic => .panic
    | .ok rem key value =>
      have : rem.length < buf.length := readEntry_ok_length h
      match decode rem with
      | .ok m => .ok ((key, value) :: m)
      | e => e
  else .ok []
termination_by buf.length

/-! ### metadata.go: what the server side does with a decoded map -/

/-- `Get(AddPairs(ctx, meta))` for a context `ctx` with `Get(ctx) = base`:
    AddPairs over an empty (or nil) map leaves the context unchanged; otherwise the first `Add`
    creates the map when there is none and every pair is written. -/
def addPairs (base : Option Pairs) (mt : Pairs) : Option Pairs :=
  if mt = [] then base else some (base.getD [] ++ mt)

/-! ### drpcmanager.Manager.NewServerStream: the packet loop -/

def kindInvoke : Nat := 1
def kindInvokeMetadata : Nat := 7

/-- a packet handed to `NewServerStream` through `m.pkts` -/
structure Pkt where
  kind : Nat
  sid : U64
  data : Bytes
deriving Repr, DecidableEq

/-- outcome of one `NewServerStream` call, as far as it depends on the packets -/
inductive SR where
  /-- a stream was created: its id, the rpc name, `drpcmetadata.Get` on its context (`none`: not ok),
      and the packets not consumed by this call -/
  | stream (sid : U64) (rpc : Bytes) (md : Option Pairs) (rest : List Pkt)
  /-- `Decode` failed on a metadata packet: the call returns that error -/
  | invalid
  | tooLong
  /-- the packets ran out: the call keeps waiting (until the context / manager / timeout ends it) -/
  | pending
  | panic
deriving Repr, DecidableEq

/-- the `for { select { case pkt := <-m.pkts: switch pkt.Kind {…} } }` loop with its two locals
    `meta` and `metaID`; `base` is `drpcmetadata.Get` of the context passed to NewServerStream. -/
def serverLoop (base : Option Pairs) (mt : Pairs) (metaID : U64) : List Pkt → SR
  | [] => .pending
  | p :: ps =>
    if p.kind = kindInvokeMetadata then
      match decode p.data with
      | .ok m => serverLoop base m p.sid ps
      | .invalid => .invalid
      | .tooLong => .tooLong
      | .panic => .panic
    else if p.kind = kindInvoke then
      .stream p.sid p.data (if metaID = p.sid then addPairs base mt else base) ps
    else serverLoop base mt metaID ps                      -- `default:` ignored

/-- `var meta map[string]string; var metaID uint64` start out zero on every call -/
def newServerStream (base : Option Pairs) (pkts : List Pkt) : SR := serverLoop base [] 0#64 pkts

theorem serverLoop_rest_length (base : Option Pairs) (mt : Pairs) (metaID : U64) (pkts : List Pkt)
    {sid rpc md rest} (h : serverLoop base mt metaID pkts = .stream sid rpc md rest) :
    rest.length < pkts.length := by
  induction pkts generalizing mt metaID with
  | nil => simp [serverLoop] at h
  | cons p ps ih =>
    simp only [serverLoop] at h
    split at h
    · cases hd : decode p.data with
      | ok m => simp only [hd] at h; have := ih _ _ h; simp; omega
      | invalid => simp [hd] at h
      | tooLong => simp [hd] at h
      | panic => simp [hd] at h
    · split at h
      · cases h; simp
      · have := ih _ _ h; simp; omega

/-- one observed call of a connection's serve loop -/
inductive Call where
  | served (sid : U64) (rpc : Bytes) (md : Option Pairs)
  | failed (tooLong : Bool)     -- the decode error returned by NewServerStream (ends the connection)
  | waiting                     -- blocked in NewServerStream with nothing left to read
  | panicked
deriving Repr, DecidableEq

/-- a server loop: `for { stream, rpc, err := man.NewServerStream(ctx); if err != nil { return }; … }`
    with the same `ctx` (no metadata of its own) for every call -/
def serve (pkts : List Pkt) : List Call :=
  match h : newServerStream none pkts with
  | .stream sid rpc md rest =>
    have : rest.length < pkts.length := serverLoop_rest_length _ _ _ _ h
    .served sid rpc md :: serve rest
  | .invalid => [.failed false]
  | .tooLong => [.failed true]
  | .pending => [.waiting]
  | .panic => [.panicked]
termination_by pkts.length

/-! ### canonical (sorted, last-write-wins) form for the line protocol -/

def bytesLt : Bytes → Bytes → Bool
  | [], [] => false
  | [], _ :: _ => true
  | _ :: _, [] => false
  | a :: as, b :: bs => a.toNat < b.toNat || (a == b && bytesLt as bs)

/-- insert a key into a strictly sorted list of keys -/
def insertKey (k : Bytes) : List Bytes → List Bytes
  | [] => [k]
  | k' :: rest =>
    if k = k' then k' :: rest
    else if bytesLt k k' then k :: k' :: rest
    else k' :: insertKey k rest

def Pairs.keys (m : Pairs) : List Bytes := m.foldl (fun acc kv => insertKey kv.1 acc) []

/-- the keys in byte order, each with the value `Pairs.get` observes -/
def Pairs.canon (m : Pairs) : Pairs := m.keys.map fun k => (k, (m.get k).getD [])

end Drpc.Metadata
