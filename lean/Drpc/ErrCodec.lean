import Drpc.ErrChain
/-
  Model of drpcwire/error.go.

    func MarshalError(err error) []byte {
        var buf [8]byte
        binary.BigEndian.PutUint64(buf[:], drpcerr.Code(err))
        return append(buf[:], err.Error()...) }

    func UnmarshalError(data []byte) error {
        if len(data) < 8 { return errs.New("%s (drpcwire note: invalid error data)", data) }
        return drpcerr.WithCode(errs.New("%s", data[8:]), binary.BigEndian.Uint64(data[:8])) }

  `errs.New(format, args…)` is `&errorT{class: nil, err: fmt.Errorf(format, args…)}`; with the
  format "%s" and a `[]byte` argument the text is exactly the bytes (no re-interpretation of '%',
  NUL or invalid UTF-8).
-/
namespace Drpc

/-- `binary.BigEndian.PutUint64` -/
def be64 (c : U64) : Bytes :=
  [BitVec.ofNat 8 (c.toNat / 72057594037927936), BitVec.ofNat 8 (c.toNat / 281474976710656),
   BitVec.ofNat 8 (c.toNat / 1099511627776), BitVec.ofNat 8 (c.toNat / 4294967296),
   BitVec.ofNat 8 (c.toNat / 16777216), BitVec.ofNat 8 (c.toNat / 65536),
   BitVec.ofNat 8 (c.toNat / 256), BitVec.ofNat 8 c.toNat]

/-- `binary.BigEndian.Uint64(data[:8])`; only called with at least 8 bytes -/
def be64Read : Bytes → U64
  | b0 :: b1 :: b2 :: b3 :: b4 :: b5 :: b6 :: b7 :: _ =>
    BitVec.ofNat 64 (b0.toNat * 72057594037927936 + b1.toNat * 281474976710656 + b2.toNat * 1099511627776
      + b3.toNat * 4294967296 + b4.toNat * 16777216 + b5.toNat * 65536 + b6.toNat * 256 + b7.toNat)
  | _ => 0#64

/-- the string constant of the short-data branch (tied to the source in Tie/C10.lean) -/
def noteStr : String := " (drpcwire note: invalid error data)"
def note : Bytes := asciiBytes noteStr

/-- `MarshalError` (the server only calls it with a non-nil error) -/
def marshalError (e : Err) : Bytes := be64 (code (some e)) ++ e.text

/-- `UnmarshalError` -/
def unmarshalError (data : Bytes) : Err :=
  if data.length < 8 then .errsT none (.leaf (data ++ note))
  else withCode' (.errsT none (.leaf (data.drop 8))) (be64Read data)

end Drpc
