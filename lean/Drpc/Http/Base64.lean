import Drpc.Bytes
/-
  Base64, standard alphabet with padding (RFC 4648 §4), as used by
    * `base64Write` in drpchttp/encoding.go (`base64.StdEncoding.Encode` of EACH write separately), and
    * `encoding/json` for a `[]byte` value (the JSON fallback of `JSONMarshal`).
  `encode` is written from the RFC (3 octets → 4 sextets); `Ref.decode` is an independent reference
  decoder that works group by group and therefore accepts padding in the middle of a stream — which
  is what a grpc-web-text client has to do, because the gateway encodes every write on its own.
-/
namespace Drpc.Http.Base64
open Drpc

/-- RFC 4648 table 1: value → character -/
def encChar (n : Nat) : Byte :=
  if n < 26 then BitVec.ofNat 8 (65 + n)
  else if n < 52 then BitVec.ofNat 8 (97 + (n - 26))
  else if n < 62 then BitVec.ofNat 8 (48 + (n - 52))
  else if n = 62 then 43#8 else 47#8

def pad : Byte := 61#8

def enc3 (a b c : Byte) : Bytes :=
  [encChar (a.toNat / 4), encChar ((a.toNat % 4) * 16 + b.toNat / 16),
   encChar ((b.toNat % 16) * 4 + c.toNat / 64), encChar (c.toNat % 64)]

def enc2 (a b : Byte) : Bytes :=
  [encChar (a.toNat / 4), encChar ((a.toNat % 4) * 16 + b.toNat / 16), encChar ((b.toNat % 16) * 4), pad]

def enc1 (a : Byte) : Bytes :=
  [encChar (a.toNat / 4), encChar ((a.toNat % 4) * 16), pad, pad]

/-- `base64.StdEncoding.Encode` -/
def encode : Bytes → Bytes
  | a :: b :: c :: rest => enc3 a b c ++ encode rest
  | [a, b] => enc2 a b
  | [a] => enc1 a
  | [] => []

/-- `base64.StdEncoding.EncodedLen` -/
def encodedLen (n : Nat) : Nat := (n + 2) / 3 * 4

namespace Ref

/-- RFC 4648 table 1: character → value -/
def decChar (c : Byte) : Option Nat :=
  let n := c.toNat
  if 65 ≤ n ∧ n ≤ 90 then some (n - 65)
  else if 97 ≤ n ∧ n ≤ 122 then some (n - 71)
  else if 48 ≤ n ∧ n ≤ 57 then some (n + 4)
  else if n = 43 then some 62
  else if n = 47 then some 63
  else none

def byte (n : Nat) : Byte := BitVec.ofNat 8 n

/-- Reference decoder: groups of four characters; `xx==` gives one octet, `xxx=` two, `xxxx` three;
    a padded group may be followed by further groups; anything else is malformed. -/
def decode : Bytes → Option Bytes
  | [] => some []
  | w :: x :: y :: z :: rest =>
    match decChar w, decChar x with
    | some p, some q =>
      if y = pad then
        if z = pad then (decode rest).map (fun t => byte (p * 4 + q / 16) :: t) else none
      else
        match decChar y with
        | none => none
        | some r =>
          if z = pad then
            (decode rest).map (fun t => byte (p * 4 + q / 16) :: byte ((q % 16) * 16 + r / 4) :: t)
          else
            match decChar z with
            | none => none
            | some s =>
              (decode rest).map (fun t =>
                byte (p * 4 + q / 16) :: byte ((q % 16) * 16 + r / 4) :: byte ((r % 4) * 64 + s) :: t)
    | _, _ => none
  | _ => none

end Ref
end Drpc.Http.Base64
