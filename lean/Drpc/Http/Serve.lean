import Drpc.Http.Unescape
import Drpc.Http.Twirp
/-
  `wrapper.ServeHTTP` end to end for a scripted handler:

      pr := protocols[Content-Type] or protocols["*"]
      ctx, err := Context(req); if err == nil { req = req.WithContext(ctx) }   // malformed metadata: dropped
      st := pr.NewStream(rw, req)
      st.Finish(w.handler.HandleRPC(st, req.URL.Path))

  The scripted handler (harness/suites/http): optionally MsgRecv once (returning the error if it
  fails, and sending the received message back first if `echo`), then MsgSend each scripted
  message — returning the first send error if `stop`, ignoring send errors otherwise — and finally
  returns the scripted result.
-/
namespace Drpc.Http
open Drpc

structure Script where
  recv : Bool
  echo : Bool
  msgs : List Bytes
  stop : Bool
  result : Option Err
deriving Repr

structure Request where
  ct : String
  hdrs : List Bytes       -- the X-Drpc-Metadata values
  body : Bytes
deriving Repr

/-- the errors the gateway itself hands to the handler, as error values -/
def errTooLarge : Err := ⟨[.wrap], .leaf, asc "message too large"⟩      -- errs.New: one wrapper with Cause/Unwrap
def errEOF : Err := ⟨[], .leaf, asc "EOF"⟩
def errUnexpectedEOF : Err := ⟨[], .leaf, asc "unexpected EOF"⟩
/-- the suite's handler replaces any encoding/json / base64 error of MsgRecv by this one -/
def errUnmarshal : Err := ⟨[], .leaf, asc "verif: unmarshal"⟩

def SendR.toErr : SendR → Option Err
  | .ok => none
  | .tooLarge => some errTooLarge
  | .eof => some errEOF

/-- the handler's send loop over a stream with state `σ`: acknowledgements seen by the handler,
    final stream state, and the error the handler stops with (stop mode) -/
def runSends {σ : Type} (send : σ → Bytes → SendR × σ) (stop : Bool) :
    σ → List Bytes → List SendR × σ × Option SendR
  | st, [] => ([], st, none)
  | st, m :: rest =>
    match send st m with
    | (.ok, st') => let (acks, s, e) := runSends send stop st' rest; (.ok :: acks, s, e)
    | (r, st') =>
      if stop then ([r], st', some r)
      else let (acks, s, e) := runSends send stop st' rest; (r :: acks, s, e)

/-- `unmarshal` of the pass-through encoding: proto = the bytes; JSON fallback = a JSON string holding
    base64 (anything else is an unmarshal error; the suite only generates bodies for which
    encoding/json agrees with this) -/
def unmarshal (json : Bool) (buf : Bytes) : Option Bytes :=
  if json then
    match buf with
    | q :: rest =>
      if q = 34#8 ∧ rest.getLast? = some 34#8 then Base64.Ref.decode rest.dropLast else none
    | [] => none
  else some buf

inductive RecvR where
  | ok (msg : Bytes)
  | err (e : Err)
  | unmodelled            -- request body not valid base64 in a -text protocol
deriving Repr

def readErr : ReadR → RecvR
  | .ok d => .ok d
  | .eof => .err errEOF
  | .unexpectedEOF => .err errUnexpectedEOF
  | .tooLarge => .err errTooLarge

/-- `MsgRecv` -/
def recvMsg (p : Proto) (body : Bytes) : RecvR :=
  let rd : RecvR :=
    match p.kind with
    | .twirp => readErr (twirpRead body).1
    | .grpcWeb =>
      if p.text then
        match Base64.Ref.decode body with
        | some raw => readErr (grpcRead raw).1
        | none => .unmodelled
      else readErr (grpcRead body).1
  match rd with
  | .ok buf =>
    match unmarshal p.json buf with
    | some m => .ok m
    | none => .err errUnmarshal
  | r => r

inductive Resp where
  | mk (reply : Reply) (recv : String) (acks : List SendR) (md : Option (List (Bytes × Bytes)))
  | panic
  | unmodelled
deriving Repr

/-- everything after the receive step -/
def serveSends (p : Proto) (stop : Bool) (msgs : List Bytes) (result : Option Err) :
    Option Reply × List SendR :=
  match p.kind with
  | .grpcWeb =>
    let (acks, out, e) := runSends (fun (acc : Bytes) m => let (r, w) := gwSend p m; (r, acc ++ w)) stop [] msgs
    let final := match e with | some r => r.toErr | none => result
    ((gwFinish p final).map (fun t => ⟨200, p.ct, .raw (out ++ t)⟩), acks)
  | .twirp =>
    let (acks, st, e) := runSends (twSend p.json) stop {} msgs
    let final := match e with | some r => r.toErr | none => result
    (twFinish p st final, acks)

def finishOnly (p : Proto) (e : Err) : Option Reply :=
  match p.kind with
  | .grpcWeb => (gwFinish p (some e)).map (fun t => ⟨200, p.ct, .raw t⟩)
  | .twirp => twFinish p {} (some e)

/-- `Context(req)`: the metadata the handler sees — `some none` when some header is malformed
    (ServeHTTP then keeps the request's own context), `none` = buildContext panicked -/
def mdOf (hdrs : List Bytes) : Option (Option (List (Bytes × Bytes))) :=
  match buildContext hdrs with
  | .ok ps => some (some ps)
  | .panic => none
  | _ => some none

def serve (req : Request) (s : Script) : Resp :=
  match select req.ct with
  | none => .panic                                     -- nil Protocol
  | some p =>
    match mdOf req.hdrs with
    | none => .panic
    | some md =>
      if s.recv then
        match recvMsg p req.body with
        | .unmodelled => .unmodelled
        | .err e =>
          match finishOnly p e with
          | none => .panic
          | some r => .mk r "err" [] md
        | .ok m =>
          match serveSends p s.stop (if s.echo then m :: s.msgs else s.msgs) s.result with
          | (none, _) => .panic
          | (some r, acks) => .mk r "ok" acks md
      else
        match serveSends p s.stop s.msgs s.result with
        | (none, _) => .panic
        | (some r, acks) => .mk r "-" acks md

end Drpc.Http
