import Drpc.Bytes
/-
  Model of the protocol choice in drpchttp/handler.go `ServeHTTP` over the table of
  drpchttp/options.go `defaultProtocols`:

      pr, ok := w.opts.protocols[req.Header.Get("Content-Type")]
      if !ok { pr = w.opts.protocols["*"] }

  The table is hand-written here and tied to the source by `Tie.C14.defaultProtocols`
  (the extractor renders each entry as a description string; `describe` renders ours).
-/
namespace Drpc.Http
open Drpc

inductive ProtoKind where
  | twirp
  | grpcWeb
deriving Repr, DecidableEq

structure Proto where
  kind : ProtoKind
  ct : String        -- response Content-Type set by NewStream
  text : Bool        -- read = base64Read(grpcRead), write = base64Write(normalWrite)
  json : Bool        -- marshal/unmarshal = JSONMarshal/JSONUnmarshal (else protoMarshal/protoUnmarshal)
deriving Repr, DecidableEq

def describe (p : Proto) : String :=
  let m := if p.json then " marshal=JSONMarshal unmarshal=JSONUnmarshal" else " marshal=protoMarshal unmarshal=protoUnmarshal"
  match p.kind with
  | .twirp => "twirpProtocol ct=" ++ p.ct ++ m
  | .grpcWeb =>
    "grpcWebProtocol ct=" ++ p.ct ++
      (if p.text then " read=base64Read(grpcRead) write=base64Write(normalWrite)" else " read=grpcRead write=normalWrite") ++ m

/-- `defaultProtocols()`, sorted by key like the extractor output -/
def protocols : List (String × Proto) := [
  ("*", ⟨.twirp, "application/proto", false, false⟩),
  ("application/grpc-web+json", ⟨.grpcWeb, "application/grpc-web+json", false, true⟩),
  ("application/grpc-web+proto", ⟨.grpcWeb, "application/grpc-web+proto", false, false⟩),
  ("application/grpc-web-text+json", ⟨.grpcWeb, "application/grpc-web-text+json", true, true⟩),
  ("application/grpc-web-text+proto", ⟨.grpcWeb, "application/grpc-web-text+proto", true, false⟩),
  ("application/json", ⟨.twirp, "application/json", false, true⟩),
  ("application/proto", ⟨.twirp, "application/proto", false, false⟩)]

/-- Go map lookup -/
def lookup {α : Type} (k : String) : List (String × α) → Option α
  | [] => none
  | (k', v) :: rest => if k' = k then some v else lookup k rest

/-- `none` = the nil Protocol (calling NewStream on it panics): only if the table had no "*" entry -/
def selectIn (table : List (String × Proto)) (ct : String) : Option Proto :=
  match lookup ct table with
  | some p => some p
  | none => lookup "*" table

def select (ct : String) : Option Proto := selectIn protocols ct

end Drpc.Http
