import Drpc.Bytes
/-
  Model of drpchttp/context.go: unhex, unescape, buildContext — and an independent reference
  percent-decoder written from RFC 3986 §2.1 (`pct-encoded = "%" HEXDIG HEXDIG`).

  Go strings are byte strings: `Bytes`.  Every Go operation that can panic is a checked operation
  here: `s[i]` (index), `entry[index+1:]` (slice), `strings.Builder.Grow(n)` with `n < 0`.

    func unescape(s string) (string, error) {
        count := strings.Count(s, "%")
        if count == 0 { return s, nil }
        var t strings.Builder
        if n := len(s) - 2*count; n > 0 { t.Grow(n) }          // repaired: was `t.Grow(len(s) - 2*count)`
        for i := uint(0); i < uint(len(s)); i++ {
            switch s[i] {
            case '%':
                if i+2 >= uint(len(s)) { return "", errs.New("… sequence ends") }
                c, ok := unhex(0, s[i+1], 16); if !ok { return "", errs.New("… invalid hex digit") }
                c, ok = unhex(c, s[i+2], 1);   if !ok { return "", errs.New("… invalid hex digit") }
                _ = t.WriteByte(c); i += 2
            default: _ = t.WriteByte(s[i]) } }
        return t.String(), nil }
-/
namespace Drpc.Http
open Drpc

/-- result of `unescape` -/
inductive UR where
  | ok (s : Bytes)
  | ends            -- "sequence ends"
  | hex             -- "invalid hex digit"
  | panic           -- index out of range / Grow(negative)
deriving Repr, DecidableEq

def pct : Byte := 37#8     -- '%'
def eqs : Byte := 61#8     -- '='

/-- the `switch` of `unhex`: numeric value of a hex digit -/
def unhexDigit (v : Byte) : Option Byte :=
  if 48 ≤ v.toNat ∧ v.toNat ≤ 57 then some (v - 48#8)
  else if 97 ≤ v.toNat ∧ v.toNat ≤ 102 then some (v - 97#8 + 10#8)
  else if 65 ≤ v.toNat ∧ v.toNat ≤ 70 then some (v - 65#8 + 10#8)
  else none

/-- `unhex(c, v, m)`: `c + d*m` in byte arithmetic -/
def unhex (c v m : Byte) : Option Byte := (unhexDigit v).map (fun d => c + d * m)

/-- The `for` loop; `fuel` bounds the number of iterations (`i` grows by ≥ 1 each time, so
    `len s + 1` is enough — `unescapeLoop_fuel`); running out of fuel is reported as `panic` so that
    it can never be mistaken for a result. -/
def unescapeLoop (s : Bytes) : Nat → Nat → Bytes → UR
  | 0, _, _ => .panic
  | fuel + 1, i, acc =>
    if i < s.length then
      match s[i]? with
      | none => .panic                                   -- s[i]
      | some c =>
        if c = pct then
          if i + 2 ≥ s.length then .ends else
          match s[i+1]?, s[i+2]? with
          | some h, some l =>                              -- s[i+1], s[i+2]
            match unhex 0#8 h 16#8 with
            | none => .hex
            | some c1 =>
              match unhex c1 l 1#8 with
              | none => .hex
              | some c2 => unescapeLoop s fuel (i + 3) (acc ++ [c2])
          | _, _ => .panic
        else unescapeLoop s fuel (i + 1) (acc ++ [c])
    else .ok acc

/-- `strings.Builder.Grow(n)` panics for negative `n` -/
def growOk (n : Int) : Bool := decide (0 ≤ n)

/-- `unescape`, parametrised by whether the `n > 0` guard in front of `Grow` is present
    (`guard = false` is the code before the repair). -/
def unescapeG (guard : Bool) (s : Bytes) : UR :=
  let count := s.count pct
  if count = 0 then .ok s else
  let n : Int := (s.length : Int) - 2 * (count : Int)
  let callsGrow := if guard then decide (n > 0) else true
  if callsGrow && !growOk n then .panic else
  unescapeLoop s (s.length + 1) 0 []

/-- mirrors `unescape` of the repaired tree -/
def unescape (s : Bytes) : UR := unescapeG true s

/-- bytes handed to `Builder.Grow` (the only allocation driven by the header before the loop) -/
def unescapeGrow (s : Bytes) : Nat := ((s.length : Int) - 2 * (s.count pct : Int)).toNat

/-- result of decoding one `X-Drpc-Metadata` entry -/
inductive ER where
  | ok (key value : Bytes)
  | ends
  | hex
  | panic
deriving Repr, DecidableEq

/-- `strings.IndexByte` -/
def indexByte (b : Byte) : Bytes → Option Nat
  | [] => none
  | c :: rest => if c = b then some 0 else (indexByte b rest).map (· + 1)

/-- one iteration of `buildContext`: split at the first '=', unescape the value, then the key -/
def buildEntry (entry : Bytes) : ER :=
  match indexByte eqs entry with
  | some idx =>
    if idx + 1 > entry.length then .panic else            -- entry[index+1:]
    match unescape (entry.drop (idx + 1)) with
    | .ends => .ends | .hex => .hex | .panic => .panic
    | .ok value =>
      match unescape (entry.take idx) with                 -- entry[:index]
      | .ends => .ends | .hex => .hex | .panic => .panic
      | .ok key => .ok key value
  | none =>
    match unescape entry with
    | .ends => .ends | .hex => .hex | .panic => .panic
    | .ok key => .ok key []

/-- result of `buildContext`: the pairs handed to `drpcmetadata.Add`, in order -/
inductive CR where
  | ok (pairs : List (Bytes × Bytes))
  | ends
  | hex
  | panic
deriving Repr, DecidableEq

def buildContext : List Bytes → CR
  | [] => .ok []
  | e :: rest =>
    match buildEntry e with
    | .ends => .ends | .hex => .hex | .panic => .panic
    | .ok k v =>
      match buildContext rest with
      | .ok ps => .ok ((k, v) :: ps)
      | r => r

/-! ### Reference: RFC 3986 §2.1 -/
namespace PercentRef

/-- HEXDIG (RFC 3986 §2.1 / RFC 5234 B.1; "uppercase … and lowercase are equivalent") -/
def hexdig (c : Byte) : Option Nat :=
  let n := c.toNat
  if 48 ≤ n ∧ n ≤ 57 then some (n - 48)            -- DIGIT
  else if 65 ≤ n ∧ n ≤ 70 then some (n - 55)       -- "A".."F"
  else if 97 ≤ n ∧ n ≤ 102 then some (n - 87)      -- "a".."f"
  else none

def prepend (c : Byte) : UR → UR
  | .ok t => .ok (c :: t)
  | r => r

/-- Decode left to right: `%` HEXDIG HEXDIG is the octet `16*hi + lo`, every other octet stands
    for itself.  A `%` without two following octets is malformed ("sequence ends"); a `%` followed
    by two octets that are not both HEXDIG is malformed ("invalid hex digit"). -/
def decode : Bytes → UR
  | [] => .ok []
  | c :: rest =>
    if c = pct then
      match rest with
      | h :: l :: rest' =>
        match hexdig h, hexdig l with
        | some a, some b => prepend (BitVec.ofNat 8 (16 * a + b)) (decode rest')
        | _, _ => .hex
      | _ => .ends
    else prepend c (decode rest)

end PercentRef

/-! ### Escapers (what a client applies before sending the header) -/

def hexUpper (n : Nat) : Byte := if n < 10 then BitVec.ofNat 8 (48 + n) else BitVec.ofNat 8 (55 + n)
def hexLower (n : Nat) : Byte := if n < 10 then BitVec.ofNat 8 (48 + n) else BitVec.ofNat 8 (87 + n)

/-- percent-encode exactly the octets selected by `p` (upper- or lower-case hex digits) -/
def escapeWith (p : Byte → Bool) (upper : Bool) : Bytes → Bytes
  | [] => []
  | c :: rest =>
    if p c then
      pct :: (if upper then hexUpper (c.toNat / 16) else hexLower (c.toNat / 16))
          :: (if upper then hexUpper (c.toNat % 16) else hexLower (c.toNat % 16))
          :: escapeWith p upper rest
    else c :: escapeWith p upper rest

/-- escape every octet -/
def escapeAll : Bytes → Bytes := escapeWith (fun _ => true) true
/-- escape only what the package documentation says is necessary: '%' and '=' -/
def escapeMin : Bytes → Bytes := escapeWith (fun c => c == pct || c == eqs) true

end Drpc.Http
