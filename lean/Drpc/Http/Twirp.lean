import Drpc.Http.GrpcWeb
/-
  Model of drpchttp/protocol_twirp.go: a single buffered response and the error mapping.

    func (ts *twirpStream) MsgSend(msg, enc) (err error) {
        if ts.sendErr != nil { return ts.sendErr }
        ts.response, err = ts.tp.marshal(msg, enc)
        setErrorOrEOF(&ts.sendErr, err)            // nil → io.EOF: every later send is refused
        return err }

    func (ts *twirpStream) Finish(err error) {
        if err == nil { ts.rw.WriteHeader(200); ts.rw.Write(ts.response); return }
        code := getCode(err)
        status := twirpStatus[code]; if status == 0 { status = 500 }
        data, _ := json.MarshalIndent(map[string]interface{}{"code": code, "msg": err.Error()}, "", "    ")
        ts.rw.Header().Set("Content-Type", "application/json"); ts.rw.WriteHeader(status); ts.rw.Write(data) }
-/
namespace Drpc.Http
open Drpc

structure TwirpSt where
  response : Bytes := []
  sendErr : Option SendR := none
deriving Repr, DecidableEq

/-- `MsgSend` (the suite's marshal never fails) -/
def twSend (json : Bool) (st : TwirpSt) (msg : Bytes) : SendR × TwirpSt :=
  match st.sendErr with
  | some e => (e, st)
  | none => (.ok, { response := marshal json msg, sendErr := some .eof })

/-- `twirpStatus` (tied: `Tie.C14.twirpStatus`) -/
def twirpStatusS : List (String × Nat) := [
  ("canceled", 408), ("unknown", 500), ("invalid_argument", 400), ("malformed", 400),
  ("deadline_exceeded", 408), ("not_found", 404), ("bad_route", 404), ("already_exists", 409),
  ("permission_denied", 403), ("unauthenticated", 401), ("resource_exhausted", 429),
  ("failed_precondition", 412), ("aborted", 409), ("out_of_range", 400), ("unimplemented", 501),
  ("internal", 500), ("unavailable", 503), ("dataloss", 500)]

def twirpStatus : List (Bytes × Nat) := twirpStatusS.map (fun kv => (asc kv.1, kv.2))

def lookupB (k : Bytes) : List (Bytes × Nat) → Option Nat
  | [] => none
  | (k', v) :: rest => if k' = k then some v else lookupB k rest

/-- `status := table[code]; if status == 0 { status = 500 }` -/
def statusIn (table : List (Bytes × Nat)) (code : Bytes) : Nat :=
  match lookupB code table with
  | some s => if s = 0 then 500 else s
  | none => 500

def statusOf (code : Bytes) : Nat := statusIn twirpStatus code

/-- what the response recorder holds after `Finish` -/
inductive Body where
  | raw (b : Bytes)
  | jsonErr (code msg : Bytes)       -- the JSON object {"code": code, "msg": msg}
deriving Repr, DecidableEq

structure Reply where
  status : Nat
  ct : String
  body : Body
deriving Repr, DecidableEq

/-- `Finish` (none = getCode panicked) -/
def twFinish (p : Proto) (st : TwirpSt) (e : Option Err) : Option Reply :=
  match e with
  | none => some ⟨200, p.ct, .raw st.response⟩
  | some err =>
    match getCode e with
    | .panic => none
    | .ok code => some ⟨statusOf code, "application/json", .jsonErr code err.msg⟩

end Drpc.Http
