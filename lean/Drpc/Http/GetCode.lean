import Drpc.Bytes
/-
  Model of drpchttp/handler.go `getCode` and drpcerr/err.go `Code`, over a description of an error
  value that the Go suite shares with the model.

  An error value is a chain of nodes, outermost first, followed by how the chain ends; every
  node's `Error()` returns the same message text.
    wrap        a type with `Unwrap() error`
    cause       a type with `Cause() error`
    coded c     a type with `Code() uint64` (returns c) and `Unwrap()`/`Cause()`   (drpcerr.WithCode)
    twirp s     a type with `Code() string` (returns s) and `Unwrap()`             (a Twirp error)
    badCode     a type with a method named Code of another signature (`Code(int) string`) and `Unwrap()`
  ends:  leaf     errors.New(msg): neither Unwrap nor Cause
         nilWrap  a type whose `Unwrap()` returns nil

    func getCode(err error) string {
        code := "unknown"
        if dcode := drpcerr.Code(err); dcode != 0 { code = fmt.Sprintf("drpcerr(%d)", dcode) }
        for i := 0; i < 100 && err != nil; i++ {           // repaired: `&& err != nil` was missing
            if m := reflect.ValueOf(err).MethodByName("Code"); m.IsValid() {   // panics on the zero Value
                if mt := m.Type(); mt.NumIn() == 0 && mt.NumOut() == 1 && mt.Out(0).Kind() == reflect.String {
                    return m.Call(nil)[0].String() } }
            switch v := err.(type) {
            case interface{ Cause() error }:  err = v.Cause()
            case interface{ Unwrap() error }: err = v.Unwrap()
            default: return code } }
        return code }
-/
namespace Drpc.Http
open Drpc

/-- ASCII string literal → bytes (kernel-reducible, unlike `String.toUTF8`) -/
def asc (s : String) : Bytes := s.toList.map (fun c => BitVec.ofNat 8 c.toNat)

inductive Node where
  | wrap
  | cause
  | coded (c : U64)
  | twirp (s : Bytes)
  | badCode
deriving Repr, DecidableEq

inductive End where
  | leaf
  | nilWrap
deriving Repr, DecidableEq

structure Err where
  chain : List Node
  fin : End
  msg : Bytes
deriving Repr, DecidableEq

/-- a position in the chain; `none` is the nil error -/
abbrev Cur := Option (List Node × End)

def Err.cur (e : Err) : Cur := some (e.chain, e.fin)
def curOf : Option Err → Cur
  | none => none
  | some e => e.cur

/-- `strconv.FormatUint(n, 10)` / `%d` -/
def toDec (n : Nat) : Bytes :=
  if h : n < 10 then [BitVec.ofNat 8 (48 + n)] else toDec (n / 10) ++ [BitVec.ofNat 8 (48 + n % 10)]
termination_by n
decreasing_by omega

/-- drpcerr.Code: at most `fuel` (=100) type switches -/
def drpcCodeLoop : Nat → Cur → U64
  | 0, _ => 0#64
  | _ + 1, none => 0#64                               -- nil: `default: return 0`
  | _ + 1, some (.coded c :: _, _) => c               -- `case interface{ Code() uint64 }`
  | n + 1, some (_ :: rest, f) => drpcCodeLoop n (some (rest, f))   -- Cause() / Unwrap()
  | _ + 1, some ([], .leaf) => 0#64                   -- default
  | n + 1, some ([], .nilWrap) => drpcCodeLoop n none -- Unwrap() = nil

def drpcCode (e : Option Err) : U64 := drpcCodeLoop 100 (curOf e)

/-- what `reflect.ValueOf(err).MethodByName("Code")` finds -/
inductive Method where
  | invalid                 -- no such method: `m.IsValid()` is false
  | stringFn (s : Bytes)    -- func() string
  | otherFn                 -- some other signature
deriving Repr, DecidableEq

/-- `none` = panic: "call of reflect.Value.MethodByName on zero Value" (err == nil) -/
def methodByNameCode : Cur → Option Method
  | none => none
  | some (.twirp s :: _, _) => some (.stringFn s)
  | some (.coded _ :: _, _) => some .otherFn
  | some (.badCode :: _, _) => some .otherFn
  | some _ => some .invalid

inductive GC where
  | ok (s : Bytes)
  | panic
deriving Repr, DecidableEq

/-- the loop of `getCode`; `guard` = the `&& err != nil` condition is present -/
def getCodeLoop (guard : Bool) : Nat → Cur → Bytes → GC
  | 0, _, code => .ok code
  | n + 1, cur, code =>
    if guard && cur.isNone then .ok code else
    match methodByNameCode cur with
    | none => .panic
    | some (.stringFn s) => .ok s
    | some _ =>
      match cur with
      | some (_ :: rest, f) => getCodeLoop guard n (some (rest, f)) code     -- Cause() / Unwrap()
      | some ([], .nilWrap) => getCodeLoop guard n none code            -- Unwrap() = nil
      | some ([], .leaf) => .ok code                                    -- default: return code
      | none => .ok code

def defaultCode (e : Option Err) : Bytes :=
  if drpcCode e ≠ 0#64 then asc "drpcerr(" ++ toDec (drpcCode e).toNat ++ asc ")" else asc "unknown"

def getCodeG (guard : Bool) (e : Option Err) : GC := getCodeLoop guard 100 (curOf e) (defaultCode e)

/-- mirrors `getCode` of the repaired tree -/
def getCode (e : Option Err) : GC := getCodeG true e

def twirpStr : Node → Option Bytes
  | .twirp s => some s
  | _ => none

def codedVal : Node → Option U64
  | .coded c => some c
  | _ => none

end Drpc.Http
