import Drpc.Http.Base64
import Drpc.Http.GetCode
import Drpc.Http.Select
/-
  Model of drpchttp/protocol_grpc_web.go (framedWrite, MsgSend, Finish) and of the request size
  rules of drpchttp/encoding.go (readExactly, grpcRead), plus reference parsers for what a
  grpc-web client does with the response: a frame parser and a (lenient) trailer-line splitter.

    func (gwp grpcWebProtocol) framedWrite(rw, hdr byte, buf []byte) error {
        tmp := [5]byte{0: hdr}; binary.BigEndian.PutUint32(tmp[1:5], uint32(len(buf)))
        return gwp.write(rw, append(tmp[:], buf...)) }            // write = normalWrite | base64Write(normalWrite)

    func (gws *grpcWebStream) MsgSend(msg, enc) error {
        data, err := gws.gwp.marshal(msg, enc)
        if err != nil { return err } else if len(data) >= maxSize { return errs.New("message too large") }
        else if err := gws.gwp.framedWrite(gws.rw, 0, data); err != nil { return err } … return nil }

    var nlSpace = strings.NewReplacer("\n", " ", "\r", " ")
    func (gws *grpcWebStream) Finish(err error) {
        status := strconv.FormatUint(drpcerr.Code(err), 10)
        if err != nil && status == "0" { status = "2" }
        write := func(k, v string) { buf: k, ": ", textproto.TrimString(nlSpace.Replace(v)), "\r\n" }
        write("grpc-status", status)
        if err != nil { write("grpc-code", getCode(err)); write("grpc-message", err.Error()) }
        _ = gws.gwp.framedWrite(gws.rw, 128, buf.Bytes()) }
-/
namespace Drpc.Http
open Drpc

/-- `const maxSize = 4 << 20` (tied: `Tie.C14.maxSize`) -/
def maxSize : Nat := 4194304

def bCR : Byte := 13#8
def bLF : Byte := 10#8

/-- `binary.BigEndian.PutUint32(_, uint32(n))` -/
def be32 (n : Nat) : Bytes :=
  [BitVec.ofNat 8 (n / 16777216), BitVec.ofNat 8 (n / 65536), BitVec.ofNat 8 (n / 256), BitVec.ofNat 8 n]

/-- `binary.BigEndian.Uint32` -/
def u32 (a b c d : Byte) : Nat := a.toNat * 16777216 + b.toNat * 65536 + c.toNat * 256 + d.toNat

/-- the bytes handed to `gwp.write` by `framedWrite` -/
def frame (flag : Byte) (data : Bytes) : Bytes := flag :: (be32 data.length ++ data)

/-- `gwp.write`: normalWrite, or base64 of this one write -/
def writeOut (text : Bool) (chunk : Bytes) : Bytes := if text then Base64.encode chunk else chunk

/-- `gwp.marshal` for the pass-through byte encoding of the suite: protoMarshal = the bytes;
    JSONMarshal falls back to `json.Marshal([]byte)` = a JSON string holding the base64 text -/
def marshal (json : Bool) (msg : Bytes) : Bytes :=
  if json then 34#8 :: (Base64.encode msg ++ [34#8]) else msg

/-- what a `MsgSend` returns to the handler -/
inductive SendR where
  | ok
  | tooLarge        -- errs.New("message too large")
  | eof             -- io.EOF (Twirp: a response was already buffered)
deriving Repr, DecidableEq

/-- `MsgSend` with the limit as a parameter: result and bytes written to the response -/
def gwSendP (mx : Nat) (p : Proto) (msg : Bytes) : SendR × Bytes :=
  let data := marshal p.json msg
  if data.length ≥ mx then (.tooLarge, []) else (.ok, writeOut p.text (frame 0#8 data))

def gwSend (p : Proto) (msg : Bytes) : SendR × Bytes := gwSendP maxSize p msg

/-! ### trailer values -/

/-- the replacer pairs (tied: `Tie.C14.nlSpace`) -/
def nlSpace : List (Byte × Byte) := [(bLF, 32#8), (bCR, 32#8)]

/-- a byte replacer: the first pair whose old byte matches -/
def replaceByte : List (Byte × Byte) → Byte → Byte
  | [], b => b
  | (o, n) :: rest, b => if b = o then n else replaceByte rest b

def nlReplace (v : Bytes) : Bytes := v.map (replaceByte nlSpace)

/-- `textproto.isASCIISpace` -/
def isASCIISpace (b : Byte) : Bool := b == 32#8 || b == 9#8 || b == bLF || b == bCR

/-- `textproto.TrimString` -/
def trimString (s : Bytes) : Bytes :=
  ((s.dropWhile isASCIISpace).reverse.dropWhile isASCIISpace).reverse

def sanitize (v : Bytes) : Bytes := trimString (nlReplace v)

def colonSpace : Bytes := [58#8, 32#8]

/-- one call of the `write` closure -/
def trailerLine (kv : Bytes × Bytes) : Bytes := kv.1 ++ (colonSpace ++ (sanitize kv.2 ++ [bCR, bLF]))

def kStatus : Bytes := asc "grpc-status"
def kCode : Bytes := asc "grpc-code"
def kMessage : Bytes := asc "grpc-message"

/-- `status` of Finish -/
def statusText (e : Option Err) : Bytes :=
  let s := toDec (drpcCode e).toNat
  if e.isSome && s == asc "0" then asc "2" else s

/-- the (key, raw value) pairs Finish writes; `code` is the result of getCode -/
def trailerPairs (e : Option Err) (code : Bytes) : List (Bytes × Bytes) :=
  (kStatus, statusText e) ::
    (match e with
     | none => []
     | some err => [(kCode, code), (kMessage, err.msg)])

def trailerBlock (pairs : List (Bytes × Bytes)) : Bytes := (pairs.map trailerLine).flatten

/-- `Finish`: the bytes written (none = getCode panicked) -/
def gwFinish (p : Proto) (e : Option Err) : Option Bytes :=
  match (match e with | none => GC.ok [] | some _ => getCode e) with
  | .panic => none
  | .ok code => some (writeOut p.text (frame 128#8 (trailerBlock (trailerPairs e code))))

/-! ### request size rules -/

inductive ReadR where
  | ok (data : Bytes)
  | eof                 -- io.EOF
  | unexpectedEOF       -- io.ErrUnexpectedEOF
  | tooLarge            -- errs.New("message too large")
deriving Repr, DecidableEq

/-- `grpcRead` on the (decoded) request stream `r`, with the limit as a parameter: result and the
    number of bytes allocated by the two `readExactly` calls (`make([]byte, n)`). -/
def grpcReadP (mx : Nat) (r : Bytes) : ReadR × Nat :=
  match r with
  | [] => (.eof, 5)                                     -- io.ReadFull: no bytes → io.EOF
  | _ :: a :: b :: c :: d :: rest =>
    let size := u32 a b c d
    if size > mx then (.tooLarge, 5)                    -- rejected BEFORE the second allocation
    else if rest.length < size then (.unexpectedEOF, 5 + size)   -- EOF/short → ErrUnexpectedEOF
    else (.ok (rest.take size), 5 + size)
  | _ => (.unexpectedEOF, 5)                            -- 1..4 bytes

def grpcRead (r : Bytes) : ReadR × Nat := grpcReadP maxSize r

/-- `twirpRead`: `io.ReadAll(io.LimitReader(r, limit))`, then `len(data) > mx` → error.
    The repaired tree has `limit = mx + 1`; before the repair `limit = mx`. -/
def twirpReadP (mx limit : Nat) (body : Bytes) : ReadR × Nat :=
  let data := body.take limit
  if data.length > mx then (.tooLarge, data.length) else (.ok data, data.length)

def twirpRead (body : Bytes) : ReadR × Nat := twirpReadP maxSize (maxSize + 1) body

/-! ### references (client side) -/
namespace GrpcWebRef

/-- grpc-web framing: 1 flag byte, 4 bytes big-endian length, that many payload bytes; repeated.
    `none` if the stream ends inside a frame. -/
def parseAux : Nat → Bytes → Option (List (Byte × Bytes))
  | _, [] => some []
  | fuel + 1, flag :: a :: x :: c :: d :: rest =>
    if rest.length < u32 a x c d then none else
    (parseAux fuel (rest.drop (u32 a x c d))).map (fun fs => (flag, rest.take (u32 a x c d)) :: fs)
  | _, _ => none

/-- every frame consumes at least 5 bytes, so `length` frames of fuel are more than enough -/
def parse (b : Bytes) : Option (List (Byte × Bytes)) := parseAux b.length b

/-- Split a trailer block into lines the way a lenient HTTP/1 header parser does: CRLF, a bare LF
    and a bare CR all end a line; an unterminated tail is a line too.
    (`afterCR`: the previous byte was a CR that already ended a line, so an LF right after it is
    part of the same terminator.) -/
def lines : Bytes → Bytes → Bool → List Bytes
  | [], cur, _ => if cur.isEmpty then [] else [cur]
  | c :: rest, cur, afterCR =>
    if c = bLF then (if afterCR then lines rest [] false else cur :: lines rest [] false)
    else if c = bCR then cur :: lines rest [] true
    else lines rest (cur ++ [c]) false

/-- `key: value` → (key, value): split at the first ':' which must be followed by a space -/
def splitColon : Bytes → Bytes → Option (Bytes × Bytes)
  | [], _ => none
  | c :: rest, key =>
    if c = 58#8 then
      match rest with
      | d :: v => if d = 32#8 then some (key, v) else none
      | [] => none
    else splitColon rest (key ++ [c])

def parseTrailers (block : Bytes) : Option (List (Bytes × Bytes)) :=
  (lines block [] false).mapM (fun l => splitColon l [])

end GrpcWebRef
end Drpc.Http
