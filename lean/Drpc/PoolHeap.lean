import Drpc.Pool
/-
  Pointer-level version of the pool model: `next`/`prev` of both nodes, `head`/`tail`/`count` of the
  lists, updated statement by statement as in entry.go; loops follow the pointers (a removed entry
  keeps its own pointers).  Executable only: the driver runs it next to `Drpc.Pool` on every
  correspondence case and reports any difference in the observations, so the list-level model the
  theorems are about, this one, and the Go code are compared three ways.
-/
namespace Drpc.PoolHeap
open Drpc.Pool (Exp Conn Cfg Op Out Status upd)

structure Node where
  next : Option Nat := none
  prev : Option Nat := none
  removed : Bool := false
deriving Inhabited

structure Entry where
  key : Nat := 0
  val : Nat := 0
  exp : Exp := .none
  global : Node := {}
  local_ : Node := {}
deriving Inhabited

structure HList where
  head : Option Nat := none
  tail : Option Nat := none
  count : Int := 0
deriving Inhabited

/-- the heap of entries: index = entry id (an array rather than a function: a function-typed
    intermediate value is compiled eta-expanded and redoes its updates on every lookup) -/
abbrev Heap := Array Entry

def Heap.get (h : Heap) (i : Nat) : Entry := h.getD i default
def Heap.set (h : Heap) (i : Nat) (e : Entry) : Heap :=
  if i < h.size then h.setIfInBounds i e else (h ++ Array.replicate (i - h.size) (default : Entry)).push e

structure State where
  ents : Heap
  next : Nat
  order : HList
  locals : Nat → Option HList
  conns : Nat → Conn

def init : State :=
  { ents := #[], next := 0, order := {}, locals := fun _ => none, conns := fun _ => {} }

/-- which of the two nodes of an entry a list operation works on -/
inductive Which where | g | l

def getNode (w : Which) (e : Entry) : Node := match w with | .g => e.global | .l => e.local_
def setNode (w : Which) (e : Entry) (n : Node) : Entry :=
  match w with | .g => { e with global := n } | .l => { e with local_ := n }

/-- apply `f` to the chosen node of an entry.  (Used as `ents.set i (modEntry w (ents.get i) f)`: a
    definition that *returns* a function is compiled eta-expanded and would redo its body on every
    lookup, which makes chains of updates exponentially slow.) -/
def modEntry (w : Which) (e : Entry) (f : Node → Node) : Entry := setNode w e (f (getNode w e))

/-- `appendEntry` -/
def appendEntry (ents : Heap) (l : HList) (w : Which) (e : Nat) : Heap × HList :=
  let l1 := if l.head.isNone then { l with head := some e } else l
  let ents1 := match l1.tail with
    | some t =>
      let en := ents.set t (modEntry w (ents.get t) (fun n => { n with next := some e }))
      en.set e (modEntry w (en.get e) (fun n => { n with prev := some t }))
    | none => ents
  (ents1, { l1 with tail := some e, count := l1.count + 1 })

/-- `removeEntry` -/
def removeEntry (ents : Heap) (l : HList) (w : Which) (e : Nat) : Heap × HList :=
  let n := getNode w (ents.get e)
  if n.removed then (ents, l)
  else
    let ents := ents.set e (modEntry w (ents.get e) (fun n => { n with removed := true }))
    let l := if l.head = some e then { l with head := n.next } else l
    let ents := match n.next with
      | some x => ents.set x (modEntry w (ents.get x) (fun m => { m with prev := n.prev }))
      | none => ents
    let l := if l.tail = some e then { l with tail := n.prev } else l
    let ents := match n.prev with
      | some x => ents.set x (modEntry w (ents.get x) (fun m => { m with next := n.next }))
      | none => ents
    (ents, { l with count := l.count - 1 })

def removeLocal (s : State) (k e : Nat) : State :=
  match s.locals k with
  | none => s
  | some l =>
    let (en, l') := removeEntry s.ents l .l e
    { s with ents := en, locals := upd s.locals k (some l') }

def removeGlobal (s : State) (e : Nat) : State :=
  let (en, l') := removeEntry s.ents s.order .g e
  { s with ents := en, order := l' }

def unlink (s : State) (k e : Nat) : State := removeGlobal (removeLocal s k e) e

def poolCloseConn (s : State) (v : Nat) : State :=
  { s with conns := upd s.conns v { s.conns v with closed := true, poolCloses := (s.conns v).poolCloses + 1 } }

def closeEntry (s : State) (e : Nat) : State :=
  match (s.ents.get e).exp with
  | .none => poolCloseConn s (s.ents.get e).val
  | .armed => poolCloseConn { s with ents := s.ents.set e { s.ents.get e with exp := .stopped } } (s.ents.get e).val
  | _ => s

def keyLoop (cfg : Cfg) (k : Nat) : Nat → State → State × Status
  | 0, s => (s, .stuck)
  | n + 1, s =>
    match s.locals k with
    | none => (s, .stuck)
    | some l =>
      if cfg.keyCapacity ≠ 0 ∧ l.count ≥ cfg.keyCapacity then
        match l.head with
        | none => (s, .panic)
        | some e => keyLoop cfg k n (unlink (closeEntry s e) k e)
      else (s, .ok)

def capLoop (cfg : Cfg) (k : Nat) : Nat → State → State × Status
  | 0, s => (s, .stuck)
  | n + 1, s =>
    if cfg.capacity ≠ 0 ∧ s.order.count ≥ cfg.capacity then
      match s.order.head with
      | none => (s, .panic)
      | some e =>
        let ke := (s.ents.get e).key
        let s1 := closeEntry s e
        match s1.locals ke with
        | none => (s1, .panic)
        | some _ =>
          let s2 := unlink s1 ke e
          let s3 := match s2.locals ke with
            | some l => if l.count = 0 ∧ ke ≠ k then { s2 with locals := upd s2.locals ke none } else s2
            | none => s2
          capLoop cfg k n s3
    else (s, .ok)

def insert (cfg : Cfg) (s : State) (k v : Nat) : State × Status :=
  match s.locals k with
  | none => (s, .stuck)
  | some l =>
    let e := s.next
    let ents0 := s.ents.set e { key := k, val := v, exp := if cfg.expiration then .armed else .none }
    let (ents1, l') := appendEntry ents0 l .l e
    let (ents2, o') := appendEntry ents1 s.order .g e
    ({ s with ents := ents2, next := e + 1, locals := upd s.locals k (some l'), order := o' }, .ok)

def put (cfg : Cfg) (s : State) (k v : Nat) : State × Status :=
  if cfg.capacity < 0 ∨ cfg.keyCapacity < 0 then (poolCloseConn s v, .ok)
  else if (s.conns v).closed then (s, .ok)
  else
    let s0 := match s.locals k with
      | none => { s with locals := upd s.locals k (some {}) }
      | some _ => s
    match keyLoop cfg k (s0.next + 1) s0 with
    | (s1, .ok) =>
      (match capLoop cfg k (s1.next + 1) s1 with
       | (s2, .ok) => insert cfg s2 k v
       | r => r)
    | r => r

/-- `for ent := local.head; ent != nil; ent = ent.local.next` -/
def takeLoop (k : Nat) : Nat → Option Nat → State → State × Out
  | 0, _, s => (s, .stuck)
  | _ + 1, none, s => (s, .miss)
  | n + 1, some e, s =>
    let nxt := fun (t : State) => (t.ents.get e).local_.next
    if (s.conns (s.ents.get e).val).blocked then takeLoop k n (nxt s) s
    else
      let s1 := unlink s k e
      match (s1.ents.get e).exp with
      | .none =>
        if (s1.conns (s1.ents.get e).val).closed then takeLoop k n (nxt s1) s1
        else (s1, .taken e (s1.ents.get e).val)
      | .armed =>
        let s2 := { s1 with ents := s1.ents.set e { s1.ents.get e with exp := .stopped } }
        if (s1.conns (s1.ents.get e).val).closed then takeLoop k n (nxt s2) s2
        else (s2, .taken e (s1.ents.get e).val)
      | _ => takeLoop k n (nxt s1) s1

def take (s : State) (k : Nat) : State × Out :=
  match s.locals k with
  | none => (s, .miss)
  | some l => takeLoop k (s.next + 1) l.head s

/-- `for ent := p.order.head; ent != nil; ent = ent.global.next` -/
def closeAll : Nat → Option Nat → State → State
  | 0, _, s => s
  | _ + 1, none, s => s
  | n + 1, some e, s =>
    let s1 := closeEntry s e
    let en := s1.ents.get e
    let en := { en with global := { en.global with removed := true }, local_ := { en.local_ with removed := true } }
    closeAll n (s1.ents.get e).global.next { s1 with ents := s1.ents.set e en }

def close (s : State) : State :=
  let s1 := closeAll (s.next + 1) s.order.head s
  { s1 with locals := fun _ => none, order := {} }

def poolRemove (s : State) (e : Nat) : State :=
  let k := (s.ents.get e).key
  match s.locals k with
  | none => s
  | some _ =>
    let s1 := unlink s k e
    match s1.locals k with
    | some l => if l.count = 0 then { s1 with locals := upd s1.locals k none } else s1
    | none => s1

def step (cfg : Cfg) (s : State) : Op → State × Out
  | .put k v =>
    match put cfg s k v with
    | (s', .ok) => (s', .done)
    | (s', .panic) => (s', .panic)
    | (s', .stuck) => (s', .stuck)
  | .take k => take s k
  | .close => (close s, .done)
  | .fire e =>
    if e < s.next ∧ (s.ents.get e).exp = .armed then
      ({ s with ents := s.ents.set e { s.ents.get e with exp := .fired } }, .done)
    else (s, .done)
  | .cbClose e =>
    if e < s.next ∧ (s.ents.get e).exp = .fired then
      let v := (s.ents.get e).val
      ({ s with ents := s.ents.set e { s.ents.get e with exp := .cbClosed },
                conns := upd s.conns v { s.conns v with closed := true, cbCloses := (s.conns v).cbCloses + 1 } },
       .done)
    else (s, .done)
  | .cbRemove e =>
    if e < s.next ∧ (s.ents.get e).exp = .cbClosed then
      let s1 := poolRemove s e
      ({ s1 with ents := s1.ents.set e { s1.ents.get e with exp := .cbDone } }, .done)
    else (s, .done)
  | .envClose v => ({ s with conns := upd s.conns v { s.conns v with closed := true } }, .done)
  | .block v => ({ s with conns := upd s.conns v { s.conns v with blocked := true } }, .done)
  | .unblock v => ({ s with conns := upd s.conns v { s.conns v with blocked := false } }, .done)

/-- head→tail walk of a list through the `next` pointers of the chosen node -/
def walk (ents : Heap) (w : Which) : Nat → Option Nat → List Nat
  | 0, _ => []
  | _ + 1, none => []
  | n + 1, some e => e :: walk ents w n (getNode w (ents.get e)).next

end Drpc.PoolHeap
