import Lean
/-
  Audit: `lake env lean --run Audit.lean Drpc.Props.C08 [more modules]`
  For every theorem declared in the given module(s) whose name lives in the module's namespace,
  print one JSON line {"module","theorem","axioms":[…]}; exit 1 if any theorem depends on
  `sorryAx` or on an axiom outside {propext, Classical.choice, Quot.sound}.
-/
open Lean

def allowed : List Name := [``propext, ``Classical.choice, ``Quot.sound]

/-- theorems the compiler derives from `inductive` / `structure` declarations (constructor injectivity,
    `sizeOf` specs, projections of Prop-valued structures, equation lemmas): audited for axioms like
    every other theorem, but flagged so they are not counted as stated theorems -/
def isGenerated (env : Environment) (n : Name) : Bool :=
  env.isProjectionFn n ||
  (match n with
   | .str _ s => s == "inj" || s == "injEq" || s == "sizeOf_spec" || s == "eq_def" || s == "induct" ||
                 s == "induct_unfolding" || s == "fun_cases" || s == "fun_cases_unfolding" ||
                 (s.startsWith "eq_" && (s.drop 3).all Char.isDigit)
   | _ => false)

def auditModule (env : Environment) (mod : Name) : IO (Nat × Nat) := do
  let some idx := env.getModuleIdx? mod | throw (IO.userError s!"module {mod} not found")
  let mut total := 0
  let mut bad := 0
  let names := env.header.moduleData[idx.toNat]!.constNames
  for n in names do
    if !mod.isPrefixOf n then continue
    if n.isInternal then continue
    match env.find? n with
    | some (.thmInfo _) =>
      let (axs, _) ← (Lean.collectAxioms n : CoreM _).toIO
        { fileName := "<audit>", fileMap := default } { env := env }
      total := total + 1
      let extra := axs.toList.filter (fun a => !allowed.contains a)
      if !extra.isEmpty then bad := bad + 1
      let axsS := ", ".intercalate (axs.toList.map (fun a => s!"\"{a}\""))
      IO.println s!"\{\"module\":\"{mod}\",\"theorem\":\"{n}\",\"axioms\":[{axsS}],\"ok\":{extra.isEmpty},\"generated\":{isGenerated env n}}"
    | _ => pure ()
  return (total, bad)

def main (args : List String) : IO UInt32 := do
  initSearchPath (← findSysroot)
  let mods := args.map String.toName
  let env ← importModules (mods.toArray.map fun m => { module := m }) {}
  let mut bad := 0
  let mut total := 0
  for m in mods do
    let (t, b) ← auditModule env m
    total := total + t
    bad := bad + b
  IO.eprintln s!"audited {total} theorems, {bad} with unexpected axioms"
  return if bad == 0 && total > 0 then 0 else 1
