// Package corr is the small framework shared by the correspondence suites: every suite
// emits "request<TAB>answer" lines (the request is replayed on the Lean model by check.py
// and the answers are compared), "!ORACLE" lines for direct property oracles that failed on
// the implementation (these need no model: they are the failing-input search), and one
// "#STATS" line describing what was generated.
package corr

import (
	"bufio"
	"encoding/hex"
	"encoding/json"
	"fmt"
	"hash/fnv"
	"math/rand"
	"os"
	"sort"
	"strings"
)

type Out struct {
	w        *bufio.Writer
	Rand     *rand.Rand
	Seed     int64
	Thorough bool
	cases    int
	oracles  int
	dist     map[string]int
	seen     map[uint64]struct{}
	nontriv  int
	samples  []string
}

func New(seed int64, thorough bool) *Out {
	return &Out{
		w:        bufio.NewWriterSize(os.Stdout, 1<<20),
		Rand:     rand.New(rand.NewSource(seed)),
		Seed:     seed,
		Thorough: thorough,
		dist:     map[string]int{},
		seen:     map[uint64]struct{}{},
	}
}

// Case records one correspondence case. nontrivial says whether it counts as non-trivial
// under the suite's stated rule; distinctness is by hash of the request.
func (o *Out) Case(req, ans string, nontrivial bool) {
	if strings.ContainsAny(req, "\t\n") || strings.ContainsAny(ans, "\t\n") {
		panic("corr: tab/newline in case: " + req + " -> " + ans)
	}
	o.cases++
	h := fnv.New64a()
	h.Write([]byte(req))
	k := h.Sum64()
	if _, ok := o.seen[k]; !ok {
		o.seen[k] = struct{}{}
		if nontrivial {
			o.nontriv++
			if len(o.samples) < 6 && (o.nontriv%97 == 1) {
				s := req + " -> " + ans
				if len(s) > 400 {
					s = s[:400] + "…"
				}
				o.samples = append(o.samples, s)
			}
		}
	}
	fmt.Fprintf(o.w, "%s\t%s\n", req, ans)
}

// Explore records one explored scenario that has no model counterpart (it is counted in the
// statistics but not replayed on the Lean driver).
func (o *Out) Explore(desc string, nontrivial bool) {
	o.cases++
	h := fnv.New64a()
	h.Write([]byte(desc))
	k := h.Sum64()
	if _, ok := o.seen[k]; !ok {
		o.seen[k] = struct{}{}
		if nontrivial {
			o.nontriv++
			if len(o.samples) < 6 && (o.nontriv%17 == 1) {
				s := desc
				if len(s) > 400 {
					s = s[:400] + "…"
				}
				o.samples = append(o.samples, s)
			}
		}
	}
}

// Oracle reports a direct violation of the property on the implementation (no model involved).
func (o *Out) Oracle(name, input, detail string) {
	o.oracles++
	fmt.Fprintf(o.w, "!ORACLE\t%s\t%s\t%s\n", name, clean(input), clean(detail))
}

// OracleOK counts an oracle evaluation that passed.
func (o *Out) OracleOK(name string) { o.dist["oracle:"+name]++ }

func clean(s string) string {
	s = strings.ReplaceAll(s, "\t", " ")
	s = strings.ReplaceAll(s, "\n", " ")
	return s
}

func (o *Out) Stat(key string) { o.dist[key]++ }

func (o *Out) Finish() {
	keys := make([]string, 0, len(o.dist))
	for k := range o.dist {
		keys = append(keys, k)
	}
	sort.Strings(keys)
	st := map[string]interface{}{
		"cases":               o.cases,
		"distinct":            len(o.seen),
		"distinct_nontrivial": o.nontriv,
		"oracle_violations":   o.oracles,
		"distribution":        o.dist,
		"samples":             o.samples,
		"seed":                o.Seed,
	}
	b, _ := json.Marshal(st)
	fmt.Fprintf(o.w, "#STATS\t%s\n", b)
	o.w.Flush()
}

func Hex(b []byte) string {
	if len(b) == 0 {
		return "-"
	}
	return hex.EncodeToString(b)
}

func B01(b bool) string {
	if b {
		return "1"
	}
	return "0"
}

// Catch runs f and returns "panic:<msg>" if it panicked.
func Catch(f func() string) (res string) {
	defer func() {
		if r := recover(); r != nil {
			res = "panic"
			_ = r
		}
	}()
	return f()
}
