// Package pool: trace validation + direct oracles for drpcpool.Pool (C15).
//
// The real pool is run with fake connections inside a testing/synctest bubble (fake clock, so the
// expiry timers of time.AfterFunc fire exactly when the driver sleeps up to their deadline). A
// fake connection's Close() knows whether it is called by the pool proper (the driver goroutine is
// inside Put/Take/Close) or by an expiry callback; in the second case it parks twice: before it
// closes (the timer has fired, Stop() is false, the connection is still open) and after it closed
// but before it returns (the callback has not yet reached p.removeEntry).  The driver releases the
// two phases as separate events, so every placement of "expiry fired but not yet completed"
// relative to the API calls is a schedule the suite can produce.
//
// Timers that fire DURING an API call (the caller holds p.mu; the callback has started and whatever
// it does first that needs the lock waits): an API token may carry a suffix `@n/e/f1.f2…` — at the
// n-th call the pool makes into a fake connection (Unblocked/Closed/Close) during that API call the
// driver goroutine, still inside the call, advances the fake clock deadline by deadline up to the
// deadline of entry e; f1.f2… are the entries whose callback started in that window (a stopped timer
// does not fire).  synctest.Wait cannot be used while the driver holds p.mu (a callback blocked on a
// sync.Mutex is not durably blocked), so quiescence inside the call is detected with stop-the-world
// goroutine snapshots (settleMid).  A callback that starts during the call linearises before it
// (the call had not read that timer yet, otherwise it would have stopped it); the model driver
// replays `op@n/e/fired` as fire(f1),fire(f2),…, op, clock := deadline(e).
//
// One request = one scenario (configuration + events); the answer is the observation after every
// event: what the call returned, both list walks and both stored counts ((*Pool).VerifWalk), and
// who closed which connection how often.  The Lean model replays the same events.
//
// synctest needs a *testing.T, so the suite runs itself through testing.Main inside this binary.
package pool

import (
	"bytes"
	"context"
	"fmt"
	"os"
	"runtime"
	"sort"
	"strconv"
	"strings"
	"sync"
	"sync/atomic"
	"testing"
	"testing/synctest"
	"time"

	"storj.io/drpc"
	"storj.io/drpc/drpcpool"
	"verifharness/corr"
)

const (
	nKeys  = 3
	nConns = 8
	unit   = time.Millisecond
	expiry = 1000 * unit
)

// ---------------------------------------------------------------- fake connection

type park struct {
	c     *fconn
	a, b  chan struct{}
	phase int // 0 parked before closing, 1 parked after closing, 2 released
}

type fconn struct {
	w          *world
	id         int
	closedCh   chan struct{}
	closed     bool
	unblocked  chan struct{}
	blocked    bool
	poolCloses int
	cbCloses   int
}

func (c *fconn) markClosed() {
	if !c.closed {
		c.closed = true
		close(c.closedCh)
	}
}

func (c *fconn) Close() error {
	w := c.w
	// the pool proper (the driver goroutine is inside Put/Take/Close) or an expiry callback?  Decided
	// by goroutine identity: with a timer firing in the middle of an API call both can be active.
	if w.inAPI.Load() && goid() == w.driverG {
		c.poolCloses++
		c.markClosed()
		w.hook()
		return nil
	}
	// called by an expiry callback
	pk := &park{c: c, a: make(chan struct{}), b: make(chan struct{})}
	w.mu.Lock()
	w.newParks = append(w.newParks, pk)
	w.mu.Unlock()
	<-pk.a
	w.mu.Lock()
	c.cbCloses++
	c.markClosed()
	w.mu.Unlock()
	<-pk.b
	return nil
}

func (c *fconn) Closed() <-chan struct{} {
	if c.w.mid != nil && goid() == c.w.driverG {
		c.w.hook()
	}
	return c.closedCh
}

func (c *fconn) Unblocked() <-chan struct{} {
	if c.w.mid != nil && goid() == c.w.driverG {
		c.w.hook()
	}
	return c.unblocked
}

// goid returns the id of the calling goroutine ("goroutine 123 [running…").
func goid() int64 {
	var buf [48]byte
	b := buf[:runtime.Stack(buf[:], false)]
	b = bytes.TrimPrefix(b, []byte("goroutine "))
	var n int64
	for _, ch := range b {
		if ch < '0' || ch > '9' {
			break
		}
		n = n*10 + int64(ch-'0')
	}
	return n
}
func (c *fconn) Invoke(ctx context.Context, rpc string, enc drpc.Encoding, in, out drpc.Message) error {
	return nil
}
func (c *fconn) NewStream(ctx context.Context, rpc string, enc drpc.Encoding) (drpc.Stream, error) {
	return nil, nil
}

// ---------------------------------------------------------------- one scenario

type config struct {
	cap, kcap int
	exp       bool
}

func (c config) String() string {
	return fmt.Sprintf("cap=%d kcap=%d exp=%s", c.cap, c.kcap, corr.B01(c.exp))
}

type walkSnap struct {
	global []int
	gcount int
	local  map[int][]int
	lcount map[int]int
	gkeys  []int // key of each global entry
	lkeys  map[int][]int
}

type world struct {
	o     *corr.Out
	cfg   config
	p     *drpcpool.Pool[int, *fconn]
	conns [nConns]*fconn
	inAPI atomic.Bool
	mu    sync.Mutex

	driverG int64 // the goroutine that makes the API calls
	mid     *midPlan

	newParks []*park

	// entries, in Put order (the ids the model uses)
	entConn     []int
	entDeadline []time.Time
	entPark     []*park
	entWaits    map[int]bool // the timer fired during a call and its callback went for the pool lock before closing
	ticked      int

	// caller-side bookkeeping for the conn-level oracles
	proper   bool
	held     [nConns]bool // the caller holds the connection (fresh, or taken and not put back)
	everPut  [nConns]bool
	puts     [nConns]int // number of Put calls per connection
	heldMark [nConns][2]int
	liveEnt  [nConns]int

	nc      int  // connections the generator uses
	hostile bool // the generated caller may put connections it does not hold
	toks    []string
	obs     []string
	snap    walkSnap

	timerBetween bool // a timer phase took effect between two API calls
	apiSeen      bool
	timerPending bool
	failed       map[string]bool
}

func newWorld(o *corr.Out, cfg config) *world {
	w := &world{o: o, cfg: cfg, proper: true, failed: map[string]bool{}, nc: nConns, driverG: goid()}
	opts := drpcpool.Options{Capacity: cfg.cap, KeyCapacity: cfg.kcap}
	if cfg.exp {
		opts.Expiration = expiry
	}
	w.p = drpcpool.New[int, *fconn](opts)
	for i := range w.conns {
		u := make(chan struct{})
		close(u)
		w.conns[i] = &fconn{w: w, id: i, closedCh: make(chan struct{}), unblocked: u}
		w.held[i] = true
		w.liveEnt[i] = -1
	}
	w.snap = w.walk()
	return w
}

func (w *world) input() string {
	ops := "-"
	if len(w.toks) > 0 {
		ops = strings.Join(w.toks, ",")
	}
	return "pool " + w.cfg.String() + " ops=" + ops
}

// violation of a direct oracle (reported once per oracle and scenario)
func (w *world) fail(name, detail string) {
	if w.failed[name] {
		return
	}
	w.failed[name] = true
	w.o.Oracle(name, w.input(), detail)
}

func (w *world) api(f func()) (panicked bool) {
	w.inAPI.Store(true)
	defer func() {
		w.inAPI.Store(false)
		if r := recover(); r != nil {
			panicked = true
		}
	}()
	f()
	return false
}

func (w *world) walk() walkSnap {
	g, gc, l, lc := w.p.VerifWalk()
	s := walkSnap{gcount: gc, local: map[int][]int{}, lcount: lc, lkeys: map[int][]int{}}
	for _, e := range g {
		s.global = append(s.global, e.Val.id)
		s.gkeys = append(s.gkeys, e.Key)
	}
	for k, es := range l {
		vs := []int{}
		ks := []int{}
		for _, e := range es {
			vs = append(vs, e.Val.id)
			ks = append(ks, e.Key)
		}
		s.local[k] = vs
		s.lkeys[k] = ks
	}
	return s
}

func digits(vs []int) string {
	var b strings.Builder
	for _, v := range vs {
		b.WriteString(strconv.Itoa(v))
	}
	return b.String()
}

func (w *world) dump(s walkSnap) string {
	var b strings.Builder
	fmt.Fprintf(&b, "g:%s#%d", digits(s.global), s.gcount)
	for k := 0; k < nKeys; k++ {
		if vs, ok := s.local[k]; ok {
			fmt.Fprintf(&b, "|%d:%s#%d", k, digits(vs), s.lcount[k])
		} else {
			fmt.Fprintf(&b, "|%d:-", k)
		}
	}
	b.WriteString("|c:")
	var cs []string
	w.mu.Lock()
	for _, c := range w.conns {
		if c.closed || c.poolCloses != 0 || c.cbCloses != 0 {
			cs = append(cs, fmt.Sprintf("%d=%s.%d.%d", c.id, corr.B01(c.closed), c.poolCloses, c.cbCloses))
		}
	}
	w.mu.Unlock()
	if len(cs) == 0 {
		b.WriteString("-")
	} else {
		b.WriteString(strings.Join(cs, ","))
	}
	return b.String()
}

// collect the callbacks that parked since the last call (after synctest.Wait)
func (w *world) takeParks() []*park {
	w.mu.Lock()
	defer w.mu.Unlock()
	ps := w.newParks
	w.newParks = nil
	return ps
}

// advance the fake clock to target; the timers of entries whose deadline is reached fire one by
// one, oldest first. Returns the ids of the entries whose callback started.
func (w *world) advance(target time.Time) (fired []int) {
	for w.ticked < len(w.entDeadline) && !w.entDeadline[w.ticked].After(target) {
		e := w.ticked
		if d := time.Until(w.entDeadline[e]); d > 0 {
			time.Sleep(d)
		}
		synctest.Wait()
		ps := w.takeParks()
		switch {
		case len(ps) == 1 && ps[0].c.id == w.entConn[e]:
			w.entPark[e] = ps[0]
			fired = append(fired, e)
			w.noteTimer()
		case len(ps) != 0:
			w.fail("harness-timer-attribution", fmt.Sprintf("entry %d: %d callbacks started", e, len(ps)))
		}
		w.ticked++
	}
	if d := time.Until(target); d > 0 {
		time.Sleep(d)
		synctest.Wait()
		if ps := w.takeParks(); len(ps) != 0 {
			w.fail("harness-timer-attribution", fmt.Sprintf("%d unexpected callbacks", len(ps)))
		}
	}
	return fired
}

func showFired(ids []int) string {
	ss := make([]string, len(ids))
	for i, e := range ids {
		ss[i] = strconv.Itoa(e)
	}
	return "f" + strings.Join(ss, ".")
}

func (w *world) noteTimer() {
	if w.apiSeen {
		w.timerPending = true
	}
}

func (w *world) noteAPI() {
	if w.timerPending {
		w.timerBetween = true
	}
	w.apiSeen = true
}

func (w *world) fired(e int) bool {
	return e >= 0 && e < len(w.entPark) && (w.entPark[e] != nil || w.entWaits[e])
}

// ---- a timer fires in the middle of an API call

// midPlan: at the n-th call the pool makes into a fake connection during the current API call, the
// clock is advanced (inside the call) to the deadline of entry e.
type midPlan struct {
	n, e    int
	calls   int
	reached bool
	from    int   // w.ticked when the window opened
	fired   []int // entries whose callback started in the window
}

func (w *world) hook() {
	m := w.mid
	if m == nil || m.reached || !w.inAPI.Load() {
		return
	}
	m.calls++
	if m.calls != m.n {
		return
	}
	if m.e < w.ticked || m.e >= len(w.entDeadline) {
		return // nothing left to fire: the call runs as an ordinary one
	}
	m.reached = true
	m.from = w.ticked
	w.midAdvance(m)
}

// midAdvance runs on the driver goroutine INSIDE Put/Take/Close: deadline by deadline, sleep to it (the
// driver's sleep and the entry's timer become due at the same fake instant), then wait until every
// other goroutine of the bubble is parked (a callback of the code under test parks in the fake Close;
// one that wants p.mu first is blocked on the mutex, which synctest.Wait would wait for forever).
func (w *world) midAdvance(m *midPlan) {
	for w.ticked <= m.e && w.ticked < len(w.entDeadline) {
		i := w.ticked
		if d := time.Until(w.entDeadline[i]); d > 0 {
			time.Sleep(d)
		}
		stalled := w.settleMid()
		for _, pk := range w.takeParks() {
			w.attributeMid(m, pk, i)
		}
		w.ticked++
		if stalled {
			if w.entPark[i] == nil {
				// the goroutine that appeared is the callback of entry i; it did not get as far as Close
				if w.entWaits == nil {
					w.entWaits = map[int]bool{}
				}
				w.entWaits[i] = true
				m.fired = append(m.fired, i)
			}
			// somebody waits for a lock the driver holds: the bubble's clock cannot advance any further
			// before the call returns. The window ends here.
			m.e = i
			w.o.Stat("midcall:callback-waited-for-the-lock")
			break
		}
	}
}

// attributeMid: a callback started; it belongs to the entry whose deadline was just reached (prefer),
// or — when it shows up later because it waited for the lock first — to an earlier entry of the window.
func (w *world) attributeMid(m *midPlan, pk *park, prefer int) {
	if prefer >= 0 && w.entConn[prefer] == pk.c.id && w.entPark[prefer] == nil {
		w.entPark[prefer] = pk
		m.fired = append(m.fired, prefer)
		return
	}
	for i := range w.entWaits { // it got the lock and has now reached Close
		if w.entConn[i] == pk.c.id && w.entPark[i] == nil {
			w.entPark[i] = pk
			return
		}
	}
	for i := m.from; i < len(w.entConn) && i <= m.e; i++ {
		if w.entConn[i] == pk.c.id && w.entPark[i] == nil && !w.deadlinePending(i) {
			w.entPark[i] = pk
			m.fired = append(m.fired, i)
			return
		}
	}
	w.fail("harness-timer-attribution", fmt.Sprintf("callback closing connection %d started during a call, no entry of the window [%d,%d] matches", pk.c.id, m.from, m.e))
}

func (w *world) deadlinePending(i int) bool { return time.Now().Before(w.entDeadline[i]) }

var stackBuf = make([]byte, 1<<16)

// bubbleQuiet: one stop-the-world snapshot; quiet = every goroutine of a synctest bubble other than the
// caller is in a wait state that only another goroutine (or the bubble's clock) can end.
func bubbleQuiet() (sig []byte, quiet, stalled bool) {
	var n int
	for {
		n = runtime.Stack(stackBuf, true)
		if n < len(stackBuf) {
			break
		}
		stackBuf = make([]byte, 2*len(stackBuf))
	}
	buf := stackBuf[:n]
	quiet = true
	first := true
	for len(buf) > 0 {
		end := bytes.IndexByte(buf, '\n')
		if end < 0 {
			end = len(buf)
		}
		line := buf[:end]
		if bytes.HasPrefix(line, []byte("goroutine ")) && bytes.HasSuffix(line, []byte("]:")) {
			if first {
				first = false // the caller
			} else if bytes.Contains(line, []byte("synctest bubble")) {
				open := bytes.IndexByte(line, '[')
				state := line[open+1:]
				if j := bytes.IndexAny(state, ",]"); j >= 0 {
					state = state[:j]
				}
				sig = append(sig, line...)
				ok := false
				for _, p := range []string{"chan receive", "chan send", "select", "sync.Mutex.Lock", "sync.RWMutex.", "sync.Cond.Wait",
					"sync.WaitGroup.Wait", "synctest.Run", "synctest.Wait", "sleep"} {
					ok = ok || bytes.HasPrefix(state, []byte(p))
				}
				quiet = quiet && ok
				stalled = stalled || !bytes.Contains(line, []byte("(durable)"))
			}
		}
		next := bytes.Index(buf, []byte("\n\n"))
		if next < 0 {
			break
		}
		buf = buf[next+2:]
	}
	return sig, quiet, stalled
}

// settleMid waits for quiescence of the bubble (two identical quiet snapshots); stalled = some goroutine
// is blocked in a way that is not durable in synctest's sense (a mutex): the fake clock will not move.
func (w *world) settleMid() (stalled bool) {
	for spin := 0; spin < 200000; spin++ {
		sig, q, _ := bubbleQuiet()
		if q {
			keep := append([]byte(nil), sig...)
			runtime.Gosched()
			sig2, q2, st := bubbleQuiet()
			if q2 && bytes.Equal(keep, sig2) {
				return st
			}
		}
		runtime.Gosched()
	}
	w.fail("harness-mid-settle", "the bubble did not become quiet while the driver was inside an API call")
	return true
}

// splitMid parses `op@n/e` (a plan) or `op@n/e/f1.f2` (as recorded; the fired part is ignored).
func splitMid(tok string) (base string, m *midPlan) {
	i := strings.IndexByte(tok, '@')
	if i < 0 {
		return tok, nil
	}
	parts := strings.Split(tok[i+1:], "/")
	if len(parts) < 2 {
		panic("pool suite: bad token " + tok)
	}
	n, _ := strconv.Atoi(parts[0])
	e, _ := strconv.Atoi(parts[1])
	return tok[:i], &midPlan{n: n, e: e}
}

// afterAPI: the API call has returned; if it had a window, complete the token that describes it.
func (w *world) afterAPI() {
	if m := w.mid; m != nil {
		tok := w.toks[len(w.toks)-1]
		w.toks[len(w.toks)-1] = tok[:strings.IndexByte(tok, '@')] + w.endMid(m)
	}
}

// endMid: after the API call returned. Returns the suffix of the executed token ("" when the window
// never opened: the call was an ordinary one).
func (w *world) endMid(m *midPlan) string {
	w.mid = nil
	if !m.reached {
		w.o.Stat("midcall:window-not-opened")
		return ""
	}
	// the lock is free again: a callback that was waiting for it runs on
	synctest.Wait()
	for _, pk := range w.takeParks() {
		w.attributeMid(m, pk, -1)
	}
	sort.Ints(m.fired)
	fs := "-"
	if len(m.fired) > 0 {
		ss := make([]string, len(m.fired))
		for i, e := range m.fired {
			ss[i] = strconv.Itoa(e)
		}
		fs = strings.Join(ss, ".")
		w.timerBetween = true
		w.o.Stat("midcall:timer-fired-inside-call")
		w.noteTimer()
	} else {
		w.o.Stat("midcall:window-without-firing")
	}
	return fmt.Sprintf("@%d/%d/%s", m.n, m.e, fs)
}

// ---- events

func (w *world) put(k, v int) string {
	fired := w.advance(time.Now().Add(unit))
	c := w.conns[v]
	if !w.held[v] {
		w.proper = false // the caller puts a connection it does not hold
	}
	creates := w.cfg.cap >= 0 && w.cfg.kcap >= 0 && !c.closed
	w.noteAPI()
	panicked := w.api(func() { w.p.Put(k, c) })
	w.afterAPI()
	now := time.Now() // the timer is created at the very end of Put (a window inside the call has passed by then)
	w.everPut[v] = true
	w.puts[v]++
	w.held[v] = false
	out := "ok"
	if panicked {
		out = "panic"
		w.fail("no-panic", "Put panicked")
	} else if creates {
		w.entConn = append(w.entConn, v)
		w.entDeadline = append(w.entDeadline, now.Add(expiry))
		w.entPark = append(w.entPark, nil)
		w.liveEnt[v] = len(w.entConn) - 1
	}
	if len(fired) > 0 {
		out = showFired(fired) + "+" + out
	}
	w.o.Stat("op:put")
	return out
}

func (w *world) take(k int) string {
	before := w.snap
	w.noteAPI()
	var got *fconn
	var ok bool
	type cstate struct{ closed, blocked bool }
	var pre [nConns]cstate
	for i, c := range w.conns {
		pre[i] = cstate{c.closed, c.blocked}
	}
	panicked := w.api(func() { got, ok = w.p.Take(k) })
	w.afterAPI()
	if panicked {
		w.fail("no-panic", "Take panicked")
		return "panic"
	}
	candidate := func(v int) bool {
		return !pre[v].closed && !pre[v].blocked && !w.fired(w.liveEnt[v])
	}
	if !ok {
		w.o.Stat("take:miss")
		if w.proper {
			for _, v := range before.local[k] {
				if candidate(v) {
					w.fail("take-finds-cached", fmt.Sprintf("Take(%d) missed although connection %d is cached, open, unblocked and not expired", k, v))
				}
			}
		}
		w.o.OracleOK("take-finds-cached")
		return "miss"
	}
	v := got.id
	w.o.Stat("take:hit")
	// take_sound on the implementation
	in := false
	for _, x := range before.local[k] {
		in = in || x == v
	}
	switch {
	case !in:
		w.fail("take-sound", fmt.Sprintf("Take(%d) returned connection %d which was not cached under that key", k, v))
	case pre[v].closed:
		w.fail("take-sound", fmt.Sprintf("Take(%d) returned closed connection %d", k, v))
	case pre[v].blocked:
		w.fail("take-sound", fmt.Sprintf("Take(%d) returned blocked connection %d", k, v))
	case w.proper && w.fired(w.liveEnt[v]):
		w.fail("take-sound", fmt.Sprintf("Take(%d) returned connection %d whose expiry timer had fired", k, v))
	default:
		w.o.OracleOK("take-sound")
	}
	if w.proper {
		if w.held[v] {
			w.fail("exclusive-handout", fmt.Sprintf("Take(%d) returned connection %d which a caller already holds", k, v))
		} else {
			w.o.OracleOK("exclusive-handout")
		}
	}
	w.held[v] = true
	w.heldMark[v] = [2]int{got.poolCloses, got.cbCloses}
	return "v" + strconv.Itoa(v)
}

func (w *world) closePool() string {
	w.noteAPI()
	panicked := w.api(func() { _ = w.p.Close() })
	w.afterAPI()
	if panicked {
		w.fail("no-panic", "Close panicked")
		return "panic"
	}
	w.o.Stat("op:close")
	return "ok"
}

func (w *world) cbClose(e int) string {
	if e >= 0 && e < len(w.entPark) && w.entPark[e] != nil && w.entPark[e].phase == 0 {
		pk := w.entPark[e]
		pk.phase = 1
		close(pk.a)
		synctest.Wait()
		w.noteTimer()
	}
	return "ok"
}

func (w *world) cbRemove(e int) string {
	if e >= 0 && e < len(w.entPark) && w.entPark[e] != nil && w.entPark[e].phase == 1 {
		pk := w.entPark[e]
		pk.phase = 2
		close(pk.b)
		synctest.Wait()
		w.noteTimer()
	}
	return "ok"
}

func (w *world) tick(e int) string {
	if e < 0 || e >= len(w.entDeadline) {
		return showFired(nil)
	}
	t := w.entDeadline[e]
	if now := time.Now(); now.After(t) {
		t = now
	}
	fired := w.advance(t)
	w.o.Stat("op:tick")
	return showFired(fired)
}

func (w *world) env(kind byte, v int) string {
	c := w.conns[v]
	w.mu.Lock()
	switch kind {
	case 'E':
		c.markClosed()
	case 'B':
		if !c.blocked {
			c.blocked = true
			c.unblocked = make(chan struct{})
		}
	case 'U':
		if c.blocked {
			c.blocked = false
			close(c.unblocked)
		}
	}
	w.mu.Unlock()
	return "ok"
}

// exec runs one token, records the observation and evaluates the per-step oracles
func (w *world) exec(tok string) {
	tok, plan := splitMid(tok)
	w.toks = append(w.toks, tok)
	if plan != nil {
		if !strings.ContainsRune("PTC", rune(tok[0])) {
			panic("pool suite: window on a token that is not an API call: " + tok)
		}
		w.toks[len(w.toks)-1] = fmt.Sprintf("%s@%d/%d/?", tok, plan.n, plan.e) // shown if an oracle fails inside the call
		w.mid = plan
		w.o.Stat("midcall:" + map[byte]string{'P': "put", 'T': "take", 'C': "close"}[tok[0]])
	}
	var out string
	num := func(s string) int { n, _ := strconv.Atoi(s); return n }
	switch tok[0] {
	case 'P':
		out = w.put(int(tok[1]-'0'), int(tok[2]-'0'))
	case 'T':
		out = w.take(int(tok[1] - '0'))
	case 'C':
		out = w.closePool()
	case 'F':
		out = w.tick(num(tok[1:]))
	case 'X':
		out = w.cbClose(num(tok[1:]))
		w.o.Stat("op:cbClose")
	case 'R':
		out = w.cbRemove(num(tok[1:]))
		w.o.Stat("op:cbRemove")
	case 'E', 'B', 'U':
		out = w.env(tok[0], int(tok[1]-'0'))
	default:
		panic("pool suite: bad token " + tok)
	}
	w.snap = w.walk()
	w.obs = append(w.obs, out+"~"+w.dump(w.snap))
	w.stepOracles()
}

func sortedCopy(a []int) []int {
	b := append([]int(nil), a...)
	sort.Ints(b)
	return b
}

func (w *world) stepOracles() {
	s := w.snap
	// stored counts equal the walks
	okc := len(s.global) == s.gcount
	for k, vs := range s.local {
		okc = okc && len(vs) == s.lcount[k]
	}
	if !okc {
		w.fail("count-equals-walk", "stored count differs from the list walk: "+w.dump(s))
	} else {
		w.o.OracleOK("count-equals-walk")
	}
	// both lists have the same members; every entry sits in the list registered under its key
	var all []int
	okl := true
	for k, vs := range s.local {
		all = append(all, vs...)
		for _, kk := range s.lkeys[k] {
			okl = okl && kk == k
		}
	}
	a, b := sortedCopy(all), sortedCopy(s.global)
	okl = okl && len(a) == len(b)
	for i := 0; okl && i < len(a); i++ {
		okl = a[i] == b[i]
	}
	if okl {
		// per key, the global order restricted to the key is the per-key order
		for k, vs := range s.local {
			var sub []int
			for i, v := range s.global {
				if s.gkeys[i] == k {
					sub = append(sub, v)
				}
			}
			okl = okl && digits(sub) == digits(vs)
		}
	}
	if !okl {
		w.fail("lists-agree", "global and per-key lists disagree: "+w.dump(s))
	} else {
		w.o.OracleOK("lists-agree")
	}
	// bounds
	cached := len(s.global)
	if s.gcount > cached {
		cached = s.gcount
	}
	okb := true
	if w.cfg.cap > 0 {
		okb = okb && cached <= w.cfg.cap
	}
	if w.cfg.kcap > 0 {
		for _, vs := range s.local {
			okb = okb && len(vs) <= w.cfg.kcap
		}
	}
	if w.cfg.cap < 0 || w.cfg.kcap < 0 {
		okb = okb && cached == 0 && len(all) == 0
	}
	if !okb {
		w.fail("bounded", fmt.Sprintf("%s but cached: %s", w.cfg, w.dump(s)))
	} else {
		w.o.OracleOK("bounded")
	}
	// the pool (eviction, Close, negative capacity, expiry callback) closes a connection at most once
	// per Put: an entry is closed by closeEntry or by its callback, never by both
	okonce := true
	for v, c := range w.conns {
		if c.poolCloses+c.cbCloses > w.puts[v] {
			okonce = false
			w.fail("closed-at-most-once-per-put", fmt.Sprintf("connection %d: put %d times, closed %d times by the pool and %d times by expiry callbacks",
				v, w.puts[v], c.poolCloses, c.cbCloses))
		}
	}
	if okonce {
		w.o.OracleOK("closed-at-most-once-per-put")
	}
	// a connection the caller holds is not closed by the pool, and is not cached
	if w.proper {
		okh := true
		for v, c := range w.conns {
			if !w.held[v] || !w.everPut[v] {
				continue
			}
			if [2]int{c.poolCloses, c.cbCloses} != w.heldMark[v] {
				okh = false
				w.fail("handed-out-not-closed", fmt.Sprintf("connection %d was closed by the pool while handed out", v))
			}
			for _, x := range s.global {
				if x == v {
					okh = false
					w.fail("handed-out-not-cached", fmt.Sprintf("connection %d is handed out and still cached", v))
				}
			}
		}
		if okh {
			w.o.OracleOK("handed-out-not-closed")
		}
	}
}

// finish: Close the pool, let every callback complete, then every connection that was ever put
// must be handed out xor closed.
func (w *world) finish() {
	w.api(func() { _ = w.p.Close() })
	for e := range w.entPark {
		w.cbClose(e)
		w.cbRemove(e)
	}
	synctest.Wait()
	s := w.walk()
	if len(s.global) != 0 || s.gcount != 0 || len(s.local) != 0 {
		w.fail("empty-after-close", "after Close and all callbacks: "+w.dump(s))
	} else {
		w.o.OracleOK("empty-after-close")
	}
	if !w.proper {
		return
	}
	ok := true
	for v, c := range w.conns {
		if !w.everPut[v] {
			continue
		}
		switch {
		case w.held[v] && [2]int{c.poolCloses, c.cbCloses} != w.heldMark[v]:
			ok = false
			w.fail("handed-out-xor-closed", fmt.Sprintf("connection %d is handed out and was closed by the pool", v))
		case !w.held[v] && !c.closed:
			ok = false
			w.fail("handed-out-xor-closed", fmt.Sprintf("connection %d was put, is not handed out and was never closed", v))
		}
	}
	if ok {
		w.o.OracleOK("handed-out-xor-closed")
	}
}

func (w *world) emit() {
	w.o.Case(w.input(), strings.Join(w.obs, ";"), w.timerBetween)
}

// ---------------------------------------------------------------- generators

func inBubble(t *testing.T, o *corr.Out, cfg config, body func(w *world)) {
	synctest.Test(t, func(t *testing.T) {
		w := newWorld(o, cfg)
		body(w)
		w.emit()
		w.finish()
	})
}

// candidates the caller may legitimately put: connections it holds
func (w *world) heldConns() []int {
	var hs []int
	for v := range w.conns {
		if w.held[v] && v < w.nc {
			hs = append(hs, v)
		}
	}
	return hs
}

func (w *world) entriesIn(phase int) []int {
	var es []int
	for e, pk := range w.entPark {
		if pk != nil && pk.phase == phase {
			es = append(es, e)
		}
	}
	return es
}

// randomOp: one random event; an API call gets, one time in four when some timer can still fire, a
// window in which the clock passes 1-3 deadlines while the call is in progress.
func (w *world) randomOp(nk, nc int) string {
	tok := w.randomOp0(nk, nc)
	r := w.o.Rand
	if w.cfg.exp && w.ticked < len(w.entDeadline) && strings.ContainsRune("PTC", rune(tok[0])) && r.Intn(4) == 0 {
		e := w.ticked + r.Intn(3)
		if e >= len(w.entDeadline) {
			e = len(w.entDeadline) - 1
		}
		tok += fmt.Sprintf("@%d/%d", 1+r.Intn(4), e)
	}
	return tok
}

func (w *world) randomOp0(nk, nc int) string {
	r := w.o.Rand
	for {
		x := r.Intn(100)
		switch {
		case x < 34:
			hs := w.heldConns()
			var v int
			switch {
			case w.hostile && r.Intn(5) == 0:
				v = r.Intn(nc) // possibly a connection the caller does not hold
			case len(hs) == 0:
				continue
			default:
				v = hs[r.Intn(len(hs))]
			}
			return fmt.Sprintf("P%d%d", r.Intn(nk), v)
		case x < 56:
			return fmt.Sprintf("T%d", r.Intn(nk))
		case x < 59:
			return "C"
		case x < 70:
			if !w.cfg.exp && r.Intn(4) != 0 {
				continue
			}
			n := len(w.entConn)
			if n == 0 {
				continue
			}
			e := w.ticked + r.Intn(2)
			if r.Intn(6) == 0 {
				e = r.Intn(n + 1)
			}
			return fmt.Sprintf("F%d", e)
		case x < 79:
			es := w.entriesIn(0)
			if len(es) == 0 {
				if r.Intn(10) == 0 {
					return fmt.Sprintf("X%d", r.Intn(len(w.entConn)+1))
				}
				continue
			}
			return fmt.Sprintf("X%d", es[r.Intn(len(es))])
		case x < 88:
			es := w.entriesIn(1)
			if len(es) == 0 {
				if r.Intn(10) == 0 {
					return fmt.Sprintf("R%d", r.Intn(len(w.entConn)+1))
				}
				continue
			}
			return fmt.Sprintf("R%d", es[r.Intn(len(es))])
		case x < 92:
			if g := w.snap.global; len(g) > 0 && r.Intn(3) != 0 {
				return fmt.Sprintf("E%d", g[r.Intn(len(g))])
			}
			return fmt.Sprintf("E%d", r.Intn(nc))
		case x < 97:
			if g := w.snap.global; len(g) > 0 && r.Intn(3) != 0 {
				return fmt.Sprintf("B%d", g[r.Intn(len(g))])
			}
			return fmt.Sprintf("B%d", r.Intn(nc))
		default:
			return fmt.Sprintf("U%d", r.Intn(nc))
		}
	}
}

var capChoices = []int{-1, 0, 1, 2, 3}

// the reduced alphabet of the exhaustive enumeration; symbols are resolved against the running
// scenario so that every one of them is enabled when possible
func (w *world) resolve(sym int) string {
	lowestHeld := func() int {
		for v := 0; v < nConns; v++ {
			if w.held[v] {
				return v
			}
		}
		return 0
	}
	first := func(es []int) int {
		if len(es) == 0 {
			return len(w.entConn)
		}
		return es[0]
	}
	switch sym {
	case 0:
		return fmt.Sprintf("P0%d", lowestHeld())
	case 1:
		return fmt.Sprintf("P1%d", lowestHeld())
	case 2:
		return "T0"
	case 3:
		return "T1"
	case 4:
		return fmt.Sprintf("F%d", w.ticked)
	case 5:
		return fmt.Sprintf("X%d", first(w.entriesIn(0)))
	case 6:
		return fmt.Sprintf("R%d", first(w.entriesIn(1)))
	case 7:
		return "C"
	case 8:
		if g := w.snap.global; len(g) > 0 {
			return fmt.Sprintf("E%d", g[0])
		}
		return "E0"
	case 9:
		if g := w.snap.global; len(g) > 0 && !w.conns[g[0]].blocked {
			return fmt.Sprintf("B%d", g[0])
		}
		for v, c := range w.conns {
			if c.blocked {
				return fmt.Sprintf("U%d", v)
			}
		}
		return "B0"
	}
	panic("bad symbol")
}

func enumerate(t *testing.T, o *corr.Out, cfg config, nsym, length int) {
	seq := make([]int, length)
	var rec func(i int)
	rec = func(i int) {
		if i == length {
			inBubble(t, o, cfg, func(w *world) {
				for _, s := range seq {
					w.exec(w.resolve(s))
				}
			})
			o.Stat("scenario:enumerated")
			return
		}
		for s := 0; s < nsym; s++ {
			seq[i] = s
			rec(i + 1)
		}
	}
	rec(0)
}

// enumerateMid: every prefix of the given length over a 6-symbol alphabet (Put to 2 keys, Take, clock to
// the next deadline, callback-close, block/unblock), then every API call (Close, Take from 2 keys, Put to
// 2 keys) with a window opened at its 1st, 2nd or 3rd call into a connection and reaching the next or
// the second next deadline.
func enumerateMid(t *testing.T, o *corr.Out, cfg config, length int) {
	alphabet := []int{0, 1, 2, 4, 5, 9}
	seq := make([]int, length)
	var rec func(i int)
	rec = func(i int) {
		if i == length {
			for _, last := range []int{7, 2, 3, 0, 1} {
				for n := 1; n <= 3; n++ {
					for de := 0; de <= 1; de++ {
						ran := false
						inBubble(t, o, cfg, func(w *world) {
							for _, s := range seq {
								w.exec(w.resolve(s))
							}
							if w.ticked+de >= len(w.entDeadline) {
								return // no such timer
							}
							ran = true
							w.exec(fmt.Sprintf("%s@%d/%d", w.resolve(last), n, w.ticked+de))
						})
						if ran {
							o.Stat("scenario:enumerated-midcall")
						}
					}
				}
			}
			return
		}
		for _, s := range alphabet {
			seq[i] = s
			rec(i + 1)
		}
	}
	rec(0)
}

func suite(t *testing.T, o *corr.Out) {
	// corpus: the scenarios of the repaired defects and their neighbours (regression oracles)
	lastObs := func(w *world) string { return w.obs[len(w.obs)-1] }
	for _, c := range []struct {
		cfg   config
		toks  string
		name  string // regression oracle evaluated on the last observation
		check func(last string) bool
	}{
		// expiry callback unlinks an entry that an eviction already unlinked (fixed 668dbb9)
		{config{1, 1, true}, "P00,F0,P01,X0,R0,P02", "regress-668dbb9-double-unlink",
			func(l string) bool { return strings.HasPrefix(l, "ok~g:2#1|0:2#1|") }},
		{config{1, 0, true}, "P00,F0,P01,X0,R0,P12,T0,T1", "", nil},
		// ... that Take already unlinked
		{config{2, 0, true}, "P00,P01,F0,T0,X0,R0,P02,P03,T0,T0", "", nil},
		// Put evicts the last entry of the key it appends to (fixed 684e069)
		{config{1, 0, false}, "P00,P01,T0", "regress-684e069-put-orphans-entry",
			func(l string) bool { return strings.HasPrefix(l, "v1~g:#0|0:#0|") }},
		{config{1, 0, true}, "P00,P01,T0", "regress-684e069-put-orphans-entry",
			func(l string) bool { return strings.HasPrefix(l, "v1~g:#0|0:#0|") }},
		{config{2, 0, false}, "P00,P11,P02,T0,T1", "", nil},
		// Close while a callback is pending, then reuse of the key (fixed 256f204)
		{config{1, 0, true}, "P00,F0,C,P01,X0,R0,T0", "regress-256f204-close-stale-callback",
			func(l string) bool { return strings.HasPrefix(l, "v1~g:#0|0:#0|") }},
		{config{1, 0, true}, "P00,F0,C,P01,X0,R0,P12,P13", "regress-256f204-close-stale-callback",
			func(l string) bool { return strings.HasPrefix(l, "ok~g:3#1|0:-|1:3#1|") }},
		{config{1, 0, true}, "P00,F0,X0,C,P01,R0,P12,P13,T1", "", nil},
		{config{0, 0, true}, "P00,P01,F1,C,P02,X0,R0,X1,R1,T0", "", nil},
		// negative capacities close what they are given
		{config{-1, 0, false}, "P00,T0,P01", "", nil},
		{config{0, -1, true}, "P00,T0,F0", "", nil},
		// blocked, closed and expired entries are skipped but unlinked only when unblocked
		{config{0, 0, true}, "P00,P01,P02,B0,E1,F2,T0,U0,T0,T0", "", nil},
		// the same connection put twice (a caller that breaks the protocol)
		{config{0, 0, true}, "P00,P00,F0,T0,X0,R0,X1,R1,T0", "", nil},
		// a timer fires while a call is in progress: Close is closing the older entry when the younger
		// one expires; Take is asking a connection whether it is unblocked when it / its neighbours expire;
		// Put is evicting when the other key's entry expires
		{config{0, 0, true}, "P00,P11,C@1/1,X1,R1,T1", "", nil},
		{config{0, 0, true}, "P00,P11,P12,C@2/2,P03,X2,R2,X1,R1,T0", "", nil},
		{config{0, 0, true}, "P00,P11,P12,T1@1/2,X1,R1,T1,X2,R2", "", nil},
		{config{0, 0, true}, "P00,P01,T0@2/1,T0", "", nil},
		{config{2, 1, true}, "P00,P11,P02@2/1,X1,R1,T1,T0", "", nil},
		{config{1, 0, true}, "P00,P11@1/0,T0,T1", "", nil},
	} {
		inBubble(t, o, c.cfg, func(w *world) {
			for _, tok := range strings.Split(c.toks, ",") {
				w.exec(tok)
			}
			if c.check != nil {
				if c.check(lastObs(w)) {
					o.OracleOK(c.name)
				} else {
					w.fail(c.name, "last observation: "+lastObs(w))
				}
			}
		})
		o.Stat("scenario:corpus")
	}

	// exhaustive: every sequence over the reduced alphabet
	length := 4
	if o.Thorough {
		length = 5
	}
	for _, cfg := range []config{{1, 1, true}, {2, 1, true}, {1, 0, true}, {0, 2, true}, {2, 0, false}} {
		n := length
		if !o.Thorough && cfg != (config{1, 1, true}) && cfg != (config{2, 1, true}) {
			n = length - 1
		}
		enumerate(t, o, cfg, 10, n)
	}
	for _, cfg := range []config{{0, 0, true}, {2, 1, true}, {1, 0, true}} {
		n := 3
		if o.Thorough {
			n = 4
		} else if cfg == (config{1, 0, true}) {
			n = 2
		}
		enumerateMid(t, o, cfg, n)
	}

	// random scenarios
	n := 6000
	if o.Thorough {
		n = 60000
	}
	for i := 0; i < n; i++ {
		cfg := config{capChoices[o.Rand.Intn(5)], capChoices[o.Rand.Intn(5)], o.Rand.Intn(4) != 0}
		if o.Rand.Intn(3) != 0 { // most scenarios cache something
			if cfg.cap < 0 {
				cfg.cap = 1 + o.Rand.Intn(3)
			}
			if cfg.kcap < 0 {
				cfg.kcap = o.Rand.Intn(3)
			}
		}
		nk, nc := 1+o.Rand.Intn(nKeys), 2+o.Rand.Intn(nConns-1)
		steps := 1 + o.Rand.Intn(30)
		hostile := o.Rand.Intn(5) == 0
		inBubble(t, o, cfg, func(w *world) {
			w.nc = nc
			w.hostile = hostile
			for j := 0; j < steps; j++ {
				w.exec(w.randomOp(nk, nc))
			}
			if w.proper {
				o.Stat("scenario:random-proper-caller")
			} else {
				o.Stat("scenario:random-hostile-caller")
			}
			o.Stat(fmt.Sprintf("config:cap%+d", sign(cfg.cap)))
			o.Stat(fmt.Sprintf("config:kcap%+d", sign(cfg.kcap)))
		})
	}
}

func sign(x int) int {
	switch {
	case x < 0:
		return -1
	case x > 0:
		return 1
	}
	return 0
}

// Run is the suite's entry point. It does not return: testing.Main exits the process.
func Run(o *corr.Out) {
	os.Args = os.Args[:1]
	testing.Main(func(pat, str string) (bool, error) { return true, nil },
		[]testing.InternalTest{{Name: "TestPoolSuite", F: func(t *testing.T) {
			suite(t, o)
			if t.Failed() {
				return
			}
			o.Finish()
		}}}, nil, nil)
}
