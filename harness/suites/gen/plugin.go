package gen

import (
	"bytes"
	"fmt"
	"os"
	"os/exec"
	"path/filepath"

	"google.golang.org/protobuf/proto"
	"google.golang.org/protobuf/types/pluginpb"
)

const goTool = "go1.26.8"

// VERIF_ROOT / VERIF_REPO are set by check.py (tools/par_matrix.sh runs copies of /verif against scratch
// worktrees of /repo); the defaults are the real locations.
var (
	verifRoot   = envOr("VERIF_ROOT", "/verif")
	repoRoot    = envOr("VERIF_REPO", "/repo")
	harnessDir  = verifRoot + "/harness"
	scratchRoot = verifRoot + "/build/gen-scratch"
)

func envOr(k, d string) string {
	if v := os.Getenv(k); v != "" {
		return v
	}
	return d
}

func goEnv() []string {
	env := os.Environ()
	env = append(env, "GOFLAGS=-mod=mod", "GOPROXY=off", "GOSUMDB=off", "GOTOOLCHAIN=local", "CGO_ENABLED=0")
	return env
}

// buildPlugins builds protoc-gen-go (module cache) and protoc-gen-go-drpc (from /repo's WORKING TREE,
// through the harness module's `replace storj.io/drpc => /repo`) and protoc-gen-gogo (module cache,
// through the scratch module: messages for protolib=github.com/gogo/protobuf) into dir.
func buildPlugins(dir, scratchMod string) (pgo, pdrpc, pgogo string, err error) {
	pgo = filepath.Join(dir, "protoc-gen-go")
	pdrpc = filepath.Join(dir, "protoc-gen-go-drpc")
	pgogo = filepath.Join(dir, "protoc-gen-gogo")
	for _, b := range [][3]string{{pgo, "google.golang.org/protobuf/cmd/protoc-gen-go", harnessDir},
		{pdrpc, "storj.io/drpc/cmd/protoc-gen-go-drpc", harnessDir}, {pgogo, "github.com/gogo/protobuf/protoc-gen-gogo", scratchMod}} {
		cmd := exec.Command(goTool, "build", "-o", b[0], b[1])
		cmd.Dir = b[2]
		cmd.Env = goEnv()
		out, e := cmd.CombinedOutput()
		if e != nil {
			return "", "", "", fmt.Errorf("go build %s: %v: %s", b[1], e, out)
		}
	}
	return pgo, pdrpc, pgogo, nil
}

// runPlugin feeds the request to the plugin binary and decodes its response.
func runPlugin(bin string, req *pluginpb.CodeGeneratorRequest) (*pluginpb.CodeGeneratorResponse, error) {
	in, err := proto.Marshal(req)
	if err != nil {
		return nil, err
	}
	cmd := exec.Command(bin)
	cmd.Stdin = bytes.NewReader(in)
	var stdout, stderr bytes.Buffer
	cmd.Stdout, cmd.Stderr = &stdout, &stderr
	if err := cmd.Run(); err != nil {
		return nil, fmt.Errorf("plugin %s: %v: %s", filepath.Base(bin), err, stderr.String())
	}
	resp := new(pluginpb.CodeGeneratorResponse)
	if err := proto.Unmarshal(stdout.Bytes(), resp); err != nil {
		return nil, fmt.Errorf("plugin %s: bad response: %v", filepath.Base(bin), err)
	}
	return resp, nil
}
