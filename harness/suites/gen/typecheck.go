package gen

import (
	"bytes"
	"fmt"
	"go/ast"
	"go/importer"
	"go/token"
	"go/types"
	"io"
	"os"
	"os/exec"
	"path/filepath"
	"strings"
)

const customEncPath = "scratch/customenc"

// scratch module: generated packages are type-checked (and a few compiled) against /repo's runtime.
func setupScratchModule(root string) (string, error) {
	mod := filepath.Join(root, "mod")
	if err := os.MkdirAll(filepath.Join(mod, "customenc"), 0o755); err != nil {
		return "", err
	}
	if err := os.MkdirAll(filepath.Join(mod, "deps"), 0o755); err != nil {
		return "", err
	}
	gomod := `module scratch

go 1.25.0

require (
	github.com/gogo/protobuf v1.3.2
	github.com/zeebo/errs v1.2.2
	google.golang.org/protobuf v1.27.1
	storj.io/drpc v0.0.0-00010101000000-000000000000
)

replace storj.io/drpc => ` + repoRoot + `
`
	sum, err := os.ReadFile(repoRoot + "/internal/integration/go.sum")
	if err != nil {
		return "", err
	}
	files := map[string]string{
		"go.mod": gomod,
		"go.sum": string(sum),
		"customenc/enc.go": `// Package customenc is the "custom protolib" of the suite: the four functions the generator calls.
package customenc

import (
	"google.golang.org/protobuf/encoding/protojson"
	"google.golang.org/protobuf/proto"
	"storj.io/drpc"
)

func Marshal(msg drpc.Message) ([]byte, error)            { return proto.Marshal(msg.(proto.Message)) }
func Unmarshal(buf []byte, msg drpc.Message) error        { return proto.Unmarshal(buf, msg.(proto.Message)) }
func JSONMarshal(msg drpc.Message) ([]byte, error)        { return protojson.Marshal(msg.(proto.Message)) }
func JSONUnmarshal(buf []byte, msg drpc.Message) error    { return protojson.Unmarshal(buf, msg.(proto.Message)) }
`,
		"deps/deps.go": `// Package deps pins every package generated code may import.
package deps

import (
	_ "bytes"
	_ "context"
	_ "errors"
	_ "fmt"
	_ "io"
	_ "math"
	_ "math/bits"
	_ "net"
	_ "reflect"
	_ "sync"

	_ "github.com/gogo/protobuf/jsonpb"
	_ "github.com/gogo/protobuf/proto"
	_ "google.golang.org/protobuf/encoding/protojson"
	_ "google.golang.org/protobuf/proto"
	_ "google.golang.org/protobuf/reflect/protoreflect"
	_ "google.golang.org/protobuf/runtime/protoimpl"
	_ "scratch/customenc"
	_ "storj.io/drpc"
	_ "storj.io/drpc/drpcconn"
	_ "storj.io/drpc/drpcerr"
	_ "storj.io/drpc/drpcmux"
	_ "storj.io/drpc/drpcserver"
)
`,
	}
	for name, content := range files {
		if err := os.WriteFile(filepath.Join(mod, name), []byte(content), 0o644); err != nil {
			return "", err
		}
	}
	return mod, nil
}

// exportMap: import path -> export data file, for everything deps imports (one `go list`).
func exportMap(mod string) (map[string]string, error) {
	cmd := exec.Command(goTool, "list", "-export", "-deps", "-f", "{{.ImportPath}}\t{{.Export}}", "./deps")
	cmd.Dir = mod
	cmd.Env = goEnv()
	var stderr bytes.Buffer
	cmd.Stderr = &stderr
	out, err := cmd.Output()
	if err != nil {
		return nil, fmt.Errorf("go list -export: %v: %s", err, stderr.String())
	}
	m := map[string]string{}
	for _, line := range strings.Split(string(out), "\n") {
		parts := strings.Split(line, "\t")
		if len(parts) == 2 && parts[1] != "" {
			m[parts[0]] = parts[1]
		}
	}
	return m, nil
}

// checker type-checks generated packages in-process against the compiled runtime.
type checker struct {
	fset    *token.FileSet
	exports map[string]string
	gc      types.Importer
	local   map[string]*types.Package // generated packages checked so far
}

func newChecker(exports map[string]string) *checker {
	c := &checker{fset: token.NewFileSet(), exports: exports, local: map[string]*types.Package{}}
	c.gc = importer.ForCompiler(c.fset, "gc", func(path string) (io.ReadCloser, error) {
		f, ok := exports[path]
		if !ok {
			return nil, fmt.Errorf("no export data for %q", path)
		}
		return os.Open(f)
	})
	return c
}

func (c *checker) Import(path string) (*types.Package, error) {
	if p, ok := c.local[path]; ok {
		return p, nil
	}
	return c.gc.Import(path)
}

type checkResult struct {
	pkg  *types.Package
	info *types.Info
	errs []string
}

func (c *checker) check(path string, files []*ast.File) checkResult {
	var res checkResult
	conf := types.Config{
		Importer: c,
		Error: func(err error) {
			if len(res.errs) < 40 {
				res.errs = append(res.errs, err.Error())
			}
		},
	}
	res.info = &types.Info{Types: map[ast.Expr]types.TypeAndValue{}}
	res.pkg, _ = conf.Check(path, c.fset, files, res.info)
	if len(res.errs) == 0 && res.pkg != nil {
		c.local[path] = res.pkg
	}
	return res
}
