package gen

import (
	"fmt"
	"path"
	"strings"

	"google.golang.org/protobuf/proto"
	"google.golang.org/protobuf/types/descriptorpb"
	"google.golang.org/protobuf/types/pluginpb"
)

// A descriptor family the suite generates: one Go package made of 1..n proto files (services +
// local messages), optionally a second Go package holding messages used as inputs/outputs.
type Method struct {
	Name    string
	CS, SS  bool
	In, Out string // message name; prefix "dep." = message of the dependency package
}

type Service struct {
	Name    string
	Methods []Method
}

type File struct {
	Path     string // proto path
	Pkg      string // proto package ("" = none)
	Services []Service
	Messages []string
}

type Desc struct {
	ID       int
	Files    []File
	DepMsgs  []string // messages of the dependency file (none = no dependency file)
	DepBase  string   // last element of the dependency's Go import path
	DepPkg   string   // proto package of the dependency
	GoPkg    int      // 0: go_package="path"  1: go_package="path;name"  2: no go_package, M flags
	GoName   string   // package name for GoPkg==1
	SubPath  string   // extra path elements of the Go import path ("" or "x/y")
	Lib      string   // protolib parameter ("" = not passed)
	JSON     int      // -1 not passed, 0 false, 1 true
	SrcRel   bool     // paths=source_relative
	Tag      string   // generator class (statistics)
	WantExec bool
}

func (d *Desc) ImportPath() string {
	p := fmt.Sprintf("scratch/g%04d", d.ID)
	if d.SubPath != "" {
		p += "/" + d.SubPath
	}
	return p
}

func (d *Desc) DepImportPath() string { return fmt.Sprintf("scratch/g%04d_dep/%s", d.ID, d.DepBase) }

func (d *Desc) depPath() string { return fmt.Sprintf("dep%04d/types.proto", d.ID) }

func (d *Desc) libKind() string {
	switch d.Lib {
	case "", "google.golang.org/protobuf":
		return "g"
	case "github.com/gogo/protobuf":
		return "o"
	}
	return "c"
}

func (d *Desc) jsonOn() bool { return d.JSON != 0 }

// param: the plugin parameter string; protolib/json are options of protoc-gen-go-drpc only
func (d *Desc) param(drpc bool) string {
	var ps []string
	if drpc && d.Lib != "" {
		ps = append(ps, "protolib="+d.Lib)
	}
	if drpc && d.JSON >= 0 {
		ps = append(ps, fmt.Sprintf("json=%v", d.JSON == 1))
	}
	if d.SrcRel {
		ps = append(ps, "paths=source_relative")
	}
	if d.GoPkg == 2 {
		for _, f := range d.Files {
			ps = append(ps, "M"+f.Path+"="+d.ImportPath())
		}
		if len(d.DepMsgs) > 0 {
			ps = append(ps, "M"+d.depPath()+"="+d.DepImportPath())
		}
	}
	return strings.Join(ps, ",")
}

func msgProto(name string) *descriptorpb.DescriptorProto {
	return &descriptorpb.DescriptorProto{
		Name: proto.String(name),
		Field: []*descriptorpb.FieldDescriptorProto{{
			Name:     proto.String("v"),
			JsonName: proto.String("v"),
			Number:   proto.Int32(1),
			Label:    descriptorpb.FieldDescriptorProto_LABEL_OPTIONAL.Enum(),
			Type:     descriptorpb.FieldDescriptorProto_TYPE_INT64.Enum(),
		}},
	}
}

func (d *Desc) typeRef(f *File, m string) string {
	if strings.HasPrefix(m, "dep.") {
		if d.DepPkg == "" {
			return "." + m[4:]
		}
		return "." + d.DepPkg + "." + m[4:]
	}
	if f.Pkg == "" {
		return "." + m
	}
	return "." + f.Pkg + "." + m
}

// Request builds the CodeGeneratorRequest protoc would send for this family.
func (d *Desc) Request(drpc bool) *pluginpb.CodeGeneratorRequest {
	req := &pluginpb.CodeGeneratorRequest{
		CompilerVersion: &pluginpb.Version{Major: proto.Int32(3), Minor: proto.Int32(17), Patch: proto.Int32(3)},
	}
	if p := d.param(drpc); p != "" {
		req.Parameter = proto.String(p)
	}
	gopkg := func(ip, name string) *descriptorpb.FileOptions {
		switch d.GoPkg {
		case 0:
			return &descriptorpb.FileOptions{GoPackage: proto.String(ip)}
		case 1:
			return &descriptorpb.FileOptions{GoPackage: proto.String(ip + ";" + name)}
		}
		return nil
	}
	if len(d.DepMsgs) > 0 {
		fd := &descriptorpb.FileDescriptorProto{
			Name:    proto.String(d.depPath()),
			Syntax:  proto.String("proto3"),
			Options: gopkg(d.DepImportPath(), path.Base(d.DepImportPath())),
		}
		if d.DepPkg != "" {
			fd.Package = proto.String(d.DepPkg)
		}
		for _, m := range d.DepMsgs {
			fd.MessageType = append(fd.MessageType, msgProto(m))
		}
		req.ProtoFile = append(req.ProtoFile, fd)
		req.FileToGenerate = append(req.FileToGenerate, d.depPath())
	}
	for i := range d.Files {
		f := &d.Files[i]
		fd := &descriptorpb.FileDescriptorProto{
			Name:    proto.String(f.Path),
			Syntax:  proto.String("proto3"),
			Options: gopkg(d.ImportPath(), d.GoName),
		}
		if f.Pkg != "" {
			fd.Package = proto.String(f.Pkg)
		}
		if len(d.DepMsgs) > 0 {
			fd.Dependency = []string{d.depPath()}
		}
		for _, m := range f.Messages {
			fd.MessageType = append(fd.MessageType, msgProto(m))
		}
		for _, s := range f.Services {
			sd := &descriptorpb.ServiceDescriptorProto{Name: proto.String(s.Name)}
			for _, m := range s.Methods {
				md := &descriptorpb.MethodDescriptorProto{
					Name:       proto.String(m.Name),
					InputType:  proto.String(d.typeRef(f, m.In)),
					OutputType: proto.String(d.typeRef(f, m.Out)),
				}
				if m.CS {
					md.ClientStreaming = proto.Bool(true)
				}
				if m.SS {
					md.ServerStreaming = proto.Bool(true)
				}
				sd.Method = append(sd.Method, md)
			}
			fd.Service = append(fd.Service, sd)
		}
		req.ProtoFile = append(req.ProtoFile, fd)
		req.FileToGenerate = append(req.FileToGenerate, f.Path)
	}
	return req
}

// Describe is the stable, compact description of the family (used as oracle input).
func (d *Desc) Describe() string {
	var b strings.Builder
	fmt.Fprintf(&b, "lib=%s json=%d gopkg=%d", d.libKind(), d.JSON, d.GoPkg)
	if d.GoPkg == 1 {
		fmt.Fprintf(&b, ":%s", d.GoName)
	}
	if d.SubPath != "" {
		fmt.Fprintf(&b, " sub=%s", d.SubPath)
	}
	if d.SrcRel {
		b.WriteString(" srcrel")
	}
	if len(d.DepMsgs) > 0 {
		fmt.Fprintf(&b, " dep=%s|%s|%s", d.DepBase, orDash(d.DepPkg), strings.Join(d.DepMsgs, ","))
	}
	for _, f := range d.Files {
		fmt.Fprintf(&b, " file=%s|%s|msgs:%s|", f.Path, orDash(f.Pkg), strings.Join(f.Messages, ","))
		for i, s := range f.Services {
			if i > 0 {
				b.WriteString(";")
			}
			b.WriteString(s.Name + "{")
			for j, m := range s.Methods {
				if j > 0 {
					b.WriteString(",")
				}
				fmt.Fprintf(&b, "%s(%s%s)%s%s", m.Name, streamWord(m.CS), m.In, streamWord(m.SS), m.Out)
			}
			b.WriteString("}")
		}
	}
	return b.String()
}

func streamWord(b bool) string {
	if b {
		return "stream:"
	}
	return ""
}

func orDash(s string) string {
	if s == "" {
		return "-"
	}
	return s
}
