package gen

import (
	"fmt"
	"os"
	"go/ast"
	"go/parser"
	"go/token"
	"go/types"
	"sort"
	"strings"

	"google.golang.org/protobuf/types/pluginpb"
	"verifharness/corr"
)

type runner struct {
	o        *corr.Out
	pgo      string
	pdrpc    string
	pgogo    string
	mod      string
	chk      *checker
	execList []*execPkg
}

type genFile struct {
	name    string
	content string
}

func topNames(f *ast.File) []string {
	var out []string
	for _, d := range f.Decls {
		switch v := d.(type) {
		case *ast.GenDecl:
			for _, sp := range v.Specs {
				switch s := sp.(type) {
				case *ast.TypeSpec:
					out = append(out, s.Name.Name)
				case *ast.ValueSpec:
					for _, n := range s.Names {
						if n.Name != "_" {
							out = append(out, n.Name)
						}
					}
				}
			}
		case *ast.FuncDecl:
			if v.Recv == nil && v.Name.Name != "init" && v.Name.Name != "_" {
				out = append(out, v.Name.Name)
			}
		}
	}
	return out
}

// process runs both plugins on one descriptor family and evaluates every check on the result.
func (r *runner) process(d *Desc) {
	o := r.o
	o.Stat("class:" + d.Tag)
	req := d.Request(true)
	pfiles, err := inspect(req)
	if err != nil {
		// protogen itself refuses the descriptor (duplicate full names, invalid identifiers, …): out of the
		// property's domain, but the plugin must refuse it too rather than crash
		o.Stat("outcome:rejected-by-protogen")
		if resp, e := runPlugin(r.pdrpc, req); e == nil && resp.GetError() == "" {
			o.Oracle("plugin-agrees-with-protogen", d.Describe(), "protogen rejects ("+err.Error()+") but the plugin produced output")
		} else {
			o.OracleOK("plugin-agrees-with-protogen")
		}
		return
	}
	respGo, err := r.messageFiles(d)
	if err != nil {
		o.Stat("outcome:message-plugin-failed")
		if os.Getenv("VERIF_GEN_DEBUG") != "" {
			fmt.Fprintln(os.Stderr, "message plugin failed:", d.Describe(), err)
		}
		return
	}
	respDrpc, err := runPlugin(r.pdrpc, req)
	if err != nil {
		o.Oracle("generator-runs", d.Describe(), err.Error())
		return
	}
	if respDrpc.GetError() != "" {
		o.Oracle("generator-runs", d.Describe(), "plugin error: "+respDrpc.GetError())
		return
	}
	o.OracleOK("generator-runs")

	var mainFiles []pFile
	wantOut := map[string]bool{}
	for _, f := range pfiles {
		if f.GoPath == d.ImportPath() {
			mainFiles = append(mainFiles, f)
			if len(f.Services) > 0 {
				wantOut[f.OutPrefix+"_drpc.pb.go"] = true
			}
		}
	}
	gotOut := map[string]bool{}
	var drpcFiles []genFile
	for _, f := range respDrpc.File {
		gotOut[f.GetName()] = true
		drpcFiles = append(drpcFiles, genFile{f.GetName(), f.GetContent()})
	}
	if fmt.Sprint(sortedKeys(wantOut)) != fmt.Sprint(sortedKeys(gotOut)) {
		o.Oracle("output-files", d.Describe(), fmt.Sprintf("want %v got %v", sortedKeys(wantOut), sortedKeys(gotOut)))
	} else {
		o.OracleOK("output-files")
	}

	// parse everything
	fset := r.chk.fset
	var depAST, mainAST []*ast.File
	var others []string
	pbByPrefix := map[string]genFile{}
	for _, f := range respGo {
		af, err := parser.ParseFile(fset, f.GetName(), f.GetContent(), parser.SkipObjectResolution)
		if err != nil {
			o.Stat("outcome:protoc-gen-go-unparsable")
			return
		}
		// a message file belongs to the dependency package iff it declares the dependency's messages
		isMain := true
		if len(d.DepMsgs) > 0 {
			for _, n := range topNames(af) {
				if n == d.DepMsgs[0] {
					isMain = false
				}
			}
		}
		if isMain {
			mainAST = append(mainAST, af)
			others = append(others, topNames(af)...)
			pbByPrefix[f.GetName()] = genFile{f.GetName(), f.GetContent()}
		} else {
			depAST = append(depAST, af)
		}
	}
	var decls, drpcTop []string
	ifaceDup := false
	var sks []*skeleton
	var drpcAST []*ast.File
	for _, gf := range drpcFiles {
		sk, af, err := parseSkeleton(fset, gf.name, []byte(gf.content))
		if err != nil {
			o.Oracle("generated-code-parses", d.Describe(), err.Error())
			return
		}
		sks = append(sks, sk)
		drpcAST = append(drpcAST, af)
		decls = append(decls, sk.decls...)
		drpcTop = append(drpcTop, sk.names...)
		for _, ms := range sk.ifaceMethods {
			if hasDup(ms) {
				ifaceDup = true
			}
		}
	}
	o.OracleOK("generated-code-parses")

	// ---- correspondence with the model: every declaration, rpc string, Description case
	labels := collisionLabels(mainFiles, others)
	sort.Strings(decls)
	ans := strings.Join(decls, " ")
	if ans != "" {
		ans += " "
	}
	ans += "coll=" + orDash(strings.Join(labels, ",")) + " free=" + b01(len(labels) == 0)
	nm := 0
	for _, f := range mainFiles {
		for _, s := range f.Services {
			nm += len(s.Methods)
		}
	}
	o.Case(modelRequest(d.libKind(), d.jsonOn(), mainFiles, others), ans, nm >= 2)
	for _, f := range mainFiles {
		for _, s := range f.Services {
			for _, m := range s.Methods {
				o.Stat(fmt.Sprintf("shape:cs%s-ss%s", b01(m.CS), b01(m.SS)))
				if strings.HasPrefix(m.Go, "_") || strings.HasPrefix(s.Go, "_") {
					o.Oracle("goname-no-leading-underscore", d.Describe(), s.Go+"."+m.Go)
				}
			}
		}
	}
	o.OracleOK("goname-no-leading-underscore")
	o.Stat(fmt.Sprintf("services:%d", func() int {
		n := 0
		for _, f := range mainFiles {
			n += len(f.Services)
		}
		return n
	}()))
	o.Stat("lib:" + d.libKind() + "/json" + b01(d.jsonOn()))

	// ---- the collision classes are complete and each one is real: a class is named iff the
	// package really declares an identifier (or an interface method) twice
	allTop := append(append([]string(nil), others...), drpcTop...)
	observedDup := hasDup(allTop) || ifaceDup
	realLabels := 0
	for _, l := range labels {
		if l != "leading-underscore" {
			realLabels++
		}
	}
	if observedDup != (realLabels > 0) {
		o.Oracle("collision-classes-exact", d.Describe(), fmt.Sprintf("classes=%v duplicate identifiers=%v duplicate interface method=%v", labels, dups(allTop), ifaceDup))
	} else {
		o.OracleOK("collision-classes-exact")
	}

	// ---- rpc strings: one per method, equal on the client and the description side
	r.rpcOracle(d, sks)
	r.rpcNameOracle(d, mainFiles, sks)
	r.descOracle(d, sks)

	// ---- type-check against the runtime in /repo
	if len(depAST) > 0 {
		res := r.chk.check(d.DepImportPath(), depAST)
		if len(res.errs) > 0 {
			o.Stat("outcome:dep-package-broken")
			return
		}
	}
	if len(drpcAST) == 0 {
		o.Stat("outcome:no-services")
		return
	}
	res := r.chk.check(d.ImportPath(), append(append([]*ast.File(nil), mainAST...), drpcAST...))
	foreign := foreignQualifier(drpcAST)
	switch {
	case realLabels > 0:
		o.Stat("outcome:name-collision")
		if len(res.errs) == 0 {
			o.Oracle("collision-classes-exact", d.Describe(), fmt.Sprintf("classes=%v but the package type-checks", labels))
			return
		}
		o.Oracle("name-collision", "pattern="+strings.Join(labels, ",")+" "+d.Describe(), "dup="+strings.Join(dups(allTop), ",")+" first error: "+res.errs[0])
		return
	case foreign != "":
		if len(res.errs) > 0 {
			o.Stat("outcome:import-qualifier")
			o.Oracle("import-qualifier", "qualifier="+foreign+" "+d.Describe(), "first error: "+res.errs[0])
			return
		}
	}
	if len(res.errs) > 0 {
		o.Stat("outcome:type-error")
		o.Oracle("generated-code-typechecks", d.Describe(), strings.Join(res.errs, " ; "))
		return
	}
	o.OracleOK("generated-code-typechecks")
	o.Stat("outcome:typechecks")

	// ---- the method expressions handed to the mux have a shape registerOne recognises
	r.shapeOracle(d, res, drpcAST)

	if d.WantExec {
		r.execList = append(r.execList, &execPkg{d: d, files: mainFiles, pb: pbByPrefix, drpc: drpcFiles, goResp: respGo})
	}
}

func sortedKeys(m map[string]bool) []string {
	var out []string
	for k := range m {
		out = append(out, k)
	}
	sort.Strings(out)
	return out
}

// foreignQualifier: the generator prints `context.Context` and `drpc.Stream` literally; if protogen
// gave that local name to another package the literal text refers to the wrong package.
func foreignQualifier(files []*ast.File) string {
	for _, f := range files {
		for _, im := range f.Imports {
			if im.Name == nil {
				continue
			}
			p := strings.Trim(im.Path.Value, `"`)
			if im.Name.Name == "context" && p != "context" {
				return "context"
			}
			if im.Name.Name == "drpc" && p != "storj.io/drpc" {
				return "drpc"
			}
		}
	}
	return ""
}

// rpcStrings: the rpc strings of the generated files, keyed by "<service Go name>.<method Go name>":
// cli = what the client stub passes to Invoke / NewStream, desc = what the Description's Method returns.
func rpcStrings(sks []*skeleton) (cli, desc map[string][]string) {
	cli = map[string][]string{}
	desc = map[string][]string{}
	for _, sk := range sks {
		for _, s := range sk.decls {
			switch {
			case strings.HasPrefix(s, "C:"):
				// C:*drpc<S>Client.<M>:<kind>:<rpc>
				p := strings.SplitN(s[2:], ":", 3)
				if len(p) == 3 {
					recv := strings.TrimSuffix(strings.TrimPrefix(p[0][:strings.LastIndex(p[0], ".")], "*drpc"), "Client")
					cli[recv+"."+p[0][strings.LastIndex(p[0], ".")+1:]] = append(cli[recv+"."+p[0][strings.LastIndex(p[0], ".")+1:]], p[2])
				}
			case strings.HasPrefix(s, "D:") && !strings.Contains(s, "#default:"):
				// D:DRPC<S>Description#i:<rpc>:…:DRPC<S>Server.<M>:true
				body := s[2:]
				h := strings.Index(body, "#")
				p := strings.SplitN(body[h+1:], ":", 3)
				q := strings.Split(body, ":")
				if h > 0 && len(p) == 3 && len(q) >= 2 {
					me := q[len(q)-2] // DRPC<S>Server.<M>
					dot := strings.LastIndex(me, ".")
					if dot > 0 {
						svc := strings.TrimSuffix(strings.TrimPrefix(me[:dot], "DRPC"), "Server")
						desc[svc+"."+me[dot+1:]] = append(desc[svc+"."+me[dot+1:]], p[1])
					}
				}
			}
		}
	}
	return cli, desc
}

func (r *runner) rpcOracle(d *Desc, sks []*skeleton) {
	cli, desc := rpcStrings(sks)
	bad := ""
	for k, v := range cli {
		if fmt.Sprint(v) != fmt.Sprint(desc[k]) {
			bad = fmt.Sprintf("%s: client %v description %v", k, v, desc[k])
		}
	}
	for k, v := range desc {
		if _, ok := cli[k]; !ok {
			bad = fmt.Sprintf("%s: description %v without client stub", k, v)
		}
	}
	if bad != "" {
		r.o.Oracle("rpc-strings-agree", d.Describe(), bad)
	} else {
		r.o.OracleOK("rpc-strings-agree")
	}
}

// rpcNameOracle: the rpc string of a method is its FULLY-QUALIFIED name "/<proto package>.<service>/<method>"
// (proto names, as every other drpc / grpc / twirp peer spells it), on the client stub and in the
// Description, and no two methods of the package share one (the mux keys its table by that string and
// the last registration wins silently).  The expectation is computed from the descriptor, not from the
// model of the generator.  Services / methods whose Go names coincide are the name-collision finding
// (their declarations cannot be told apart here) and are left out.
func (r *runner) rpcNameOracle(d *Desc, files []pFile, sks []*skeleton) {
	cli, desc := rpcStrings(sks)
	want := map[string]string{}
	ambiguous := map[string]bool{}
	for _, f := range files {
		for _, s := range f.Services {
			full := s.Proto
			if f.Pkg != "" {
				full = f.Pkg + "." + s.Proto
			}
			for _, m := range s.Methods {
				k := s.Go + "." + m.Go
				if _, dup := want[k]; dup {
					ambiguous[k] = true
				}
				want[k] = "/" + full + "/" + m.Proto
			}
		}
	}
	var keys []string
	for k := range want {
		keys = append(keys, k)
	}
	sort.Strings(keys)
	bad := ""
	owner := map[string]string{}
	n := 0
	for _, k := range keys {
		if ambiguous[k] {
			continue
		}
		n++
		w := want[k]
		if c := cli[k]; len(c) != 1 || c[0] != w {
			bad = fmt.Sprintf("%s: client stub uses %v, the method's full name is %s", k, c, w)
		}
		if c := desc[k]; len(c) != 1 || c[0] != w {
			bad = fmt.Sprintf("%s: description says %v, the method's full name is %s", k, c, w)
		}
		for _, got := range append(append([]string(nil), cli[k]...), desc[k]...) {
			if o, ok := owner[got]; ok && o != k {
				bad = fmt.Sprintf("%s and %s share the rpc name %s", o, k, got)
			}
			owner[got] = k
		}
	}
	if bad != "" {
		r.o.Oracle("rpc-name-fully-qualified", d.Describe(), bad)
	} else if n > 0 {
		r.o.OracleOK("rpc-name-fully-qualified")
		ns := 0
		for _, f := range files {
			ns += len(f.Services)
		}
		if ns >= 2 {
			r.o.Stat("rpc-names:checked-multi-service-package")
		} else {
			r.o.Stat("rpc-names:checked-single-service-package")
		}
	}
}

// shapeOracle: every `DRPCxServer.M` in a Description has one of the three arities registerOne
// accepts, and the parameter the mux will decode into is a pointer to a message struct.
func (r *runner) shapeOracle(d *Desc, res checkResult, files []*ast.File) {
	bad := ""
	n := 0
	for _, f := range files {
		ast.Inspect(f, func(nd ast.Node) bool {
			fd, ok := nd.(*ast.FuncDecl)
			if !ok {
				return true
			}
			if fd.Name.Name != "Method" || fd.Recv == nil {
				return false
			}
			ast.Inspect(fd.Body, func(nd ast.Node) bool {
				rs, ok := nd.(*ast.ReturnStmt)
				if !ok || len(rs.Results) != 5 {
					return true
				}
				se, ok := rs.Results[3].(*ast.SelectorExpr)
				if !ok {
					return true
				}
				tv, ok := res.info.Types[se]
				if !ok {
					return true
				}
				sig, ok := tv.Type.(*types.Signature)
				if !ok {
					bad = "method expression is not a function: " + cexpr(se)
					return true
				}
				n++
				ni, no := sig.Params().Len(), sig.Results().Len()
				isPtrStruct := func(i int) bool {
					if i >= ni {
						return false
					}
					p, ok := sig.Params().At(i).Type().(*types.Pointer)
					if !ok {
						return false
					}
					_, ok = p.Elem().Underlying().(*types.Struct)
					return ok
				}
				isStream := func(i int) bool {
					if i >= ni {
						return false
					}
					it, ok := sig.Params().At(i).Type().Underlying().(*types.Interface)
					if !ok {
						return false
					}
					for k := 0; k < it.NumMethods(); k++ {
						if it.Method(k).Name() == "MsgRecv" {
							return true
						}
					}
					return false
				}
				switch {
				case no == 2:
					if ni != 3 || !isPtrStruct(2) {
						bad = fmt.Sprintf("%s: NumOut=2 NumIn=%d", cexpr(se), ni)
					}
				case ni == 3:
					if !isPtrStruct(1) || !isStream(2) {
						bad = fmt.Sprintf("%s: NumIn=3 but (message, stream) expected", cexpr(se))
					}
				case ni == 2:
					if !isStream(1) {
						bad = fmt.Sprintf("%s: NumIn=2 but stream expected", cexpr(se))
					}
				default:
					bad = fmt.Sprintf("%s: NumIn=%d NumOut=%d not recognised by registerOne", cexpr(se), ni, no)
				}
				return true
			})
			return false
		})
	}
	if bad != "" {
		r.o.Oracle("mux-recognises-shape", d.Describe(), bad)
	} else if n > 0 {
		r.o.OracleOK("mux-recognises-shape")
	}
}

var _ = token.NoPos

// messageFiles generates the message types: protoc-gen-go, or protoc-gen-gogo for the gogo protolib
// (gogo's runtime cannot encode protoc-gen-go messages; its generator handles one Go package per run).
func (r *runner) messageFiles(d *Desc) ([]*pluginpb.CodeGeneratorResponse_File, error) {
	req := d.Request(false)
	if d.libKind() != "o" {
		resp, err := runPlugin(r.pgo, req)
		if err != nil {
			return nil, err
		}
		if resp.GetError() != "" {
			return nil, fmt.Errorf("%s", resp.GetError())
		}
		return resp.File, nil
	}
	var out []*pluginpb.CodeGeneratorResponse_File
	groups := [][]string{req.FileToGenerate}
	if len(d.DepMsgs) > 0 {
		groups = [][]string{req.FileToGenerate[:1], req.FileToGenerate[1:]}
	}
	for _, g := range groups {
		req.FileToGenerate = g
		resp, err := runPlugin(r.pgogo, req)
		if err != nil {
			return nil, err
		}
		if resp.GetError() != "" {
			return nil, fmt.Errorf("%s", resp.GetError())
		}
		out = append(out, resp.File...)
	}
	return out, nil
}

// descOracle: NumMethods() equals the number of `case` clauses of Method and the labels are 0..n-1.
func (r *runner) descOracle(d *Desc, sks []*skeleton) {
	num := map[string]string{}
	cases := map[string][]string{}
	for _, sk := range sks {
		for _, s := range sk.decls {
			switch {
			case strings.HasPrefix(s, "N:"):
				p := strings.SplitN(s[2:], ":", 2)
				if _, dup := num[p[0]]; dup {
					return // two services with one Go name: the name-collision finding, not this oracle's business
				}
				num[p[0]] = p[1]
			case strings.HasPrefix(s, "D:") && !strings.Contains(s, "#default:"):
				body := s[2:]
				h := strings.Index(body, "#")
				c := strings.Index(body[h:], ":")
				cases[body[:h]] = append(cases[body[:h]], body[h+1:h+c])
			}
		}
	}
	bad := ""
	for recv, n := range num {
		if n != fmt.Sprint(len(cases[recv])) {
			bad = fmt.Sprintf("%s: NumMethods=%s but %d cases", recv, n, len(cases[recv]))
		}
		for i, l := range cases[recv] {
			if l != fmt.Sprint(i) {
				bad = fmt.Sprintf("%s: case labels %v", recv, cases[recv])
			}
		}
	}
	for recv := range cases {
		if _, ok := num[recv]; !ok {
			bad = recv + ": Method without NumMethods"
		}
	}
	if bad != "" {
		r.o.Oracle("description-complete", d.Describe(), bad)
	} else {
		r.o.OracleOK("description-complete")
	}
}
