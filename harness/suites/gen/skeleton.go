package gen

import (
	"fmt"
	"go/ast"
	"go/parser"
	"go/token"
	"sort"
	"strconv"
	"strings"
)

// canonical type: package qualifiers dropped, no spaces
func ctype(e ast.Expr) string {
	switch v := e.(type) {
	case *ast.Ident:
		return v.Name
	case *ast.SelectorExpr:
		return v.Sel.Name
	case *ast.StarExpr:
		return "*" + ctype(v.X)
	case *ast.ArrayType:
		if v.Len == nil {
			return "[]" + ctype(v.Elt)
		}
		return "[?]" + ctype(v.Elt)
	case *ast.InterfaceType:
		if v.Methods == nil || len(v.Methods.List) == 0 {
			return "interface{}"
		}
		return "interface{…}"
	case *ast.StructType:
		if v.Fields == nil || len(v.Fields.List) == 0 {
			return "struct{}"
		}
		return "struct{…}"
	case *ast.ParenExpr:
		return ctype(v.X)
	case *ast.Ellipsis:
		return "..." + ctype(v.Elt)
	case *ast.FuncType:
		return "func" + csig(v)
	}
	return fmt.Sprintf("?%T", e)
}

func cfields(fl *ast.FieldList) string {
	if fl == nil {
		return ""
	}
	var out []string
	for _, f := range fl.List {
		n := len(f.Names)
		if n == 0 {
			n = 1
		}
		for i := 0; i < n; i++ {
			out = append(out, ctype(f.Type))
		}
	}
	return strings.Join(out, ",")
}

func csig(ft *ast.FuncType) string {
	return "(" + cfields(ft.Params) + ")(" + cfields(ft.Results) + ")"
}

// skeleton of one generated file: every declaration as a canonical string plus the body facts the
// property is about (rpc strings on the client side, the Description's switch, NumMethods).
type skeleton struct {
	decls []string // canonical declaration / fact strings
	names []string // top-level identifiers in source order (with repetitions)
	// interface name -> method names (with repetitions), used for the DRPCConn clash
	ifaceMethods map[string][]string
}

func parseSkeleton(fset *token.FileSet, filename string, src []byte) (*skeleton, *ast.File, error) {
	f, err := parser.ParseFile(fset, filename, src, parser.SkipObjectResolution)
	if err != nil {
		return nil, nil, err
	}
	sk := &skeleton{ifaceMethods: map[string][]string{}}
	add := func(s string) {
		if strings.ContainsAny(s, " \t\n") {
			s = strings.NewReplacer(" ", "␠", "\t", "␉", "\n", "␤").Replace(s)
		}
		sk.decls = append(sk.decls, s)
	}
	for _, d := range f.Decls {
		switch v := d.(type) {
		case *ast.GenDecl:
			for _, sp := range v.Specs {
				switch s := sp.(type) {
				case *ast.TypeSpec:
					sk.names = append(sk.names, s.Name.Name)
					switch t := s.Type.(type) {
					case *ast.InterfaceType:
						var el []string
						for _, m := range t.Methods.List {
							if ft, ok := m.Type.(*ast.FuncType); ok && len(m.Names) == 1 {
								el = append(el, m.Names[0].Name+csig(ft))
								sk.ifaceMethods[s.Name.Name] = append(sk.ifaceMethods[s.Name.Name], m.Names[0].Name)
							} else {
								el = append(el, ctype(m.Type))
							}
						}
						add("T:" + s.Name.Name + "=interface{" + strings.Join(el, ";") + "}")
					case *ast.StructType:
						var el []string
						for _, fd := range t.Fields.List {
							if len(fd.Names) == 0 {
								el = append(el, ctype(fd.Type))
							}
							for _, n := range fd.Names {
								el = append(el, n.Name+":"+ctype(fd.Type))
							}
						}
						add("T:" + s.Name.Name + "=struct{" + strings.Join(el, ";") + "}")
					default:
						add("T:" + s.Name.Name + "=" + ctype(s.Type))
					}
				case *ast.ValueSpec:
					for _, n := range s.Names {
						sk.names = append(sk.names, n.Name)
						add("V:" + n.Name)
					}
				}
			}
		case *ast.FuncDecl:
			if v.Recv == nil {
				sk.names = append(sk.names, v.Name.Name)
				add("F:" + v.Name.Name + csig(v.Type))
				continue
			}
			recv := cfields(v.Recv)
			add("M:(" + recv + ")" + v.Name.Name + csig(v.Type))
			bodyFacts(recv, v, add)
		}
	}
	return sk, f, nil
}

func strLit(e ast.Expr) (string, bool) {
	bl, ok := e.(*ast.BasicLit)
	if !ok || bl.Kind != token.STRING {
		return "", false
	}
	s, err := strconv.Unquote(bl.Value)
	return s, err == nil
}

// canonical expression for the receiver wiring
func cexpr(e ast.Expr) string {
	switch v := e.(type) {
	case *ast.Ident:
		return v.Name
	case *ast.BasicLit:
		return v.Value
	case *ast.TypeAssertExpr:
		return cexpr(v.X) + ".(" + ctype(v.Type) + ")"
	case *ast.UnaryExpr:
		return v.Op.String() + cexpr(v.X)
	case *ast.CompositeLit:
		var el []string
		for _, x := range v.Elts {
			el = append(el, cexpr(x))
		}
		return ctype(v.Type) + "{" + strings.Join(el, ",") + "}"
	case *ast.SelectorExpr:
		return cexpr(v.X) + "." + v.Sel.Name
	case *ast.CallExpr:
		var a []string
		for _, x := range v.Args {
			a = append(a, cexpr(x))
		}
		return cexpr(v.Fun) + "(" + strings.Join(a, ",") + ")"
	case *ast.FuncLit:
		return "func" + csig(v.Type)
	case *ast.ParenExpr:
		return cexpr(v.X)
	}
	return fmt.Sprintf("?%T", e)
}

func bodyFacts(recv string, fd *ast.FuncDecl, add func(string)) {
	if fd.Body == nil {
		return
	}
	// client side: <x>.cc.Invoke(ctx, "<rpc>", …) / <x>.cc.NewStream(ctx, "<rpc>", …)
	ast.Inspect(fd.Body, func(n ast.Node) bool {
		ce, ok := n.(*ast.CallExpr)
		if !ok {
			return true
		}
		se, ok := ce.Fun.(*ast.SelectorExpr)
		if !ok || (se.Sel.Name != "Invoke" && se.Sel.Name != "NewStream") || len(ce.Args) < 2 {
			return true
		}
		if rpc, ok := strLit(ce.Args[1]); ok {
			add("C:" + recv + "." + fd.Name.Name + ":" + se.Sel.Name + ":" + rpc)
		}
		return true
	})
	// the Description's two methods (a service may have rpcs of the same names elsewhere)
	name := fd.Name.Name
	if sig := csig(fd.Type); (name == "NumMethods" && sig != "()(int)") || (name == "Method" && !strings.HasPrefix(sig, "(int)(string,")) {
		return
	}
	switch name {
	case "NumMethods":
		for _, st := range fd.Body.List {
			if rs, ok := st.(*ast.ReturnStmt); ok && len(rs.Results) == 1 {
				add("N:" + recv + ":" + cexpr(rs.Results[0]))
			}
		}
	case "Method":
		for _, st := range fd.Body.List {
			sw, ok := st.(*ast.SwitchStmt)
			if !ok {
				continue
			}
			for _, c := range sw.Body.List {
				cc := c.(*ast.CaseClause)
				label := "default"
				if cc.List != nil {
					var ls []string
					for _, l := range cc.List {
						ls = append(ls, cexpr(l))
					}
					label = strings.Join(ls, ",")
				}
				for _, s := range cc.Body {
					rs, ok := s.(*ast.ReturnStmt)
					if !ok {
						continue
					}
					var parts []string
					for _, r := range rs.Results {
						if fl, ok := r.(*ast.FuncLit); ok {
							parts = append(parts, receiverFact(fl))
						} else if s, ok := strLit(r); ok {
							parts = append(parts, s)
						} else {
							parts = append(parts, cexpr(r))
						}
					}
					add("D:" + recv + "#" + label + ":" + strings.Join(parts, ":"))
				}
			}
		}
	}
}

// receiver literal: func(srv, ctx, in1, in2)(Message, error) { return [nil,] srv.(I).M(args…) }
func receiverFact(fl *ast.FuncLit) string {
	out := "recv" + csig(fl.Type)
	for _, st := range fl.Body.List {
		rs, ok := st.(*ast.ReturnStmt)
		if !ok {
			out += "|?stmt"
			continue
		}
		var parts []string
		for _, r := range rs.Results {
			parts = append(parts, cexpr(r))
		}
		out += "|return[" + strings.Join(parts, ";") + "]"
	}
	return out
}

func sortedCopy(xs []string) []string {
	out := append([]string(nil), xs...)
	sort.Strings(out)
	return out
}
