package gen

import (
	"bytes"
	"context"
	"fmt"
	"os"
	"os/exec"
	"path"
	"path/filepath"
	"strings"
	"time"

	"google.golang.org/protobuf/types/pluginpb"
)

// A generated package selected for compilation and execution: a generated client talks to a
// generated server (registered on a real drpcmux.Mux, served by drpcserver) over net.Pipe.
type execPkg struct {
	d      *Desc
	files  []pFile
	pb     map[string]genFile
	drpc   []genFile
	goResp []*pluginpb.CodeGeneratorResponse_File
}

func (e *execPkg) qual(name, importPath string) string {
	if importPath == e.d.ImportPath() {
		return name
	}
	return "vdep." + name
}

// driver source: a server implementation of every service and a client exercising every method.
func (e *execPkg) driver() string {
	var b bytes.Buffer
	w := func(format string, a ...interface{}) { fmt.Fprintf(&b, format, a...) }
	usesDep := false
	for _, f := range e.files {
		for _, s := range f.Services {
			for _, m := range s.Methods {
				if m.InPath != e.d.ImportPath() || m.OutPath != e.d.ImportPath() {
					usesDep = true
				}
			}
		}
	}
	w("package %s\n\nimport (\n\t\"context\"\n\t\"fmt\"\n\t\"io\"\n\t\"net\"\n\t\"time\"\n\n\t\"storj.io/drpc/drpcconn\"\n\t\"storj.io/drpc/drpcmux\"\n\t\"storj.io/drpc/drpcserver\"\n", e.files[0].GoPkgName)
	if usesDep {
		w("\tvdep %q\n", e.d.DepImportPath())
	}
	w(")\n\nvar _ = io.EOF\nvar _ = fmt.Sprint\n\n")
	k := 0
	for _, f := range e.files {
		for _, s := range f.Services {
			k++
			srv := fmt.Sprintf("verifSrv%d", k)
			w("type %s struct{}\n\n", srv)
			mi := 0
			for _, m := range s.Methods {
				in, out := e.qual(m.In, m.InPath), e.qual(m.Out, m.OutPath)
				st := "DRPC" + streamBase(s, m) + "Stream"
				// every answer carries the identity of the (service, method) that produced it
				mi++
				tag := answerTag(k, mi)
				switch {
				case !m.CS && !m.SS:
					w("func (%s) %s(ctx context.Context, in *%s) (*%s, error) { return &%s{V: in.V + 1 + %d}, nil }\n\n", srv, m.Go, in, out, out, tag)
				case !m.CS && m.SS:
					w("func (%s) %s(in *%s, st %s) error {\n\tfor i := int64(0); i < 3; i++ {\n\t\tif err := st.Send(&%s{V: in.V + i + %d}); err != nil {\n\t\t\treturn err\n\t\t}\n\t}\n\treturn nil\n}\n\n", srv, m.Go, in, st, out, tag)
				case m.CS && !m.SS:
					w("func (%s) %s(st %s) error {\n\tvar sum int64\n\tfor {\n\t\tin, err := st.Recv()\n\t\tif err == io.EOF {\n\t\t\tbreak\n\t\t}\n\t\tif err != nil {\n\t\t\treturn err\n\t\t}\n\t\tsum += in.V\n\t}\n\treturn st.SendAndClose(&%s{V: sum + %d})\n}\n\n", srv, m.Go, st, out, tag)
				default:
					w("func (%s) %s(st %s) error {\n\tfor {\n\t\tin, err := st.Recv()\n\t\tif err == io.EOF {\n\t\t\treturn nil\n\t\t}\n\t\tif err != nil {\n\t\t\treturn err\n\t\t}\n\t\tif err := st.Send(&%s{V: in.V*2 + %d}); err != nil {\n\t\t\treturn err\n\t\t}\n\t}\n}\n\n", srv, m.Go, st, out, tag)
				}
			}
		}
	}
	w("// VerifRoundTrip returns one line per failed expectation.\nfunc VerifRoundTrip() (fails []string) {\n")
	w("\tfail := func(format string, a ...interface{}) { fails = append(fails, fmt.Sprintf(format, a...)) }\n\t_ = fail\n")
	// ONE mux for the whole package, as a server offering all its services has: every service is
	// registered on it before the first call, so a client must reach its own service's implementation
	w("\tmux := drpcmux.New()\n")
	k = 0
	for _, f := range e.files {
		for _, s := range f.Services {
			k++
			w("\tif err := DRPCRegister%s(mux, verifSrv%d{}); err != nil {\n\t\tfail(\"register %s: %%v\", err)\n\t\treturn fails\n\t}\n", s.Go, k, s.Go)
		}
	}
	k = 0
	for _, f := range e.files {
		for _, s := range f.Services {
			k++
			w("\tfunc() {\n")
			w("\t\tc1, c2 := net.Pipe()\n\t\tctx, cancel := context.WithTimeout(context.Background(), 20*time.Second)\n\t\tdefer cancel()\n")
			w("\t\tdone := make(chan struct{})\n\t\tgo func() { defer close(done); _ = drpcserver.New(mux).ServeOne(ctx, c1) }()\n")
			w("\t\tconn := drpcconn.New(c2)\n\t\tdefer func() { _ = conn.Close(); <-done }()\n")
			w("\t\tcli := NewDRPC%sClient(conn)\n\t\t_ = cli\n", s.Go)
			mi := 0
			for _, m := range s.Methods {
				in := e.qual(m.In, m.InPath)
				name := s.Go + "." + m.Go
				mi++
				tag := answerTag(k, mi)
				switch {
				case !m.CS && !m.SS:
					w("\t\tif out, err := cli.%s(ctx, &%s{V: 41}); err != nil || out.V != 42+%d {\n\t\t\tfail(\"unary %s (answer expected: %d): %%v %%v\", out, err)\n\t\t}\n", m.Go, in, tag, name, 42+tag)
				case !m.CS && m.SS:
					w("\t\tif st, err := cli.%s(ctx, &%s{V: 10}); err != nil {\n\t\t\tfail(\"server-stream %s: %%v\", err)\n\t\t} else {\n", m.Go, in, name)
					w("\t\t\tfor i := int64(0); i < 3; i++ {\n\t\t\t\tif out, err := st.Recv(); err != nil || out.V != 10+i+%d {\n\t\t\t\t\tfail(\"server-stream %s recv %%d (answer expected: %%d): %%v %%v\", i, 10+i+%d, out, err)\n\t\t\t\t}\n\t\t\t}\n", tag, name, tag)
					w("\t\t\tif _, err := st.Recv(); err != io.EOF {\n\t\t\t\tfail(\"server-stream %s end: %%v\", err)\n\t\t\t}\n\t\t\t_ = st.Close()\n\t\t}\n", name)
				case m.CS && !m.SS:
					w("\t\tif st, err := cli.%s(ctx); err != nil {\n\t\t\tfail(\"client-stream %s: %%v\", err)\n\t\t} else {\n", m.Go, name)
					w("\t\t\tfor i := int64(1); i <= 3; i++ {\n\t\t\t\tif err := st.Send(&%s{V: i}); err != nil {\n\t\t\t\t\tfail(\"client-stream %s send: %%v\", err)\n\t\t\t\t}\n\t\t\t}\n", in, name)
					w("\t\t\tif out, err := st.CloseAndRecv(); err != nil || out.V != 6+%d {\n\t\t\t\tfail(\"client-stream %s result (answer expected: %d): %%v %%v\", out, err)\n\t\t\t}\n\t\t\t_ = st.Close()\n\t\t}\n", tag, name, 6+tag)
				default:
					w("\t\tif st, err := cli.%s(ctx); err != nil {\n\t\t\tfail(\"bidi %s: %%v\", err)\n\t\t} else {\n", m.Go, name)
					w("\t\t\tfor i := int64(1); i <= 3; i++ {\n\t\t\t\tif err := st.Send(&%s{V: i}); err != nil {\n\t\t\t\t\tfail(\"bidi %s send: %%v\", err)\n\t\t\t\t}\n", in, name)
					w("\t\t\t\tif out, err := st.Recv(); err != nil || out.V != 2*i+%d {\n\t\t\t\t\tfail(\"bidi %s recv (answer expected: %%d): %%v %%v\", 2*i+%d, out, err)\n\t\t\t\t}\n\t\t\t}\n", tag, name, tag)
					w("\t\t\tif err := st.CloseSend(); err != nil {\n\t\t\t\tfail(\"bidi %s closesend: %%v\", err)\n\t\t\t}\n", name)
					w("\t\t\tif _, err := st.Recv(); err != io.EOF {\n\t\t\t\tfail(\"bidi %s end: %%v\", err)\n\t\t\t}\n\t\t\t_ = st.Close()\n\t\t}\n", name)
				}
			}
			w("\t}()\n")
		}
	}
	w("\treturn fails\n}\n")
	return b.String()
}

// answerTag: what the implementation of method mi (1-based) of service k (1-based) adds to each answer, so
// the client can tell which implementation answered
func answerTag(k, mi int) int { return 1000*k + 100*mi }

func relDir(importPath string) string { return strings.TrimPrefix(importPath, "scratch/") }

// writeOut places the generated files (and the driver) in the scratch module.
func (e *execPkg) writeOut(mod string) error {
	mainPB := map[string]bool{}
	for name := range e.pb {
		mainPB[name] = true
	}
	put := func(dir, name, content string) error {
		full := filepath.Join(mod, dir)
		if err := os.MkdirAll(full, 0o755); err != nil {
			return err
		}
		return os.WriteFile(filepath.Join(full, path.Base(name)), []byte(content), 0o644)
	}
	for _, f := range e.goResp {
		dir := relDir(e.d.DepImportPath())
		if mainPB[f.GetName()] {
			dir = relDir(e.d.ImportPath())
		}
		if err := put(dir, f.GetName(), f.GetContent()); err != nil {
			return err
		}
	}
	for _, f := range e.drpc {
		if err := put(relDir(e.d.ImportPath()), f.name, f.content); err != nil {
			return err
		}
	}
	return put(relDir(e.d.ImportPath()), "zz_verif_roundtrip.go", e.driver())
}

// runExec compiles all selected packages into one binary and runs it.
func (r *runner) runExec() {
	o := r.o
	if len(r.execList) == 0 {
		return
	}
	var main bytes.Buffer
	main.WriteString("package main\n\nimport (\n\t\"fmt\"\n")
	for i, e := range r.execList {
		if err := e.writeOut(r.mod); err != nil {
			o.Oracle("harness", "write scratch files", err.Error())
			return
		}
		fmt.Fprintf(&main, "\tp%d %q\n", i, e.d.ImportPath())
	}
	main.WriteString(")\n\nfunc main() {\n")
	for i := range r.execList {
		fmt.Fprintf(&main, "\tfor _, f := range p%d.VerifRoundTrip() {\n\t\tfmt.Printf(\"FAIL\\t%d\\t%%s\\n\", f)\n\t}\n\tfmt.Printf(\"DONE\\t%d\\n\")\n", i, i, i)
	}
	main.WriteString("}\n")
	os.MkdirAll(filepath.Join(r.mod, "run"), 0o755)
	if err := os.WriteFile(filepath.Join(r.mod, "run", "main.go"), main.Bytes(), 0o644); err != nil {
		o.Oracle("harness", "write scratch files", err.Error())
		return
	}
	bin := filepath.Join(r.mod, "run", "roundtrip.bin")
	cmd := exec.Command(goTool, "build", "-o", bin, "./run")
	cmd.Dir = r.mod
	cmd.Env = goEnv()
	if out, err := cmd.CombinedOutput(); err != nil {
		// attribute the failure to a package when the compiler names one
		msg := string(out)
		attributed := false
		for _, e := range r.execList {
			if strings.Contains(msg, relDir(e.d.ImportPath())+"/") {
				o.Oracle("generated-code-compiles", e.d.Describe(), firstLines(msg, 6))
				attributed = true
			}
		}
		if !attributed {
			o.Oracle("generated-code-compiles", "all executed packages", firstLines(msg, 10))
		}
		return
	}
	for range r.execList {
		o.OracleOK("generated-code-compiles")
	}
	ctx, cancel := context.WithTimeout(context.Background(), 90*time.Second)
	defer cancel()
	run := exec.CommandContext(ctx, bin)
	// the executed packages reuse proto file and message names; they share one binary
	run.Env = append(os.Environ(), "GOLANG_PROTOBUF_REGISTRATION_CONFLICT=warn")
	out, err := run.CombinedOutput()
	done := map[int]bool{}
	fails := map[int][]string{}
	for _, line := range strings.Split(string(out), "\n") {
		p := strings.SplitN(line, "\t", 3)
		var i int
		if len(p) >= 2 {
			fmt.Sscanf(p[1], "%d", &i)
		}
		switch {
		case len(p) == 3 && p[0] == "FAIL":
			fails[i] = append(fails[i], p[2])
		case len(p) == 2 && p[0] == "DONE":
			done[i] = true
		}
	}
	for i, e := range r.execList {
		switch {
		case len(fails[i]) > 0:
			o.Oracle("round-trip", e.d.Describe(), strings.Join(fails[i], " ; "))
		case !done[i]:
			o.Oracle("round-trip", e.d.Describe(), fmt.Sprintf("run did not complete (%v): %s", err, lastLines(string(out), 8)))
		default:
			o.OracleOK("round-trip")
			o.Stat("executed:" + e.d.libKind())
			o.Stat("executed-class:" + e.d.Tag)
			for _, f := range e.files {
				for _, s := range f.Services {
					for _, m := range s.Methods {
						o.Stat(fmt.Sprintf("executed-shape:cs%s-ss%s", b01(m.CS), b01(m.SS)))
					}
				}
			}
		}
	}
}

func firstLines(s string, n int) string {
	l := strings.Split(strings.TrimSpace(s), "\n")
	if len(l) > n {
		l = l[:n]
	}
	return strings.Join(l, " | ")
}

func lastLines(s string, n int) string {
	l := strings.Split(strings.TrimSpace(s), "\n")
	if len(l) > n {
		l = l[len(l)-n:]
	}
	return strings.Join(l, " | ")
}
