package gen

import (
	"context"
	"fmt"
	"reflect"

	"storj.io/drpc"
	"storj.io/drpc/drpcmux"
	"verifharness/corr"
)

// parameter types by kind and position (distinct per position so that the index registerOne
// picked is observable); `t` (stream) is drpc.Stream everywhere, as in generated code.
type (
	srv0 interface{ S0() }
	srv1 interface{ S1() }
	srv2 interface{ S2() }
	srv3 interface{ S3() }
	ctx0 interface {
		context.Context
		C0()
	}
	ctx1 interface {
		context.Context
		C1()
	}
	ctx2 interface {
		context.Context
		C2()
	}
	ctx3 interface {
		context.Context
		C3()
	}
)

var (
	srvTypes = []reflect.Type{reflect.TypeOf((*srv0)(nil)).Elem(), reflect.TypeOf((*srv1)(nil)).Elem(), reflect.TypeOf((*srv2)(nil)).Elem(), reflect.TypeOf((*srv3)(nil)).Elem()}
	ctxTypes = []reflect.Type{reflect.TypeOf((*ctx0)(nil)).Elem(), reflect.TypeOf((*ctx1)(nil)).Elem(), reflect.TypeOf((*ctx2)(nil)).Elem(), reflect.TypeOf((*ctx3)(nil)).Elem()}
	msgTypes = []reflect.Type{reflect.TypeOf((*[1]byte)(nil)), reflect.TypeOf((*[2]byte)(nil)), reflect.TypeOf((*[3]byte)(nil)), reflect.TypeOf((*[4]byte)(nil))}
	strmType = reflect.TypeOf((*drpc.Stream)(nil)).Elem()
	errType  = reflect.TypeOf((*error)(nil)).Elem()
)

func kindType(k byte, pos int) reflect.Type {
	switch k {
	case 's':
		return srvTypes[pos]
	case 'c':
		return ctxTypes[pos]
	case 'm':
		return msgTypes[pos]
	}
	return strmType
}

type fakeDesc struct {
	method interface{}
	recv   drpc.Receiver
}

func (d fakeDesc) NumMethods() int { return 1 }
func (d fakeDesc) Method(n int) (string, drpc.Encoding, drpc.Receiver, interface{}, bool) {
	if n != 0 {
		return "", nil, nil, nil, false
	}
	return "/svc/m", fakeEnc{}, d.recv, d.method, true
}

type fakeEnc struct{}

func (fakeEnc) Marshal(msg drpc.Message) ([]byte, error)     { return nil, nil }
func (fakeEnc) Unmarshal(buf []byte, msg drpc.Message) error { return nil }

type fakeStream struct{ recvd []reflect.Type }

func (s *fakeStream) Context() context.Context { return context.Background() }
func (s *fakeStream) MsgSend(msg drpc.Message, enc drpc.Encoding) error {
	return nil
}
func (s *fakeStream) MsgRecv(msg drpc.Message, enc drpc.Encoding) error {
	s.recvd = append(s.recvd, reflect.TypeOf(msg))
	return nil
}
func (s *fakeStream) CloseSend() error { return nil }
func (s *fakeStream) Close() error     { return nil }

func typePtr(t reflect.Type) uintptr { return reflect.ValueOf(t).Pointer() }

// muxCase: register a method expression with the given parameter kinds / result count on a real
// Mux, read back what registerOne stored, and let HandleRPC call the receiver.
func muxCase(ins string, numOut int) string {
	var in, out []reflect.Type
	for i := 0; i < len(ins); i++ {
		in = append(in, kindType(ins[i], i))
	}
	for i := 0; i < numOut; i++ {
		out = append(out, errType)
	}
	ft := reflect.FuncOf(in, out, false)
	var got1, got2 interface{}
	desc := fakeDesc{method: reflect.Zero(ft).Interface(), recv: func(srv interface{}, ctx context.Context, in1, in2 interface{}) (drpc.Message, error) {
		got1, got2 = in1, in2
		return nil, nil
	}}
	mux := drpcmux.New()
	reg := corr.Catch(func() string {
		if err := mux.Register(struct{}{}, desc); err != nil {
			return "err"
		}
		return "ok"
	})
	if reg != "ok" {
		return reg
	}
	e := reflect.ValueOf(mux).Elem().FieldByName("rpcs").MapIndex(reflect.ValueOf("/svc/m"))
	if !e.IsValid() {
		return "ok-but-not-registered"
	}
	show := func(v reflect.Value) string {
		if v.IsNil() {
			return "nil"
		}
		p := v.Elem().Pointer()
		if p == typePtr(strmType) {
			return "stream"
		}
		for i, t := range in {
			if typePtr(t) == p {
				return fmt.Sprintf("%c@%d", ins[i], i)
			}
		}
		return "?"
	}
	in2 := "0"
	switch show(e.FieldByName("in2")) {
	case "nil":
	case "stream":
		in2 = "1"
	default:
		in2 = "?"
	}
	st := &fakeStream{}
	hand := corr.Catch(func() string {
		if err := mux.HandleRPC(st, "/svc/m"); err != nil {
			return "err"
		}
		desc := func(v interface{}) string {
			if v == interface{}(st) {
				return "stream"
			}
			t := reflect.TypeOf(v)
			for i, it := range in {
				if it == t {
					if len(st.recvd) != 1 || st.recvd[0] != t {
						return "msg-not-received"
					}
					return fmt.Sprintf("msg:%c", ins[i])
				}
			}
			return "?"
		}
		return desc(got1) + "," + desc(got2)
	})
	return fmt.Sprintf("ok unitary=%s in1=%s in2=%s hand=%s", corr.B01(e.FieldByName("unitary").Bool()), show(e.FieldByName("in1")), in2, hand)
}

func muxCases(o *corr.Out) {
	var rec func(prefix string)
	rec = func(prefix string) {
		for out := 0; out <= 3; out++ {
			ans := muxCase(prefix, out)
			o.Case(fmt.Sprintf("mux.reg ins=%s out=%d", orDash(prefix), out), ans, len(prefix) >= 2)
			o.Stat("mux:" + ans[:min(len(ans), 5)])
		}
		if len(prefix) == 4 {
			return
		}
		for _, k := range "scmt" {
			rec(prefix + string(k))
		}
	}
	rec("")
	// the four generated shapes, directly: each must register and be wired as documented
	for _, g := range []struct{ ins, want string }{
		{"scm", "ok unitary=1 in1=m@2 in2=0 hand=msg:m,stream"},
		{"smt", "ok unitary=0 in1=m@1 in2=1 hand=msg:m,stream"},
		{"st", "ok unitary=0 in1=stream in2=0 hand=stream,stream"},
	} {
		out := 1
		if g.ins == "scm" {
			out = 2
		}
		if got := muxCase(g.ins, out); got != g.want {
			o.Oracle("mux-wires-generated-shape", "ins="+g.ins, "got "+got+" want "+g.want)
		} else {
			o.OracleOK("mux-wires-generated-shape")
		}
	}
}
