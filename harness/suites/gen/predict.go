package gen

import (
	"fmt"
	"sort"
	"strings"

	"google.golang.org/protobuf/compiler/protogen"
	"google.golang.org/protobuf/types/pluginpb"
)

// What protogen (the real library, in-process, independent of the plugin under test) derives
// from the request: Go names, file identifiers, import paths.  These are the model's inputs.
type pMethod struct {
	Proto, Go       string
	CS, SS          bool
	In, Out         string // GoIdent.GoName
	InPath, OutPath string // GoIdent.GoImportPath
}

type pService struct {
	Proto, Go string
	Methods   []pMethod
}

type pFile struct {
	Ident      string
	Pkg        string
	GoPath     string
	GoPkgName  string
	OutPrefix  string
	ProtoPath  string
	Services   []pService
	MessageGos []string
}

func inspect(req *pluginpb.CodeGeneratorRequest) ([]pFile, error) {
	plugin, err := protogen.Options{ParamFunc: func(string, string) error { return nil }}.New(req)
	if err != nil {
		return nil, err
	}
	var out []pFile
	for _, f := range plugin.Files {
		if !f.Generate {
			continue
		}
		pf := pFile{Ident: f.GoDescriptorIdent.GoName, Pkg: string(f.Desc.Package()), GoPath: string(f.GoImportPath),
			GoPkgName: string(f.GoPackageName), OutPrefix: f.GeneratedFilenamePrefix, ProtoPath: f.Desc.Path()}
		for _, m := range f.Messages {
			pf.MessageGos = append(pf.MessageGos, m.GoIdent.GoName)
		}
		for _, s := range f.Services {
			ps := pService{Proto: string(s.Desc.Name()), Go: s.GoName}
			for _, m := range s.Methods {
				ps.Methods = append(ps.Methods, pMethod{Proto: string(m.Desc.Name()), Go: m.GoName,
					CS: m.Desc.IsStreamingClient(), SS: m.Desc.IsStreamingServer(),
					In: m.Input.GoIdent.GoName, Out: m.Output.GoIdent.GoName,
					InPath: string(m.Input.GoIdent.GoImportPath), OutPath: string(m.Output.GoIdent.GoImportPath)})
			}
			pf.Services = append(pf.Services, ps)
		}
		out = append(out, pf)
	}
	return out, nil
}

// modelRequest renders the package as the request line of the Lean model.
func modelRequest(lib string, json bool, files []pFile, others []string) string {
	var b strings.Builder
	fmt.Fprintf(&b, "gen lib=%s json=%s others=%s", lib, b01(json), orDash(strings.Join(others, ",")))
	for _, f := range files {
		var ss []string
		for _, s := range f.Services {
			var ms []string
			for _, m := range s.Methods {
				ms = append(ms, fmt.Sprintf("%s/%s/%s%s/%s/%s", m.Proto, m.Go, b01(m.CS), b01(m.SS), m.In, m.Out))
			}
			ss = append(ss, fmt.Sprintf("%s:%s:%s", s.Proto, s.Go, orDash(strings.Join(ms, ","))))
		}
		fmt.Fprintf(&b, " f=%s|%s|%s", f.Ident, orDash(f.Pkg), orDash(strings.Join(ss, ";")))
	}
	return b.String()
}

func b01(b bool) string {
	if b {
		return "1"
	}
	return "0"
}

// ---- harness-side naming (used to drive generated code and to name collision classes; the
// classification is compared with the Lean model's on every case) ----

func dbl(s string) string { return strings.ReplaceAll(s, "_", "__") }

func streamBase(s pService, m pMethod) string { return dbl(s.Go) + "_" + dbl(m.Go) }

func emittedNames(files []pFile) []string {
	var out []string
	for _, f := range files {
		if len(f.Services) == 0 {
			continue
		}
		out = append(out, "drpcEncoding_"+f.Ident)
		for _, s := range f.Services {
			out = append(out, "DRPC"+s.Go+"Client", "drpc"+s.Go+"Client", "NewDRPC"+s.Go+"Client", "DRPC"+s.Go+"Server",
				"DRPC"+s.Go+"UnimplementedServer", "DRPC"+s.Go+"Description", "DRPCRegister"+s.Go)
			for _, m := range s.Methods {
				if m.CS || m.SS {
					out = append(out, "DRPC"+streamBase(s, m)+"Client", "drpc"+streamBase(s, m)+"Client")
				}
				out = append(out, "DRPC"+streamBase(s, m)+"Stream", "drpc"+streamBase(s, m)+"Stream")
			}
		}
	}
	return out
}

func hasDup(xs []string) bool {
	seen := map[string]bool{}
	for _, x := range xs {
		if seen[x] {
			return true
		}
		seen[x] = true
	}
	return false
}

func dups(xs []string) []string {
	cnt := map[string]int{}
	for _, x := range xs {
		cnt[x]++
	}
	var out []string
	for x, n := range cnt {
		if n > 1 {
			out = append(out, x)
		}
	}
	sort.Strings(out)
	return out
}

// collisionLabels: the collision classes of Drpc.Gen.CollisionFree, evaluated on the Go names.
func collisionLabels(files []pFile, others []string) []string {
	var svcs []pService
	var gen []pFile
	for _, f := range files {
		svcs = append(svcs, f.Services...)
		if len(f.Services) > 0 {
			gen = append(gen, f)
		}
	}
	var labels []string
	var names []string
	for _, s := range svcs {
		names = append(names, s.Go)
	}
	if hasDup(names) {
		labels = append(labels, "dup-service")
	}
	dm, lu, svs, un, reg, enc, conn := false, false, false, false, false, false, false
	targets := func(s pService, withAll bool) []string {
		t := []string{s.Go + "Client"}
		if withAll {
			t = append(t, s.Go+"Server", s.Go+"UnimplementedServer", s.Go+"Description")
		}
		for _, m := range s.Methods {
			if m.CS || m.SS {
				t = append(t, streamBase(s, m)+"Client")
			}
			t = append(t, streamBase(s, m)+"Stream")
		}
		return t
	}
	for _, s := range svcs {
		var ms []string
		for _, m := range s.Methods {
			ms = append(ms, m.Go)
			if strings.HasPrefix(m.Go, "_") {
				lu = true
			}
			if m.Go == "DRPCConn" {
				conn = true
			}
		}
		if hasDup(ms) {
			dm = true
		}
		for _, s2 := range svcs {
			for _, m := range s2.Methods {
				if (m.CS || m.SS) && s.Go == streamBase(s2, m) {
					svs = true
				}
			}
			if s.Go == s2.Go+"Unimplemented" {
				un = true
			}
			for _, t := range targets(s2, true) {
				if "Register"+s.Go == t {
					reg = true
				}
			}
		}
	}
	var ids []string
	for _, f := range gen {
		ids = append(ids, f.Ident)
		for _, s2 := range svcs {
			for _, t := range targets(s2, false) {
				if "Encoding_"+f.Ident == t {
					enc = true
				}
			}
		}
	}
	if hasDup(ids) {
		enc = true
	}
	oth := hasDup(others)
	em := map[string]bool{}
	for _, n := range emittedNames(files) {
		em[n] = true
	}
	for _, o := range others {
		if em[o] {
			oth = true
		}
	}
	for _, x := range []struct {
		b bool
		l string
	}{{dm, "dup-method"}, {lu, "leading-underscore"}, {svs, "service-vs-stream"}, {un, "unimplemented"}, {reg, "register"},
		{enc, "encoding"}, {oth, "other-decl"}, {conn, "drpcconn-method"}} {
		if x.b {
			labels = append(labels, x.l)
		}
	}
	return labels
}
