package gen

import (
	"fmt"
	"math/rand"
	"strings"
)

var (
	words = []string{"a", "A", "b", "B", "Foo", "foo", "foo_bar", "FooBar", "Foo_Bar", "_foo", "x1", "X_1", "a__b", "A_",
		"Svc", "svc_v2", "HTTPServer", "Client", "Server", "Stream", "Unimplemented", "Register", "Description",
		"Encoding", "New", "get", "Get", "GET", "x_", "_1", "type", "func", "Z9", "aB", "Ab", "AB", "a_B", "a_b", "DRPC", "drpc",
		"String", "Reset", "Method", "NumMethods", "Close", "Send", "Recv", "Context", "error", "nil", "init", "main"}
	protoPkgs = []string{"", "p", "a.b", "a.b.c_d", "X.Y", "_p", "v1", "drpc", "context.x"}
	subPaths  = []string{"", "", "x", "x/y", "v1", "drpc", "context", "proto"}
	goNames   = []string{"gen", "drpc", "context", "proto", "v1", "errors", "drpcerr", "protojson", "x_y"}
	depBases  = []string{"dep", "types", "drpc", "errors", "proto", "protojson", "drpcerr", "bytes", "v1"}
	libs      = []string{"", "google.golang.org/protobuf", "github.com/gogo/protobuf", customEncPath}
)

func randName(r *rand.Rand) string {
	n := 1 + r.Intn(3)
	if r.Intn(3) > 0 {
		n = 1
	}
	var parts []string
	for i := 0; i < n; i++ {
		parts = append(parts, words[r.Intn(len(words))])
	}
	sep := ""
	if r.Intn(2) == 0 {
		sep = "_"
	}
	s := strings.Join(parts, sep)
	if s[0] >= '0' && s[0] <= '9' {
		s = "n" + s
	}
	return s
}

type descGen struct {
	r    *rand.Rand
	next int
}

func (g *descGen) id() int { g.next++; return g.next }

// base fills the options of a family at random
func (g *descGen) options(d *Desc) {
	r := g.r
	d.GoPkg = r.Intn(3)
	d.GoName = goNames[r.Intn(len(goNames))]
	d.SubPath = subPaths[r.Intn(len(subPaths))]
	d.Lib = libs[r.Intn(len(libs))]
	d.JSON = r.Intn(3) - 1
	d.SrcRel = r.Intn(4) == 0
	g.normalise(d)
}

// the gogo message generator needs a go_package option (a limit of that generator, not of the plugin under test)
func (g *descGen) normalise(d *Desc) {
	if d.libKind() == "o" && d.GoPkg == 2 {
		d.GoPkg = 0
	}
}

func (g *descGen) simple(tag string, svcs ...Service) *Desc {
	d := &Desc{ID: g.id(), JSON: -1, Tag: tag, Files: []File{{Path: "svc.proto", Pkg: "pkg", Messages: []string{"Req", "Resp"}, Services: svcs}}}
	return d
}

func mth(name string, cs, ss bool) Method { return Method{Name: name, CS: cs, SS: ss, In: "Req", Out: "Resp"} }

func allShapes() []Method {
	return []Method{mth("Unary", false, false), mth("Down", false, true), mth("Up", true, false), mth("Bidi", true, true)}
}

// random family: 0–4 services × 0–6 methods, every option at random
func (g *descGen) random() *Desc {
	r := g.r
	d := &Desc{ID: g.id(), Tag: "random"}
	g.options(d)
	nfiles := 1
	if r.Intn(5) == 0 {
		nfiles = 2 + r.Intn(2)
	}
	if r.Intn(3) == 0 {
		d.DepMsgs = []string{"DIn", "DOut"}
		d.DepBase = depBases[r.Intn(len(depBases))]
		d.DepPkg = protoPkgs[r.Intn(len(protoPkgs))]
	}
	usedSvc := map[string]bool{}
	pkg := protoPkgs[r.Intn(len(protoPkgs))]
	for fi := 0; fi < nfiles; fi++ {
		f := File{Path: fmt.Sprintf("f%d_%d.proto", d.ID, fi), Pkg: pkg, Messages: []string{fmt.Sprintf("MsgIn%d", fi), fmt.Sprintf("MsgOut%d", fi)}}
		if r.Intn(4) == 0 {
			f.Path = fmt.Sprintf("dir/sub/f%d_%d.proto", d.ID, fi)
		}
		if nfiles > 1 && r.Intn(2) == 0 {
			// same Go package, different proto package
			f.Pkg = protoPkgs[r.Intn(len(protoPkgs))]
		}
		ns := r.Intn(5)
		if nfiles > 1 {
			ns = r.Intn(3)
		}
		for si := 0; si < ns; si++ {
			name := randName(r)
			if usedSvc[f.Pkg+"."+name] || name == f.Messages[0] || name == f.Messages[1] {
				continue
			}
			usedSvc[f.Pkg+"."+name] = true
			s := Service{Name: name}
			usedM := map[string]bool{}
			nm := r.Intn(7)
			for mi := 0; mi < nm; mi++ {
				mn := randName(r)
				if usedM[mn] {
					continue
				}
				usedM[mn] = true
				m := Method{Name: mn, CS: r.Intn(2) == 0, SS: r.Intn(2) == 0, In: f.Messages[0], Out: f.Messages[1]}
				if len(d.DepMsgs) > 0 {
					if r.Intn(2) == 0 {
						m.In = "dep.DIn"
					}
					if r.Intn(3) == 0 {
						m.Out = "dep.DOut"
					}
				}
				if r.Intn(6) == 0 {
					m.In, m.Out = m.Out, m.In
				}
				s.Methods = append(s.Methods, m)
			}
			f.Services = append(f.Services, s)
		}
		d.Files = append(d.Files, f)
	}
	return d
}

// collision families: every pattern CollisionFree names, plus near misses that must compile
func (g *descGen) collisions() []*Desc {
	var out []*Desc
	add := func(tag string, svcs ...Service) *Desc {
		d := g.simple(tag, svcs...)
		out = append(out, d)
		return d
	}
	for _, sh := range [][2]bool{{true, false}, {false, true}, {true, true}} {
		add("collision:service-vs-stream", Service{Name: "A", Methods: []Method{mth("B", sh[0], sh[1])}}, Service{Name: "A_B"})
	}
	add("near-miss:service-vs-unary", Service{Name: "A", Methods: []Method{mth("B", false, false)}}, Service{Name: "A_B"})
	add("collision:service-vs-stream", Service{Name: "Foo_Bar", Methods: []Method{mth("baz", true, true)}}, Service{Name: "Foo__Bar_Baz", Methods: allShapes()})
	add("near-miss:doubling", Service{Name: "X_", Methods: []Method{mth("Y", true, true)}}, Service{Name: "X", Methods: []Method{mth("Y", true, true)}}, Service{Name: "X_Y"})
	add("collision:service-vs-stream", Service{Name: "X", Methods: []Method{mth("Y", true, true)}}, Service{Name: "X_Y", Methods: allShapes()})
	add("collision:unimplemented", Service{Name: "Foo", Methods: allShapes()}, Service{Name: "FooUnimplemented"})
	add("collision:unimplemented", Service{Name: "foo_unimplemented"}, Service{Name: "foo"})
	add("near-miss:unimplemented", Service{Name: "Foo"}, Service{Name: "UnimplementedFoo"}, Service{Name: "FooUnimplementedServer"})
	add("collision:register", Service{Name: "RegisterFoo"}, Service{Name: "FooClient"})
	add("collision:register", Service{Name: "RegisterFoo", Methods: allShapes()}, Service{Name: "FooServer"})
	add("collision:register", Service{Name: "RegisterFoo"}, Service{Name: "FooDescription", Methods: allShapes()})
	add("collision:register", Service{Name: "RegisterFoo"}, Service{Name: "FooUnimplementedServer"})
	add("collision:register", Service{Name: "Register", Methods: []Method{mth("Go", false, false)}}, Service{Name: "Register_GoStream"})
	add("collision:register", Service{Name: "Register", Methods: []Method{mth("Go", true, false)}}, Service{Name: "Register_GoClient"})
	add("near-miss:register", Service{Name: "RegisterFoo"}, Service{Name: "Foo"}, Service{Name: "Register"})
	add("near-miss:register", Service{Name: "Register", Methods: []Method{mth("Go", false, false)}}, Service{Name: "Register_GoClient"})
	add("collision:dup-service", Service{Name: "foo_bar"}, Service{Name: "FooBar"})
	add("collision:dup-service", Service{Name: "foo", Methods: allShapes()}, Service{Name: "Foo"})
	add("collision:dup-service", Service{Name: "_foo"}, Service{Name: "XFoo"})
	add("collision:dup-method", Service{Name: "S", Methods: []Method{mth("get_x", false, false), mth("GetX", false, false)}})
	add("collision:dup-method", Service{Name: "S", Methods: []Method{mth("a", true, true), mth("A", false, false)}})
	add("collision:drpcconn-method", Service{Name: "S", Methods: []Method{mth("DRPCConn", false, false)}})
	add("collision:drpcconn-method", Service{Name: "S", Methods: []Method{mth("Ok", false, true), mth("DRPCConn", true, true)}})
	add("near-miss:drpcconn", Service{Name: "S", Methods: []Method{mth("DrpcConn", false, false), mth("drpcconn", false, false), mth("GetStream", true, true), mth("Method", false, false), mth("NumMethods", false, true)}})
	d := add("collision:other-decl", Service{Name: "Foo", Methods: allShapes()})
	d.Files[0].Messages = append(d.Files[0].Messages, "DRPCFooClient")
	d = add("collision:other-decl", Service{Name: "Foo", Methods: []Method{mth("Bar", false, false)}})
	d.Files[0].Messages = append(d.Files[0].Messages, "DRPCFoo_BarStream")
	d = add("collision:other-decl", Service{Name: "Foo"})
	d.Files[0].Messages = append(d.Files[0].Messages, "NewDRPCFooClient")
	d = add("near-miss:other-decl", Service{Name: "Foo", Methods: allShapes()})
	d.Files[0].Messages = append(d.Files[0].Messages, "FooClient", "DRPCFoo", "DRPCFoo_UnaryClient", "drpcFooClient", "Foo_Unary")
	d = add("collision:encoding", Service{Name: "Encoding_File_Foo"})
	d.Files[0].Path = "FooClient"
	d = add("collision:encoding", Service{Name: "Encoding", Methods: []Method{mth("File_x", true, false)}})
	d.Files[0].Path = "_xClient"
	d = add("near-miss:encoding", Service{Name: "Encoding_File_Foo", Methods: allShapes()}, Service{Name: "Encoding", Methods: []Method{mth("File_svc_proto", true, true)}})
	// two files of one Go package
	d = g.simple("collision:dup-service", Service{Name: "Foo"})
	d.Files = append(d.Files, File{Path: "other.proto", Pkg: "otherpkg", Messages: []string{"OReq", "OResp"},
		Services: []Service{{Name: "Foo", Methods: []Method{{Name: "M", In: "OReq", Out: "OResp"}}}}})
	out = append(out, d)
	d = g.simple("collision:service-vs-stream", Service{Name: "A", Methods: []Method{mth("B", true, true)}})
	d.Files = append(d.Files, File{Path: "other.proto", Pkg: "otherpkg", Messages: []string{"OReq", "OResp"}, Services: []Service{{Name: "A_B"}}})
	out = append(out, d)
	return out
}

// hostile but legal families that must compile (and a few that hit the import-qualifier defect)
func (g *descGen) hostile() []*Desc {
	var out []*Desc
	add := func(tag string, f func(d *Desc), svcs ...Service) {
		d := g.simple(tag, svcs...)
		if f != nil {
			f(d)
		}
		out = append(out, d)
	}
	all := Service{Name: "Svc", Methods: allShapes()}
	add("hostile:no-service", nil)
	add("hostile:no-method", nil, Service{Name: "Empty"})
	add("hostile:no-method", nil, Service{Name: "Empty"}, Service{Name: "Empty2"}, all)
	add("hostile:no-proto-package", func(d *Desc) { d.Files[0].Pkg = "" }, all)
	add("hostile:nested-package", func(d *Desc) { d.Files[0].Pkg = "a.b.c.d_e.F"; d.SubPath = "x/y/z" }, all)
	add("hostile:keywords", nil, Service{Name: "type", Methods: []Method{mth("func", false, false), mth("range", true, false), mth("chan", false, true), mth("select", true, true)}},
		Service{Name: "error", Methods: []Method{mth("error", false, false), mth("string", true, true), mth("nil", false, true)}})
	add("hostile:underscores", nil, Service{Name: "_", Methods: []Method{mth("_", true, true), mth("__", false, false)}},
		Service{Name: "a__b", Methods: []Method{mth("c__d", true, true), mth("c_d", true, true), mth("C__D", false, true)}},
		Service{Name: "A_", Methods: []Method{mth("B_", true, false), mth("_b", false, true)}})
	add("hostile:case-only", nil, Service{Name: "FOO", Methods: []Method{mth("get", false, false), mth("GET", true, true), mth("gEt", false, true)}},
		Service{Name: "Foo", Methods: []Method{mth("get", false, false)}}, Service{Name: "fOo"}, Service{Name: "Fo_o"})
	add("hostile:digits", nil, Service{Name: "v1", Methods: []Method{mth("m1", true, true), mth("m_1", false, true), mth("m1_2x", true, false)}},
		Service{Name: "S3_2", Methods: []Method{mth("x9", false, false)}})
	add("hostile:runtime-names", nil, Service{Name: "Stream", Methods: []Method{mth("Send", true, true), mth("Recv", true, true), mth("Close", false, false), mth("MsgSend", false, true), mth("Context", true, false), mth("CloseSend", false, false)}},
		Service{Name: "Conn", Methods: []Method{mth("Invoke", false, false), mth("NewStream", true, true), mth("Closed", false, false)}},
		Service{Name: "Mux", Methods: []Method{mth("Register", false, false), mth("Method", false, false), mth("NumMethods", false, false), mth("GetStream", true, true)}})
	add("hostile:same-in-out", func(d *Desc) {
		for i := range d.Files[0].Services[0].Methods {
			d.Files[0].Services[0].Methods[i].Out = "Req"
		}
	}, all)
	for _, base := range []string{"dep", "drpc", "errors", "proto", "protojson", "drpcerr", "bytes", "jsonpb"} {
		base := base
		add("hostile:dep-package-name", func(d *Desc) {
			d.DepMsgs, d.DepBase, d.DepPkg = []string{"DReq", "DResp"}, base, "dep.pkg"
			for i := range d.Files[0].Services[0].Methods {
				d.Files[0].Services[0].Methods[i].In = "dep.DReq"
				if i%2 == 0 {
					d.Files[0].Services[0].Methods[i].Out = "dep.DResp"
				}
			}
			d.Lib = libs[g.r.Intn(len(libs))]
		}, all)
	}
	for _, sh := range [][]Method{allShapes(), {mth("Up", true, false)}, {mth("Unary", false, false), mth("Down", false, true)}} {
		sh := sh
		add("defect:dep-package-named-context", func(d *Desc) {
			d.DepMsgs, d.DepBase, d.DepPkg = []string{"DReq"}, "context", "dep.pkg"
			for i := range d.Files[0].Services[0].Methods {
				d.Files[0].Services[0].Methods[i].In = "dep.DReq"
			}
		}, Service{Name: "Svc", Methods: sh})
	}
	for _, name := range goNames {
		name := name
		add("hostile:go-package-name", func(d *Desc) { d.GoPkg = 1; d.GoName = name }, all)
	}
	for _, sub := range []string{"drpc", "context", "errors", "proto", "x/y/v2"} {
		sub := sub
		add("hostile:import-path", func(d *Desc) { d.SubPath = sub; d.GoPkg = g.r.Intn(3) }, all)
	}
	add("hostile:source-relative", func(d *Desc) { d.SrcRel = true; d.Files[0].Path = "deep/dir/svc.proto" }, all)
	add("hostile:m-flag", func(d *Desc) { d.GoPkg = 2 }, all)
	add("hostile:multi-file", func(d *Desc) {
		d.Files = append(d.Files,
			File{Path: "second.proto", Pkg: "pkg", Messages: []string{"Req2", "Resp2"}, Services: []Service{{Name: "Second", Methods: []Method{{Name: "M", CS: true, SS: true, In: "Req2", Out: "Resp2"}}}}},
			File{Path: "third.proto", Pkg: "other.pkg", Messages: []string{"Req3"}},
			File{Path: "fourth.proto", Pkg: "other.pkg", Messages: []string{"Req4"}, Services: []Service{{Name: "Svc", Methods: []Method{{Name: "M", In: "Req4", Out: "Req4"}}}}})
	}, all)
	// big
	var big []Service
	for i := 0; i < 4; i++ {
		s := Service{Name: fmt.Sprintf("Big%d", i)}
		for j := 0; j < 6; j++ {
			s.Methods = append(s.Methods, mth(fmt.Sprintf("M%d", j), (i+j)%2 == 0, j%3 == 0))
		}
		big = append(big, s)
	}
	add("hostile:big", nil, big...)
	return out
}

// capitalised words: protogen keeps an underscore that is followed by an upper-case letter or a digit, so
// these words joined by "_" stay underscored Go names
var capWords = []string{"Node", "Stats", "Get", "Item", "Store", "Watch", "A", "B", "C", "V2", "X9", "Foo", "Bar", "Baz", "Put", "List", "HTTP", "Z"}

// shared method names (several services of one file / package declare the same method)
var sharedMethods = []string{"Ping", "Fetch", "Observe", "Enumerate", "put", "get_all", "Sync_Up"}

// split-point families: several (service, method) pairs of one Go package whose Go names, joined by a
// single underscore, are the same string (Node_Stats.Get / Node.Stats_Get).  The `_` -> `__` doubling
// in the stream type names is the only thing that keeps their identifiers apart and the service full
// name the only thing that keeps their rpc names apart; the generator accepts every one of them, so
// each must type-check, register and round-trip (none is in a class of CollisionFree's complement).
func (g *descGen) splitPoints(nrand int) []*Desc {
	var out []*Desc
	add := func(tag string, svcs ...Service) *Desc {
		d := g.simple(tag, svcs...)
		out = append(out, d)
		return d
	}
	for _, sh := range [][2]bool{{false, false}, {false, true}, {true, false}, {true, true}} {
		add("near-miss:split-point", Service{Name: "Node_Stats", Methods: []Method{mth("Get", sh[0], sh[1])}},
			Service{Name: "Node", Methods: []Method{mth("Stats_Get", sh[0], sh[1])}})
	}
	add("near-miss:split-point", Service{Name: "Item_Store", Methods: []Method{mth("Watch", false, true), mth("Put", false, false)}},
		Service{Name: "Item", Methods: []Method{mth("Store_Watch", true, true), mth("Put", true, false)}})
	add("near-miss:split-point", Service{Name: "A_B_C", Methods: []Method{mth("D", true, true)}},
		Service{Name: "A_B", Methods: []Method{mth("C_D", true, true)}},
		Service{Name: "A", Methods: []Method{mth("B_C_D", true, true), mth("B_C", false, true), mth("B", false, false)}})
	add("near-miss:split-point", Service{Name: "Foo_Bar", Methods: append(allShapes(), mth("Baz_Unary", false, false))},
		Service{Name: "Foo", Methods: []Method{mth("Bar_Unary", false, false), mth("Bar_Down", false, true), mth("Bar_Up", true, false), mth("Bar_Bidi", true, true)}},
		Service{Name: "Foo_Bar_Baz", Methods: allShapes()})
	// the doubled spelling of one pair is the plain spelling of another
	add("near-miss:split-point", Service{Name: "X__Y", Methods: []Method{mth("Z", true, true)}}, Service{Name: "X_Y", Methods: []Method{mth("Z", true, true)}},
		Service{Name: "X", Methods: []Method{mth("Y_Z", true, true), mth("Y__Z", true, true)}})
	// the two services in two files of one Go package (same / different proto package)
	for _, pkg2 := range []string{"pkg", "other.pkg"} {
		d := g.simple("near-miss:split-point", Service{Name: "Node_Stats", Methods: []Method{mth("Get", true, true), mth("Ping", false, false)}})
		d.Files = append(d.Files, File{Path: "second.proto", Pkg: pkg2, Messages: []string{"Req2", "Resp2"},
			Services: []Service{{Name: "Node", Methods: []Method{{Name: "Stats_Get", CS: true, SS: true, In: "Req2", Out: "Resp2"}, {Name: "Ping", In: "Req2", Out: "Resp2"}}}}})
		out = append(out, d)
	}
	// random: k words, 2..3 different split points, random shapes and options, sometimes spread over files
	r := g.r
	for n := 0; n < nrand; n++ {
		k := 3 + r.Intn(3)
		var ws []string
		for i := 0; i < k; i++ {
			ws = append(ws, capWords[r.Intn(len(capWords))])
		}
		cuts := r.Perm(k - 1)[:2+r.Intn(min(2, k-2))]
		d := &Desc{ID: g.id(), Tag: "near-miss:split-point-random"}
		g.options(d)
		pkg := protoPkgs[r.Intn(len(protoPkgs))]
		spread := r.Intn(3) == 0
		d.Files = []File{{Path: fmt.Sprintf("sp%d_0.proto", d.ID), Pkg: pkg, Messages: []string{"MsgIn0", "MsgOut0"}}}
		seen := map[string]bool{}
		for ci, c := range cuts {
			s := Service{Name: strings.Join(ws[:c+1], "_")}
			if seen[s.Name] {
				continue
			}
			seen[s.Name] = true
			fi := 0
			if spread && ci > 0 {
				fi = len(d.Files)
				f := File{Path: fmt.Sprintf("sp%d_%d.proto", d.ID, fi), Pkg: pkg, Messages: []string{fmt.Sprintf("MsgIn%d", fi), fmt.Sprintf("MsgOut%d", fi)}}
				if r.Intn(2) == 0 {
					f.Pkg = protoPkgs[r.Intn(len(protoPkgs))]
				}
				d.Files = append(d.Files, f)
			}
			f := &d.Files[fi]
			s.Methods = append(s.Methods, Method{Name: strings.Join(ws[c+1:], "_"), CS: r.Intn(2) == 0, SS: r.Intn(2) == 0, In: f.Messages[0], Out: f.Messages[1]})
			for _, extra := range sharedMethods[:r.Intn(3)] {
				s.Methods = append(s.Methods, Method{Name: extra, CS: r.Intn(2) == 0, SS: r.Intn(2) == 0, In: f.Messages[0], Out: f.Messages[1]})
			}
			f.Services = append(f.Services, s)
		}
		out = append(out, d)
	}
	return out
}

// shared-method families: several services of one file (and of several files of one package) declare
// the same method names, in the same and in different shapes.  Every service has its own full name, so
// every method has its own rpc name; registered on ONE mux each client must reach its own service.
func (g *descGen) sharedMethodFamilies(nrand int) []*Desc {
	var out []*Desc
	d := g.simple("hostile:shared-methods",
		Service{Name: "Alpha", Methods: []Method{mth("Ping", false, false), mth("Watch", false, true)}},
		Service{Name: "Beta", Methods: []Method{mth("Ping", false, false), mth("Watch", false, true), mth("Push", true, false)}},
		Service{Name: "Gamma", Methods: []Method{mth("Watch", true, true), mth("Push", true, false), mth("Ping", false, false)}})
	d.Files[0].Pkg = "demo.nested"
	out = append(out, d)
	d = g.simple("hostile:shared-methods", Service{Name: "First", Methods: allShapes()}, Service{Name: "Second", Methods: allShapes()})
	d.Files[0].Pkg = ""
	d.Files = append(d.Files, File{Path: "more.proto", Pkg: "pkg", Messages: []string{"Req2", "Resp2"}, Services: []Service{
		{Name: "Third", Methods: []Method{{Name: "Unary", In: "Req2", Out: "Resp2"}, {Name: "Bidi", CS: true, SS: true, In: "Req2", Out: "Resp2"}}},
		{Name: "Fourth", Methods: []Method{{Name: "Bidi", CS: true, SS: true, In: "Req2", Out: "Req2"}, {Name: "Unary", In: "Resp2", Out: "Resp2"}}}}})
	out = append(out, d)
	// a service whose name is a prefix / suffix of another's, same methods
	out = append(out, g.simple("hostile:shared-methods", Service{Name: "Svc", Methods: allShapes()}, Service{Name: "SvcV2", Methods: allShapes()},
		Service{Name: "Svc_V2", Methods: allShapes()}, Service{Name: "V2Svc", Methods: []Method{mth("Unary", true, true)}}))
	r := g.r
	for n := 0; n < nrand; n++ {
		d := &Desc{ID: g.id(), Tag: "hostile:shared-methods-random"}
		g.options(d)
		nfiles := 1 + r.Intn(2)
		pkg := protoPkgs[r.Intn(len(protoPkgs))]
		used := map[string]bool{}
		for fi := 0; fi < nfiles; fi++ {
			f := File{Path: fmt.Sprintf("sm%d_%d.proto", d.ID, fi), Pkg: pkg, Messages: []string{fmt.Sprintf("MsgIn%d", fi), fmt.Sprintf("MsgOut%d", fi)}}
			if fi > 0 && r.Intn(2) == 0 {
				f.Pkg = protoPkgs[r.Intn(len(protoPkgs))]
			}
			for si, ns := 0, 2+r.Intn(3); si < ns; si++ {
				name := capWords[r.Intn(len(capWords))]
				if r.Intn(2) == 0 {
					name += "_" + capWords[r.Intn(len(capWords))]
				}
				if used[name] {
					continue
				}
				used[name] = true
				s := Service{Name: name}
				for _, mi := range r.Perm(len(sharedMethods))[:1+r.Intn(4)] {
					s.Methods = append(s.Methods, Method{Name: sharedMethods[mi], CS: r.Intn(2) == 0, SS: r.Intn(2) == 0, In: f.Messages[0], Out: f.Messages[1]})
				}
				f.Services = append(f.Services, s)
			}
			d.Files = append(d.Files, f)
		}
		out = append(out, d)
	}
	return out
}

// every shape × protolib × json as single-method services
func (g *descGen) matrix() []*Desc {
	var out []*Desc
	for _, lib := range libs {
		for _, js := range []int{-1, 0, 1} {
			d := g.simple("matrix", Service{Name: "Svc", Methods: allShapes()})
			d.Lib, d.JSON = lib, js
			out = append(out, d)
			for _, m := range allShapes() {
				d := g.simple("matrix", Service{Name: "One", Methods: []Method{m}})
				d.Lib, d.JSON = lib, js
				out = append(out, d)
			}
		}
	}
	return out
}
