// Package gen: correspondence + direct oracles for the code generator and the mux (C17).
//
// Every descriptor family is turned into a CodeGeneratorRequest, run through protoc-gen-go (module
// cache) and through protoc-gen-go-drpc BUILT FROM /repo's WORKING TREE; the drpc output is parsed
// and compared, declaration by declaration, with what the Lean model of the generator emits for the
// same Go names; the package is type-checked against the runtime of /repo; a handful are compiled
// and executed (generated client <-> generated server over net.Pipe).
package gen

import (
	"os"
	"strings"

	"verifharness/corr"
)

func Run(o *corr.Out) {
	defer muxCases(o)

	_ = os.RemoveAll(scratchRoot)
	if err := os.MkdirAll(scratchRoot, 0o755); err != nil {
		o.Oracle("harness", "scratch dir", err.Error())
		return
	}
	if os.Getenv("VERIF_GEN_KEEP") == "" {
		defer os.RemoveAll(scratchRoot)
	}
	mod, err := setupScratchModule(scratchRoot)
	if err != nil {
		o.Oracle("harness", "scratch module", err.Error())
		return
	}
	pgo, pdrpc, pgogo, err := buildPlugins(scratchRoot, mod)
	if err != nil {
		o.Oracle("generator-builds", "cmd/protoc-gen-go-drpc", err.Error())
		return
	}
	o.OracleOK("generator-builds")
	exports, err := exportMap(mod)
	if err != nil {
		// the runtime packages of /repo (drpc, drpcerr, drpcmux, drpcserver, drpcconn) do not compile
		o.Oracle("runtime-builds", "go list -export ./deps", err.Error())
		return
	}
	r := &runner{o: o, pgo: pgo, pdrpc: pdrpc, pgogo: pgogo, mod: mod, chk: newChecker(exports)}
	g := &descGen{r: o.Rand}

	var all []*Desc
	all = append(all, g.matrix()...)
	all = append(all, g.collisions()...)
	all = append(all, g.hostile()...)
	nrand, nsplit, nshared := 60, 16, 10
	if o.Thorough {
		nrand, nsplit, nshared = 3000, 400, 200
	}
	all = append(all, g.splitPoints(nsplit)...)
	all = append(all, g.sharedMethodFamilies(nshared)...)
	for i := 0; i < nrand; i++ {
		all = append(all, g.random())
	}
	// executed subset: quick = one per (shape set, protolib) of the matrix plus a few hostile ones, one
	// split-point package and one package of services sharing method names
	execBudget := 12
	if o.Thorough {
		execBudget = 160
	}
	picked := map[string]bool{}
	perTag := map[string]int{}
	// pass 0: the fixed selection; pass 1 (thorough): everything that must compile, with a cap per random
	// class so that no class uses up the budget of the classes generated after it
	for pass := 0; pass < 2; pass++ {
		if pass == 1 && !o.Thorough {
			break
		}
		for _, d := range all {
			key := d.Tag + "/" + d.libKind()
			switch {
			case d.WantExec:
				continue
			case d.Tag == "matrix" && len(d.Files[0].Services[0].Methods) == 4 && d.JSON != 0:
			case strings.HasPrefix(d.Tag, "hostile:multi-file"), strings.HasPrefix(d.Tag, "hostile:nested"), strings.HasPrefix(d.Tag, "hostile:runtime-names"),
				strings.HasPrefix(d.Tag, "hostile:underscores"), d.Tag == "hostile:dep-package-name" && d.DepBase == "drpc":
			case d.Tag == "near-miss:split-point" && len(d.Files[0].Services) >= 3, d.Tag == "hostile:shared-methods":
				// several services of one package on one mux: coinciding concatenations, shared method names
			case pass == 1 && (d.Tag == "random" || strings.HasPrefix(d.Tag, "hostile:") || strings.HasPrefix(d.Tag, "near-miss:") || d.Tag == "matrix"):
				key = ""
				limit := 1 << 30
				switch {
				case d.Tag == "random":
					limit = 25
				case strings.HasSuffix(d.Tag, "-random"):
					limit = 15
				}
				if perTag[d.Tag] >= limit {
					continue
				}
			default:
				continue
			}
			if d.GoPkg == 1 && d.GoName == "main" {
				continue
			}
			if key != "" && picked[key] && !o.Thorough {
				continue
			}
			if execBudget == 0 {
				break
			}
			picked[key] = true
			perTag[d.Tag]++
			d.WantExec = true
			execBudget--
		}
	}
	for _, d := range all {
		r.process(d)
	}
	r.runExec()
}
