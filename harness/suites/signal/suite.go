package signal

import (
	"fmt"
	"sort"
	"strings"

	"verifharness/corr"
)

// ------------------------------------------------------------------ running schedules

type frame struct {
	choices []int
	idx     int
}

// enumerate runs EVERY complete schedule of the programs in which only goroutines that can make a
// step are released (strict rule), by depth-first search over the release choices with replay from
// the start; it returns the number of schedules (compared with the model's own count).
func enumerate(o *corr.Out, isChan bool, progs [][]string, class string, limit int) int {
	var stack []frame
	count := 0
	for {
		w := newWorld(isChan, progs)
		depth := 0
		nondet := ""
		for depth < 400 {
			ch := w.allowed(true)
			if len(ch) == 0 {
				break
			}
			if depth < len(stack) {
				if fmt.Sprint(stack[depth].choices) != fmt.Sprint(ch) && nondet == "" {
					nondet = fmt.Sprintf("release choices at depth %d were %v, now %v", depth, stack[depth].choices, ch)
					stack = stack[:depth]
					stack = append(stack, frame{choices: ch})
				}
			} else {
				stack = append(stack, frame{choices: ch})
			}
			w.release(stack[depth].choices[stack[depth].idx])
			depth++
		}
		finish(o, w, class, nondet)
		count++
		stack = stack[:depth]
		for len(stack) > 0 && stack[len(stack)-1].idx+1 >= len(stack[len(stack)-1].choices) {
			stack = stack[:len(stack)-1]
		}
		if len(stack) == 0 || (limit > 0 && count >= limit) {
			break
		}
		stack[len(stack)-1].idx++
	}
	return count
}

// walk runs one random complete schedule; goroutines may be sent into a held mutex (one waiter at most).
func walk(o *corr.Out, isChan bool, progs [][]string, class string, strict bool) {
	w := newWorld(isChan, progs)
	for step := 0; step < 400; step++ {
		ch := w.allowed(strict)
		if len(ch) == 0 {
			break
		}
		w.release(ch[o.Rand.Intn(len(ch))])
	}
	finish(o, w, class, "")
}

// replay runs a fixed schedule (used for the corpus of interesting interleavings) and completes it with lowest-first.
func replay(o *corr.Out, isChan bool, progs [][]string, sched []int, class string) {
	w := newWorld(isChan, progs)
	for _, g := range sched {
		ok := false
		for _, a := range w.allowed(false) {
			if a == g {
				ok = true
			}
		}
		if !ok {
			break
		}
		w.release(g)
	}
	for step := 0; step < 400; step++ {
		ch := w.allowed(false)
		if len(ch) == 0 {
			break
		}
		w.release(ch[0])
	}
	finish(o, w, class, "")
}

var finished int

func finish(o *corr.Out, w *world, class, nondet string) {
	// the director's own (expensive) quiescence check: whenever somebody is left blocked, and on a sample otherwise
	finished++
	if finished%8 == 0 || strings.Contains(w.statusLine(), "blk") {
		w.settleFull()
	}
	final := w.statusLine()
	ops := w.snapshotOps()
	closed := map[chan struct{}]bool{}
	for i := range ops {
		for _, r := range ops[i] {
			if r.isCh && r.ch != nil {
				if _, ok := closed[r.ch]; !ok {
					closed[r.ch] = probeClosed(r.ch)
				}
			}
		}
	}
	req, ans := w.render(ops, closed)
	oracles(o, w, ops, closed, req, final)
	if nondet != "" {
		o.Oracle("deterministic-under-director", req, nondet)
	}
	w.cleanup()
	if w.failed != "" {
		o.Oracle("no-hang-no-spin", req, w.failed)
	} else {
		o.OracleOK("no-hang-no-spin")
	}
	// non-trivial: a goroutine was preempted inside an operation (context switch away from a goroutine
	// that is parked at an internal point), or somebody was blocked at some time
	pre := 0
	for k := 1; k < len(w.sched); k++ {
		if w.sched[k] != w.sched[k-1] {
			st := strings.Split(w.trace[k-1], "/")[w.sched[k-1]]
			if st != "op.start" && st != "end" && st != "pan" {
				pre++
			}
		}
	}
	blk := strings.Contains(ans, "blk")
	o.Stat(fmt.Sprintf("%s:pre%d", class, min(pre, 6)))
	if blk {
		o.Stat(class + ":blocked-at-some-time")
	}
	o.Case(req, ans, pre >= 1 || blk)
}

// ------------------------------------------------------------------ direct oracles (no model)

func oracles(o *corr.Out, w *world, ops [][]opRec, closed map[chan struct{}]bool, req, final string) {
	var all []*opRec
	for i := range ops {
		for k := range ops[i] {
			all = append(all, &ops[i][k])
		}
	}
	bad := func(name, detail string) { o.Oracle(name, req, detail) }
	anyPanic := false
	for _, r := range all {
		if r.panicked {
			anyPanic = true
		}
	}
	stillBlocked := strings.Contains(final, "blk")
	unfinished := false
	for _, r := range all {
		if r.result == "" {
			unfinished = true
		}
	}
	if !w.isChan {
		// (1) exactly one Set returns true
		var winners, sets []*opRec
		for _, r := range all {
			if r.op[0] == 's' && r.result != "" {
				sets = append(sets, r)
				if r.result == "t" {
					winners = append(winners, r)
				}
			}
		}
		switch {
		case len(winners) > 1:
			bad("exactly-one-winner", fmt.Sprintf("%d Set calls returned true", len(winners)))
		case len(sets) > 0 && len(winners) == 0 && !unfinished:
			bad("exactly-one-winner", "Set calls completed and none returned true")
		default:
			o.OracleOK("exactly-one-winner")
		}
		// (2) every observer sees the winner's error; observations are monotone in real time
		if len(winners) == 1 {
			want := "e" + winners[0].op[1:]
			if winners[0].op[1:] == "0" {
				want = "nil"
			}
			ok := true
			for _, r := range all {
				switch r.op[0] {
				case 'G':
					if strings.HasSuffix(r.result, "/t") && r.result != want+"/t" {
						ok = false
						bad("observers-see-winner", fmt.Sprintf("Get returned %s, the winning Set stored %s", r.result, want))
					}
				case 'E':
					if r.result != "" && r.result != "nil" && r.result != want {
						ok = false
						bad("observers-see-winner", fmt.Sprintf("Err returned %s, the winning Set stored %s", r.result, want))
					}
				}
			}
			if ok {
				o.OracleOK("observers-see-winner")
			}
		}
		firstSeen := -1 // release index at which some call had returned having seen the signal set
		for _, r := range all {
			seen := (r.op[0] == 's' && r.result != "") || (r.op[0] == 'I' && r.result == "t") ||
				(r.op[0] == 'G' && strings.HasSuffix(r.result, "/t")) || (r.op[0] == 'w' && r.result != "")
			if seen && r.ended >= 0 && (firstSeen < 0 || r.ended < firstSeen) {
				firstSeen = r.ended
			}
		}
		if firstSeen >= 0 {
			ok := true
			for _, r := range all {
				if r.started > firstSeen && r.result != "" {
					if (r.op[0] == 'I' && r.result != "t") || (r.op[0] == 'G' && !strings.HasSuffix(r.result, "/t")) ||
						(r.op[0] == 's' && r.result != "f") {
						ok = false
						bad("set-is-monotone", fmt.Sprintf("%s started at release %d returned %s although the signal was seen set at release %d", r.op, r.started, r.result, firstSeen))
					}
				}
			}
			if ok {
				o.OracleOK("set-is-monotone")
			}
		}
		// (3) all Signal() results identical and non-nil
		var first chan struct{}
		ok := true
		for _, r := range all {
			if r.op[0] == 'g' && r.isCh {
				if r.ch == nil {
					ok = false
					bad("channel-unique", "Signal() returned nil")
				} else if first == nil {
					first = r.ch
				} else if first != r.ch {
					ok = false
					bad("channel-unique", "two Signal() calls returned different channels")
				}
			}
		}
		if ok {
			o.OracleOK("channel-unique")
		}
		// (4) channel closed iff a Set completed; (5) no Wait returns before a Set has stored the status
		if first != nil && !unfinished {
			if closed[first] != (len(winners) == 1) {
				bad("closed-iff-set", fmt.Sprintf("channel closed=%v, winning Set calls=%d", closed[first], len(winners)))
			} else {
				o.OracleOK("closed-iff-set")
			}
		}
		storeAt := -1 // first release of a setter from the point in front of the status store
		for k, g := range w.sched {
			if k > 0 || true {
				prev := "op.start"
				if k > 0 {
					prev = strings.Split(w.trace[k-1], "/")[g]
				}
				if prev == "signal.setSlow.ch" && storeAt < 0 {
					storeAt = k
				}
			}
		}
		for _, r := range all {
			if r.op[0] == 'w' && r.result != "" {
				if storeAt < 0 || r.ended < storeAt {
					bad("no-early-wakeup", fmt.Sprintf("Wait returned at release %d, first status store at %d", r.ended, storeAt))
				} else {
					o.OracleOK("no-early-wakeup")
				}
			}
		}
		// (6) nobody left blocked once a Set has completed (lost wake-up)
		if len(winners) == 1 && winners[0].ended >= 0 {
			if stillBlocked {
				bad("no-lost-wakeup", "a goroutine is still blocked after the winning Set returned: "+final)
			} else {
				o.OracleOK("no-lost-wakeup")
			}
		}
		if anyPanic {
			bad("no-panic", "a Signal operation panicked: "+panicOf(all))
		} else {
			o.OracleOK("no-panic")
		}
		return
	}
	// ---- Chan
	closes, sends := 0, 0
	closeDone := -1
	for _, r := range all {
		switch r.op[0] {
		case 'c':
			closes++
			if r.result == "ok" && (closeDone < 0 || r.ended < closeDone) {
				closeDone = r.ended
			}
		case 's', 'f':
			sends++
		}
	}
	var first chan struct{}
	ok := true
	for _, r := range all {
		if r.op[0] == 'g' && r.isCh {
			if r.ch == nil {
				ok = false
				bad("chan-get-not-nil", "Get() returned nil")
			} else if first == nil {
				first = r.ch
			} else if first != r.ch {
				ok = false
				bad("chan-unique", "two Get() calls returned different channels")
			}
		}
	}
	if ok {
		o.OracleOK("chan-unique")
	}
	if closeDone >= 0 && first != nil {
		if !closed[first] {
			bad("close-then-get-closed", "a Close call returned and the channel returned by Get is open")
		} else {
			o.OracleOK("close-then-get-closed")
		}
	}
	contract := closes <= 1 && (closes == 0 || sends == 0)
	if anyPanic {
		if contract {
			bad("chan-no-panic", "panic with at most one Close and no Send/Full next to it: "+panicOf(all))
		} else {
			o.Stat("chan:contract-panic") // double Close / Send after Close: Go's own channels do the same
		}
	} else {
		o.OracleOK("chan-no-panic")
	}
	onlyCGM := true
	for _, r := range all {
		if r.op[0] == 's' || r.op[0] == 'r' || r.op[0] == 'f' {
			onlyCGM = false
		}
	}
	if onlyCGM && !anyPanic {
		if stillBlocked {
			bad("chan-no-block", "Close/Get/Make only, and a goroutine is blocked: "+final)
		} else {
			o.OracleOK("chan-no-block")
		}
	}
	// a Recv must not stay blocked once a Close has returned
	if closeDone >= 0 && !anyPanic {
		blockedRecv := false
		for i := range ops {
			for _, r := range ops[i] {
				if r.op[0] == 'r' && r.started >= 0 && r.result == "" {
					blockedRecv = true
				}
			}
		}
		if blockedRecv {
			bad("chan-no-lost-wakeup", "a Recv is still blocked after a Close returned: "+final)
		} else {
			o.OracleOK("chan-no-lost-wakeup")
		}
	}
}

func panicOf(all []*opRec) string {
	for _, r := range all {
		if r.panicked {
			return r.op + ": " + r.panicMsg
		}
	}
	return ""
}

// ------------------------------------------------------------------ programs

var sigOps = []string{"s1", "s2", "g", "w", "G", "E", "I"}
var chanOps = []string{"c", "m1", "g", "s", "r", "f"}

func allProgs(ops []string, n int) [][]string {
	if n == 0 {
		return [][]string{{}}
	}
	var out [][]string
	for _, p := range allProgs(ops, n-1) {
		for _, op := range ops {
			out = append(out, append(append([]string{}, p...), op))
		}
	}
	return out
}

// chanOK: scenarios in which Go's channel runtime makes no choice that the model does not make (see
// Drpc/Chan.lean): at most one Recv, and next to a Recv at most one Send and no Full — so there is never
// a choice between several parked receivers or senders.  Blocked outcomes are fine, the model predicts them.
func chanOK(progs [][]string) bool {
	recv, full, send := 0, 0, 0
	for _, p := range progs {
		for _, op := range p {
			switch op[0] {
			case 'r':
				recv++
			case 'f':
				full++
			case 's':
				send++
			}
		}
	}
	return recv == 0 || (recv == 1 && full == 0 && send <= 1)
}

func progKey(progs [][]string) string {
	ps := make([]string, len(progs))
	for i, p := range progs {
		ps[i] = strings.Join(p, ",")
		if len(p) == 0 {
			ps[i] = "-"
		}
	}
	return strings.Join(ps, "|")
}

func countCase(o *corr.Out, isChan bool, progs [][]string, n int) {
	cmd := "sigcount"
	if isChan {
		cmd = "chancount"
	}
	o.Case(fmt.Sprintf("%s progs=%s", cmd, progKey(progs)), fmt.Sprint(n), n >= 2)
}

func randProg(o *corr.Out, ops []string, maxLen int) []string {
	n := 1 + o.Rand.Intn(maxLen)
	p := make([]string, n)
	for i := range p {
		p[i] = ops[o.Rand.Intn(len(ops))]
	}
	return p
}

func Run(o *corr.Out) {
	for _, isChan := range []bool{false, true} {
		ops, name := sigOps, "sig"
		if isChan {
			ops, name = chanOps, "chan"
		}
		// (A) 2 goroutines x 1 operation: EVERY pair of operations, EVERY schedule
		one := allProgs(ops, 1)
		for a := range one {
			for b := a; b < len(one); b++ {
				progs := [][]string{one[a], one[b]}
				if isChan && !chanOK(progs) {
					continue
				}
				countCase(o, isChan, progs, enumerate(o, isChan, progs, name+":2x1", 0))
			}
		}
		// (B) 2 goroutines x 2 operations: every schedule of selected program pairs (all pairs in the thorough tier)
		two := allProgs(ops, 2)
		var pairs [][][]string
		for a := range two {
			for b := a; b < len(two); b++ {
				progs := [][]string{two[a], two[b]}
				if isChan && !chanOK(progs) {
					continue
				}
				pairs = append(pairs, progs)
			}
		}
		sort.SliceStable(pairs, func(i, j int) bool { return progKey(pairs[i]) < progKey(pairs[j]) })
		nPairs := 10
		if isChan {
			nPairs = 8
		}
		if o.Thorough {
			nPairs = 70
		}
		fixed := [][][]string{{{"s1", "G"}, {"s2", "g"}}, {{"w", "E"}, {"s1", "s2"}}, {{"g", "s1"}, {"s2", "w"}}}
		if isChan {
			fixed = [][][]string{{{"g", "c"}, {"c", "g"}}, {{"m1", "s"}, {"r", "g"}}, {{"g", "g"}, {"c", "m1"}}}
		}
		seen := map[string]bool{}
		for _, progs := range fixed {
			seen[progKey(progs)] = true
			countCase(o, isChan, progs, enumerate(o, isChan, progs, name+":2x2", 0))
		}
		for _, idx := range o.Rand.Perm(len(pairs)) {
			if len(seen) >= nPairs+len(fixed) {
				break
			}
			progs := pairs[idx]
			if seen[progKey(progs)] {
				continue
			}
			seen[progKey(progs)] = true
			countCase(o, isChan, progs, enumerate(o, isChan, progs, name+":2x2", 0))
		}
		// (C) random walks: 2-3 goroutines x 1-3 operations, goroutines may block on the mutex
		nWalk := 700
		if o.Thorough {
			nWalk = 5000
		}
		for i := 0; i < nWalk; i++ {
			ng := 2 + o.Rand.Intn(2)
			var progs [][]string
			walkOps := ops
			if !isChan {
				walkOps = append(append([]string{}, ops...), "s0") // Set(nil) as well
			}
			for try := 0; ; try++ {
				progs = nil
				for g := 0; g < ng; g++ {
					progs = append(progs, randProg(o, walkOps, 3))
				}
				if !isChan || chanOK(progs) {
					break
				}
			}
			walk(o, isChan, progs, fmt.Sprintf("%s:walk%d", name, ng), o.Rand.Intn(4) == 0)
		}
	}
	// (D) the contract question of Chan, replayed: two Close calls (what poolConn.Close() twice does)
	replay(o, true, [][]string{{"g", "c"}, {"c"}}, nil, "chan:double-close")
	replay(o, true, [][]string{{"c"}, {"c"}}, nil, "chan:double-close")
	poolConnDoubleClose(o)
	// (E) free-running rounds: interleavings below the granularity of the scheduling points (free.go)
	freeRun(o)
}
