package signal

// Free-running family (E): the schedules of families (A)-(D) are interleavings at the granularity of the
// scheduling points — between two drpcdebug.Point calls the code under the director runs
// uninterrupted, so a goroutine is never delayed at an internal step that has no point in front of it
// (inside the initialiser f() of Chan.do, between f() and the deferred store, between the store and the
// unlock, in front of the channel operations of Send/Recv/Full, inside Signal.signalSlow's make, …).
// Here NO hook is installed and nobody is parked: 2-8 goroutines are let go at the same instant (spin
// barrier, per-goroutine start offsets of 0-200 ns) on a fresh Signal / Chan, thousands of times,
// so that the hardware interleaves the single loads and stores (40000 + 40000 rounds, ten times that in the
// thorough tier).  There is no schedule to replay on the
// model; what is judged are the schedule-independent clauses of the property, with the same oracle
// names as the directed families:
//   Chan   : Get never returns nil · all Get results identical · at most one Close and no Send/Full ⇒ no
//            panic · once a Close has returned the channel every Get returned is closed · with a Close in
//            the round nobody stays blocked (Recv included: no lost wake-up, no channel that never closes)
//   Signal : exactly one Set wins · Get/Err never show another error than the winner's · all Signal()
//            results identical, non-nil · channel closed iff a Set completed · with a Set in the round no
//            Wait stays blocked · no panic
// A round is described by its programs (one operation per goroutine) and start offsets; the description
// is deterministic in the seed, the interleaving is not.

import (
	"bytes"
	"fmt"
	"runtime"
	"strconv"
	"strings"
	"sync/atomic"
	"time"

	"storj.io/drpc/drpcdebug"
	"storj.io/drpc/drpcsignal"
	"verifharness/corr"
)

type freeRes struct {
	res      string
	ch       chan struct{}
	isCh     bool
	panicMsg string
	done     atomic.Bool
	_        [40]byte // keep the slots of different workers apart
}

type freeJob struct {
	op    string
	delay int
}

// freePool: persistent workers spinning on a generation counter, so that a round costs a few
// microseconds and all workers leave the barrier within a few hundred nanoseconds of each other.
type freePool struct {
	n        int // workers
	gen      atomic.Uint32
	finished atomic.Int32
	quit     atomic.Bool
	jobs     []freeJob
	res      []freeRes
	sig      *drpcsignal.Signal
	ch       *drpcsignal.Chan
	isChan   bool
	sink     atomic.Uint64
}

func newFreePool(n int, isChan bool) *freePool {
	p := &freePool{n: n, jobs: make([]freeJob, n), res: make([]freeRes, n), isChan: isChan}
	for i := 0; i < n; i++ {
		go p.worker(i)
	}
	return p
}

func (p *freePool) worker(i int) {
	last := uint32(0)
	for {
		spins := 0
		for p.gen.Load() == last {
			if p.quit.Load() {
				return
			}
			spins++
			if spins&1023 == 0 {
				runtime.Gosched()
			}
		}
		last++
		// every worker takes part in every round (those beyond the round's size with an empty job), so
		// that nobody is still looking at the previous round when the next one is set up
		if job := p.jobs[i]; job.op != "" {
			x := uint64(0)
			for d := 0; d < job.delay; d++ {
				x += uint64(d) * 2654435761
			}
			p.sink.Add(x & 1)
			p.exec(i, job.op)
		}
		p.res[i].done.Store(true)
		p.finished.Add(1)
	}
}

func (p *freePool) exec(i int, op string) {
	r := &p.res[i]
	defer func() {
		if e := recover(); e != nil {
			r.res, r.panicMsg = "panic", fmt.Sprint(e)
		}
	}()
	if p.isChan {
		c := p.ch
		switch op[0] {
		case 'c':
			c.Close()
			r.res = "ok"
		case 'm':
			n, _ := strconv.Atoi(op[1:])
			c.Make(uint(n))
			r.res = "ok"
		case 'g':
			r.ch, r.isCh, r.res = c.Get(), true, "ch"
		case 'r':
			c.Recv()
			r.res = "ok"
		}
		return
	}
	s := p.sig
	switch op[0] {
	case 's':
		n, _ := strconv.Atoi(op[1:])
		var err error
		if n != 0 {
			err = tagErr{n}
		}
		r.res = tf(s.Set(err))
	case 'g':
		r.ch, r.isCh, r.res = s.Signal(), true, "ch"
	case 'w':
		s.Wait()
		r.res = "w"
	case 'G':
		err, ok := s.Get()
		r.res = errName(err) + "/" + tf(ok)
	case 'E':
		r.res = errName(s.Err())
	case 'I':
		r.res = tf(s.IsSet())
	}
}

// workersBlocked: a stop-the-world snapshot in which no goroutine of this package's worker function is
// running or runnable (they are all parked in a channel operation / mutex), twice in a row.
func workersBlocked(need int) bool {
	for round := 0; round < 2; round++ {
		parked := 0
		var n int
		for {
			n = runtime.Stack(stackBuf, true)
			if n < len(stackBuf) {
				break
			}
			stackBuf = make([]byte, 2*len(stackBuf))
		}
		for _, blk := range bytes.Split(stackBuf[:n], []byte("\n\n")) {
			if !bytes.Contains(blk, []byte("signal.(*freePool).exec")) {
				continue
			}
			end := bytes.IndexByte(blk, '\n')
			if end < 0 {
				end = len(blk)
			}
			line := blk[:end]
			open := bytes.IndexByte(line, '[')
			if open < 0 || !bytes.HasSuffix(line, []byte("]:")) || !waitState(line[open+1:len(line)-2]) {
				return false
			}
			parked++
		}
		// every unfinished worker must be parked INSIDE its operation: one that has not been scheduled
		// yet (still spinning towards its operation on a loaded machine) is not blocked
		if parked < need {
			return false
		}
		time.Sleep(2 * time.Millisecond)
	}
	return true
}

// round runs one round; blocked = some worker did not finish although every worker that is not finished
// is parked for good.
func (p *freePool) round(jobs []freeJob) (blocked bool) {
	for i := range p.jobs {
		p.jobs[i] = freeJob{}
	}
	copy(p.jobs, jobs)
	for i := range p.res {
		p.res[i].res, p.res[i].ch, p.res[i].isCh, p.res[i].panicMsg = "", nil, false, ""
		p.res[i].done.Store(false)
	}
	p.finished.Store(0)
	p.gen.Add(1)
	start := time.Time{}
	for spins := 1; p.finished.Load() != int32(p.n); spins++ {
		if spins&255 == 0 {
			runtime.Gosched()
		}
		if spins&0xffff == 0 {
			if start.IsZero() {
				start = time.Now()
			} else if time.Since(start) > 300*time.Millisecond && workersBlocked(p.n-int(p.finished.Load())) {
				return true
			}
		}
	}
	return false
}

func freeDesc(kind string, jobs []freeJob) string {
	ps, ds := make([]string, len(jobs)), make([]string, len(jobs))
	for i, j := range jobs {
		ps[i], ds[i] = j.op, strconv.Itoa(j.delay)
	}
	return fmt.Sprintf("free-%s progs=%s offsets=%s sched=free-running", kind, strings.Join(ps, "|"), strings.Join(ds, "|"))
}

func freeRun(o *corr.Out) {
	drpcdebug.SetPointHook(nil)
	defer drpcdebug.SetPointHook(nil)
	maxW := 8
	if g := runtime.GOMAXPROCS(0) - 1; g < maxW {
		maxW = g
	}
	if maxW < 2 {
		o.Stat("free:skipped-single-cpu")
		return
	}
	for _, isChan := range []bool{true, false} {
		kind := "sig"
		rounds := 40000
		if isChan {
			kind, rounds = "chan", 40000
		}
		if o.Thorough {
			rounds *= 10
		}
		p := newFreePool(maxW, isChan)
		failures := 0
		for r := 0; r < rounds && failures < 5; r++ {
			n := 2 + o.Rand.Intn(maxW-1)
			jobs := make([]freeJob, n)
			if isChan {
				// at most one Close, no Send/Full (the single-closer contract); Recv only next to a Close
				closer := -1
				if o.Rand.Intn(3) != 0 {
					closer = o.Rand.Intn(n)
				}
				for i := range jobs {
					switch x := o.Rand.Intn(10); {
					case i == closer:
						jobs[i].op = "c"
					case x < 6:
						jobs[i].op = "g"
					case x < 8:
						jobs[i].op = "m1"
					case closer >= 0:
						jobs[i].op = "r"
					default:
						jobs[i].op = "g"
					}
				}
			} else {
				setter := -1
				if o.Rand.Intn(4) != 0 {
					setter = o.Rand.Intn(n)
				}
				for i := range jobs {
					switch x := o.Rand.Intn(12); {
					case i == setter:
						jobs[i].op = "s" + strconv.Itoa(1+i)
					case x < 2:
						jobs[i].op = "g"
					case x < 4:
						jobs[i].op = "G"
					case x < 6:
						jobs[i].op = "E"
					case x < 7:
						jobs[i].op = "I"
					case x < 8 && setter >= 0:
						jobs[i].op = "s0"
					case x < 10 && setter >= 0:
						jobs[i].op = "s" + strconv.Itoa(1+i)
					case setter >= 0:
						jobs[i].op = "w"
					default:
						jobs[i].op = "G"
					}
				}
			}
			for i := range jobs {
				if o.Rand.Intn(3) != 0 {
					jobs[i].delay = o.Rand.Intn(160)
				}
			}
			p.sig, p.ch = new(drpcsignal.Signal), new(drpcsignal.Chan)
			desc := freeDesc(kind, jobs)
			blocked := p.round(jobs)
			ok := true
			reported := map[string]bool{}
			bad := func(name, detail string) {
				ok = false
				if !reported[name] {
					reported[name] = true
					o.Oracle(name, desc, fmt.Sprintf("round %d: %s", r, detail))
				}
			}
			if isChan {
				freeChanOracles(o, p, jobs, blocked, bad)
			} else {
				freeSigOracles(o, p, jobs, blocked, bad)
			}
			o.Explore(desc, false)
			o.Stat("free-" + kind + ":rounds")
			o.Stat(fmt.Sprintf("free-%s:goroutines=%d", kind, n))
			if !ok {
				failures++
			}
			if blocked {
				// the pool has a worker that will never come back: unblock what can be unblocked, start afresh
				p.quit.Store(true)
				func() {
					defer func() { recover() }()
					if isChan {
						close(p.ch.Get())
					} else {
						p.sig.Set(tagErr{99})
					}
				}()
				p = newFreePool(maxW, isChan)
			}
		}
		p.quit.Store(true)
	}
}

func freeChanOracles(o *corr.Out, p *freePool, jobs []freeJob, blocked bool, bad func(name, detail string)) {
	var first chan struct{}
	closeReturned, hasClose, sawSentinel := false, false, false
	okU := true
	for i, j := range jobs {
		r := &p.res[i]
		if !r.done.Load() {
			continue
		}
		if r.panicMsg != "" {
			bad("chan-no-panic", fmt.Sprintf("panic with at most one Close and no Send/Full next to it: %s: %s", j.op, r.panicMsg))
			continue
		}
		switch j.op[0] {
		case 'c':
			closeReturned = true
		case 'g':
			switch {
			case r.ch == nil:
				okU = false
				bad("chan-get-not-nil", "Get() returned nil")
			case first == nil:
				first = r.ch
			case first != r.ch:
				okU = false
				bad("chan-unique", "two Get() calls returned different channels")
			}
			sawSentinel = sawSentinel || r.ch == sentinel
		}
	}
	for _, j := range jobs {
		hasClose = hasClose || j.op == "c"
	}
	if okU {
		o.OracleOK("chan-unique")
	}
	if blocked {
		var who []string
		for i, j := range jobs {
			if !p.res[i].done.Load() {
				who = append(who, j.op)
			}
		}
		if hasClose {
			bad("chan-no-lost-wakeup", "still blocked although the round contains a Close: "+strings.Join(who, ","))
		} else {
			bad("chan-no-block", "Get/Make only, and a goroutine is blocked: "+strings.Join(who, ","))
		}
		return
	}
	o.OracleOK("chan-no-panic")
	o.OracleOK("chan-no-lost-wakeup")
	if closeReturned && first != nil {
		if !probeClosed(first) {
			bad("close-then-get-closed", "a Close call returned and the channel returned by Get is open")
		} else {
			o.OracleOK("close-then-get-closed")
		}
	}
	if hasClose && first != nil {
		if sawSentinel {
			o.Stat("free-chan:close-was-first")
		} else {
			o.Stat("free-chan:close-was-not-first")
		}
	}
}

func freeSigOracles(o *corr.Out, p *freePool, jobs []freeJob, blocked bool, bad func(name, detail string)) {
	var winners []string
	sets := 0
	var first chan struct{}
	okU := true
	for i, j := range jobs {
		r := &p.res[i]
		if !r.done.Load() {
			continue
		}
		if r.panicMsg != "" {
			bad("no-panic", "a Signal operation panicked: "+j.op+": "+r.panicMsg)
			continue
		}
		switch j.op[0] {
		case 's':
			sets++
			if r.res == "t" {
				winners = append(winners, j.op)
			}
		case 'g':
			switch {
			case r.ch == nil:
				okU = false
				bad("channel-unique", "Signal() returned nil")
			case first == nil:
				first = r.ch
			case first != r.ch:
				okU = false
				bad("channel-unique", "two Signal() calls returned different channels")
			}
		}
	}
	if okU {
		o.OracleOK("channel-unique")
	}
	hasSet := false
	for _, j := range jobs {
		hasSet = hasSet || j.op[0] == 's'
	}
	if blocked {
		if hasSet {
			bad("no-lost-wakeup", "a goroutine is still blocked although the round contains a Set")
		} else {
			bad("no-hang-no-spin", "no Wait in the round and a goroutine is blocked")
		}
		return
	}
	o.OracleOK("no-panic")
	o.OracleOK("no-lost-wakeup")
	switch {
	case len(winners) > 1:
		bad("exactly-one-winner", fmt.Sprintf("%d Set calls returned true", len(winners)))
	case sets > 0 && len(winners) == 0:
		bad("exactly-one-winner", "Set calls completed and none returned true")
	default:
		o.OracleOK("exactly-one-winner")
	}
	if len(winners) == 1 {
		want := "e" + winners[0][1:]
		if winners[0][1:] == "0" {
			want = "nil"
		}
		ok := true
		seenBefore := 0
		for i, j := range jobs {
			r := &p.res[i]
			switch j.op[0] {
			case 'G':
				if strings.HasSuffix(r.res, "/t") && r.res != want+"/t" {
					ok = false
					bad("observers-see-winner", fmt.Sprintf("Get returned %s, the winning Set stored %s", r.res, want))
				}
				if strings.HasSuffix(r.res, "/f") {
					seenBefore++
					if r.res != "nil/f" {
						ok = false
						bad("observers-see-winner", "Get returned "+r.res)
					}
				}
			case 'E':
				if r.res != "nil" && r.res != want {
					ok = false
					bad("observers-see-winner", fmt.Sprintf("Err returned %s, the winning Set stored %s", r.res, want))
				}
			}
		}
		if ok {
			o.OracleOK("observers-see-winner")
		}
		if seenBefore > 0 {
			o.Stat("free-sig:observer-before-set")
		} else {
			o.Stat("free-sig:observers-after-set")
		}
		// the signal is set now: every later observer sees it
		if err, isSet := p.sig.Get(); !isSet || errName(err) != want || !p.sig.IsSet() {
			bad("set-is-monotone", fmt.Sprintf("after the round Get returns %s/%s, the winning Set stored %s", errName(err), tf(isSet), want))
		} else {
			o.OracleOK("set-is-monotone")
		}
	}
	if first != nil {
		if probeClosed(first) != (len(winners) == 1) {
			bad("closed-iff-set", fmt.Sprintf("channel closed=%v, winning Set calls=%d", probeClosed(first), len(winners)))
		} else {
			o.OracleOK("closed-iff-set")
		}
	}
}
