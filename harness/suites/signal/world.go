// Package signal: trace validation of drpcsignal.Signal and drpcsignal.Chan against the atomic-step
// models Drpc/Signal.lean and Drpc/Chan.lean, at the granularity of the scheduling points
// (drpcdebug.Point) inside setSlow / signalSlow / doSlow.
//
// A scenario is 2-3 goroutines with 1-3 operations each on ONE real Signal (or Chan).  Every goroutine
// parks in front of each operation ("op.start") and at every point of the Go code; the director releases
// exactly one goroutine at a time and waits for stop-the-world-verified quiescence (director.Settle)
// before it looks at anything.  One request line = the whole schedule; the answer = where every
// goroutine is after every release, every return value (channels by identity), which channels are
// closed at the end.  The same schedule is replayed on the model by check.py.
package signal

import (
	"fmt"
	"runtime"
	"strconv"
	"strings"
	"sync"
	"time"

	"storj.io/drpc/drpcdebug"
	"storj.io/drpc/drpcsignal"
	"verifharness/director"
)

type tagErr struct{ n int }

func (e tagErr) Error() string { return "e" + strconv.Itoa(e.n) }

func errName(err error) string {
	if err == nil {
		return "nil"
	}
	if te, ok := err.(tagErr); ok {
		return te.Error()
	}
	return "other:" + err.Error()
}

// the package-level pre-closed channel of drpcsignal, obtained through the public API
var sentinel = func() chan struct{} {
	var s drpcsignal.Signal
	s.Set(nil)
	return s.Signal()
}()

// opRec is one operation of one goroutine with what the harness observed about it.
type opRec struct {
	op       string
	started  int // index of the release that let it leave "op.start" (-1: not yet)
	ended    int // index of the release after which it was seen finished (-1: not yet)
	result   string
	ch       chan struct{} // for operations returning a channel
	isCh     bool
	panicked bool
	panicMsg string
}

type world struct {
	isChan bool
	d      *director.D
	hook   func(string)
	sig    *drpcsignal.Signal
	ch     *drpcsignal.Chan
	progs  [][]string

	mu   sync.Mutex
	ops  [][]*opRec
	done []int // number of finished operations per goroutine, as last observed by the director

	sched     []int
	trace     []string
	lastPoint []string // the point each goroutine was last released from
	failed    string
}

func gname(i int) string { return "g" + strconv.Itoa(i) }

func newWorld(isChan bool, progs [][]string) *world {
	w := &world{isChan: isChan, d: director.New(), progs: progs, sig: new(drpcsignal.Signal), ch: new(drpcsignal.Chan)}
	w.d.Timeout = 2 * time.Second
	w.hook = w.d.PointHook(nil)
	drpcdebug.SetPointHook(w.hook)
	w.ops = make([][]*opRec, len(progs))
	w.done = make([]int, len(progs))
	w.lastPoint = make([]string, len(progs))
	for i, p := range progs {
		for _, op := range p {
			w.ops[i] = append(w.ops[i], &opRec{op: op, started: -1, ended: -1})
		}
		i := i
		if len(p) == 0 {
			continue
		}
		w.d.Go(gname(i), func() string {
			for k := range w.progs[i] {
				w.hook("op.start")
				if w.run(i, k) {
					return "pan"
				}
			}
			return "end"
		})
	}
	w.settle()
	return w
}

// run executes operation k of goroutine i on the real object; true if it panicked.
func (w *world) run(i, k int) (panicked bool) {
	rec := w.ops[i][k]
	var res string
	var ch chan struct{}
	isCh := false
	defer func() {
		if r := recover(); r != nil {
			panicked = true
			w.mu.Lock()
			rec.panicked, rec.panicMsg, rec.result = true, fmt.Sprint(r), "panic"
			w.mu.Unlock()
			return
		}
		w.mu.Lock()
		rec.result, rec.ch, rec.isCh = res, ch, isCh
		w.mu.Unlock()
	}()
	op := rec.op
	if !w.isChan {
		s := w.sig
		switch op[0] {
		case 's':
			n, _ := strconv.Atoi(op[1:])
			var err error
			if n != 0 {
				err = tagErr{n}
			}
			res = tf(s.Set(err))
		case 'g':
			ch, isCh, res = s.Signal(), true, "ch"
		case 'w':
			s.Wait()
			res = "w"
		case 'G':
			err, ok := s.Get()
			res = errName(err) + "/" + tf(ok)
		case 'E':
			res = errName(s.Err())
		case 'I':
			res = tf(s.IsSet())
		}
		return
	}
	c := w.ch
	switch op[0] {
	case 'c':
		c.Close()
		res = "ok"
	case 'm':
		n, _ := strconv.Atoi(op[1:])
		c.Make(uint(n))
		res = "ok"
	case 'g':
		ch, isCh, res = c.Get(), true, "ch"
	case 's':
		c.Send()
		res = "ok"
	case 'r':
		c.Recv()
		res = "ok"
	case 'f':
		res = tf(c.Full())
	}
	return
}

func tf(b bool) string {
	if b {
		return "t"
	}
	return "f"
}

func (w *world) settle() {
	if err := quiesce(w.d.Timeout, true); err != nil && w.failed == "" {
		w.failed = err.Error()
	}
}

// settleAfter waits for quiescence after goroutine i has been released.  It first polls the director's
// own bookkeeping (parked at a point / returned) without stopping the world, then takes the
// stop-the-world snapshot(s).
func (w *world) settleAfter(i int) {
	atRest := false
	for n := 0; n < 300; n++ {
		if _, ok := w.d.Result(gname(i)); ok || w.d.ParkedAt(gname(i)) != "" {
			atRest = true
			break
		}
		runtime.Gosched()
	}
	if err := quiesce(w.d.Timeout, !atRest); err != nil && w.failed == "" {
		w.failed = err.Error()
	}
}

// settleFull is the director's own quiescence check (once per schedule, at its end).
func (w *world) settleFull() {
	if _, err := w.d.Settle(); err != nil && w.failed == "" {
		w.failed = err.Error()
	}
}

// status of goroutine i: the point it is parked at, "end", "pan" or "blk".
func (w *world) status(i int) string {
	if len(w.progs[i]) == 0 {
		return "end"
	}
	if res, ok := w.d.Result(gname(i)); ok {
		if strings.HasPrefix(res, "pan") {
			return "pan"
		}
		return "end"
	}
	if p := w.d.ParkedAt(gname(i)); p != "" {
		return p
	}
	return "blk"
}

func (w *world) statusLine() string {
	parts := make([]string, len(w.progs))
	for i := range w.progs {
		parts[i] = w.status(i)
	}
	return strings.Join(parts, "/")
}

// ---- the point table: which points are in front of mu.Lock(), which are inside the critical section

func isEnter(p string) bool {
	return p == "signal.setSlow.enter" || p == "signal.signalSlow.enter" || p == "chan.doSlow.enter"
}

func isInside(p string) bool {
	switch p {
	case "signal.setSlow.locked", "signal.setSlow.err", "signal.setSlow.ch", "signal.setSlow.stored", "signal.setSlow.unlock",
		"signal.signalSlow.locked", "signal.signalSlow.made", "signal.signalSlow.unlock",
		"chan.doSlow.locked", "chan.doSlow.init", "chan.doSlow.store":
		return true
	}
	return false
}

// allowed lists the goroutines the director may release now.  strict: never one that would block on
// the mutex.  Otherwise a goroutine may be sent into mu.Lock() while the mutex is held, as long as it
// is the only one waiting there (so that the hand-off is deterministic).
func (w *world) allowed(strict bool) []int {
	st := make([]string, len(w.progs))
	held, waiter := false, false
	for i := range w.progs {
		st[i] = w.status(i)
		if isInside(st[i]) {
			held = true
		}
		if st[i] == "blk" && isEnter(w.lastPoint[i]) {
			waiter = true
		}
	}
	var out []int
	for i, s := range st {
		if s == "end" || s == "pan" || s == "blk" {
			continue
		}
		if isEnter(s) && held && (strict || waiter) {
			continue
		}
		out = append(out, i)
	}
	return out
}

// release lets goroutine i run on from its point, waits for quiescence and records what it sees.
func (w *world) release(i int) {
	k := len(w.sched)
	p := w.d.ParkedAt(gname(i))
	w.lastPoint[i] = p
	if p == "op.start" {
		w.mu.Lock()
		w.ops[i][w.done[i]].started = k
		w.mu.Unlock()
	}
	w.sched = append(w.sched, i)
	w.d.ReleasePoint(gname(i))
	w.settleAfter(i)
	// which operations have finished by now
	w.mu.Lock()
	for j := range w.progs {
		for w.done[j] < len(w.ops[j]) && w.ops[j][w.done[j]].result != "" {
			w.ops[j][w.done[j]].ended = k
			w.done[j]++
		}
	}
	w.mu.Unlock()
	w.trace = append(w.trace, w.statusLine())
}

// probeClosed reports whether the channel is closed.  Go offers no test that does not receive, so items
// that are buffered (or offered by a blocked sender) are drained first; therefore this runs only when the
// schedule is over and the final statuses and results have been copied.
func probeClosed(ch chan struct{}) bool {
	if ch == nil {
		return false
	}
	for n := 0; n < 64; n++ {
		select {
		case _, ok := <-ch:
			if !ok {
				return true
			}
		default:
			return false
		}
	}
	return false
}

// snapshotOps copies the operation records (the goroutines keep writing to the originals).
func (w *world) snapshotOps() [][]opRec {
	w.mu.Lock()
	defer w.mu.Unlock()
	out := make([][]opRec, len(w.ops))
	for i := range w.ops {
		for _, r := range w.ops[i] {
			out[i] = append(out[i], *r)
		}
	}
	return out
}

// render produces the request and the answer in the model driver's format.
func (w *world) render(ops [][]opRec, closed map[chan struct{}]bool) (req, ans string) {
	cmd := "sig"
	if w.isChan {
		cmd = "chan"
	}
	ps := make([]string, len(w.progs))
	for i, p := range w.progs {
		ps[i] = strings.Join(p, ",")
		if len(p) == 0 {
			ps[i] = "-"
		}
	}
	var sb strings.Builder
	for _, g := range w.sched {
		sb.WriteByte(byte('0' + g))
	}
	sc := sb.String()
	if sc == "" {
		sc = "-"
	}
	req = fmt.Sprintf("%s progs=%s sched=%s", cmd, strings.Join(ps, "|"), sc)

	var names []chan struct{}
	nameOf := func(ch chan struct{}) string {
		if ch == nil {
			return "nil"
		}
		if ch == sentinel {
			return "sent"
		}
		for n, c := range names {
			if c == ch {
				return "c" + strconv.Itoa(n)
			}
		}
		names = append(names, ch)
		return "c" + strconv.Itoa(len(names)-1)
	}
	rs := make([]string, len(w.progs))
	for i := range w.progs {
		var parts []string
		for _, rec := range ops[i] {
			switch {
			case rec.result == "":
				// not finished
			case rec.isCh:
				parts = append(parts, "ch:"+nameOf(rec.ch))
			default:
				parts = append(parts, rec.result)
			}
		}
		rs[i] = strings.Join(parts, ",")
		if len(parts) == 0 {
			rs[i] = "-"
		}
	}
	var cs []string
	for n, c := range names {
		st := "open"
		if closed[c] {
			st = "closed"
		}
		cs = append(cs, fmt.Sprintf("c%d=%s", n, st))
	}
	tr, c := strings.Join(w.trace, ","), strings.Join(cs, ",")
	if tr == "" {
		tr = "-"
	}
	if c == "" {
		c = "-"
	}
	ans = fmt.Sprintf("%s R %s C %s", tr, strings.Join(rs, "|"), c)
	return
}

// cleanup unblocks whatever is still blocked or parked so that the goroutines of this world exit.
func (w *world) cleanup() {
	for round := 0; round < 40; round++ {
		progress := false
		for i := range w.progs {
			switch st := w.status(i); st {
			case "end", "pan":
			case "blk":
			default:
				w.d.ReleasePoint(gname(i))
				progress = true
			}
		}
		w.settle()
		if !progress {
			break
		}
	}
	blocked := false
	for i := range w.progs {
		if w.status(i) == "blk" {
			blocked = true
		}
	}
	if !blocked {
		return
	}
	done := make(chan struct{})
	go func() {
		defer close(done)
		defer func() { recover() }()
		if !w.isChan {
			w.sig.Set(tagErr{99})
			return
		}
		ch := w.ch.Get()
		for n := 0; n < 8; n++ {
			select {
			case ch <- struct{}{}:
			default:
			}
			select {
			case <-ch:
			default:
			}
		}
	}()
	select {
	case <-done:
	case <-time.After(200 * time.Millisecond):
	}
	for round := 0; round < 10; round++ {
		w.settle()
		progress := false
		for i := range w.progs {
			if st := w.status(i); st != "end" && st != "pan" && st != "blk" {
				w.d.ReleasePoint(gname(i))
				progress = true
			}
		}
		if !progress {
			break
		}
	}
}
