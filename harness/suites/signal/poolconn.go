package signal

import (
	"context"
	"fmt"

	"storj.io/drpc/drpcpool"
	"verifharness/corr"
)

// poolConnDoubleClose records (as a statistic, not as a violation) how the double-Close contract of
// drpcsignal.Chan surfaces through library code: drpcpool's poolConn.Close() is `p.done.Close()`, so a
// caller closing the pooled conn twice gets "close of closed channel" (Lean:
// Props.C19.chan_double_close_counterexample).  The library itself closes each Chan once.
func poolConnDoubleClose(o *corr.Out) {
	pool := drpcpool.New[string, drpcpool.Conn](drpcpool.Options{})
	conn := pool.Get(context.Background(), "k", func(ctx context.Context, key string) (drpcpool.Conn, error) {
		return nil, fmt.Errorf("never dialled")
	})
	first := corr.Catch(func() string { _ = conn.Close(); return "ok" })
	second := corr.Catch(func() string { _ = conn.Close(); return "ok" })
	o.Stat(fmt.Sprintf("chan:poolconn-close-twice:first=%s,second=%s", first, second))
}
