package signal

import (
	"bytes"
	"fmt"
	"runtime"
	"time"
)

// quiesce is director.Settle with a reused buffer (director.Snapshot allocates 1 MiB per call, which
// costs ~0.6 ms; a schedule here has dozens of releases): it waits until ONE stop-the-world
// runtime.Stack(all) snapshot shows every goroutine other than the caller in a wait state that only
// another goroutine can end (channel, select, mutex, cond, waitgroup), and confirms it with a second,
// identical snapshot after yielding.  director.Settle itself is still called once per schedule (at the
// end) as the authoritative check.

var stackBuf = make([]byte, 1<<18)

func waitState(state []byte) bool {
	if i := bytes.IndexByte(state, ','); i >= 0 { // "chan receive, 2 minutes", "…, locked to thread"
		state = state[:i]
	}
	switch string(state) {
	case "chan receive", "chan send", "select", "sync.Mutex.Lock", "sync.Cond.Wait", "sync.WaitGroup.Wait",
		"sync.RWMutex.RLock", "sync.RWMutex.Lock", "chan receive (nil chan)", "chan send (nil chan)", "select (no cases)":
		return true
	}
	return false
}

// snapshot returns a signature of all goroutine states and the first goroutine (other than the first
// one listed, which is the caller) that is not in a wait state.
func snapshot() (sig []byte, busy string) {
	var n int
	for {
		n = runtime.Stack(stackBuf, true)
		if n < len(stackBuf) {
			break
		}
		stackBuf = make([]byte, 2*len(stackBuf))
	}
	buf := stackBuf[:n]
	first := true
	for len(buf) > 0 {
		// header line: goroutine N [state]:
		end := bytes.IndexByte(buf, '\n')
		if end < 0 {
			end = len(buf)
		}
		line := buf[:end]
		if bytes.HasPrefix(line, []byte("goroutine ")) && bytes.HasSuffix(line, []byte("]:")) {
			if first {
				first = false // runtime.Stack lists the calling goroutine first
			} else {
				open := bytes.IndexByte(line, '[')
				state := line[open+1 : len(line)-2]
				sig = append(sig, line...)
				sig = append(sig, ';')
				if !waitState(state) && busy == "" {
					busy = string(line)
				}
			}
		}
		// skip to the next block
		next := bytes.Index(buf, []byte("\n\n"))
		if next < 0 {
			break
		}
		buf = buf[next+2:]
	}
	return sig, busy
}

// quiesce waits for quiescence.  confirm = false: the caller already knows from the director's
// bookkeeping that the goroutine it released has parked or returned, one clean snapshot is enough.
func quiesce(timeout time.Duration, confirm bool) error {
	deadline := time.Now().Add(timeout)
	spins := 0
	for {
		sig, busy := snapshot()
		if busy == "" {
			if !confirm {
				return nil
			}
			keep := append([]byte(nil), sig...)
			runtime.Gosched()
			sig2, busy2 := snapshot()
			if busy2 == "" && bytes.Equal(keep, sig2) {
				return nil
			}
			continue
		}
		if time.Now().After(deadline) {
			return fmt.Errorf("not quiescent after %v: %s", timeout, busy)
		}
		spins++
		if spins < 50 {
			runtime.Gosched()
		} else {
			time.Sleep(20 * time.Microsecond)
		}
	}
}
