// Package stream: trace validation of drpcstream.Stream against the atomic-step model
// (Drpc/Stream/Conc.lean), at quiescent points: every API call runs on its own goroutine, every
// transport write parks until the director releases it, and after every director action the
// process is run to quiescence (director.Settle) and the observation is compared with the
// model's `settle`: results of the calls that returned, the set still pending, the parked
// transport write, the writes completed, Terminated / Finished / Context().Done().
package stream

import (
	"context"
	"encoding/binary"
	"errors"
	"fmt"
	"io"
	"sort"
	"strconv"
	"strings"
	"sync"

	"storj.io/drpc"
	"storj.io/drpc/drpcerr"
	"storj.io/drpc/drpcstream"
	"storj.io/drpc/drpcwire"
	"verifharness/corr"
	"verifharness/director"
)

type TagErr struct {
	Kind string
	Tag  int
}

func (e TagErr) Error() string { return fmt.Sprintf("%s error %d", e.Kind, e.Tag) }

// Enc is a pass-through encoding over *[]byte / []byte whose Unmarshal can park.
type Enc struct {
	Park  chan chan struct{} // when non-nil, Unmarshal announces itself here and waits
	Fail  bool               // Unmarshal returns an error
	MPark chan chan struct{} // when non-nil, Marshal announces itself here and waits
	MFail bool               // Marshal returns an error
}

func (e *Enc) Marshal(msg drpc.Message) ([]byte, error) {
	if e.MPark != nil {
		rel := make(chan struct{})
		e.MPark <- rel
		<-rel
	}
	if e.MFail {
		return nil, TagErr{"marshal", 0}
	}
	switch m := msg.(type) {
	case []byte:
		return m, nil
	case *[]byte:
		return *m, nil
	}
	return nil, errors.New("bad message type")
}

func (e *Enc) Unmarshal(buf []byte, msg drpc.Message) error {
	if e.Park != nil {
		rel := make(chan struct{})
		e.Park <- rel
		<-rel
	}
	if e.Fail {
		return TagErr{"unmarshal", 0}
	}
	p, ok := msg.(*[]byte)
	if !ok {
		return errors.New("bad message type")
	}
	*p = append((*p)[:0], buf...)
	return nil
}

// ErrName canonicalises an error returned by a Stream method.
func ErrName(err error) string {
	var te TagErr
	switch {
	case err == nil:
		return "nil"
	case errors.As(err, &te):
		if te.Kind == "unmarshal" {
			return "unmarshal"
		}
		return te.Kind + ":" + strconv.Itoa(te.Tag)
	case errors.Is(err, io.EOF):
		return "eof"
	case errors.Is(err, context.Canceled):
		return "canceled"
	case errors.Is(err, context.DeadlineExceeded):
		return "deadline"
	}
	msg := err.Error()
	switch {
	case drpc.ProtocolError.Has(err) && strings.Contains(msg, "invoke on existing stream"):
		return "invokeOnExisting"
	case drpc.InternalError.Has(err) && strings.Contains(msg, "unknown packet kind"):
		k := msg[strings.LastIndex(msg, ": ")+2:]
		return "unknownKind:" + kindNum(k)
	case drpc.ClosedError.Has(err) && strings.Contains(msg, "remote closed the stream"):
		return "remoteClosed"
	case drpc.Error.Has(err) && strings.HasSuffix(msg, "send closed"):
		return "sendClosed"
	case drpc.Error.Has(err) && strings.HasSuffix(msg, "stream terminated by sending error"):
		return "termError"
	case drpc.Error.Has(err) && strings.HasSuffix(msg, "stream terminated by sending close"):
		return "termClosed"
	case drpc.Error.Has(err) && strings.HasSuffix(msg, "stream terminated by both issuing close send"):
		return "termBothClosed"
	}
	return "other:" + msg
}

func kindNum(s string) string {
	names := map[string]int{"Invoke": 1, "Message": 2, "Error": 3, "Cancel": 4, "Close": 5, "CloseSend": 6, "InvokeMetadata": 7}
	if n, ok := names[s]; ok {
		return strconv.Itoa(n)
	}
	s = strings.TrimPrefix(s, "Kind(")
	s = strings.TrimSuffix(s, ")")
	return s
}

// Remote errors are identified by their wire payload: the harness remembers what it injected.
type remoteTable map[string]string // "code|msg" -> hex payload

func (rt remoteTable) name(err error) (string, bool) {
	key := fmt.Sprintf("%d|%s", drpcerr.Code(err), err.Error())
	h, ok := rt[key]
	return "remote:" + h, ok
}

func (rt remoteTable) add(payload []byte) {
	if len(payload) >= 8 {
		rt[fmt.Sprintf("%d|%s", binary.BigEndian.Uint64(payload[:8]), payload[8:])] = corr.Hex(payload)
	} else {
		rt[fmt.Sprintf("0|%s (drpcwire note: invalid error data)", payload)] = corr.Hex(payload)
	}
}

// World is one stream under the director.
type World struct {
	D       *director.D
	W       *director.Writer
	S       *drpcstream.Stream
	Enc     *Enc
	parked  map[int]chan struct{} // tid -> release channel of a parked Unmarshal
	mparked map[int]chan struct{} // tid -> release channel of a parked Marshal
	remotes remoteTable
	issued  []int
	kinds   map[int]string
	pktBuf  []byte // the reader's reusable packet buffer
	seen    map[int]bool
	wireN   int
	log     []string
	Failed  string
	lateMu  sync.Mutex
	Late    []string // transport writes that started when the stream had already reported Finished
}

func NewWorld(split int, manual bool, wsize int, maxbuf ...int) *World {
	w := &World{D: director.New(), W: &director.Writer{AutoOK: true}, parked: map[int]chan struct{}{}, mparked: map[int]chan struct{}{}, remotes: remoteTable{}, seen: map[int]bool{}, kinds: map[int]string{}}
	w.Enc = &Enc{}
	wr := drpcwire.NewWriter(w.W, wsize)
	w.S = drpcstream.NewWithOptions(context.Background(), 1, wr, drpcstream.Options{SplitSize: split, ManualFlush: manual, MaximumBufferSize: append(maxbuf, 0)[0]})
	w.W.OnWrite = func(p []byte) {
		if w.S.IsFinished() {
			w.lateMu.Lock()
			w.Late = append(w.Late, corr.Hex(p))
			w.lateMu.Unlock()
		}
	}
	return w
}

func (w *World) retName(err error) string {
	if err != nil {
		if n, ok := w.remotes.name(err); ok {
			return n
		}
	}
	return ErrName(err)
}

// Do performs one director action (same syntax as the model driver) and returns the observation.
func (w *World) Do(act string) string {
	f := strings.Split(act, "!")
	switch f[0] {
	case "i":
		tid, _ := strconv.Atoi(f[1])
		w.issued = append(w.issued, tid)
		w.issue(tid, f[2])
	case "w":
		if f[1] == "ok" {
			w.W.Release(nil)
		} else {
			tag, _ := strconv.Atoi(f[1])
			w.W.Release(TagErr{"transport", tag})
		}
	case "u":
		tid, _ := strconv.Atoi(f[1])
		if ch := w.parked[tid]; ch != nil {
			delete(w.parked, tid)
			close(ch)
		}
	case "m":
		tid, _ := strconv.Atoi(f[1])
		if ch := w.mparked[tid]; ch != nil {
			delete(w.mparked, tid)
			close(ch)
		}
	case "auto":
		w.W.SetAuto(f[1] == "1")
	}
	return w.observe()
}

func unhex(s string) []byte {
	if s == "-" {
		return nil
	}
	b := make([]byte, len(s)/2)
	for i := range b {
		v, _ := strconv.ParseUint(s[2*i:2*i+2], 16, 8)
		b[i] = byte(v)
	}
	return b
}

func (w *World) issue(tid int, call string) {
	f := strings.Split(call, ":")
	name := strconv.Itoa(tid)
	s := w.S
	switch f[0] {
	case "send":
		d := unhex(f[1])
		w.D.Go(name, func() string { return w.retName(s.MsgSend(d, w.Enc)) })
	case "sendp":
		d := unhex(f[1])
		enc := &Enc{MPark: make(chan chan struct{}, 1)}
		go func(e *Enc) {
			rel, ok := <-e.MPark
			if ok {
				w.D.Lock()
				w.mparked[tid] = rel
				w.D.Unlock()
			}
		}(enc)
		w.D.Go(name, func() string { return w.retName(s.MsgSend(d, enc)) })
	case "raw":
		k, _ := strconv.Atoi(f[1])
		d := unhex(f[2])
		w.D.Go(name, func() string { return w.retName(s.RawWrite(drpcwire.Kind(k), d)) })
	case "flush":
		w.D.Go(name, func() string { return w.retName(s.RawFlush()) })
	case "recv", "recvp", "recvf", "recvpf":
		enc := w.Enc
		if f[0] == "recvf" {
			enc = &Enc{Fail: true}
		}
		if f[0] == "recvp" || f[0] == "recvpf" {
			enc = &Enc{Park: make(chan chan struct{}, 1), Fail: f[0] == "recvpf"}
			go func(e *Enc) { // remember the release channel once the Unmarshal has parked
				rel, ok := <-e.Park
				if ok {
					w.D.Lock()
					w.parked[tid] = rel
					w.D.Unlock()
				}
			}(enc)
		}
		w.D.Go(name, func() string {
			var out []byte
			if err := s.MsgRecv(&out, enc); err != nil {
				return w.retName(err)
			}
			return "data:" + corr.Hex(out)
		})
	case "close":
		w.D.Go(name, func() string { return w.retName(s.Close()) })
	case "senderr":
		p := unhex(f[1])
		// SendError(serr) marshals code+message: choose serr so that MarshalError(serr) == p
		var serr error
		if len(p) >= 8 {
			serr = drpcerr.WithCode(errors.New(string(p[8:])), binary.BigEndian.Uint64(p[:8]))
		} else {
			serr = errors.New("")
		}
		w.D.Go(name, func() string { return w.retName(s.SendError(serr)) })
	case "closesend":
		w.D.Go(name, func() string { return w.retName(s.CloseSend()) })
	case "sendcancel":
		tag, _ := strconv.Atoi(f[1])
		w.D.Go(name, func() string {
			busy, err := s.SendCancel(TagErr{"ctx", tag})
			if busy {
				return "busy"
			}
			return w.retName(err)
		})
	case "cancel":
		tag, _ := strconv.Atoi(f[1])
		w.D.Go(name, func() string { return strconv.FormatBool(s.Cancel(TagErr{"ctx", tag})) })
	case "pkt":
		k, _ := strconv.Atoi(f[1])
		sid := uint64(1)
		if f[3] != "1" {
			sid = 2
		}
		d := unhex(f[4])
		if k == 3 {
			w.remotes.add(d)
		}
		// like the manager's reader, hand the stream a buffer that is reused for the next packet
		w.pktBuf = append(w.pktBuf[:0], d...)
		d = w.pktBuf
		pkt := drpcwire.Packet{Data: d, ID: drpcwire.ID{Stream: sid, Message: 1}, Kind: drpcwire.Kind(k), Control: f[2] == "1"}
		w.D.Go(name, func() string { return w.retName(s.HandlePacket(pkt)) })
	}
}

// remember records the class of a call for the generator's pending-set rules.
func (w *World) remember(tid int, call string) {
	cls := strings.SplitN(call, ":", 2)[0]
	if strings.HasPrefix(cls, "recv") {
		cls = "recv"
	}
	if cls == "sendp" {
		cls = "send"
	}
	if cls == "pkt" {
		if strings.HasPrefix(call, "pkt:2:") {
			cls = "pktmsg"
		} else {
			cls = "pktctl"
		}
	}
	w.kinds[tid] = cls
}

func closed(ch <-chan struct{}) bool {
	select {
	case <-ch:
		return true
	default:
		return false
	}
}

func (w *World) observe() string {
	if _, err := w.D.Settle(); err != nil {
		w.Failed = err.Error()
	}
	var done []string
	var pend []string
	for _, tid := range w.issued {
		name := strconv.Itoa(tid)
		res, ok := w.D.Result(name)
		if ok {
			if !w.seen[tid] {
				w.seen[tid] = true
				done = append(done, name+"="+res)
			}
		} else {
			pend = append(pend, name)
		}
	}
	parked := "-"
	if p := w.W.Parked(); len(p) > 0 {
		parked = corr.Hex(p[0])
		if len(p) > 1 {
			parked += "+OVERLAP"
		}
	}
	wire := "-"
	w.D.Lock()
	dn := w.W.DoneCopy()
	w.D.Unlock()
	if len(dn) > w.wireN {
		var parts []string
		for _, b := range dn[w.wireN:] {
			parts = append(parts, corr.Hex(b))
		}
		wire = strings.Join(parts, ",")
		w.wireN = len(dn)
	}
	ctxDone := closed(w.S.Context().Done())
	return fmt.Sprintf("[d=%s p=%s k=%s w=%s T%sF%sC%s]", strings.Join(done, ","), strings.Join(pend, ","), parked, wire,
		corr.B01(w.S.IsTerminated()), corr.B01(w.S.IsFinished()), corr.B01(ctxDone))
}

// Cleanup releases everything that is still parked so that the goroutines of this world exit.
func (w *World) Cleanup() {
	w.W.SetAuto(true)
	w.D.Go("cleanup-cancel", func() string { w.S.Cancel(TagErr{"ctx", 99}); return "" })
	for round := 0; round < 60; round++ {
		w.D.Settle()
		progress := w.W.Release(TagErr{"transport", 99})
		w.D.Lock()
		var chans []chan struct{}
		for tid, ch := range w.parked {
			delete(w.parked, tid)
			chans = append(chans, ch)
		}
		for tid, ch := range w.mparked {
			delete(w.mparked, tid)
			chans = append(chans, ch)
		}
		w.D.Unlock()
		for _, ch := range chans {
			close(ch)
			progress = true
		}
		if !progress {
			break
		}
	}
	w.D.Settle()
	if p := w.D.Pending(); len(p) > 0 {
		sort.Strings(p)
		w.Failed += " leftover pending ops after cleanup: " + strings.Join(p, ",")
	}
}
