package stream

import (
	"fmt"
	"strconv"
	"strings"
	"time"

	"storj.io/drpc/drpcwire"
	"verifharness/corr"
	"verifharness/suites/wire"
)

type scenario struct {
	split  int
	manual bool
	wsize  int
	maxbuf int // drpcstream.Options.MaximumBufferSize (no observable effect: the model ignores it)
	acts   []string
	obs    []string
}

func (sc *scenario) request() string {
	return fmt.Sprintf("stream split=%d manual=%s wsize=%d maxbuf=%d ops=%s", sc.split, corr.B01(sc.manual), sc.wsize, sc.maxbuf, strings.Join(sc.acts, ";"))
}

type status struct {
	pendingKinds map[int]string // tid -> call kind
	parkedUn     map[int]bool
}

func field(obs, key string) string {
	i := strings.Index(obs, key)
	if i < 0 {
		return ""
	}
	rest := obs[i+len(key):]
	if j := strings.IndexAny(rest, " ]"); j >= 0 {
		return rest[:j]
	}
	return rest
}

func callClass(call string) string { return strings.SplitN(call, ":", 2)[0] }

func usesWrite(k string) bool {
	switch k {
	case "send", "raw", "flush", "recv", "close", "senderr", "closesend":
		return true
	}
	return false
}

func usesMu(k string) bool {
	switch k {
	case "close", "senderr", "closesend", "cancel", "pktctl":
		return true
	}
	return false
}

func payload(o *corr.Out, n int) string {
	b := make([]byte, n)
	o.Rand.Read(b)
	return corr.Hex(b)
}

func randCall(o *corr.Out, sc *scenario) string {
	r := o.Rand
	sizes := []int{0, 1, 3, 5, 9, 20}
	switch r.Intn(16) {
	case 0, 1, 2:
		return "send:" + payload(o, sizes[r.Intn(len(sizes))])
	case 3:
		return fmt.Sprintf("raw:%d:%s", []int{1, 3, 7, 7, 9}[r.Intn(5)], payload(o, sizes[r.Intn(len(sizes))]))
	case 4:
		return "flush"
	case 5, 6:
		if r.Intn(6) == 0 {
			return "recvf"
		}
		return "recv"
	case 7:
		return "close"
	case 8:
		n := []int{8, 9, 12, 20}[r.Intn(4)]
		return "senderr:" + payload(o, n)
	case 9:
		return "closesend"
	case 10:
		return fmt.Sprintf("sendcancel:%d", 1+r.Intn(3))
	case 11:
		return fmt.Sprintf("cancel:%d", 1+r.Intn(3))
	case 12, 13:
		return "pkt:2:0:1:" + payload(o, 1+r.Intn(4))
	default:
		kinds := []int{1, 3, 4, 5, 6, 6, 7, 9, 63, 0}
		k := kinds[r.Intn(len(kinds))]
		ctl := r.Intn(3) == 0
		same := r.Intn(8) != 0
		n := 0
		if k == 3 {
			n = []int{0, 5, 8, 11}[r.Intn(4)]
		}
		return fmt.Sprintf("pkt:%d:%s:%s:%s", k, corr.B01(ctl), corr.B01(same), payload(o, n))
	}
}

// runScenario executes the actions online on a fresh world; `next` chooses the following action
// given the world (nil = stop).
func runScenario(sc *scenario, next func(w *World, step int) string) *World {
	w := NewWorld(sc.split, sc.manual, sc.wsize, sc.maxbuf)
	for step := 0; step < 40; step++ {
		a := next(w, step)
		if a == "" {
			break
		}
		sc.acts = append(sc.acts, a)
		sc.obs = append(sc.obs, w.Do(a))
		if w.Failed != "" {
			break
		}
	}
	return w
}

func (w *World) pendingClasses() map[string]int {
	m := map[string]int{}
	for _, tid := range w.issued {
		if _, ok := w.D.Result(fmt.Sprint(tid)); !ok {
			m[w.kinds[tid]]++
		}
	}
	return m
}

func oracles(o *corr.Out, sc *scenario, w *World) {
	// (1) every completed transport write is a sequence of whole frames; over the whole run ids are
	// non-decreasing, one kind per id, nothing after the done frame of an id (C07 on one stream)
	var lastS, lastM uint64
	var lastKind drpcwire.Kind
	lastDone := true
	bad := ""
	for _, wr := range w.W.DoneCopy() {
		rem := wr
		for len(rem) > 0 {
			r := wire.RefDecode(rem)
			if r.State() != "ok" {
				bad = "transport write is not a sequence of whole frames: " + corr.Hex(wr)
				break
			}
			fr := r.Frame()
			rem = rem[len(rem)-r.Rem():]
			id := fr.ID
			switch {
			case id.Stream < lastS || (id.Stream == lastS && id.Message < lastM):
				bad = fmt.Sprintf("ids go backwards: (%d,%d) after (%d,%d)", id.Stream, id.Message, lastS, lastM)
			case id.Stream == lastS && id.Message == lastM && lastDone:
				bad = fmt.Sprintf("frame after the done frame of (%d,%d)", lastS, lastM)
			case id.Stream == lastS && id.Message == lastM && fr.Kind != lastKind:
				bad = fmt.Sprintf("kind change within (%d,%d)", lastS, lastM)
			}
			lastS, lastM, lastKind, lastDone = id.Stream, id.Message, fr.Kind, fr.Done
		}
	}
	if w.W.Max > 1 {
		bad = "two transport writes in flight at once"
	}
	if bad != "" {
		o.Oracle("wire-wellformed", sc.request(), bad)
	} else {
		o.OracleOK("wire-wellformed")
	}
	// (1b) C01: with automatic flushing, a MsgSend that returned nil has put its whole message into
	// completed transport writes by the time it returns (no further call is needed)
	if !sc.manual {
		sends, onWire := 0, 0
		okSend := map[string]bool{}
		for _, a := range sc.acts {
			if f := strings.Split(a, "!"); len(f) == 3 && f[0] == "i" && (strings.HasPrefix(f[2], "send:") || strings.HasPrefix(f[2], "sendp:")) {
				okSend[f[1]] = true
			}
		}
		for i, ob := range sc.obs {
			for _, kv := range strings.Split(field(ob, "d="), ",") {
				p := strings.SplitN(kv, "=", 2)
				if len(p) == 2 && okSend[p[0]] && p[1] == "nil" {
					sends++
				}
			}
			if wv := field(ob, "w="); wv != "-" && wv != "" {
				for _, hx := range strings.Split(wv, ",") {
					rem := unhex(hx)
					for len(rem) > 0 {
						r := wire.RefDecode(rem)
						if r.State() != "ok" {
							break
						}
						fr := r.Frame()
						rem = rem[len(rem)-r.Rem():]
						if fr.Kind == drpcwire.KindMessage && fr.Done {
							onWire++
						}
					}
				}
			}
			if onWire < sends {
				o.Oracle("C01:send-reaches-wire", sc.request(), fmt.Sprintf("step %d: %d sends have returned nil but only %d complete messages are in completed transport writes: %s", i, sends, onWire, ob))
				break
			}
		}
		o.OracleOK("C01:send-reaches-wire")
	}
	// (1b') C01: every message on the wire carries a payload some send of this history was given,
	// each send at most once (nothing altered, duplicated or invented on the sending side)
	{
		var issued []string
		for _, a := range sc.acts {
			if f := strings.Split(a, "!"); len(f) == 3 && f[0] == "i" {
				if strings.HasPrefix(f[2], "send:") {
					issued = append(issued, strings.TrimPrefix(f[2], "send:"))
				} else if strings.HasPrefix(f[2], "sendp:") {
					issued = append(issued, strings.TrimPrefix(f[2], "sendp:"))
				}
			}
		}
		var cur []byte
		var curID drpcwire.ID
		curActive := false
		bad := ""
		for _, ob := range sc.obs {
			wv := field(ob, "w=")
			if wv == "-" || wv == "" {
				continue
			}
			for _, hx := range strings.Split(wv, ",") {
				rem := unhex(hx)
				for len(rem) > 0 {
					r := wire.RefDecode(rem)
					if r.State() != "ok" {
						break
					}
					fr := r.Frame()
					rem = rem[len(rem)-r.Rem():]
					if fr.Kind != drpcwire.KindMessage {
						curActive = false
						continue
					}
					// frames of one message share an id; a message that was cut short (its writer failed or
					// was cancelled mid-way) is abandoned when a frame with another id follows, as in the reader
					if !curActive || fr.ID != curID {
						cur, curActive, curID = nil, true, fr.ID
					}
					cur = append(cur, fr.Data...)
					if fr.Done {
						got := corr.Hex(cur)
						found := -1
						for k, p := range issued {
							if p == got || (p == "-" && got == "") || (p == "" && got == "-") {
								found = k
								break
							}
						}
						if found < 0 {
							bad = fmt.Sprintf("a message with payload %s is on the wire; no (remaining) send was given that payload", got)
						} else {
							issued = append(issued[:found], issued[found+1:]...)
						}
						curActive = false
					}
				}
			}
		}
		if bad != "" {
			o.Oracle("C01:wire-payload-was-sent", sc.request(), bad)
		} else {
			o.OracleOK("C01:wire-payload-was-sent")
		}
	}
	// (1c) C05: a transport write that failed is reported by the call it belonged to
	for i, a := range sc.acts {
		if strings.HasPrefix(a, "w!") && a != "w!ok" {
			sawErr := false
			for _, kv := range strings.Split(field(sc.obs[i], "d="), ",") {
				p := strings.SplitN(kv, "=", 2)
				if len(p) == 2 && p[1] != "nil" && !strings.HasPrefix(p[1], "data:") {
					sawErr = true
				}
			}
			if !sawErr {
				o.Oracle("C05:failed-write-reported", sc.request(), fmt.Sprintf("step %d: the parked transport write failed but no call returned an error: %s", i, sc.obs[i]))
			} else {
				o.OracleOK("C05:failed-write-reported")
			}
		}
	}
	// (1c') C07: a finished stream hands nothing more to the transport (theorem finished_emits_nothing)
	w.lateMu.Lock()
	if len(w.Late) > 0 {
		o.Oracle("C07:no-write-after-finished", sc.request(), fmt.Sprintf("transport Write(%s) started after Finished() was closed", strings.Join(w.Late, ",")))
	} else {
		o.OracleOK("C07:no-write-after-finished")
	}
	w.lateMu.Unlock()
	// (1d) C01: what MsgRecv returns are the message payloads that were delivered, unaltered and in order
	{
		var payloads, got []string
		for _, a := range sc.acts {
			if f := strings.Split(a, "!"); len(f) == 3 && f[0] == "i" && strings.HasPrefix(f[2], "pkt:2:") {
				pf := strings.Split(f[2], ":")
				if pf[3] == "1" {
					payloads = append(payloads, pf[4])
				}
			}
		}
		for _, ob := range sc.obs {
			for _, kv := range strings.Split(field(ob, "d="), ",") {
				p := strings.SplitN(kv, "=", 2)
				if len(p) == 2 && strings.HasPrefix(p[1], "data:") {
					got = append(got, p[1][5:])
				} else if len(p) == 2 && p[1] == "unmarshal" {
					got = append(got, "?") // a receive whose Unmarshal failed has consumed a message all the same
				}
			}
		}
		// successful receives return the delivered payloads in order and WITHOUT GAPS: a delivered
		// message is lost only by termination, after which no receive succeeds
		bad := ""
		for k, g := range got {
			if k >= len(payloads) || (g != "?" && payloads[k] != g) {
				bad = fmt.Sprintf("receive %d returned %s, which is not delivered payload %d (delivered: %v, received: %v)", k+1, g, k+1, payloads, got)
				break
			}
		}
		if bad != "" {
			o.Oracle("C01:recv-data-intact", sc.request(), bad)
		} else {
			o.OracleOK("C01:recv-data-intact")
		}
	}
	// (2) per-step flags: ctx done iff finished; finished implies terminated; once set they stay set
	pT, pF := false, false
	for i, ob := range sc.obs {
		j := strings.LastIndex(ob, " T")
		fl := ob[j+1 : len(ob)-1]
		T, F, C := fl[1] == '1', fl[3] == '1', fl[5] == '1'
		pendingEmpty := strings.Contains(ob, " p= ")
		switch {
		case F != C:
			o.Oracle("ctx-done-iff-finished", sc.request(), fmt.Sprintf("step %d: %s", i, ob))
		case F && !T, pT && !T, pF && !F:
			o.Oracle("flags-monotone", sc.request(), fmt.Sprintf("step %d: %s", i, ob))
		case T && pendingEmpty && !F:
			o.Oracle("finished-when-terminated-and-idle", sc.request(), fmt.Sprintf("step %d: %s", i, ob))
		default:
			o.OracleOK("flags")
		}
		pT, pF = T, F
	}
	// (3) calls issued when the stream was already terminated: terminal calls return nil and nothing is emitted
	term := false
	for i, a := range sc.acts {
		ob := sc.obs[i]
		if term && strings.HasPrefix(a, "i!") && strings.Contains(ob, " p= ") && i > 0 && strings.Contains(sc.obs[i-1], " p= ") {
			call := strings.SplitN(a, "!", 3)[2]
			cls := callClass(call)
			emitted := !strings.Contains(ob, " k=- w=- ")
			if emitted {
				o.Oracle("silent-after-termination", sc.request(), fmt.Sprintf("step %d %s: %s", i, a, ob))
			} else {
				o.OracleOK("silent-after-termination")
			}
			if cls == "close" || cls == "senderr" || cls == "closesend" || cls == "sendcancel" {
				if !strings.Contains(ob, "=nil ") {
					o.Oracle("terminal-idempotent", sc.request(), fmt.Sprintf("step %d %s: %s", i, a, ob))
				} else {
					o.OracleOK("terminal-idempotent")
				}
			}
		}
		if strings.Contains(ob, " T1") {
			term = true
		}
	}
}

func Run(o *corr.Out) {
	emit := func(sc *scenario, w *World, class string) {
		w.Cleanup()
		if w.Failed != "" {
			o.Oracle("no-hang-no-leak", sc.request(), w.Failed)
		} else {
			o.OracleOK("no-hang-no-leak")
		}
		oracles(o, sc, w)
		changes := 0
		for i := 1; i < len(sc.obs); i++ {
			if sc.obs[i][strings.LastIndex(sc.obs[i], " T"):] != sc.obs[i-1][strings.LastIndex(sc.obs[i-1], " T"):] {
				changes++
			}
		}
		o.Stat(fmt.Sprintf("%s:len%d", class, min(len(sc.acts)/4*4, 20)))
		o.Case(sc.request(), strings.Join(sc.obs, " "), len(sc.acts) >= 2 && changes >= 1)
	}
	cfgs := []struct {
		split  int
		manual bool
		wsize  int
	}{{0, false, 0}, {4, false, 0}, {4, false, 16}, {0, true, 0}, {3, true, 24}, {-1, false, 1}, {1, false, 0}}

	// (A) sequential histories, transport completes at once
	nSeq := 400
	if o.Thorough {
		nSeq = 8000
	}
	for i := 0; i < nSeq; i++ {
		c := cfgs[o.Rand.Intn(len(cfgs))]
		sc := &scenario{split: c.split, manual: c.manual, wsize: c.wsize, maxbuf: []int{0, 0, 3, 12}[o.Rand.Intn(4)]}
		n := 2 + o.Rand.Intn(9)
		tid := 0
		w := runScenario(sc, func(w *World, step int) string {
			if step >= n {
				return ""
			}
			for try := 0; try < 20; try++ {
				call := randCall(o, sc)
				cls := callClass(call)
				if strings.HasPrefix(cls, "recv") {
					cls = "recv"
				}
				pc := w.pendingClasses()
				// one reader goroutine: no packet is handed over while HandlePacket of the previous one has not returned
				if (cls == "recv" && pc["recv"] >= 1) || (strings.HasPrefix(call, "pkt:") && pc["pktmsg"]+pc["pktctl"] >= 1) {
					continue
				}
				tid++
				w.remember(tid, call)
				return fmt.Sprintf("i!%d!%s", tid, call)
			}
			return ""
		})
		emit(sc, w, "seq")
	}
	// (B) histories with transport writes (and unmarshals) parked while other calls are issued
	nPark := 400
	if o.Thorough {
		nPark = 8000
	}
	for i := 0; i < nPark; i++ {
		c := cfgs[o.Rand.Intn(len(cfgs))]
		sc := &scenario{split: c.split, manual: c.manual, wsize: c.wsize, maxbuf: []int{0, 0, 3, 12}[o.Rand.Intn(4)]}
		n := 4 + o.Rand.Intn(14)
		tid := 0
		w := runScenario(sc, func(w *World, step int) string {
			if step == 0 {
				return "auto!0"
			}
			if step >= n {
				return ""
			}
			parked := len(w.W.Parked()) > 0
			if parked && o.Rand.Intn(3) == 0 {
				if o.Rand.Intn(5) == 0 {
					return fmt.Sprintf("w!%d", 1+o.Rand.Intn(3))
				}
				return "w!ok"
			}
			if len(w.parked) > 0 && o.Rand.Intn(3) == 0 {
				for t := range w.parked {
					return fmt.Sprintf("u!%d", t)
				}
			}
			if len(w.mparked) > 0 && o.Rand.Intn(3) == 0 {
				for t := range w.mparked {
					return fmt.Sprintf("m!%d", t)
				}
			}
			for try := 0; try < 30; try++ {
				call := randCall(o, sc)
				if call == "recv" && o.Rand.Intn(3) == 0 {
					call = "recvp"
				}
				if call == "recvf" && o.Rand.Intn(2) == 0 {
					call = "recvpf"
				}
				if strings.HasPrefix(call, "send:") && o.Rand.Intn(4) == 0 {
					call = "sendp:" + call[5:]
				}
				cls := callClass(call)
				if strings.HasPrefix(cls, "recv") {
					cls = "recv"
				}
				if cls == "sendp" {
					cls = "send"
				}
				if strings.HasPrefix(call, "pkt:") {
					if strings.HasPrefix(call, "pkt:2:") {
						cls = "pktmsg"
					} else {
						cls = "pktctl"
					}
				}
				pc := w.pendingClasses()
				nW, nMu := 0, 0
				for k, v := range pc {
					if usesWrite(k) {
						nW += v
					}
					if usesMu(k) {
						nMu += v
					}
				}
				if usesWrite(cls) && nW >= 2 {
					continue
				}
				if usesMu(cls) && nMu >= 2 {
					continue
				}
				if cls == "recv" && pc["recv"] >= 1 {
					continue
				}
				if (cls == "pktmsg" || cls == "pktctl") && pc["pktmsg"]+pc["pktctl"] >= 1 {
					continue
				}
				if cls == "sendcancel" && (nW > 0 || nMu > 0) && !parked {
					continue
				}
				tid++
				w.remember(tid, call)
				return fmt.Sprintf("i!%d!%s", tid, call)
			}
			if parked {
				return "w!ok"
			}
			return ""
		})
		emit(sc, w, "park")
	}
	// (E) two senders, one multi-frame message each, every frame its own transport write: the second
	// sender queues on the write lock while the first is parked in the transport; released one write
	// at a time.  The frames of the two messages must not interleave (message atomicity on the wire).
	for _, c := range []struct{ split, wsize int }{{4, 1}, {1, 1}, {4, 16}, {3, 8}} {
		for _, lens := range [][2]int{{20, 8}, {9, 9}, {5, 20}} {
			sc := &scenario{split: c.split, manual: false, wsize: c.wsize}
			a, b := make([]byte, lens[0]), make([]byte, lens[1])
			for i := range a {
				a[i] = byte(0xa0 + i%16)
			}
			for i := range b {
				b[i] = byte(0xb0 + i%16)
			}
			script := []string{"auto!0", "i!1!send:" + corr.Hex(a), "i!2!send:" + corr.Hex(b)}
			w := runScenario(sc, func(w *World, step int) string {
				if step < len(script) {
					act := script[step]
					if f := strings.Split(act, "!"); f[0] == "i" {
						tid, _ := strconv.Atoi(f[1])
						w.remember(tid, f[2])
					}
					return act
				}
				if len(w.W.Parked()) > 0 && step < 38 {
					time.Sleep(2 * time.Millisecond) // let a queued sender wait long enough for the mutex to hand over fairly
					return "w!ok"
				}
				return ""
			})
			emit(sc, w, "two-senders")
		}
	}
	// (F) terminated between the frames of a message: every frame is its own transport write; the sender
	// is parked in the transport after k of its frames when the stream is terminated by a call that does
	// not wait for the writer (Cancel) or by the peer (error, cancel, close); then the writes are let go.
	// "Nothing is emitted after termination": the rest of the message must not follow.
	for _, c := range []struct{ split, wsize int }{{4, 1}, {1, 1}, {3, 8}} {
		for _, term := range []string{"cancel:1", "cancel:2", "pkt:3:0:1:" + payload(o, 8), "pkt:4:0:1:", "pkt:5:0:1:"} {
			for k := 0; k < 3; k++ {
				sc := &scenario{split: c.split, manual: false, wsize: c.wsize}
				a := make([]byte, 20)
				for i := range a {
					a[i] = byte(0xa0 + i%16)
				}
				script := []string{"auto!0", "i!1!send:" + corr.Hex(a)}
				for j := 0; j < k; j++ {
					script = append(script, "w!ok")
				}
				script = append(script, "i!2!"+term)
				w := runScenario(sc, func(w *World, step int) string {
					if step < len(script) {
						act := script[step]
						if strings.HasPrefix(act, "w!") && len(w.W.Parked()) == 0 {
							return "auto!0" // nothing parked (yet): a no-op keeps the script position aligned
						}
						if f := strings.Split(act, "!"); f[0] == "i" {
							tid, _ := strconv.Atoi(f[1])
							w.remember(tid, f[2])
						}
						return act
					}
					if len(w.W.Parked()) > 0 && step < 40 {
						return "w!ok"
					}
					return ""
				})
				emit(sc, w, "term-between-frames")
			}
		}
	}
	// (D) the lent buffer: a message is being unmarshalled (MsgRecv holds the reader's buffer) when the
	// stream is terminated; if that lets the reader's HandlePacket return, the reader reuses its
	// buffer for the next packet (as drpcmanager's reader does) before the unmarshal finishes.
	for _, term := range []string{"cancel:1", "cancel:2", "close", "senderr:00000000000000076572", "sendcancel:1"} {
		for _, n := range []int{1, 3, 9, 20} {
			for _, c := range cfgs[:2] {
				sc := &scenario{split: c.split, manual: c.manual, wsize: c.wsize}
				a, b := make([]byte, n), make([]byte, n)
				for i := range a {
					a[i], b[i] = byte(0xa0+i%16), byte(0xb0+i%16)
				}
				script := []string{"i!1!recvp", "i!2!pkt:2:0:1:" + corr.Hex(a), "i!3!" + term, "?i!4!pkt:2:0:1:" + corr.Hex(b), "u!1", "i!5!recv"}
				w := runScenario(sc, func(w *World, step int) string {
					for step < len(script) {
						act := script[step]
						if strings.HasPrefix(act, "?") {
							// only when the reader is free again (HandlePacket of the first message has returned)
							pc := w.pendingClasses()
							if pc["pktmsg"]+pc["pktctl"] >= 1 {
								return "auto!1" // a no-op step keeps the script position aligned
							}
							act = act[1:]
						}
						if f := strings.Split(act, "!"); f[0] == "i" {
							tid, _ := strconv.Atoi(f[1])
							w.remember(tid, f[2])
						}
						return act
					}
					return ""
				})
				emit(sc, w, "lend")
			}
		}
	}
}
