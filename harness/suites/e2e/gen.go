package e2e

import (
	"fmt"
	"os"
	"sort"
	"strconv"
	"strings"

	"storj.io/drpc/drpcwire"
	"verifharness/corr"
	"verifharness/suites/wire"
)

type scenario struct {
	cfg   Config
	acts  []string
	obs   []string
	w     *World
	class string
}

func (sc *scenario) request() string {
	return fmt.Sprintf("e2e soft=%s split=%d wbuf=%d manual=%s acts=%s", b01(sc.cfg.Soft), sc.cfg.Split, sc.cfg.WBuf, b01(sc.cfg.Manual), strings.Join(sc.acts, ";"))
}

func (sc *scenario) do(a string) string {
	if sc.w == nil {
		sc.w = NewWorld(sc.cfg)
		sc.w.Do("noop")
	}
	sc.acts = append(sc.acts, a)
	o := sc.w.Do(a)
	sc.obs = append(sc.obs, o)
	return o
}

// results collects op=result over the whole run
func (sc *scenario) results() map[string]string {
	m := map[string]string{}
	for _, o := range sc.obs {
		d := field(o, "d=")
		if d == "" {
			continue
		}
		for _, kv := range strings.Split(d, ",") {
			p := strings.SplitN(kv, "=", 2)
			if len(p) == 2 {
				m[p[0]] = p[1]
			}
		}
	}
	return m
}

func (sc *scenario) handlerLog() []string {
	var out []string
	for _, o := range sc.obs {
		if h := field(o, "h="); h != "" {
			out = append(out, strings.Split(h, ",")...)
		}
	}
	return out
}

func field(obs, key string) string {
	i := strings.Index(obs, key)
	if i < 0 {
		return ""
	}
	rest := obs[i+len(key):]
	if j := strings.IndexAny(rest, " ]"); j >= 0 {
		return rest[:j]
	}
	return rest
}

func lastPending(o string) []string {
	p := field(o, "p=")
	if p == "" {
		return nil
	}
	return strings.Split(p, ",")
}

var configs = []Config{
	{}, {Soft: true}, {Split: 7}, {Soft: true, Split: 7, WBuf: 16}, {WBuf: 1}, {Split: -1, WBuf: 64}, {Manual: true}, {Soft: true, Manual: true, Split: 1000},
}

// wireOracle: C07 — the bytes each endpoint handed to the transport form whole frames with
// non-decreasing ids, one kind per id, nothing after a done frame; never two writes/reads at once;
// the transport is closed at most once per manager.
func wireOracle(o *corr.Out, sc *scenario) {
	for _, e := range []struct {
		name string
		b    []byte
		mw   int
		mr   int
	}{func() struct {
		name string
		b    []byte
		mw   int
		mr   int
	} {
		mw, mr := sc.w.A.Limits()
		return struct {
			name string
			b    []byte
			mw   int
			mr   int
		}{"client", sc.w.A.WrittenCopy(), mw, mr}
	}(), func() struct {
		name string
		b    []byte
		mw   int
		mr   int
	} {
		mw, mr := sc.w.B.Limits()
		return struct {
			name string
			b    []byte
			mw   int
			mr   int
		}{"server", sc.w.B.WrittenCopy(), mw, mr}
	}()} {
		if e.name == "server" && strings.Contains(strings.Join(sc.acts, ";"), "raw!") {
			continue // the harness itself wrote raw bytes on the server's end: not the server's output
		}
		bad := ""
		var ls, lm uint64
		var lk drpcwire.Kind
		ld := true
		rem := e.b
		for len(rem) > 0 && bad == "" {
			r := wire.RefDecode(rem)
			if r.State() != "ok" {
				bad = fmt.Sprintf("%s wrote bytes that are not whole frames (at offset %d of %d)", e.name, len(e.b)-len(rem), len(e.b))
				break
			}
			fr := r.Frame()
			rem = rem[len(rem)-r.Rem():]
			id := fr.ID
			switch {
			case id.Stream < ls || (id.Stream == ls && id.Message < lm):
				bad = fmt.Sprintf("%s: ids go backwards: (%d,%d) after (%d,%d)", e.name, id.Stream, id.Message, ls, lm)
			case id.Stream == ls && id.Message == lm && ld:
				bad = fmt.Sprintf("%s: frame after the done frame of (%d,%d)", e.name, ls, lm)
			case id.Stream == ls && id.Message == lm && fr.Kind != lk:
				bad = fmt.Sprintf("%s: kind change within (%d,%d)", e.name, ls, lm)
			}
			ls, lm, lk, ld = id.Stream, id.Message, fr.Kind, fr.Done
		}
		if e.mw > 1 {
			bad = e.name + ": two transport writes in flight at once"
		}
		if e.mr > 1 {
			bad = e.name + ": two transport reads in flight at once"
		}
		if bad != "" {
			o.Oracle("C07:wire-wellformed", sc.request(), bad)
		} else {
			o.OracleOK("C07:wire-wellformed")
		}
	}
	if a, b := sc.w.A.Status(), sc.w.B.Status(); a.Closes > 1 || b.Closes > 1 {
		o.Oracle("C07:transport-closed-once", sc.request(), fmt.Sprintf("closes A=%d B=%d", a.Closes, b.Closes))
		o.Oracle("C12:transport-closed-once", sc.request(), fmt.Sprintf("closes A=%d B=%d", a.Closes, b.Closes))
	} else {
		o.OracleOK("C07:transport-closed-once")
	}
}

// deliveryOracle: C01 (prefix, integrity, completeness) and C02 (no cross-talk) from the handler log
// and the client's receive results.  sent[idx] = lengths of the client→server messages whose send
// returned nil, in order; handler sends are taken from its own log.
func deliveryOracle(o *corr.Out, sc *scenario, clientSent map[int][]int, complete map[int]bool) {
	log := sc.handlerLog()
	res := sc.results()
	got := map[int][]string{} // handler-side receives per rpc
	hsent := map[int]int{}    // handler-side successful sends
	for _, ev := range log {
		p := strings.SplitN(ev, ":", 3)
		if len(p) < 2 {
			continue
		}
		idx, _ := strconv.Atoi(p[0][1:])
		switch p[1] {
		case "recv":
			got[idx] = append(got[idx], p[2])
		case "sent":
			hsent[idx]++
		}
	}
	bad01, bad02 := "", ""
	for idx, tags := range got {
		for i, tag := range tags {
			f := strings.Split(tag, "/")
			if len(f) != 4 {
				bad01 = fmt.Sprintf("rpc %d: corrupt message delivered to the handler: %s", idx, tag)
				continue
			}
			if f[0] != strconv.Itoa(idx) || f[1] != "1" {
				bad02 = fmt.Sprintf("rpc %d handler received a message of rpc %s dir %s", idx, f[0], f[1])
				continue
			}
			sent := clientSent[idx]
			if f[2] != strconv.Itoa(i) || i >= len(sent)+1 {
				bad01 = fmt.Sprintf("rpc %d: handler received %v — not a prefix of what was sent", idx, tags)
			}
		}
	}
	// client-side receives: ops named r<idx>.<k>
	type rr struct {
		k   int
		res string
	}
	crecv := map[int][]rr{}
	for op, r := range res {
		if strings.HasPrefix(op, "r") && strings.Contains(op, ".") {
			f := strings.SplitN(op[1:], ".", 2)
			idx, _ := strconv.Atoi(f[0])
			k, _ := strconv.Atoi(f[1])
			crecv[idx] = append(crecv[idx], rr{k, r})
		}
		if strings.HasPrefix(op, "u") && strings.HasPrefix(r, "ok:") { // unary
			idx, _ := strconv.Atoi(op[1:])
			f := strings.Split(r[3:], "/")
			if len(f) != 4 {
				bad01 = fmt.Sprintf("unary %d returned a corrupt response %s", idx, r)
			} else if f[0] != strconv.Itoa(idx) || f[1] != "2" {
				bad02 = fmt.Sprintf("unary call %d returned the response of rpc %s: %s", idx, f[0], r)
			}
		}
	}
	for idx, rs := range crecv {
		sort.Slice(rs, func(i, j int) bool { return rs[i].k < rs[j].k })
		seq := 0
		for _, r := range rs {
			if !strings.HasPrefix(r.res, "ok:") {
				continue
			}
			f := strings.Split(r.res[3:], "/")
			if len(f) != 4 {
				bad01 = fmt.Sprintf("rpc %d: client received a corrupt message %s", idx, r.res)
				continue
			}
			if f[0] != strconv.Itoa(idx) || f[1] != "2" {
				bad02 = fmt.Sprintf("rpc %d client received a message of rpc %s dir %s", idx, f[0], f[1])
				continue
			}
			if f[2] != strconv.Itoa(seq) {
				bad01 = fmt.Sprintf("rpc %d: client received seq %s where %d was expected (reordered/duplicated/lost)", idx, f[2], seq)
			}
			seq++
		}
		if seq > hsent[idx]+1 {
			bad01 = fmt.Sprintf("rpc %d: client received %d messages, handler sent %d", idx, seq, hsent[idx])
		}
	}
	for idx, want := range complete {
		if want && len(got[idx]) != len(clientSent[idx]) {
			bad01 = fmt.Sprintf("rpc %d: %d messages were sent successfully and the stream was half-closed, but the handler received %d: %v",
				idx, len(clientSent[idx]), len(got[idx]), got[idx])
		}
	}
	if bad01 != "" {
		o.Oracle("C01:delivery", sc.request(), bad01)
	} else {
		o.OracleOK("C01:delivery")
	}
	if bad02 != "" {
		o.Oracle("C02:isolation", sc.request(), bad02)
	} else {
		o.OracleOK("C02:isolation")
	}
}

func finish(o *corr.Out, sc *scenario) {
	if sc.w == nil {
		return
	}
	wireOracle(o, sc)
	deliveryOracleFor(o, sc, "C02:isolation")
	left := sc.w.Cleanup()
	if len(left) > 0 {
		o.Oracle("C12:no-goroutine-left", sc.request(), strings.Join(left, " | "))
	} else {
		o.OracleOK("C12:no-goroutine-left")
	}
	if sc.w.Failed != "" {
		o.Oracle("harness:not-quiescent", sc.request(), sc.w.Failed)
	}
	o.Stat(sc.class)
	o.Explore(sc.request(), len(sc.acts) >= 3)
	// trace inclusion: the protocol events of each manager of this scenario must be accepted by the
	// Lean checker model (Drpc/Manager/Proto.lean); one correspondence case per manager
	who := TakeEventsWho()
	for k, tr := range TakeEvents() {
		if len(tr) == 0 {
			continue
		}
		// … and must be a trace of the atomic-step manager model (Drpc/Manager/Sys.lean): some
		// interleaving of its threads reports the same events from the same goroutines
		o.Case(fmt.Sprintf("mgrsys soft=%s ev=%s", b01(sc.w.Cfg.Soft), strings.Join(who[k], ",")), fmt.Sprintf("ok n=%d", len(tr)), len(tr) >= 4)
		nontrivial := false
		for _, e := range tr {
			if strings.HasPrefix(e, "stream.new.begin") {
				nontrivial = true
			}
		}
		// the protocol checker speaks about the manager up to its termination: after the `term` report
		// only the transport close is kept (on a terminated manager a caller that passed the term check
		// earlier may still run against the closed stream buffer — theorem
		// trace_accepted_client_until_term and its witness; the Sys membership above covers those runs)
		var upto []string
		termSeen := false
		for _, e := range tr {
			if !termSeen || strings.HasPrefix(e, "tport.close") {
				upto = append(upto, e)
			}
			if strings.HasPrefix(e, "term:") {
				termSeen = true
			}
		}
		o.Case("mgrtrace ev="+strings.Join(upto, ","), fmt.Sprintf("ok n=%d", len(upto)), nontrivial)
		o.Stat(fmt.Sprintf("mgrtrace:len%d", min(len(tr)/10*10, 60)))
	}
	// e2e scenarios have no model counterpart (yet): they are recorded as cases of the exploration
	// only through the #STATS counters, not replayed on the Lean driver.
}

// ---------------------------------------------------------------- families

// famDelivery: sequences of RPCs of all shapes, flowing or randomly chunked transport.
func famDelivery(o *corr.Out, n int) {
	r := o.Rand
	sizes := []int{0, 1, 6, 8, 20, 100, 5000, 70000}
	for it := 0; it < n; it++ {
		sc := &scenario{cfg: configs[r.Intn(len(configs))], class: "delivery"}
		sent := map[int][]int{}
		complete := map[int]bool{}
		var tried [][3]int
		chunked := r.Intn(2) == 0
		pump := func() {
			if !chunked {
				return
			}
			for i := 0; i < 3000; i++ {
				a, b := sc.w.A.Status(), sc.w.B.Status()
				switch {
				case a.WriteParked:
					sc.do("ack!A")
				case b.WriteParked:
					sc.do("ack!B")
				case a.Inbound > 0:
					sc.do(fmt.Sprintf("del!A!%d", 1+r.Intn(1+r.Intn(9000))))
				case b.Inbound > 0:
					sc.do(fmt.Sprintf("del!B!%d", 1+r.Intn(1+r.Intn(9000))))
				default:
					return
				}
			}
		}
		if chunked {
			sc.do("flow!0")
		}
		nr := 1 + r.Intn(4)
		for idx := 1; idx <= nr; idx++ {
			if r.Intn(3) == 0 { // unary
				l := sizes[r.Intn(len(sizes))]
				rl := sizes[r.Intn(len(sizes))]
				prog := fmt.Sprintf("r1.s1:%d.x", rl)
				if r.Intn(4) == 0 {
					prog = "r1.e9"
				}
				sc.do(fmt.Sprintf("inv!u%d!%d!%s!%d!%d", idx, idx, prog, l, idx))
				pump()
				sent[idx] = []int{l}
				continue
			}
			ns, nh := r.Intn(4), r.Intn(4)
			hl := sizes[r.Intn(len(sizes))]
			prog := fmt.Sprintf("r%d.s%d:%d.rA.x", ns, nh, hl)
			if r.Intn(3) == 0 {
				prog = fmt.Sprintf("s%d:%d.rA.x", nh, hl)
			}
			sc.do(fmt.Sprintf("new!n%d!%d!%s!%d", idx, idx, prog, idx))
			pump()
			for k := 0; k < ns; k++ {
				l := sizes[r.Intn(len(sizes))]
				sc.do(fmt.Sprintf("snd!s%d.%d!%d!%d!%d", idx, k, idx, k, l))
				pump()
				tried = append(tried, [3]int{idx, k, l})
				// C01: a send that succeeded (automatic flushing) has reached the peer without a further call
				if !sc.cfg.Manual && strings.HasPrefix(prog, "r") && sc.results()[fmt.Sprintf("s%d.%d", idx, k)] == "nil" {
					want := fmt.Sprintf("H%d:recv:%d/1/%d/%d", idx, idx, k, l)
					if !contains(sc.handlerLog(), want) {
						o.Oracle("C01:send-reaches-peer", sc.request(), "send returned nil and the transport is drained, but the handler has not received "+want)
					} else {
						o.OracleOK("C01:send-reaches-peer")
					}
				}
			}
			sc.do(fmt.Sprintf("cls!c%d!%d", idx, idx))
			pump()
			complete[idx] = true
			for k := 0; k <= nh; k++ {
				sc.do(fmt.Sprintf("rcv!r%d.%d!%d", idx, k, idx))
				pump()
			}
			sc.do(fmt.Sprintf("clo!x%d!%d", idx, idx))
			pump()
		}
		sc.do("flow!1")
		res := sc.results()
		for _, t := range tried {
			if res[fmt.Sprintf("s%d.%d", t[0], t[1])] == "nil" {
				sent[t[0]] = append(sent[t[0]], t[2])
			}
		}
		deliveryOracle(o, sc, sent, complete)
		finish(o, sc)
	}
}

// famLargeThenSmall: one large message followed by a long run of small ones on the same connection,
// in either direction (the connection's reader reuses and, after a run of small packets, drops its
// buffer): every message arrives intact.
func famLargeThenSmall(o *corr.Out) {
	for _, big := range []int{2000, 70000} {
		for _, nsmall := range []int{12, 25} {
			// client -> server
			sc := &scenario{cfg: Config{}, class: "large-then-small"}
			sc.do(fmt.Sprintf("new!n1!1!r%d.x!1", 1+nsmall))
			sent := map[int][]int{}
			sc.do(fmt.Sprintf("snd!s1.0!1!0!%d", big))
			sent[1] = append(sent[1], big)
			for k := 1; k <= nsmall; k++ {
				sc.do(fmt.Sprintf("snd!s1.%d!1!%d!10", k, k))
				sent[1] = append(sent[1], 10)
			}
			sc.do("cls!c1!1")
			sc.do("rcv!r1.0!1")
			sc.do("clo!x1!1")
			deliveryOracle(o, sc, sent, map[int]bool{1: true})
			finish(o, sc)
			// server -> client
			sc = &scenario{cfg: Config{}, class: "large-then-small"}
			sc.do(fmt.Sprintf("new!n1!1!s1:%d.s%d:10.x!1", big, nsmall))
			sc.do("cls!c1!1")
			for k := 0; k <= nsmall+1; k++ {
				sc.do(fmt.Sprintf("rcv!r1.%d!1", k))
			}
			sc.do("clo!x1!1")
			deliveryOracle(o, sc, map[int][]int{}, map[int]bool{1: true})
			finish(o, sc)
		}
	}
}

// Run runs the families selected by VERIF_E2E (comma separated; default: all).
func Run(o *corr.Out) {
	sel := os.Getenv("VERIF_E2E")
	if sel == "" {
		sel = map[string]string{"C01": "delivery", "C02": "delivery,probe", "C04": "cancel", "C05": "fault", "C06": "probe",
			"C07": "delivery,cancel,fault,serve", "C12": "close,fault"}[os.Getenv("VERIF_PROP")]
	}
	want := func(f string) bool { return sel == "" || strings.Contains(","+sel+",", ","+f+",") }
	mul := 1
	if o.Thorough {
		mul = 20
	}
	if want("delivery") {
		famDelivery(o, 40*mul)
		famLargeThenSmall(o)
	}
	if want("probe") {
		famProbe(o, 60*mul)
		if !want("close") {
			famServeHostile(o) // abandoned-then-call: the connection keeps serving (C06)
		}
	}
	if want("cancel") {
		famCancel(o, 60*mul)
	}
	if want("fault") {
		famFault(o, 6*mul)
		famFaultStalledWrite(o)
		famFaultAtOffer(o)
		if !want("cancel") {
			famSelectRace(o)
		}
	}
	if want("close") {
		famClose(o, 6*mul)
		famServe(o)
		famServeHostile(o)
	}
	if want("close") || want("serve") {
		famServeModel(o, 30*mul)
	}
}

// ---------------------------------------------------------------- C06: probe after arbitrary endings

var handlerProgs = []string{"x", "e3", "r1.x", "r1.e3", "r1.s1:1.x", "rA.x", "s3:1.x", "s1:1.rA.x", "w.x", "r1.c.e4", "s1:70000.x"}

// pumpAll acknowledges and delivers everything in whole pieces until nothing moves (manual mode).
func pumpAll(sc *scenario) {
	for i := 0; i < 2000; i++ {
		a, b := sc.w.A.Status(), sc.w.B.Status()
		switch {
		case a.WriteParked:
			sc.do("ack!A")
		case b.WriteParked:
			sc.do("ack!B")
		case a.Inbound > 0:
			sc.do("del!A!-1")
		case b.Inbound > 0:
			sc.do("del!B!-1")
		default:
			return
		}
	}
}

func probe(o *corr.Out, sc *scenario, oracle string, needHandlersDone bool) {
	sc.do("flow!1")
	// precondition of C06: every earlier handler has returned
	starts, rets := 0, 0
	for _, ev := range sc.handlerLog() {
		if strings.Contains(ev, ":start:") {
			starts++
		}
		if strings.Contains(ev, ":ret:") {
			rets++
		}
	}
	ob := sc.do("inv!probe!99!r1.s1:1.x!1!99")
	res := sc.results()["probe"]
	closed := strings.HasSuffix(ob, "X1]")
	switch {
	case res == "ok:99/2/0/1":
		o.OracleOK(oracle)
	case closed && res != "":
		o.OracleOK(oracle) // the connection reports itself closed and the probe failed promptly
		o.Stat("probe:closed")
	case needHandlersDone && starts != rets:
		o.Stat("probe:precondition-false")
	default:
		census := strings.Join(sc.w.LastObs().Census, " | ")
		o.Oracle(oracle, sc.request(), fmt.Sprintf("probe result=%q connClosed=%v handlers %d/%d returned; blocked: %s", res, closed, rets, starts, census))
	}
}

// rawInvoke builds the bytes of an invoke + one message + close-send for stream 1, as a client writes them.
func rawInvoke(idx int, prog string) []byte {
	var b []byte
	b = drpcwire.AppendFrame(b, drpcwire.Frame{Data: []byte(rpcName(idx, prog)), ID: drpcwire.ID{Stream: 1, Message: 1}, Kind: drpcwire.KindInvoke, Done: true})
	b = drpcwire.AppendFrame(b, drpcwire.Frame{Data: Payload(idx, 1, 0, 3), ID: drpcwire.ID{Stream: 1, Message: 2}, Kind: drpcwire.KindMessage, Done: true})
	b = drpcwire.AppendFrame(b, drpcwire.Frame{ID: drpcwire.ID{Stream: 1, Message: 3}, Kind: drpcwire.KindCloseSend, Done: true})
	return b
}

// pumpRandom drives the manual transport choosing among the enabled steps at random (recorded).
func pumpRandom(sc *scenario, r interface{ Intn(int) int }) {
	for i := 0; i < 3000; i++ {
		a, b := sc.w.A.Status(), sc.w.B.Status()
		var en []string
		if a.WriteParked {
			en = append(en, "ack!A")
		}
		if b.WriteParked {
			en = append(en, "ack!B")
		}
		if a.Inbound > 0 {
			en = append(en, "del!A!-1")
		}
		if b.Inbound > 0 {
			en = append(en, "del!B!-1")
		}
		if len(en) == 0 {
			return
		}
		sc.do(en[r.Intn(len(en))])
	}
}

// famUpload: a unary call with a multi-frame request that the server ends (error or response)
// while the client is still uploading.
func famUpload(o *corr.Out, n int) {
	r := o.Rand
	for it := 0; it < n; it++ {
		cfg := Config{Soft: r.Intn(2) == 0, WBuf: []int{0, 1, 64}[r.Intn(3)], Split: []int{0, 1000, 7}[r.Intn(2)]}
		sc := &scenario{cfg: cfg, class: "upload"}
		sc.do("flow!0")
		prog := []string{"e3", "x", "s1:1.x", "r1.e4"}[r.Intn(4)]
		sc.do(fmt.Sprintf("inv!u1!1!%s!%d!1", prog, []int{70000, 140000, 300}[r.Intn(3)]))
		pumpRandom(sc, r)
		probe(o, sc, "C06:probe-completes", true)
		finish(o, sc)
	}
}

// famLate: packets of RPC n that are still in the transport when RPC n+1 begins (the client closed
// or soft-cancelled RPC n while the server was still sending) are delivered only after RPC n+1 is
// under way.  They must be dropped: RPC n+1 sees only its own messages.
func famLate(o *corr.Out, n int) {
	r := o.Rand
	for it := 0; it < n; it++ {
		soft := r.Intn(2) == 0
		sc := &scenario{cfg: Config{Soft: soft}, class: "late"}
		sc.do("flow!0")
		late := 1 + r.Intn(3)
		sc.do(fmt.Sprintf("new!n1!1!r1.s%d:%d.rA.x!1", late, []int{1, 9, 3000}[r.Intn(3)]))
		sc.do("snd!s1.0!1!0!2")
		// client → server moves, server → client is held back
		half := func() {
			for i := 0; i < 200; i++ {
				a, b := sc.w.A.Status(), sc.w.B.Status()
				switch {
				case a.WriteParked:
					sc.do("ack!A")
				case b.WriteParked:
					sc.do("ack!B")
				case b.Inbound > 0:
					sc.do("del!B!-1")
				default:
					return
				}
			}
		}
		half()
		if soft && r.Intn(2) == 0 {
			sc.do("can!1")
		} else {
			sc.do("clo!x1!1")
		}
		half()
		unary := r.Intn(2) == 0
		if unary {
			sc.do("inv!u2!2!r1.s1:4.x!1!2")
		} else {
			sc.do("new!n2!2!r1.s2:4.rA.x!2")
			sc.do("snd!s2.0!2!0!1")
			sc.do("rcv!r2.0!2")
		}
		half()
		// now the late packets of rpc 1 (and the answers of rpc 2) reach the client
		pumpAll(sc)
		if !unary {
			sc.do("rcv!r2.1!2")
			pumpAll(sc)
			sc.do("clo!x2!2")
			pumpAll(sc)
		}
		res := sc.results()
		want := map[bool]string{true: "u2", false: "r2.0"}[unary]
		if got := res[want]; got != "ok:2/2/0/4" {
			o.Oracle("C02:isolation", sc.request(), fmt.Sprintf("%s=%q (want the rpc's own first response ok:2/2/0/4)", want, got))
		} else {
			o.OracleOK("C02:isolation")
		}
		probe(o, sc, "C06:probe-completes", true)
		finish(o, sc)
	}
}

func famProbe(o *corr.Out, n int) {
	r := o.Rand
	famUpload(o, n/3+1)
	famWaitingInvoke(o)
	famCancelBeforeInvoke(o)
	famUndecodable(o)
	famPublishAfterRelease(o)
	famQueuedUnary(o)
	famOverlappingInvokes(o)
	famHandlerFlush(o)
	famSoftCancelTokens(o)
	famLate(o, n/4+2)
	type cs struct {
		sends int
		cls   bool
		recvs int
		end   string
	}
	var grid []cs
	for _, s := range []int{0, 1, 3} {
		for _, c := range []bool{false, true} {
			for _, rc := range []int{0, 1, 5} {
				for _, e := range []string{"clo", "can"} {
					grid = append(grid, cs{s, c, rc, e})
				}
			}
		}
	}
	for it := 0; it < n; it++ {
		g := grid[r.Intn(len(grid))]
		prog := handlerProgs[r.Intn(len(handlerProgs))]
		cfg := Config{Soft: r.Intn(2) == 0}
		if r.Intn(4) == 0 {
			cfg.Split, cfg.WBuf = 7, 16
		}
		sc := &scenario{cfg: cfg, class: "probe"}
		nr := 1 + r.Intn(2)
		for idx := 1; idx <= nr; idx++ {
			sc.do(fmt.Sprintf("new!n%d!%d!%s!%d", idx, idx, prog, idx))
			for k := 0; k < g.sends; k++ {
				sc.do(fmt.Sprintf("snd!s%d.%d!%d!%d!%d", idx, k, idx, k, []int{0, 5, 70000}[r.Intn(3)]))
			}
			if g.cls {
				sc.do(fmt.Sprintf("cls!c%d!%d", idx, idx))
			}
			for k := 0; k < g.recvs; k++ {
				ob := sc.do(fmt.Sprintf("rcv!r%d.%d!%d", idx, k, idx))
				if strings.Contains(field(ob, "p="), fmt.Sprintf("r%d.%d", idx, k)) {
					break // blocked: do not pile up receivers
				}
			}
			if g.end == "clo" {
				sc.do(fmt.Sprintf("clo!x%d!%d", idx, idx))
			} else {
				sc.do(fmt.Sprintf("can!%d", idx))
			}
			prog = handlerProgs[r.Intn(len(handlerProgs))]
		}
		probe(o, sc, "C06:probe-completes", true)
		finish(o, sc)
	}
}

// ---------------------------------------------------------------- C04: cancel with operations in flight

func famCancel(o *corr.Out, n int) {
	r := o.Rand
	// every subset of at most 3 of the 5 in-flight kinds, in a random order, x stalled x soft
	var subsets [][]int
	for m := 1; m < 32; m++ {
		var ks []int
		for k := 0; k < 5; k++ {
			if m&(1<<uint(k)) != 0 {
				ks = append(ks, k)
			}
		}
		if len(ks) <= 3 {
			subsets = append(subsets, ks)
		}
	}
	famSelectRace(o)
	famCancelAtOffer(o)
	famServerCancel(o)
	famWaitingInvoke(o)
	famCancelBeforeInvoke(o)
	famUndecodable(o)
	famPublishAfterRelease(o)
	total := len(subsets) * 4
	if n < total && !o.Thorough {
		total = n * 2
	} else if o.Thorough {
		total = len(subsets) * 4 * 10 // the whole grid ten times: the handler program and the order of the calls are drawn anew
	}
	for it := -1; it < total; it++ {
		gi := it % (len(subsets) * 4)
		if it >= 0 && total < len(subsets)*4 {
			gi = r.Intn(len(subsets) * 4)
		}
		cfg := Config{Soft: gi%2 == 0}
		sc := &scenario{cfg: cfg, class: "cancel"}
		stalled := (gi/2)%2 == 0
		prog := []string{"w.x", "rA.x", "r1.w.x", "s1:5.w.x", "r1.s1:5.rA.x"}[r.Intn(5)]
		if it == -1 {
			// replay of Props.C04.cancel_hang_counterexample on the implementation: hard cancel with a send
			// parked in the transport and Close waiting behind it
			sc.cfg = Config{}
			cfg = sc.cfg
			sc.class = "cancel-hang-replay"
			sc.do("new!n1!1!rA.x!1")
			sc.do("fls!f1!1")
			sc.do("flow!0")
			sc.do("snd!s1.0!1!0!3")
			sc.do("clo!x1!1")
			ob := sc.do("can!1")
			var stuck []string
			for _, p := range lastPending(ob) {
				if p != "serve" {
					stuck = append(stuck, p)
				}
			}
			if len(stuck) > 0 {
				o.Oracle("C04:cancel-unblocks", sc.request(), fmt.Sprintf("mode=hard stalled=true still blocked after cancel: %v; blocked goroutines: %s",
					stuck, strings.Join(sc.w.LastObs().Census, " | ")))
			} else {
				o.OracleOK("C04:cancel-unblocks")
			}
			finish(o, sc)
			continue
		}
		sc.do("new!n1!1!" + prog + "!1")
		sc.do("fls!f1!1") // the invoke is on the wire and the stream's first-receive flush is spent
		if stalled {
			sc.do("flow!0")
		}
		// put a random set of operations in flight
		inflight := 0
		kinds := append([]int(nil), subsets[(gi/4+len(subsets))%len(subsets)]...)
		r.Shuffle(len(kinds), func(i, j int) { kinds[i], kinds[j] = kinds[j], kinds[i] })
		for _, k := range kinds {
			switch k {
			case 0:
				sc.do("rcv!r1.0!1")
			case 1:
				sc.do(fmt.Sprintf("snd!s1.0!1!0!%d", []int{3, 70000}[r.Intn(2)]))
			case 2:
				sc.do("snd!s1.1!1!1!4")
			case 3:
				sc.do("cls!c1!1")
			case 4:
				sc.do("clo!x1!1")
			}
			inflight++
		}
		before := lastPending(sc.obs[len(sc.obs)-1])
		// a message already handed to the stream (the connection's reader is parked in Put with it): a
		// receive pending now is not waiting for data but for the write lock (its initial flush)
		msgWaiting := false
		for _, g := range sc.w.LastObs().ClientCensus {
			if strings.Contains(g, "packetBuffer).Put") {
				msgWaiting = true
			}
		}
		ob := sc.do("can!1")
		// every call of the cancelled RPC must have returned now, without any help from the transport
		var stuck []string
		for _, p := range lastPending(ob) {
			if p != "serve" {
				stuck = append(stuck, p)
			}
		}
		res := sc.results()
		if len(stuck) > 0 {
			census := strings.Join(sc.w.LastObs().Census, " | ")
			o.Oracle("C04:cancel-unblocks", sc.request(), fmt.Sprintf("mode=%s stalled=%v still blocked after cancel: %v (in flight before: %v); blocked goroutines: %s",
				map[bool]string{true: "soft", false: "hard"}[cfg.Soft], stalled, stuck, before, census))
		} else {
			o.OracleOK("C04:cancel-unblocks")
		}
		// a receive that was blocked reports the context's error (unless the application itself had
		// already terminated the stream with Close before the cancel)
		appClosed := strings.Contains(strings.Join(sc.acts, ";"), "clo!x1")
		if v, ok := res["r1.0"]; ok && contains(before, "r1.0") && msgWaiting && strings.HasPrefix(v, "ok:") {
			// the receive was held up by its flush, not by the lack of a message; it may deliver the
			// message that was there before the cancel (which of the two it reports depends on the scheduler)
			o.Stat("cancel:recv-held-by-flush-returned-message")
			o.OracleOK("C04:blocked-recv-gets-ctx-error")
		} else if v, ok := res["r1.0"]; ok && contains(before, "r1.0") && v != "canceled" && !appClosed {
			o.Oracle("C04:blocked-recv-gets-ctx-error", sc.request(), "r1.0="+v)
		} else {
			o.OracleOK("C04:blocked-recv-gets-ctx-error")
		}
		if !cfg.Soft {
			for _, s := range []string{"s1.0", "s1.1"} {
				halfClosed := strings.Contains(strings.Join(sc.acts, ";"), "cls!c1") // the application itself closed its send side
				if v, ok := res[s]; ok && contains(before, s) && v != "canceled" && !appClosed && !halfClosed {
					o.Oracle("C04:blocked-send-gets-ctx-error", sc.request(), s+"="+v)
				} else {
					o.OracleOK("C04:blocked-send-gets-ctx-error")
				}
			}
		}
		// later operations fail
		if len(stuck) == 0 {
			ob2 := sc.do("snd!late1!1!9!1")
			ob3 := sc.do("rcv!late2!1")
			res = sc.results()
			if contains(lastPending(ob3), "late1") || contains(lastPending(ob3), "late2") || res["late1"] == "nil" || strings.HasPrefix(res["late2"], "ok") {
				o.Oracle("C04:later-calls-fail", sc.request(), fmt.Sprintf("late1=%q late2=%q pending=%v / %s", res["late1"], res["late2"], lastPending(ob3), ob2))
			} else {
				o.OracleOK("C04:later-calls-fail")
			}
		}
		// the connection is usable for the next RPC or reports itself closed
		probe(o, sc, "C04:conn-usable-or-closed", false)
		// the peer handler's context is cancelled once the cancel / disconnect reached it
		log := strings.Join(sc.handlerLog(), ",")
		if strings.Contains(log, "H1:start") && strings.Contains(prog, "w") && !strings.Contains(log, "H1:ctxdone") && !strings.Contains(log, "H1:ret") {
			o.Oracle("C04:peer-ctx-cancelled", sc.request(), "handler never saw its context cancelled: "+log)
		} else {
			o.OracleOK("C04:peer-ctx-cancelled")
		}
		finish(o, sc)
	}
}

// famWaitingInvoke: soft cancel; RPC 1 is cancelled while its cancel frame is stuck in a stalled
// transport, RPC 2 is admitted behind it and is itself cancelled while waiting; once the transport
// drains, the connection must serve a probe (or report itself closed).
func famWaitingInvoke(o *corr.Out) {
	for _, prog := range []string{"w.x", "rA.x"} {
		sc := &scenario{cfg: Config{Soft: true}, class: "cancel-waiting-invoke"}
		sc.do("new!n1!1!" + prog + "!1")
		sc.do("fls!f1!1")
		sc.do("flow!0")
		sc.do("can!1")
		sc.do("inv!u2!2!r1.s1:1.x!1!2")
		ob := sc.do("can!2")
		if contains(lastPending(ob), "u2") {
			o.Oracle("C04:cancel-unblocks", sc.request(), "mode=soft invoke waiting for the previous stream did not return on cancel: "+ob)
		} else {
			o.OracleOK("C04:cancel-unblocks")
		}
		probe(o, sc, "C04:conn-usable-or-closed", false)
		probe2 := sc.results()["probe"]
		if probe2 == "" && !strings.HasSuffix(sc.obs[len(sc.obs)-1], "X1]") {
			o.Oracle("C06:probe-completes", sc.request(), "probe hangs after a cancelled invoke that was waiting for the previous stream; blocked: "+
				strings.Join(sc.w.LastObs().Census, " | "))
		} else {
			o.OracleOK("C06:probe-completes")
		}
		finish(o, sc)
	}
}

// famCancelBeforeInvoke: the context of a unary RPC is cancelled after the stream was created and
// before anything of it was written (Conn.Invoke marshals the request in between; here Marshal is
// slow).  Afterwards the connection must serve a probe or report itself closed.
func famCancelBeforeInvoke(o *corr.Out) {
	for _, soft := range []bool{false, true} {
		for _, first := range []bool{true, false} {
			sc := &scenario{cfg: Config{Soft: soft}, class: "cancel-before-invoke"}
			if !first {
				sc.do("inv!u1!1!r1.s1:1.x!1!7")
			}
			sc.do("invp!u2!2!r1.s1:1.x!1!1")
			sc.do("can!1")
			ob := sc.do("mrel!u2")
			if contains(lastPending(ob), "u2") {
				o.Oracle("C04:cancel-unblocks", sc.request(), fmt.Sprintf("soft=%v invoke cancelled before its first write did not return: %s", soft, ob))
			} else {
				o.OracleOK("C04:cancel-unblocks")
			}
			probe(o, sc, "C06:probe-completes", false)
			finish(o, sc)
		}
		// the request cannot be marshalled: Invoke gives up and closes a stream it never invoked
		sc := &scenario{cfg: Config{Soft: soft}, class: "marshal-error-before-invoke"}
		sc.do("inv!u1!1!r1.s1:1.x!1!7")
		ob := sc.do("invf!u2!2!r1.s1:1.x!1!1")
		if contains(lastPending(ob), "u2") {
			o.Oracle("C06:probe-completes", sc.request(), "an invoke whose request cannot be marshalled did not return: "+ob)
		}
		probe(o, sc, "C06:probe-completes", false)
		finish(o, sc)
	}
}

// famUndecodable: a message arrives intact but the application's encoding rejects it (the two sides
// disagree on a type). The receive reports the error; after that the RPC, the connection and the next
// RPC must behave as after any other failed call: a handler that gives up lets the next RPC in (C06),
// and a later cancellation of the RPC's context still unblocks everything of that RPC (C04).
func famUndecodable(o *corr.Out) {
	for _, soft := range []bool{false, true} {
		// (a) the handler cannot decode the request and returns the error
		sc := &scenario{cfg: Config{Soft: soft}, class: "undecodable-request"}
		ob := sc.do("inv!u1!1!u!1!7")
		if contains(lastPending(ob), "u1") {
			o.Oracle("C06:probe-completes", sc.request(), "an RPC whose handler could not decode the request did not end: "+ob)
		}
		probe(o, sc, "C06:probe-completes", true)
		finish(o, sc)
		// (b) the client cannot decode a response; later the RPC's context is cancelled with a receive pending
		sc = &scenario{cfg: Config{Soft: soft}, class: "undecodable-response"}
		sc.do("new!n1!1!s1:5.w!1")
		sc.do("rcvf!r1!1")
		sc.do("rcv!r2!1")
		ob = sc.do("can!1")
		if p := lastPending(ob); contains(p, "r1") || contains(p, "r2") {
			o.Oracle("C04:cancel-unblocks", sc.request(), fmt.Sprintf("soft=%v a receive is still pending after the context was cancelled (an earlier receive failed to decode): %s | blocked: %s",
				soft, ob, strings.Join(sc.w.LastObs().Census, " | ")))
		} else {
			o.OracleOK("C04:cancel-unblocks")
		}
		probe(o, sc, "C06:probe-completes", false)
		finish(o, sc)
		// (c) as (b), but what is pending at the cancellation is a send stalled in the transport
		sc = &scenario{cfg: Config{Soft: soft}, class: "undecodable-response-stalled-send"}
		sc.do("new!n1!1!s1:5.w!1")
		sc.do("rcvf!r1!1")
		sc.do("flow!0")
		sc.do("snd!s1!1!0!70000")
		ob = sc.do("can!1")
		if p := lastPending(ob); contains(p, "s1") || contains(p, "r1") {
			o.Oracle("C04:cancel-unblocks", sc.request(), fmt.Sprintf("soft=%v a send stalled in the transport is still pending after the context was cancelled (an earlier receive failed to decode): %s | blocked: %s",
				soft, ob, strings.Join(sc.w.LastObs().Census, " | ")))
		} else {
			o.OracleOK("C04:cancel-unblocks")
		}
		sc.do("flow!1")
		finish(o, sc)
	}
}

// famServerCancel: the server's context is cancelled while the only thing in flight on the server is
// the end of an RPC stalled in the transport (the error or the half-close the server sends after the
// handler returned, or a response) because the client is not draining.  ServeOne must return.
func famServerCancel(o *corr.Out) {
	for _, soft := range []bool{false, true} {
		for _, prog := range []string{"e3", "x", "r1.e4", "s1:70000.x", "r1.s2:9.x"} {
			sc := &scenario{cfg: Config{Soft: soft}, class: "server-cancel-stalled"}
			sc.do("flow!0")
			sc.do("inv!u1!1!" + prog + "!1!1")
			// the request reaches the server; whatever the server writes stays parked
			for i := 0; i < 20; i++ {
				a, b := sc.w.A.Status(), sc.w.B.Status()
				if a.WriteParked {
					sc.do("ack!A")
				} else if b.Inbound > 0 {
					sc.do("del!B!-1")
				} else {
					break
				}
			}
			ob := sc.do("scancel")
			if contains(lastPending(ob), "serve") {
				o.Oracle("C04:cancel-unblocks", sc.request(), fmt.Sprintf("soft=%v ServeOne did not return after its context was cancelled (server write stalled): %s | blocked: %s",
					soft, ob, strings.Join(sc.w.LastObs().ServerCensus, " | ")))
			} else {
				o.OracleOK("C04:cancel-unblocks")
			}
			finish(o, sc)
		}
	}
}

// famFaultStalledWrite: the read side of the client's transport fails (or the connection is closed
// locally) while a large request is parked inside a transport write, and the transport lets that write
// go on for a while after Close (lazy close); then the write fails.  Everything must unwind.
func famFaultStalledWrite(o *corr.Out) {
	for _, how := range []string{"failr!A", "cclose!c0"} {
		for _, call := range []string{"inv!u1!1!r1.s1:1.x!70000!1", "new+snd", "new+fls"} {
			sc := &scenario{cfg: Config{Manual: call == "new+fls"}, class: "fault-stalled-write"}
			sc.do("lazy!1")
			sc.do("flow!0")
			switch call {
			case "new+snd":
				sc.do("new!n1!1!rA.x!1")
				pumpAll(sc)
				sc.do("snd!s1.0!1!0!70000")
			case "new+fls":
				sc.do("new!n1!1!rA.x!1")
				pumpAll(sc)
				sc.do("snd!s1.0!1!0!9")
				sc.do("fls!f1!1")
			default:
				sc.do(call)
			}
			sc.do(how)
			if how == "failr!A" {
				// Close called while the manager is terminated but an operation is still inside the
				// transport: when Close returns, nothing of the manager may be left running
				ob := sc.do("cclose!cc")
				if cc := sc.w.LastObs().ClientCensus; !contains(lastPending(ob), "cc") && len(cc) > 0 {
					o.Oracle("C12:close-waits-for-goroutines", sc.request(), "Close returned while: "+strings.Join(cc, " | "))
				} else {
					o.OracleOK("C12:close-waits-for-goroutines")
				}
			}
			sc.do("failw!A") // now the parked write returns its error
			sc.do("failr!A")
			ob := sc.do("cclose!cc2")
			pend := lastPending(ob)
			var stuck []string
			for _, p := range pend {
				if p != "serve" && !strings.HasPrefix(p, "H") {
					stuck = append(stuck, p)
				}
			}
			if len(stuck) > 0 {
				o.Oracle("C05:fault-contained", sc.request(), fmt.Sprintf("still pending at quiescence: %v; blocked: %s", stuck, strings.Join(sc.w.LastObs().ClientCensus, " | ")))
			} else if cc := sc.w.LastObs().ClientCensus; len(cc) > 0 {
				o.Oracle("C12:no-goroutine-left", sc.request(), "after Close returned: "+strings.Join(cc, " | "))
			} else {
				o.OracleOK("C05:fault-contained")
			}
			finish(o, sc)
		}
	}
}

// famHandlerFlush: ManualFlush; the handler's explicit flush is parked in the transport when the
// client closes (or cancels) the stream; the handler then returns (error or nil).  The connection
// must serve the next RPC.
func famHandlerFlush(o *corr.Out) {
	for _, end := range []string{"clo!x1!1", "can!1"} {
		for _, prog := range []string{"s1:9.f.e3", "s1:9.f.x", "r1.s1:9.f.e3"} {
			sc := &scenario{cfg: Config{Manual: true}, class: "handler-flush"}
			sc.do("flow!0") // everything the server writes stays parked until acknowledged below
			toServer := func() {
				for i := 0; i < 20; i++ {
					if sc.w.A.Status().WriteParked {
						sc.do("ack!A")
					} else if sc.w.B.Status().Inbound > 0 {
						sc.do("del!B!-1")
					} else {
						return
					}
				}
			}
			sc.do("new!n1!1!" + prog + "!1")
			sc.do("fls!f0!1")
			if strings.HasPrefix(prog, "r1") {
				sc.do("snd!s1.0!1!0!1")
				sc.do("fls!f1!1")
			}
			toServer() // the handler runs up to its flush, which parks in the transport
			sc.do(end)
			toServer() // the close / cancel reaches the server while the flush is still in flight
			pumpAll(sc)
			probe(o, sc, "C06:probe-completes", true)
			finish(o, sc)
		}
	}
}

// famSoftCancelTokens: soft cancel of an idle RPC; the manager's goroutine is held between marking
// the stream finished and sending its fin token, the next RPC starts meanwhile, and the peer sends
// a packet that ends that next stream at once (a cancel for a stream it has not been invoked on).
// The next RPC must complete, or the connection report itself closed.
func famSoftCancelTokens(o *corr.Out) {
	for _, kind := range []drpcwire.Kind{drpcwire.KindCancel, drpcwire.KindError, drpcwire.KindClose} {
		sc := &scenario{cfg: Config{Soft: true}, class: "soft-cancel-tokens"}
		sc.do("new!n1!1!w.x!1")
		sc.do("mgrpark")
		sc.do("can!1")
		sc.do("inv!u2!2!r1.s1:1.x!1!2")
		fr := drpcwire.AppendFrame(nil, drpcwire.Frame{ID: drpcwire.ID{Stream: 2, Message: 1}, Kind: kind, Control: kind == drpcwire.KindCancel, Done: true,
			Data: map[bool][]byte{true: {0, 0, 0, 0, 0, 0, 0, 1, 'x'}, false: nil}[kind == drpcwire.KindError]})
		sc.do("raw!w1!" + corr.Hex(fr))
		sc.do("prel!@mgr")
		ob := sc.do("flow!1")
		res := sc.results()["u2"]
		closed := strings.HasSuffix(ob, "X1]")
		if res != "" || closed {
			o.OracleOK("C06:next-rpc-completes")
		} else {
			o.Oracle("C06:next-rpc-completes", sc.request(), fmt.Sprintf("rpc 2 never returned, connClosed=%v; blocked: %s", closed,
				strings.Join(sc.w.LastObs().ClientCensus, " | ")))
		}
		finish(o, sc)
	}
}

// famQueuedUnary: unary calls issued while an earlier RPC still occupies the connection wait their
// turn; each must carry its own request and get its own response (they share the connection's
// marshalling buffer, one at a time).
func famQueuedUnary(o *corr.Out) {
	for _, l := range []int{1, 40} {
		for _, k := range []int{2, 3} {
			sc := &scenario{cfg: Config{}, class: "queued-unary"}
			sc.do("new!n1!1!rA.x!1")
			for i := 0; i < k; i++ {
				sc.do(fmt.Sprintf("inv!u%d!%d!r1.s1:1.x!%d!%d", i+2, i+2, l, i+2))
			}
			sc.do("cls!x1!1")
			res := sc.results()
			bad := ""
			for i := 0; i < k; i++ {
				if got, want := res[fmt.Sprintf("u%d", i+2)], fmt.Sprintf("ok:%d/2/0/1", i+2); got != want {
					bad = fmt.Sprintf("u%d=%q want %q", i+2, got, want)
				}
			}
			if bad != "" {
				o.Oracle("C02:isolation", sc.request(), "queued unary calls: "+bad)
			} else {
				o.OracleOK("C02:isolation")
			}
			finish(o, sc)
		}
	}
}

// famCancelAtOffer: the context of a call is cancelled at the instant its new stream is about to be
// handed to manageStreams (after the semaphore was taken and the stream published).  Whatever the
// call returns, the connection must afterwards serve a probe or report itself closed.
func famCancelAtOffer(o *corr.Out) {
	for _, soft := range []bool{false, true} {
		reps := 6
		if o.Thorough {
			reps = 30
		}
		for rep := 0; rep < reps; rep++ {
			sc := &scenario{cfg: Config{Soft: soft}, class: "cancel-at-offer"}
			if rep%2 == 1 {
				sc.do("inv!u1!1!r1.s1:1.x!1!7")
			}
			sc.do("ocancel!1")
			ob := sc.do("inv!u2!2!r1.s1:1.x!1!1")
			if contains(lastPending(ob), "u2") {
				o.Oracle("C04:cancel-unblocks", sc.request(), fmt.Sprintf("soft=%v a call cancelled at the hand-off of its stream did not return: %s", soft, ob))
			} else {
				o.OracleOK("C04:cancel-unblocks")
			}
			probe(o, sc, "C04:conn-usable-or-closed", false)
			finish(o, sc)
		}
	}
}

// famFaultAtOffer: the client's transport breaks at the instant a new stream is about to be handed to
// manageStreams, and the manager has terminated before the hand-off goes on (so the hand-off is
// retracted, or taken by a manageStreams that is about to leave).  The call must return, a later call
// must fail promptly, nothing may stay pending or running (C05: a failure at any point is contained).
func famFaultAtOffer(o *corr.Out) {
	for _, soft := range []bool{false, true} {
		reps := 8
		if o.Thorough {
			reps = 40
		}
		for rep := 0; rep < reps; rep++ {
			end := []string{"A", "B"}[rep/2%2] // the client's end at its own hand-off, the server's end at the server's
			sc := &scenario{cfg: Config{Soft: soft}, class: "fault-at-offer-" + end}
			if rep%2 == 1 {
				sc.do("inv!u1!1!r1.s1:1.x!1!7")
			}
			sc.do("ofail!" + end)
			if end == "B" {
				// only the invoke is on the wire (a streaming call): the server's reader is back in the
				// transport, not parked on an undelivered message, when the read fails
				sc.do("new!u2!2!rA.x!1")
				sc.do("fls!f2!2")
			} else {
				sc.do("inv!u2!2!r1.s1:1.x!1!1")
				sc.do("inv!u3!3!r1.s1:1.x!1!3")
			}
			ob := sc.do("noop")
			ob = sc.do("flow!1")
			var stuck []string
			for _, p := range lastPending(ob) {
				if p == "u2" || p == "u3" || (p == "serve" && end == "B") {
					stuck = append(stuck, p) // ServeOne must return once its transport has failed
				}
			}
			if len(stuck) > 0 {
				o.Oracle("C05:fault-contained", sc.request(), fmt.Sprintf("soft=%v transport of end %s failed at the hand-off of a new stream: still pending at quiescence: %v; blocked: %s",
					soft, end, stuck, strings.Join(append(sc.w.LastObs().ClientCensus, sc.w.LastObs().ServerCensus...), " | ")))
			} else {
				o.OracleOK("C05:fault-contained")
			}
			finish(o, sc)
		}
	}
}

// famSelectRace: manageStream is held in front of its select while several of its branches become
// ready (the stream finishes, its context is cancelled, the transport's read side fails); whichever
// branch Go picks, the manager's bookkeeping must stay sound: the NEXT rpc is watched (cancelling
// its context unblocks its receive) or the connection reports itself closed.
func famSelectRace(o *corr.Out) {
	combos := [][]string{{"clo!x1!1", "can!1"}, {"can!1", "clo!x1!1"}, {"clo!x1!1", "failr!A"}, {"can!1", "failr!A"}, {"clo!x1!1", "can!1", "failr!A"}}
	for _, soft := range []bool{false, true} {
		for _, combo := range combos {
			reps := 4
			if o.Thorough {
				reps = 16
			}
			for rep := 0; rep < reps; rep++ {
				sc := &scenario{cfg: Config{Soft: soft}, class: "select-race"}
				sc.do("mspark")
				sc.do("new!n1!1!rA.x!1")
				for _, a := range combo {
					sc.do(a)
				}
				sc.do("prel!@mgr")
				ob := sc.do("new!n2!2!w.x!2")
				closed := strings.HasSuffix(ob, "X1]")
				if sc.results()["n2"] == "ok" {
					sc.do("rcv!r2.0!2")
					if rep%2 == 0 {
						ob = sc.do("can!2")
						if contains(lastPending(ob), "r2.0") {
							o.Oracle("C04:cancel-unblocks", sc.request(), fmt.Sprintf("soft=%v the rpc after a select race is not watched: its receive stays blocked after its context was cancelled; blocked: %s",
								soft, strings.Join(sc.w.LastObs().ClientCensus, " | ")))
						} else {
							o.OracleOK("C04:cancel-unblocks")
						}
					} else {
						ob = sc.do("fail!A")
						if contains(lastPending(ob), "r2.0") {
							o.Oracle("C05:fault-contained", sc.request(), fmt.Sprintf("soft=%v the rpc after a select race is not watched: its receive stays blocked after the transport failed; blocked: %s",
								soft, strings.Join(sc.w.LastObs().ClientCensus, " | ")))
						} else {
							o.OracleOK("C05:fault-contained")
						}
					}
				} else if !closed && contains(lastPending(ob), "n2") {
					o.Oracle("C06:next-rpc-completes", sc.request(), "the next stream cannot be created and the connection is not closed: "+ob)
				} else {
					o.OracleOK("C06:next-rpc-completes")
				}
				finish(o, sc)
			}
		}
	}
}

// famOverlappingInvokes: a unary call is cancelled while it is still marshalling its request (it
// holds the connection's request buffer); the next unary call starts before that marshalling ends,
// on a transport slow enough that its frames go out one by one.  The second call must carry its own
// request.
func famOverlappingInvokes(o *corr.Out) {
	for _, l := range []int{9, 300} {
		sc := &scenario{cfg: Config{Soft: true, WBuf: 1}, class: "overlapping-invokes"}
		sc.do("inv!u1!1!r1.s1:1.x!" + fmt.Sprint(l) + "!7") // sizes the shared buffer
		sc.do(fmt.Sprintf("invp!u2!2!r1.s1:1.x!%d!1", l))
		sc.do("can!1")
		sc.do("flow!0")
		sc.do(fmt.Sprintf("inv!u3!3!r1.s1:1.x!%d!3", l))
		sc.do("mrel!u2")
		pumpAll(sc)
		sc.do("flow!1")
		if got := sc.results()["u3"]; got != "ok:3/2/0/1" && !strings.HasSuffix(sc.obs[len(sc.obs)-1], "X1]") {
			o.Oracle("C02:isolation", sc.request(), fmt.Sprintf("u3=%q (want its own response ok:3/2/0/1)", got))
		} else {
			o.OracleOK("C02:isolation")
		}
		finish(o, sc)
	}
}

// famPublishAfterRelease: soft cancel; the context of RPC 1 is cancelled while its creator sits
// between handing the new stream to manageStreams and publishing it (sbuf.Set); the manager
// releases the stream semaphore, RPC 2 starts, then the creator of RPC 1 runs on.  RPC 2 must
// complete (or the connection report itself closed).
func famPublishAfterRelease(o *corr.Out) {
	for _, early := range []bool{false, true} {
		sc := &scenario{cfg: Config{Soft: true}, class: "publish-after-release"}
		sc.do("flow!0")
		sc.do("hpark!n1")
		sc.do("new!n1!1!rA.x!1")
		sc.do("can!1")
		pumpAll(sc)
		sc.do("inv!u2!2!r1.s1:1.x!1!2")
		if early {
			pumpAll(sc)
		}
		sc.do("prel!n1")
		pumpAll(sc)
		ob := sc.do("flow!1")
		res := sc.results()["u2"]
		closed := strings.HasSuffix(ob, "X1]")
		if res == "ok:2/2/0/1" || (closed && res != "") {
			o.OracleOK("C06:next-rpc-completes")
		} else {
			o.Oracle("C06:next-rpc-completes", sc.request(), fmt.Sprintf("rpc 2 result=%q connClosed=%v; blocked: %s", res, closed,
				strings.Join(sc.w.LastObs().Census, " | ")))
		}
		probe(o, sc, "C06:probe-completes", false)
		finish(o, sc)
	}
}

func contains(xs []string, x string) bool {
	for _, y := range xs {
		if y == x {
			return true
		}
	}
	return false
}

// ---------------------------------------------------------------- C05 / C12: faults and Close at every point

type wstep struct{ act string }

func workload(r interface{ Intn(int) int }) []string {
	var acts []string
	nr := 1 + r.Intn(2)
	for idx := 1; idx <= nr; idx++ {
		if r.Intn(2) == 0 {
			acts = append(acts, fmt.Sprintf("inv!u%d!%d!r1.s1:%d.x!%d!%d", idx, idx, []int{1, 5000}[r.Intn(2)], []int{0, 9, 70000}[r.Intn(3)], idx))
			continue
		}
		ns, nh := r.Intn(3), r.Intn(3)
		acts = append(acts, fmt.Sprintf("new!n%d!%d!r%d.s%d:9.rA.x!%d", idx, idx, ns, nh, idx))
		for k := 0; k < ns; k++ {
			acts = append(acts, fmt.Sprintf("snd!s%d.%d!%d!%d!%d", idx, k, idx, k, []int{0, 9, 70000}[r.Intn(3)]))
		}
		acts = append(acts, fmt.Sprintf("cls!c%d!%d", idx, idx))
		for k := 0; k <= nh; k++ {
			acts = append(acts, fmt.Sprintf("rcv!r%d.%d!%d", idx, k, idx))
		}
		acts = append(acts, fmt.Sprintf("clo!x%d!%d", idx, idx))
	}
	return acts
}

// runWithEvent runs the workload on a manually driven transport, counting transport steps, and
// replaces step number `at` by `event` (fault or close).  Returns false when the workload has
// fewer steps.
func runWithEvent(sc *scenario, acts []string, at int, event string) bool {
	sc.do("flow!0")
	step := 0
	fired := false
	tick := func(end string, kind string) bool {
		if fired {
			return true
		}
		if step == at {
			fired = true
			ev := strings.ReplaceAll(event, "$E", end)
			ev = strings.ReplaceAll(ev, "$P", map[string]string{"A": "B", "B": "A"}[end])
			sc.do(ev)
			return true
		}
		step++
		return false
	}
	drive := func() {
		for i := 0; i < 4000 && !fired; i++ {
			a, b := sc.w.A.Status(), sc.w.B.Status()
			switch {
			case a.WriteParked:
				if !tick("A", "w") {
					sc.do("ack!A")
				}
			case b.WriteParked:
				if !tick("B", "w") {
					sc.do("ack!B")
				}
			case a.Inbound > 0:
				if !tick("A", "r") {
					sc.do("del!A!-1")
				}
			case b.Inbound > 0:
				if !tick("B", "r") {
					sc.do("del!B!-1")
				}
			default:
				return
			}
		}
	}
	for i, a := range acts {
		if fired {
			// the application carries on: the rest of its calls must fail or deliver, never hang
			sc.do("flow!1")
			for _, b := range acts[i:] {
				sc.do(b)
			}
			break
		}
		sc.do(a)
		drive()
	}
	return fired
}

func famFault(o *corr.Out, n int) {
	r := o.Rand
	events := []string{"fail!$E", "fail!$E", "tclose!$E", "tclose!$P"}
	for it := 0; it < n; it++ {
		acts := workload(r)
		cfg := configs[r.Intn(len(configs))]
		ev := events[r.Intn(len(events))]
		for at := 0; at < 60; at++ {
			if at > 0 && r.Intn(3) != 0 && !o.Thorough {
				continue // quick tier: a sample of the positions; thorough: every position
			}
			sc := &scenario{cfg: cfg, class: "fault"}
			if !runWithEvent(sc, acts, at, ev) {
				finish(o, sc)
				break
			}
			ob := sc.do("flow!1")
			ob = sc.do("noop")
			var stuck []string
			for _, p := range lastPending(ob) {
				stuck = append(stuck, p)
			}
			res := sc.results()
			panicked := ""
			for op, v := range res {
				if strings.HasPrefix(v, "panic") {
					panicked = op + "=" + v
				}
			}
			switch {
			case panicked != "":
				o.Oracle("C05:no-panic", sc.request(), panicked)
			case len(stuck) > 0:
				o.Oracle("C05:fault-contained", sc.request(), fmt.Sprintf("event %s at I/O step %d: still pending at quiescence: %v; blocked: %s", ev, at, stuck,
					strings.Join(sc.w.LastObs().Census, " | ")))
			case !strings.HasSuffix(ob, "X1]"):
				o.Oracle("C05:reports-closed", sc.request(), fmt.Sprintf("event %s at step %d: Closed() not signalled: %s", ev, at, ob))
			default:
				o.OracleOK("C05:fault-contained")
			}
			// a send (or unary call) on the broken end that completes after the break cannot report success
			if ev == "fail!$E" && !cfg.Manual {
				broken := ""
				seenFail := false
				for i, a := range sc.acts {
					if a == "fail!A" {
						seenFail = true
						continue
					}
					if !seenFail || !strings.HasPrefix(a, "snd!") && !strings.HasPrefix(a, "inv!u") {
						continue
					}
					op := strings.Split(a, "!")[1]
					if v := res[op]; v == "nil" || strings.HasPrefix(v, "ok:") {
						broken = fmt.Sprintf("%s issued at action %d after the client transport broke returned %s", op, i, v)
					}
				}
				// the operation whose write was parked when the transport broke
				for i, a := range sc.acts {
					if a == "fail!A" && i > 0 {
						for _, p := range lastPending(sc.obs[i-1]) {
							if v := res[p]; (strings.HasPrefix(p, "s") || strings.HasPrefix(p, "u")) && (v == "nil" || strings.HasPrefix(v, "ok:")) {
								broken = fmt.Sprintf("%s was in flight when the client transport broke and returned %s", p, v)
							}
						}
					}
				}
				if broken != "" {
					o.Oracle("C05:failed-write-reported", sc.request(), broken)
				} else {
					o.OracleOK("C05:failed-write-reported")
				}
			}
			// later calls fail instead of hanging
			ob2 := sc.do("inv!late!98!r1.s1:1.x!1!98")
			if contains(lastPending(ob2), "late") || strings.HasPrefix(sc.results()["late"], "ok") {
				o.Oracle("C05:later-calls-fail", sc.request(), ob2)
			} else {
				o.OracleOK("C05:later-calls-fail")
			}
			deliveryOracleFor(o, sc, "C05:delivered-is-prefix")
			finish(o, sc)
		}
	}
}

// deliveryOracleFor: integrity and isolation of whatever was delivered (no order or completeness
// claim: those are judged by deliveryOracle in the delivery family)
func deliveryOracleFor(o *corr.Out, sc *scenario, name string) {
	bad := ""
	for _, ev := range sc.handlerLog() {
		p := strings.SplitN(ev, ":", 3)
		if len(p) == 3 && p[1] == "recv" {
			f := strings.Split(p[2], "/")
			if len(f) != 4 || "H"+f[0] != p[0] || f[1] != "1" {
				bad = "handler " + p[0] + " received " + p[2]
			}
		}
	}
	for op, v := range sc.results() {
		if strings.HasPrefix(v, "ok:") && (op[0] == 'r' || op[0] == 'u' || op == "probe" || op == "late" || op == "late2") {
			f := strings.Split(v[3:], "/")
			idx := strings.SplitN(op[1:], ".", 2)[0]
			switch op {
			case "probe":
				idx = "99"
			case "late":
				idx = "98"
			case "late2":
				idx = "1"
			}
			if len(f) != 4 || f[0] != idx || f[1] != "2" {
				bad = "client op " + op + " received " + v
			}
		}
	}
	if bad != "" {
		o.Oracle(name, sc.request(), bad)
	} else {
		o.OracleOK(name)
	}
}

func famClose(o *corr.Out, n int) {
	r := o.Rand
	events := []string{"cclose!cc", "scancel", "cclose!cc", "tclose!B"}
	for it := 0; it < n; it++ {
		acts := workload(r)
		cfg := configs[r.Intn(len(configs))]
		ev := events[r.Intn(len(events))]
		lazy := r.Intn(2) == 0
		for at := 0; at < 60; at++ {
			if at > 0 && r.Intn(3) != 0 && !o.Thorough {
				continue
			}
			sc := &scenario{cfg: cfg, class: "close"}
			if lazy {
				sc.do("lazy!1")
			}
			if !runWithEvent(sc, acts, at, ev) {
				finish(o, sc)
				break
			}
			// still stalled: if Close has already returned, nothing of the client's manager may be left
			if ev != "cclose!cc" {
				sc.do("cclose!cc")
			}
			ob0 := sc.do("noop")
			if !contains(lastPending(ob0), "cc") && len(sc.w.LastObs().ClientCensus) > 0 {
				o.Oracle("C12:no-goroutine-left", sc.request(), "Conn.Close returned while goroutines of its manager are still running: "+
					strings.Join(sc.w.LastObs().ClientCensus, " | "))
			} else {
				o.OracleOK("C12:no-goroutine-left")
			}
			sc.do("flow!1") // the transport lets go of pending I/O
			ob := sc.do("noop")
			pend := lastPending(ob)
			a := sc.w.A.Status()
			census := sc.w.LastObs().Census
			switch {
			case contains(pend, "cc"):
				o.Oracle("C12:close-returns", sc.request(), fmt.Sprintf("%s at step %d: Conn.Close has not returned at quiescence; blocked: %s", ev, at, strings.Join(census, " | ")))
			case a.Closes != 1:
				o.Oracle("C12:transport-closed-once", sc.request(), fmt.Sprintf("client transport closed %d times", a.Closes))
			case len(pend) > 0:
				o.Oracle("C12:pending-calls-fail", sc.request(), fmt.Sprintf("still pending after Close: %v; blocked: %s", pend, strings.Join(census, " | ")))
			case len(census) > 0:
				o.Oracle("C12:no-goroutine-left", sc.request(), strings.Join(census, " | "))
			default:
				o.OracleOK("C12:close")
			}
			finish(o, sc)
		}
	}
}
