// Package e2e: two real endpoints (drpcconn.Conn ↔ drpcserver.Server.ServeOne) over the
// director's duplex pipe.  Client API calls run as named operations, the server handler is a
// scripted program encoded in the rpc name, every transport step can be parked, observations are
// taken at stop-the-world-verified quiescence.
package e2e

import (
	"bytes"
	"context"
	"errors"
	"fmt"
	"hash/crc32"
	"io"
	"runtime"
	"sort"
	"strconv"
	"strings"
	"sync"
	"sync/atomic"
	"time"

	"storj.io/drpc"
	"storj.io/drpc/drpcconn"
	"storj.io/drpc/drpcdebug"
	"storj.io/drpc/drpcerr"
	"storj.io/drpc/drpcmanager"
	"storj.io/drpc/drpcmetadata"
	"storj.io/drpc/drpcserver"
	"storj.io/drpc/drpcstream"
	"storj.io/drpc/drpcwire"
	"verifharness/director"
	sm "verifharness/suites/stream"
)

type Config struct {
	Soft   bool
	Split  int
	WBuf   int
	Manual bool
	MaxBuf int
}

// Payload layout: rpc index (2 bytes), direction (1: c→s, 2: s→c), sequence number (2), length (4),
// body (deterministic from the header), crc32 of everything before.
func Payload(rpc, dir, seq, n int) []byte {
	b := []byte{byte(rpc >> 8), byte(rpc), byte(dir), byte(seq >> 8), byte(seq), byte(n >> 24), byte(n >> 16), byte(n >> 8), byte(n)}
	for i := 0; i < n; i++ {
		b = append(b, byte(rpc*31+dir*17+seq*7+i))
	}
	c := crc32.ChecksumIEEE(b)
	return append(b, byte(c>>24), byte(c>>16), byte(c>>8), byte(c))
}

// Describe returns "rpc/dir/seq/len" for a well-formed payload, or "CORRUPT:<hex prefix>".
func Describe(b []byte) string {
	if len(b) >= 13 {
		n := int(b[5])<<24 | int(b[6])<<16 | int(b[7])<<8 | int(b[8])
		if len(b) == 13+n {
			rpc, dir, seq := int(b[0])<<8|int(b[1]), int(b[2]), int(b[3])<<8|int(b[4])
			if string(Payload(rpc, dir, seq, n)) == string(b) {
				return fmt.Sprintf("%d/%d/%d/%d", rpc, dir, seq, n)
			}
		}
	}
	p := b
	if len(p) > 12 {
		p = p[:12]
	}
	return fmt.Sprintf("CORRUPT:%d:%x", len(b), p)
}

type World struct {
	D         *director.D
	P         *director.Pipe
	A, B      *director.End // A: client end, B: server end
	Conn      *drpcconn.Conn
	Cfg       Config
	mu        sync.Mutex
	log       []string // handler events
	logN      int
	streams   map[int]drpc.Stream
	ctxs      map[int]context.CancelFunc
	ctxv      map[int]context.Context
	srvCancel context.CancelFunc
	issued    []string
	seen      map[string]bool
	enc       *sm.Enc
	mparks    map[string]chan chan struct{} // parked Marshal of invp operations
	parkAt    map[string]bool               // operations that park after newStream's hand-off
	mgrArm    bool                          // mgrpark: see the point hook
	msArm     bool                          // mspark: see the point hook
	mgrSets   int
	mgrOp     string
	hid       int
	Failed    string
	last      Obs
	serveG    string
}

func (w *World) logf(format string, a ...interface{}) {
	w.mu.Lock()
	w.log = append(w.log, fmt.Sprintf(format, a...))
	w.mu.Unlock()
}

func errName(err error) string {
	if err == nil {
		return "nil"
	}
	n := sm.ErrName(err)
	if strings.HasPrefix(n, "other:") {
		msg := err.Error()
		switch {
		case strings.Contains(msg, "manager closed"):
			// classify the cause
			switch {
			case strings.Contains(msg, "Close called"):
				return "mclosed:close"
			case errors.Is(err, io.EOF) || strings.Contains(msg, "EOF"):
				return "mclosed:eof"
			case strings.Contains(msg, "director pipe") || strings.Contains(msg, "closed pipe"):
				return "mclosed:pipe"
			case strings.Contains(msg, "injected"):
				return "mclosed:injected"
			case strings.Contains(msg, "context canceled"):
				return "mclosed:canceled"
			}
			return "mclosed:" + short(msg)
		case strings.Contains(msg, "director pipe") || strings.Contains(msg, "closed pipe"):
			return "pipe"
		case strings.Contains(msg, "injected"):
			return "injected"
		case strings.Contains(msg, "boom"):
			return fmt.Sprintf("handler:%d:%s", drpcerr.Code(err), short(msg))
		case strings.Contains(msg, "unknown rpc"):
			return "unknownrpc"
		}
		return "other:" + short(msg)
	}
	return n
}

func short(s string) string {
	s = strings.ReplaceAll(s, " ", "_")
	s = strings.ReplaceAll(s, "\t", "_")
	if len(s) > 60 {
		s = s[:60]
	}
	return s
}

var ErrInjected = errors.New("injected transport failure")

// protocol events of the managers of the world currently under test (drpcdebug.Event hook)
var (
	evMu     sync.Mutex
	evOrder  []string            // manager keys in order of first appearance
	evTraces map[string][]string // manager key -> events "name:id"
	evWho    map[string][]string // manager key -> reporting goroutine of each event: role letter + goroutine id
)

// whoReports names the goroutine inside the Event hook: r (manageReader), m (manageStreams), c / s / x
// (a caller inside NewClientStream / NewServerStream / Close) followed by the goroutine id.
func whoReports() string {
	var pcs [32]uintptr
	n := runtime.Callers(3, pcs[:])
	frames := runtime.CallersFrames(pcs[:n])
	role := "u"
	for {
		fr, more := frames.Next()
		switch {
		case strings.HasSuffix(fr.Function, "drpcmanager.(*Manager).manageReader"):
			role = "r"
		case strings.HasSuffix(fr.Function, "drpcmanager.(*Manager).manageStreams"):
			role = "m"
		case strings.HasSuffix(fr.Function, "drpcmanager.(*Manager).NewClientStream"):
			role = "c"
		case strings.HasSuffix(fr.Function, "drpcmanager.(*Manager).NewServerStream"):
			role = "s"
		case strings.HasSuffix(fr.Function, "drpcmanager.(*Manager).Close"):
			role = "x"
		}
		if role != "u" || !more {
			break
		}
	}
	var buf [64]byte
	b := buf[:runtime.Stack(buf[:], false)] // "goroutine 123 [running]:…"
	b = bytes.TrimPrefix(b, []byte("goroutine "))
	if i := bytes.IndexByte(b, ' '); i >= 0 {
		b = b[:i]
	}
	return role + string(b)
}

var offerHook atomic.Pointer[func()]

type offerFailT struct {
	role string // "c": the client's NewClientStream, "s": the server's NewServerStream
	do   func()
}

var offerFail atomic.Pointer[offerFailT]

func init() {
	drpcdebug.SetEventHook(func(obj interface{}, name string, id uint64) {
		key := fmt.Sprintf("%p", obj)
		who := whoReports()
		if name == "stream.new.offer" {
			if f := offerHook.Swap(nil); f != nil {
				(*f)() // ocancel: something happens exactly between the publication of a new stream and its hand-off
			}
			if of := offerFail.Load(); of != nil && strings.HasPrefix(who, of.role) && offerFail.CompareAndSwap(of, nil) {
				// ofail: the transport of this endpoint breaks here, and the hand-off goes on only after
				// this manager has reported its termination (or 2 s)
				of.do()
				for i := 0; i < 20000; i++ {
					evMu.Lock()
					done := false
					for _, e := range evTraces[key] {
						if e == "term:0" {
							done = true
						}
					}
					evMu.Unlock()
					if done {
						break
					}
					time.Sleep(100 * time.Microsecond)
				}
			}
		}
		evMu.Lock()
		if evTraces == nil {
			evTraces, evWho = map[string][]string{}, map[string][]string{}
		}
		if _, ok := evTraces[key]; !ok {
			evOrder = append(evOrder, key)
		}
		evTraces[key] = append(evTraces[key], fmt.Sprintf("%s:%d", name, id))
		evWho[key] = append(evWho[key], who)
		evMu.Unlock()
	})
}

// ResetEvents forgets the recorded manager events; TakeEvents returns them per manager, and
// TakeEventsWho the same with the reporting goroutine in front of each event.
func ResetEvents() {
	evMu.Lock()
	evOrder, evTraces, evWho = nil, map[string][]string{}, map[string][]string{}
	evMu.Unlock()
}

func TakeEvents() [][]string {
	evMu.Lock()
	defer evMu.Unlock()
	var out [][]string
	for _, k := range evOrder {
		out = append(out, append([]string(nil), evTraces[k]...))
	}
	return out
}

func TakeEventsWho() [][]string {
	evMu.Lock()
	defer evMu.Unlock()
	var out [][]string
	for _, k := range evOrder {
		var tr []string
		for i, e := range evTraces[k] {
			tr = append(tr, evWho[k][i]+":"+e)
		}
		out = append(out, tr)
	}
	return out
}

func NewWorld(cfg Config) *World {
	offerHook.Store(nil)
	offerFail.Store(nil)
	ResetEvents()
	w := &World{D: director.New(), Cfg: cfg, streams: map[int]drpc.Stream{}, ctxs: map[int]context.CancelFunc{},
		ctxv: map[int]context.Context{}, seen: map[string]bool{}, enc: &sm.Enc{}}
	w.P, w.A, w.B = director.NewPipe()
	w.P.Flow = true
	// operations named by hpark!op park at the scheduling point after newStream's hand-off
	drpcdebug.SetPointHook(w.D.PointHook(func(op, point string) bool {
		if point == "signal.setSlow.enter" {
			// mgrpark: the manageStream goroutine parks inside checkFinished after the stream's fin
			// signal is set and before its token is sent (the second signal set of checkFinished)
			w.mu.Lock()
			defer w.mu.Unlock()
			if !w.mgrArm || !stackHas("drpcmanager.(*Manager).manageStream", "drpcstream.(*Stream).checkFinished") {
				return false
			}
			w.mgrSets++
			if w.mgrSets == 2 {
				w.mgrArm = false
				w.mgrOp = op
				return true
			}
			return false
		}
		if point == "manager.manageStream.enter" {
			// mspark: the next goroutine entering manageStream parks in front of its select
			w.mu.Lock()
			defer w.mu.Unlock()
			if !w.msArm {
				return false
			}
			w.msArm = false
			w.mgrOp = op
			return true
		}
		if point != "manager.newStream.handoff" {
			return false
		}
		w.mu.Lock()
		defer w.mu.Unlock()
		return w.parkAt[op]
	}))
	mopts := drpcmanager.Options{
		WriterBufferSize: cfg.WBuf,
		SoftCancel:       cfg.Soft,
		Stream:           drpcstream.Options{SplitSize: cfg.Split, ManualFlush: cfg.Manual},
		Reader:           drpcwire.ReaderOptions{MaximumBufferSize: cfg.MaxBuf},
	}
	w.Conn = drpcconn.NewWithOptions(w.A, drpcconn.Options{Manager: mopts})
	srv := drpcserver.NewWithOptions(handler{w}, drpcserver.Options{Manager: mopts})
	ctx, cancel := context.WithCancel(context.Background())
	w.srvCancel = cancel
	w.issued = append(w.issued, "serve")
	w.D.Go("serve", func() string { return errName(srv.ServeOne(ctx, w.B)) })
	return w
}

// ---- scripted handler: the rpc name is "/p/<idx>/<prog>", prog = dot-separated steps ----
//
//	rN  receive N messages        rA  receive until an error (EOF included)        f  RawFlush
//	sN:L send N messages of body length L   c  CloseSend
//	w   wait for the stream context to be done      u  receive one message that cannot be decoded, return the error
//	eK  return an error with drpc code K    x  return nil
type handler struct{ w *World }

func (h handler) HandleRPC(stream drpc.Stream, rpc string) error {
	w := h.w
	parts := strings.Split(rpc, "/")
	if len(parts) != 4 || parts[1] != "p" {
		return drpc.ProtocolError.New("unknown rpc: %q", rpc)
	}
	idx, _ := strconv.Atoi(parts[2])
	md, _ := drpcmetadata.Get(stream.Context())
	var mds []string
	for k, v := range md {
		mds = append(mds, k+"="+v)
	}
	sort.Strings(mds)
	w.logf("H%d:start:%s", idx, strings.Join(mds, ","))
	seq := 0
	for _, st := range strings.Split(parts[3], ".") {
		if st == "" {
			continue
		}
		switch st[0] {
		case 'r':
			n := 1 << 30
			if st != "rA" {
				n, _ = strconv.Atoi(st[1:])
			}
			for i := 0; i < n; i++ {
				var in []byte
				if err := stream.MsgRecv(&in, w.enc); err != nil {
					w.logf("H%d:recverr:%s", idx, errName(err))
					if st == "rA" {
						break
					}
					w.logf("H%d:ret:%s", idx, errName(err))
					return err
				}
				w.logf("H%d:recv:%s", idx, Describe(in))
			}
		case 's':
			f := strings.Split(st[1:], ":")
			n, _ := strconv.Atoi(f[0])
			l := 0
			if len(f) > 1 {
				l, _ = strconv.Atoi(f[1])
			}
			for i := 0; i < n; i++ {
				if err := stream.MsgSend(Payload(idx, 2, seq, l), w.enc); err != nil {
					w.logf("H%d:senderr:%s", idx, errName(err))
					w.logf("H%d:ret:%s", idx, errName(err))
					return err
				}
				w.logf("H%d:sent:%d", idx, seq)
				seq++
			}
		case 'u': // receive one message that the handler's encoding cannot decode, and give up with that error
			var in []byte
			err := stream.MsgRecv(&in, &sm.Enc{Fail: true})
			w.logf("H%d:recverr:%s", idx, errName(err))
			if err != nil {
				w.logf("H%d:ret:%s", idx, errName(err))
				return err
			}
		case 'c':
			err := stream.CloseSend()
			w.logf("H%d:closesend:%s", idx, errName(err))
		case 'w':
			<-stream.Context().Done()
			w.logf("H%d:ctxdone", idx)
		case 'f': // explicit flush (ManualFlush handlers)
			if fl, ok := stream.(interface{ RawFlush() error }); ok {
				w.logf("H%d:flush:%s", idx, errName(fl.RawFlush()))
			}
		case 'e':
			k, _ := strconv.ParseUint(st[1:], 10, 64)
			w.logf("H%d:ret:boom%d", idx, k)
			return drpcerr.WithCode(errors.New("boom "+st[1:]), k)
		case 'x':
			w.logf("H%d:ret:nil", idx)
			return nil
		}
	}
	w.logf("H%d:ret:nil", idx)
	return nil
}

func (w *World) ctx(id int) context.Context {
	if c, ok := w.ctxv[id]; ok {
		return c
	}
	c, cancel := context.WithCancel(context.Background())
	w.ctxv[id], w.ctxs[id] = c, cancel
	return c
}

func rpcName(idx int, prog string) string { return fmt.Sprintf("/p/%d/%s", idx, prog) }

// Do performs one action and returns the observation at the following quiescent point.
func (w *World) Do(act string) string {
	f := strings.Split(act, "!")
	atoi := func(s string) int { n, _ := strconv.Atoi(s); return n }
	switch f[0] {
	case "inv": // inv!op!idx!prog!len!ctx[!meta]
		idx, l, cid := atoi(f[2]), atoi(f[4]), atoi(f[5])
		ctx := w.ctx(cid)
		if len(f) > 6 && f[6] != "" {
			for _, kv := range strings.Split(f[6], ",") {
				p := strings.SplitN(kv, "=", 2)
				ctx = drpcmetadata.Add(ctx, p[0], p[1])
			}
		}
		w.issue(f[1], func() string {
			var out []byte
			err := w.Conn.Invoke(ctx, rpcName(idx, f[3]), w.enc, Payload(idx, 1, 0, l), &out)
			if err != nil {
				return errName(err)
			}
			return "ok:" + Describe(out)
		})
	case "invp": // invp!op!idx!prog!len!ctx : as inv, but Marshal of the request parks until mrel!op
		idx, l, cid := atoi(f[2]), atoi(f[4]), atoi(f[5])
		ctx := w.ctx(cid)
		enc := &sm.Enc{MPark: make(chan chan struct{}, 1)}
		if w.mparks == nil {
			w.mparks = map[string]chan chan struct{}{}
		}
		w.mparks[f[1]] = enc.MPark
		w.issue(f[1], func() string {
			var out []byte
			err := w.Conn.Invoke(ctx, rpcName(idx, f[3]), enc, Payload(idx, 1, 0, l), &out)
			if err != nil {
				return errName(err)
			}
			return "ok:" + Describe(out)
		})
	case "hpark": // hpark!op : the operation will park after handing its new stream to manageStreams
		w.mu.Lock()
		if w.parkAt == nil {
			w.parkAt = map[string]bool{}
		}
		w.parkAt[f[1]] = true
		w.mu.Unlock()
	case "prel": // prel!op : let it run on (prel!@mgr: the goroutine parked by mgrpark)
		w.mu.Lock()
		delete(w.parkAt, f[1])
		name := f[1]
		if name == "@mgr" {
			name = w.mgrOp
		}
		w.mu.Unlock()
		w.D.ReleasePoint(name)
	case "ocancel": // ocancel!ctx : that context is cancelled when the next stream is about to be handed to manageStreams
		id := atoi(f[1])
		w.ctx(id)
		cancel := w.ctxs[id]
		fn := func() { cancel() }
		offerHook.Store(&fn)
	case "ofail": // ofail!end : that end's transport breaks when its manager is about to hand its next stream to
		// manageStreams, and the hand-off goes on only after that manager has reported its termination
		e := w.end(f[1])
		role := "c"
		if f[1] == "B" {
			role = "s"
		}
		offerFail.Store(&offerFailT{role: role, do: func() {
			e.FailWrite(ErrInjected)
			e.FailRead(ErrInjected)
		}})
	case "mspark": // the next manageStream parks in front of its select (released by prel!@mgr)
		w.mu.Lock()
		w.msArm = true
		w.mu.Unlock()
	case "mgrpark": // the client's manageStream goroutine will park between finishing a stream and sending its token
		w.mu.Lock()
		w.mgrArm, w.mgrSets = true, 0
		w.mu.Unlock()
	case "raw": // raw!op!<hex> : the peer writes these bytes to the client (a packet no server would send now)
		b := unhexBytes(f[2])
		w.issue(f[1], func() string {
			_, err := w.B.Write(b)
			return errName(err)
		})
	case "invf": // invf!op!idx!prog!len!ctx : as inv, but Marshal of the request fails
		idx, l, cid := atoi(f[2]), atoi(f[4]), atoi(f[5])
		ctx := w.ctx(cid)
		enc := &sm.Enc{MFail: true}
		w.issue(f[1], func() string {
			var out []byte
			err := w.Conn.Invoke(ctx, rpcName(idx, f[3]), enc, Payload(idx, 1, 0, l), &out)
			if err != nil {
				return errName(err)
			}
			return "ok:" + Describe(out)
		})
	case "mrel": // release the parked Marshal of an invp
		if ch := w.mparks[f[1]]; ch != nil {
			select {
			case rel := <-ch:
				close(rel)
			default:
			}
		}
	case "new": // new!op!idx!prog!ctx[!meta]
		idx, cid := atoi(f[2]), atoi(f[4])
		ctx := w.ctx(cid)
		if len(f) > 5 && f[5] != "" {
			for _, kv := range strings.Split(f[5], ",") {
				p := strings.SplitN(kv, "=", 2)
				ctx = drpcmetadata.Add(ctx, p[0], p[1])
			}
		}
		w.issue(f[1], func() string {
			st, err := w.Conn.NewStream(ctx, rpcName(idx, f[3]), w.enc)
			if err != nil {
				return errName(err)
			}
			w.mu.Lock()
			w.streams[idx] = st
			w.mu.Unlock()
			return "ok"
		})
	case "snd": // snd!op!idx!seq!len
		idx, seq, l := atoi(f[2]), atoi(f[3]), atoi(f[4])
		st := w.stream(idx)
		w.issue(f[1], func() string {
			if st == nil {
				return "nostream"
			}
			return errName(st.MsgSend(Payload(idx, 1, seq, l), w.enc))
		})
	case "rcv": // rcv!op!idx
		st := w.stream(atoi(f[2]))
		w.issue(f[1], func() string {
			if st == nil {
				return "nostream"
			}
			var out []byte
			if err := st.MsgRecv(&out, w.enc); err != nil {
				return errName(err)
			}
			return "ok:" + Describe(out)
		})
	case "rcvf": // rcvf!op!idx : a receive whose Unmarshal fails
		st := w.stream(atoi(f[2]))
		w.issue(f[1], func() string {
			if st == nil {
				return "nostream"
			}
			var out []byte
			if err := st.MsgRecv(&out, &sm.Enc{Fail: true}); err != nil {
				return errName(err)
			}
			return "ok:" + Describe(out)
		})
	case "cls":
		st := w.stream(atoi(f[2]))
		w.issue(f[1], func() string {
			if st == nil {
				return "nostream"
			}
			return errName(st.CloseSend())
		})
	case "clo":
		st := w.stream(atoi(f[2]))
		w.issue(f[1], func() string {
			if st == nil {
				return "nostream"
			}
			return errName(st.Close())
		})
	case "can": // cancel context
		if c := w.ctxs[atoi(f[1])]; c != nil {
			c()
		} else {
			w.ctx(atoi(f[1]))
			w.ctxs[atoi(f[1])]()
		}
	case "cclose":
		w.issue(f[1], func() string { return errName(w.Conn.Close()) })
	case "scancel":
		w.srvCancel()
	case "flow":
		w.P.SetFlow(f[1] == "1")
	case "lazy":
		w.P.SetLazyClose(f[1] == "1")
	case "ack":
		w.end(f[1]).Ack()
	case "del":
		w.end(f[1]).Deliver(atoi(f[2]))
	case "failw":
		w.end(f[1]).FailWrite(ErrInjected)
	case "failr":
		w.end(f[1]).FailRead(ErrInjected)
	case "tclose": // the end is taken down from outside
		w.end(f[1]).Break()
	case "fail": // the transport breaks: every pending and later Read and Write of this end fails
		w.end(f[1]).FailWrite(ErrInjected)
		w.end(f[1]).FailRead(ErrInjected)
	case "fls":
		st := w.stream(atoi(f[2]))
		w.issue(f[1], func() string {
			fl, ok := st.(interface{ RawFlush() error })
			if !ok {
				return "nostream"
			}
			return errName(fl.RawFlush())
		})
	case "pump": // acknowledge and deliver everything, repeatedly, until nothing moves
		for i := 0; i < 200; i++ {
			w.D.Settle()
			a, b := w.A.Status(), w.B.Status()
			if !a.WriteParked && !b.WriteParked && a.Inbound == 0 && b.Inbound == 0 {
				break
			}
			w.A.Ack()
			w.B.Ack()
			w.A.Deliver(-1)
			w.B.Deliver(-1)
		}
	}
	return w.observe()
}

func (w *World) end(s string) *director.End {
	if s == "A" {
		return w.A
	}
	return w.B
}

func (w *World) stream(idx int) drpc.Stream {
	w.mu.Lock()
	defer w.mu.Unlock()
	return w.streams[idx]
}

func (w *World) issue(name string, f func() string) {
	w.issued = append(w.issued, name)
	w.D.Go(name, f)
}

func unhexBytes(s string) []byte {
	b := make([]byte, len(s)/2)
	for i := range b {
		v, _ := strconv.ParseUint(s[2*i:2*i+2], 16, 8)
		b[i] = byte(v)
	}
	return b
}

// stackHas reports whether every given function is on the calling goroutine's stack.
func stackHas(fns ...string) bool {
	var pcs [48]uintptr
	n := runtime.Callers(2, pcs[:])
	frames := runtime.CallersFrames(pcs[:n])
	found := map[string]bool{}
	for {
		fr, more := frames.Next()
		for _, f := range fns {
			if strings.HasSuffix(fr.Function, f) {
				found[f] = true
			}
		}
		if !more {
			break
		}
	}
	return len(found) == len(fns)
}

func closedCh(ch <-chan struct{}) bool {
	select {
	case <-ch:
		return true
	default:
		return false
	}
}

// Obs is the structured observation at a quiescent point.
type Obs struct {
	Done         []string // "op=result" newly completed
	Pending      []string
	Log          []string // new handler events
	Census       []string
	ClientCensus []string // library goroutines started on behalf of the client endpoint
	ServerCensus []string
	A, B         director.Status
	ConnClosed   bool
	Text         string
}

var Last Obs

func (w *World) observe() string {
	gs, err := w.D.Settle()
	if err != nil {
		w.Failed = err.Error()
	}
	var o Obs
	for _, name := range w.issued {
		res, ok := w.D.Result(name)
		if ok {
			if !w.seen[name] {
				w.seen[name] = true
				o.Done = append(o.Done, name+"="+res)
			}
		} else {
			o.Pending = append(o.Pending, name)
		}
	}
	w.mu.Lock()
	o.Log = append(o.Log, w.log[w.logN:]...)
	w.logN = len(w.log)
	w.mu.Unlock()
	o.Census = w.D.Census(gs)
	if w.serveG == "" {
		w.serveG = w.D.OpGoroutine("serve")
	}
	o.ServerCensus = w.D.CensusBy(gs, w.serveG, true)
	for _, c := range w.D.CensusBy(gs, w.serveG, false) {
		o.ClientCensus = append(o.ClientCensus, c)
	}
	o.A, o.B = w.A.Status(), w.B.Status()
	o.ConnClosed = closedCh(w.Conn.Closed())
	st := func(s director.Status) string {
		return fmt.Sprintf("w%s.r%s.q%d.c%d", b01(s.WriteParked), b01(s.ReadParked), s.Inbound+s.Readable, s.Closes)
	}
	o.Text = fmt.Sprintf("[d=%s p=%s h=%s A=%s B=%s X%s]", strings.Join(o.Done, ","), strings.Join(o.Pending, ","),
		strings.Join(o.Log, ","), st(o.A), st(o.B), b01(o.ConnClosed))
	Last = o
	w.last = o
	return o.Text
}

func b01(b bool) string {
	if b {
		return "1"
	}
	return "0"
}

// Cleanup tears the world down and reports goroutines of the library that stay behind.
func (w *World) Cleanup() []string {
	w.P.SetFlow(true)
	w.srvCancel()
	for _, c := range w.ctxs {
		c()
	}
	w.D.Go("cleanup-close", func() string { _ = w.Conn.Close(); return "" })
	w.D.Settle()
	w.A.Break()
	w.B.Break()
	gs, _ := w.D.Settle()
	return w.D.Census(gs)
}

// LastObs returns the structured form of the most recent observation.
func (w *World) LastObs() Obs { return w.last }
