package e2e

import (
	"context"
	"errors"
	"fmt"
	"net"
	"strings"
	"sync"
	"time"

	"storj.io/drpc/drpcserver"
	"verifharness/corr"
	"verifharness/director"
	sm "verifharness/suites/stream"
)

// netEnd adapts a director.End to net.Conn and counts Close calls.
type netEnd struct {
	*director.End
	mu     sync.Mutex
	closes int
}

func (n *netEnd) Close() error {
	n.mu.Lock()
	n.closes++
	n.mu.Unlock()
	return n.End.Close()
}
func (n *netEnd) LocalAddr() net.Addr                { return addr{} }
func (n *netEnd) RemoteAddr() net.Addr               { return addr{} }
func (n *netEnd) SetDeadline(t time.Time) error      { return nil }
func (n *netEnd) SetReadDeadline(t time.Time) error  { return nil }
func (n *netEnd) SetWriteDeadline(t time.Time) error { return nil }

type addr struct{}

func (addr) Network() string { return "director" }
func (addr) String() string  { return "director" }

// scripted listener: Accept hands out the queued connections one per permit; `onAccept` runs just
// before a connection is returned (used to cancel the context at exactly that moment).
type listener struct {
	mu       sync.Mutex
	cond     *sync.Cond
	queue    []*netEnd
	closed   bool
	onAccept func()
}

func newListener() *listener { l := &listener{}; l.cond = sync.NewCond(&l.mu); return l }

func (l *listener) Accept() (net.Conn, error) {
	l.mu.Lock()
	for len(l.queue) == 0 && !l.closed {
		l.cond.Wait()
	}
	if len(l.queue) == 0 {
		l.mu.Unlock()
		return nil, errors.New("listener closed")
	}
	c := l.queue[0]
	l.queue = l.queue[1:]
	f := l.onAccept
	l.mu.Unlock()
	if f != nil {
		f()
	}
	return c, nil
}
func (l *listener) Close() error {
	l.mu.Lock()
	l.closed = true
	l.cond.Broadcast()
	l.mu.Unlock()
	return nil
}
func (l *listener) Addr() net.Addr { return addr{} }
func (l *listener) push(c *netEnd) {
	l.mu.Lock()
	l.queue = append(l.queue, c)
	l.cond.Broadcast()
	l.mu.Unlock()
}

// famServe: Server.Serve with its context cancelled at various moments; Serve must return only after
// every connection it accepted has been torn down (transport closed exactly once), leaving nothing behind.
func famServe(o *corr.Out) {
	for _, when := range []string{"idle", "at-accept", "mid-rpc", "after-rpc"} {
		d := director.New()
		w := &World{D: d, streams: nil, seen: map[string]bool{}}
		_ = w
		lis := newListener()
		ctx, cancel := context.WithCancel(context.Background())
		srv := drpcserver.New(handler{&World{D: d, enc: &sm.Enc{}}})
		d.Go("serve", func() string { return errName(srv.Serve(ctx, lis)) })
		d.Settle()
		p, a, b := director.NewPipe()
		p.Flow = true
		nb := &netEnd{End: b}
		desc := "serve when=" + when
		switch when {
		case "idle":
			cancel()
		case "at-accept":
			lis.mu.Lock()
			lis.onAccept = cancel
			lis.mu.Unlock()
			lis.push(nb)
		case "mid-rpc", "after-rpc":
			lis.push(nb)
			d.Settle()
			// a raw client: invoke + message + close-send for a handler that waits for its context
			prog := "w.x"
			if when == "after-rpc" {
				prog = "r1.x"
			}
			w2 := rawInvoke(1, prog)
			_, _ = a.Write(w2)
			d.Settle()
			cancel()
		}
		gs, err := d.Settle()
		_, done := d.Result("serve")
		nb.mu.Lock()
		closes := nb.closes
		nb.mu.Unlock()
		census := d.Census(gs)
		accepted := when != "idle"
		switch {
		case err != nil:
			o.Oracle("harness:not-quiescent", desc, err.Error())
		case !done:
			o.Oracle("C12:serve-returns", desc, "Serve has not returned after its context was cancelled; blocked: "+strings.Join(census, " | "))
		case accepted && closes != 1:
			o.Oracle("C12:serve-waits-for-connections", desc, fmt.Sprintf("Serve returned but the accepted connection was closed %d times", closes))
		case len(census) > 0:
			o.Oracle("C12:no-goroutine-left", desc, "after Serve returned: "+strings.Join(census, " | "))
		default:
			o.OracleOK("C12:serve")
		}
		o.Explore(desc, true)
		cancel()
		a.Break()
		b.Break()
		d.Settle()
	}
}
