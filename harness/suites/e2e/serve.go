package e2e

import (
	"context"
	"errors"
	"fmt"
	"net"
	"sort"
	"storj.io/drpc/drpcwire"
	"strings"
	"sync"
	"time"

	"storj.io/drpc/drpcserver"
	"verifharness/corr"
	"verifharness/director"
	sm "verifharness/suites/stream"
)

// netEnd adapts a director.End to net.Conn and counts Close calls.
type netEnd struct {
	*director.End
	mu     sync.Mutex
	closes int
}

func (n *netEnd) Close() error {
	n.mu.Lock()
	n.closes++
	n.mu.Unlock()
	return n.End.Close()
}
func (n *netEnd) LocalAddr() net.Addr                { return addr{} }
func (n *netEnd) RemoteAddr() net.Addr               { return addr{} }
func (n *netEnd) SetDeadline(t time.Time) error      { return nil }
func (n *netEnd) SetReadDeadline(t time.Time) error  { return nil }
func (n *netEnd) SetWriteDeadline(t time.Time) error { return nil }

type addr struct{}

func (addr) Network() string { return "director" }
func (addr) String() string  { return "director" }

// scripted listener: Accept hands out the queued connections one per permit; `onAccept` runs just
// before a connection is returned (used to cancel the context at exactly that moment).
type listener struct {
	mu       sync.Mutex
	cond     *sync.Cond
	queue    []*netEnd
	closed   bool
	onAccept func()
}

func newListener() *listener { l := &listener{}; l.cond = sync.NewCond(&l.mu); return l }

func (l *listener) Accept() (net.Conn, error) {
	l.mu.Lock()
	for len(l.queue) == 0 && !l.closed {
		l.cond.Wait()
	}
	if len(l.queue) == 0 {
		l.mu.Unlock()
		return nil, errors.New("listener closed")
	}
	c := l.queue[0]
	l.queue = l.queue[1:]
	f := l.onAccept
	l.mu.Unlock()
	if f != nil {
		f()
	}
	return c, nil
}
func (l *listener) Close() error {
	l.mu.Lock()
	l.closed = true
	l.cond.Broadcast()
	l.mu.Unlock()
	return nil
}
func (l *listener) Addr() net.Addr { return addr{} }
func (l *listener) push(c *netEnd) {
	l.mu.Lock()
	l.queue = append(l.queue, c)
	l.cond.Broadcast()
	l.mu.Unlock()
}

// famServe: Server.Serve with its context cancelled at various moments; Serve must return only after
// every connection it accepted has been torn down (transport closed exactly once), leaving nothing behind.
func famServe(o *corr.Out) {
	for _, when := range []string{"idle", "at-accept", "mid-rpc", "after-rpc"} {
		d := director.New()
		w := &World{D: d, streams: nil, seen: map[string]bool{}}
		_ = w
		lis := newListener()
		ctx, cancel := context.WithCancel(context.Background())
		srv := drpcserver.New(handler{&World{D: d, enc: &sm.Enc{}}})
		d.Go("serve", func() string { return errName(srv.Serve(ctx, lis)) })
		d.Settle()
		p, a, b := director.NewPipe()
		p.Flow = true
		nb := &netEnd{End: b}
		desc := "serve when=" + when
		switch when {
		case "idle":
			cancel()
		case "at-accept":
			lis.mu.Lock()
			lis.onAccept = cancel
			lis.mu.Unlock()
			lis.push(nb)
		case "mid-rpc", "after-rpc":
			lis.push(nb)
			d.Settle()
			// a raw client: invoke + message + close-send for a handler that waits for its context
			prog := "w.x"
			if when == "after-rpc" {
				prog = "r1.x"
			}
			w2 := rawInvoke(1, prog)
			_, _ = a.Write(w2)
			d.Settle()
			cancel()
		}
		gs, err := d.Settle()
		_, done := d.Result("serve")
		nb.mu.Lock()
		closes := nb.closes
		nb.mu.Unlock()
		census := d.Census(gs)
		accepted := when != "idle"
		switch {
		case err != nil:
			o.Oracle("harness:not-quiescent", desc, err.Error())
		case !done:
			o.Oracle("C12:serve-returns", desc, "Serve has not returned after its context was cancelled; blocked: "+strings.Join(census, " | "))
		case accepted && closes != 1:
			o.Oracle("C12:serve-waits-for-connections", desc, fmt.Sprintf("Serve returned but the accepted connection was closed %d times", closes))
		case len(census) > 0:
			o.Oracle("C12:no-goroutine-left", desc, "after Serve returned: "+strings.Join(census, " | "))
		default:
			o.OracleOK("C12:serve")
		}
		o.Explore(desc, true)
		cancel()
		a.Break()
		b.Break()
		d.Settle()
	}
}

// famServeHostile: a peer sends packets no client would: undecodable metadata, metadata only, an
// invoke on top of a running stream, a message for a stream that was never invoked.  ServeOne must
// either go on serving or return; when it returns it has closed the transport once and left nothing.
func famServeHostile(o *corr.Out) {
	frame := func(kind drpcwire.Kind, sid, mid uint64, data []byte) []byte {
		return drpcwire.AppendFrame(nil, drpcwire.Frame{Data: data, ID: drpcwire.ID{Stream: sid, Message: mid}, Kind: kind, Done: true})
	}
	cases := map[string][]byte{
		"bad-metadata":             frame(drpcwire.KindInvokeMetadata, 1, 1, []byte{0x0a, 0x05, 0x01}),
		"bad-metadata-then-invoke": append(frame(drpcwire.KindInvokeMetadata, 1, 1, []byte{0x0a, 0x05, 0x01}), frame(drpcwire.KindInvoke, 1, 2, []byte("/p/1/x"))...),
		"metadata-only":            frame(drpcwire.KindInvokeMetadata, 1, 1, []byte{0x0a, 0x04, 0x0a, 0x00, 0x12, 0x00}),
		"orphan-message":           frame(drpcwire.KindMessage, 3, 1, []byte("hello")),
		"invoke-twice":             append(frame(drpcwire.KindInvoke, 1, 1, []byte("/p/1/w.x")), frame(drpcwire.KindInvoke, 1, 2, []byte("/p/1/x"))...),
	}
	// a call abandoned between its metadata and its invoke (soft cancel), then a complete call: the
	// second call's handler must run (the connection keeps serving)
	abandoned := append(frame(drpcwire.KindInvokeMetadata, 1, 1, []byte{0x0a, 0x04, 0x0a, 0x00, 0x12, 0x00}),
		drpcwire.AppendFrame(nil, drpcwire.Frame{ID: drpcwire.ID{Stream: 1, Message: 2}, Kind: drpcwire.KindCancel, Control: true, Done: true})...)
	full2 := append(frame(drpcwire.KindInvoke, 2, 1, []byte("/p/2/x")), frame(drpcwire.KindCloseSend, 2, 2, nil)...)
	cases["abandoned-then-call"] = append(abandoned, full2...)
	var names []string
	for n := range cases {
		names = append(names, n)
	}
	sort.Strings(names)
	for _, name := range names {
		d := director.New()
		srv := drpcserver.New(handler{&World{D: d, enc: &sm.Enc{}}})
		p, a, b := director.NewPipe()
		p.Flow = true
		nb := &netEnd{End: b}
		ctx, cancel := context.WithCancel(context.Background())
		hw := &World{D: d, enc: &sm.Enc{}}
		srv = drpcserver.New(handler{hw})
		d.Go("serve1", func() string { return errName(srv.ServeOne(ctx, nb)) })
		d.Settle()
		_, _ = a.Write(cases[name])
		d.Settle()
		_, returned := d.Result("serve1")
		desc := "serve-hostile " + name
		if name == "abandoned-then-call" {
			hw.mu.Lock()
			ran := strings.Contains(strings.Join(hw.log, ","), "H2:start")
			hw.mu.Unlock()
			if !ran && !returned {
				gs, _ := d.Settle()
				o.Oracle("C06:probe-completes", desc, "the call after an abandoned one never reached its handler; blocked: "+strings.Join(d.Census(gs), " | "))
			} else {
				o.OracleOK("C06:probe-completes")
			}
		}
		if !returned {
			// still serving is fine; then cancelling its context must end it
			cancel()
			d.Settle()
			_, returned = d.Result("serve1")
		}
		gs, err := d.Settle()
		census := d.Census(gs)
		nb.mu.Lock()
		closes := nb.closes
		nb.mu.Unlock()
		switch {
		case err != nil:
			o.Oracle("harness:not-quiescent", desc, err.Error())
		case !returned:
			o.Oracle("C12:serve-returns", desc, "ServeOne has not returned; blocked: "+strings.Join(census, " | "))
		case closes != 1:
			o.Oracle("C12:serve-waits-for-connections", desc, fmt.Sprintf("ServeOne returned and closed the transport %d times", closes))
		case len(census) > 0:
			o.Oracle("C12:no-goroutine-left", desc, "after ServeOne returned: "+strings.Join(census, " | "))
		default:
			o.OracleOK("C12:serve")
		}
		o.Explore(desc, true)
		cancel()
		a.Break()
		b.Break()
		d.Settle()
	}
}

// ---- Serve / Tracker against the Lean model (Drpc/Server/Serve.lean) -------------------------------

type tempErr struct{}

func (tempErr) Error() string   { return "temporary accept failure" }
func (tempErr) Timeout() bool   { return false }
func (tempErr) Temporary() bool { return true }

// mlistener: a closed listener fails Accept; otherwise queued errors come first, then queued
// connections; otherwise Accept blocks.
type mlistener struct {
	mu       sync.Mutex
	cond     *sync.Cond
	connsAny []net.Conn
	errs     []error
	closes   int
	waiters  int // Accept calls parked waiting for something to arrive
}

func newMListener() *mlistener { l := &mlistener{}; l.cond = sync.NewCond(&l.mu); return l }

func (l *mlistener) Accept() (net.Conn, error) {
	l.mu.Lock()
	defer l.mu.Unlock()
	for {
		switch {
		case l.closes > 0:
			return nil, errors.New("listener closed")
		case len(l.errs) > 0:
			e := l.errs[0]
			l.errs = l.errs[1:]
			return nil, e
		case len(l.connsAny) > 0:
			c := l.connsAny[0]
			l.connsAny = l.connsAny[1:]
			return c, nil
		}
		l.waiters++
		l.cond.Wait()
		l.waiters--
	}
}
func (l *mlistener) Close() error {
	l.mu.Lock()
	l.closes++
	l.cond.Broadcast()
	l.mu.Unlock()
	return nil
}
func (l *mlistener) Addr() net.Addr { return addr{} }

// readEnd notes the first Read on a connection (ServeOne has started).
type readEnd struct {
	*netEnd
	once    sync.Once
	started func()
}

func (r *readEnd) Read(p []byte) (int, error) {
	r.once.Do(r.started)
	return r.netEnd.Read(p)
}

func famServeModel(o *corr.Out, n int) {
	r := o.Rand
	for it := 0; it < n; it++ {
		d := director.New()
		lis := newMListener()
		ctx, cancel := context.WithCancel(context.Background())
		srv := drpcserver.New(handler{&World{D: d, enc: &sm.Enc{}}})
		d.Go("serve", func() string { return errName(srv.Serve(ctx, lis)) })
		d.Settle()
		var mu sync.Mutex
		var served []int
		type cn struct {
			a  *director.End
			nb *netEnd
		}
		var conns []cn
		nops := 1 + r.Intn(6)
		var ops, obs []string
		usedTemp := false
		for i := 0; i < nops; i++ {
			var op string
			switch k := r.Intn(10); {
			case k < 3:
				op = "connect"
			case k < 4:
				op = "burst" // two connections arrive before the accept loop looks again
			case k < 6:
				op = "cancel"
			case k < 7 && !usedTemp:
				op = "accepterr:temp"
				usedTemp = true
			case k < 8:
				op = "accepterr:perm"
			default:
				if len(conns) == 0 {
					op = "connect"
				} else {
					op = fmt.Sprintf("end:%d", r.Intn(len(conns)))
				}
			}
			ops = append(ops, op)
			switch {
			case op == "burst":
				lis.mu.Lock()
				open := lis.closes == 0
				if open {
					for k := 0; k < 2; k++ {
						p, a, b := director.NewPipe()
						p.Flow = true
						id := len(conns)
						nb := &netEnd{End: b}
						conns = append(conns, cn{a, nb})
						lis.connsAny = append(lis.connsAny, &readEnd{netEnd: nb, started: func() { mu.Lock(); served = append(served, id); mu.Unlock() }})
					}
					lis.cond.Broadcast()
				}
				lis.mu.Unlock()
			case op == "connect":
				p, a, b := director.NewPipe()
				p.Flow = true
				id := len(conns)
				nb := &netEnd{End: b}
				conns = append(conns, cn{a, nb})
				re := &readEnd{netEnd: nb, started: func() { mu.Lock(); served = append(served, id); mu.Unlock() }}
				lis.mu.Lock()
				if lis.closes == 0 {
					lis.connsAny = append(lis.connsAny, re)
					lis.cond.Broadcast()
				} else {
					conns = conns[:len(conns)-1] // the model refuses a connection to a closed listener: forget it
				}
				lis.mu.Unlock()
			case op == "cancel":
				cancel()
			case strings.HasPrefix(op, "accepterr"):
				lis.mu.Lock()
				if op == "accepterr:temp" {
					lis.errs = append(lis.errs, tempErr{})
				} else {
					lis.errs = append(lis.errs, errors.New("permanent accept failure"))
				}
				lis.cond.Broadcast()
				lis.mu.Unlock()
			default:
				var c int
				fmt.Sscanf(op, "end:%d", &c)
				conns[c].a.Break()
			}
			if op == "accepterr:temp" {
				// Serve sleeps 500ms after a temporary error: wait until it is back in Accept (or gone)
				for dl := time.Now().Add(20 * time.Second); time.Now().Before(dl); {
					time.Sleep(50 * time.Millisecond)
					lis.mu.Lock()
					back := (lis.waiters > 0 && len(lis.errs) == 0) || lis.closes > 0
					lis.mu.Unlock()
					if _, done := d.Result("serve"); back || done {
						break
					}
				}
			}
			d.Settle()
			res, done := d.Result("serve")
			ret := "-"
			if done {
				if res == "nil" {
					ret = "nil"
				} else {
					ret = "err"
				}
			}
			lis.mu.Lock()
			closes := lis.closes
			lis.mu.Unlock()
			mu.Lock()
			sv := append([]int(nil), served...)
			mu.Unlock()
			var ended []int
			for id, c := range conns {
				c.nb.mu.Lock()
				if c.nb.closes > 0 {
					ended = append(ended, id)
				}
				c.nb.mu.Unlock()
			}
			obs = append(obs, fmt.Sprintf("[ret=%s returned=%s closes=%d served=%s ended=%s]", ret, b01(done), closes, ids(sortedInts(sv)), ids(ended)))
		}
		// every accepted connection is driven by exactly one manager: never two reads (or two writes)
		// in flight on one transport
		over := ""
		for id, c := range conns {
			if mw, mr := c.nb.End.Limits(); mw > 1 || mr > 1 {
				over = fmt.Sprintf("connection %d saw %d reads / %d writes in flight at once", id, mr, mw)
			}
		}
		if over != "" {
			o.Oracle("C07:one-manager-per-connection", "serve ops="+strings.Join(ops, ","), over)
		} else {
			o.OracleOK("C07:one-manager-per-connection")
		}
		o.Case("serve ops="+strings.Join(ops, ","), strings.Join(obs, " "), len(ops) >= 3)
		o.Stat(fmt.Sprintf("serve-model:ops%d", len(ops)))
		cancel()
		for _, c := range conns {
			c.a.Break()
			c.nb.End.Break()
		}
		d.Settle()
	}
}

func sortedInts(xs []int) []int {
	out := append([]int(nil), xs...)
	sort.Ints(out)
	return out
}

func ids(xs []int) string {
	if len(xs) == 0 {
		return "-"
	}
	var s []string
	for _, x := range xs {
		s = append(s, fmt.Sprint(x))
	}
	return strings.Join(s, ".")
}
