// Package reader: correspondence + direct oracles for drpcwire.Reader (C09).
package reader

import (
	"bytes"
	"errors"
	"fmt"
	"io"
	"strconv"
	"strings"

	"storj.io/drpc"
	"storj.io/drpc/drpcwire"
	"verifharness/corr"
	"verifharness/suites/wire"
)

type tagErr struct{ tag int }

func (e tagErr) Error() string { return "scripted transport error " + strconv.Itoa(e.tag) }

func finalErr(tag int) error {
	if tag == 0 {
		return io.EOF
	}
	return tagErr{tag}
}

// scripted io.Reader: the i-th Read returns min(len(p), sizes[i], remaining) bytes (at least 1
// while data remains); the final error is attached to the last data read or returned afterwards.
type script struct {
	data     []byte
	sizes    []int
	i        int
	final    error
	attached bool
	empties  int // number of (0,nil) reads to interleave before each data read
	e        int
	offered  []int
}

func (s *script) Read(p []byte) (int, error) {
	s.offered = append(s.offered, len(p))
	if len(s.data) == 0 {
		return 0, s.final
	}
	if s.e < s.empties {
		s.e++
		return 0, nil
	}
	s.e = 0
	n := 1 << 30
	if s.i < len(s.sizes) {
		n = s.sizes[s.i]
	}
	s.i++
	if n > len(p) {
		n = len(p)
	}
	if n > len(s.data) {
		n = len(s.data)
	}
	if n < 1 {
		n = 1
	}
	copy(p, s.data[:n])
	s.data = s.data[n:]
	if len(s.data) == 0 && s.attached {
		return n, s.final
	}
	return n, nil
}

func errClass(err error) string {
	var te tagErr
	switch {
	case err == nil:
		return "nil"
	case drpc.ProtocolError.Has(err):
		return "protocol"
	case drpc.InternalError.Has(err):
		return "internal"
	case errors.Is(err, io.EOF):
		return "transport:0"
	case errors.As(err, &te):
		return fmt.Sprintf("transport:%d", te.tag)
	}
	return "other:" + err.Error()
}

type result struct {
	pkts   []string // without cap
	caps   []int
	err    string
	errCap int
	maxReq int
}

func run(stream []byte, max int, sizes []int, final int, attached bool, empties int) (res result) {
	defer func() {
		if r := recover(); r != nil {
			res.err = "panic"
		}
	}()
	sc := &script{data: append([]byte(nil), stream...), sizes: sizes, final: finalErr(final), attached: attached, empties: empties}
	rd := drpcwire.NewReaderWithOptions(sc, drpcwire.ReaderOptions{MaximumBufferSize: max})
	var buf []byte
	for n := 0; n < 1<<20; n++ {
		pkt, err := rd.ReadPacketUsing(buf[:0])
		if err != nil {
			res.err = errClass(err)
			res.errCap = rd.VerifBufCap()
			break
		}
		buf = pkt.Data
		res.pkts = append(res.pkts, fmt.Sprintf("%d,%d,%d,%s,%s", pkt.ID.Stream, pkt.ID.Message, pkt.Kind, corr.B01(pkt.Control), corr.Hex(pkt.Data)))
		res.caps = append(res.caps, rd.VerifBufCap())
	}
	for _, o := range sc.offered {
		if o > res.maxReq {
			res.maxReq = o
		}
	}
	return res
}

func (r result) observable() string { return strings.Join(r.pkts, " ") + " E[" + r.err + "]" }

func (r result) full() string {
	var sb strings.Builder
	for i, p := range r.pkts {
		fmt.Fprintf(&sb, "P[%s,%d] ", p, r.caps[i])
	}
	fmt.Fprintf(&sb, "E[%s,%d]", r.err, r.errCap)
	return sb.String()
}

// ---- independent reference reassembly (from the property statement) over the reference decoder ----

func reference(stream []byte, max int, final int) string {
	var out []string
	rid := drpcwire.ID{Stream: 1, Message: 1}
	type cur struct {
		id      drpcwire.ID
		kind    drpcwire.Kind
		control bool
		data    []byte
	}
	var c *cur
	for {
		r := wire.RefDecode(stream)
		switch r.State() {
		case "err":
			return strings.Join(out, " ") + " E[protocol]"
		case "short":
			if len(stream) > max+31 {
				return strings.Join(out, " ") + " E[protocol]"
			}
			return strings.Join(out, " ") + fmt.Sprintf(" E[transport:%d]", final)
		}
		fr := r.Frame()
		stream = stream[len(stream)-r.Rem():]
		if fr.ID.Less(rid) { // ids never go backwards
			return strings.Join(out, " ") + " E[protocol]"
		}
		if c == nil || c.id != fr.ID { // first frame of a packet / a higher id discards the unfinished one
			c = &cur{id: fr.ID, kind: fr.Kind, control: fr.Control}
			rid = fr.ID
		} else {
			if fr.Kind != c.kind { // kind constant within a packet
				return strings.Join(out, " ") + " E[protocol]"
			}
			c.control = c.control || fr.Control
		}
		c.data = append(c.data, fr.Data...)
		if len(c.data) > max {
			return strings.Join(out, " ") + " E[protocol]"
		}
		if fr.Done {
			out = append(out, fmt.Sprintf("%d,%d,%d,%s,%s", c.id.Stream, c.id.Message, c.kind, corr.B01(c.control), corr.Hex(c.data)))
			rid = drpcwire.ID{Stream: fr.ID.Stream, Message: fr.ID.Message + 1}
			c = nil
		}
	}
}

// ---- generators ----

type gen struct{ o *corr.Out }

func (g gen) payload(n int) []byte {
	b := make([]byte, n)
	g.o.Rand.Read(b)
	return b
}

func enc(frs []drpcwire.Frame) []byte {
	var b []byte
	for _, fr := range frs {
		b = drpcwire.AppendFrame(b, fr)
	}
	return b
}

// producible: what a stream layer emits: increasing ids, multi-frame packets, done on the last
func (g gen) producible(max int) []drpcwire.Frame {
	r := g.o.Rand
	var frs []drpcwire.Frame
	sid, mid := uint64(1), uint64(0)
	n := 1 + r.Intn(6)
	for i := 0; i < n; i++ {
		if r.Intn(5) == 0 {
			sid += uint64(1 + r.Intn(3))
			mid = 0
		}
		mid++
		kind := drpcwire.Kind(1 + r.Intn(7))
		total := g.size(max)
		nf := 1 + r.Intn(4)
		data := g.payload(total)
		for j := 0; j < nf; j++ {
			part := data
			if j < nf-1 {
				k := 0
				if len(data) > 0 {
					k = r.Intn(len(data) + 1)
				}
				part, data = data[:k], data[k:]
			}
			frs = append(frs, drpcwire.Frame{Data: part, ID: drpcwire.ID{Stream: sid, Message: mid}, Kind: kind, Done: j == nf-1,
				Control: kind == 4 && j == 0})
		}
	}
	return frs
}

func (g gen) size(max int) int {
	r := g.o.Rand
	switch r.Intn(8) {
	case 0:
		return 0
	case 1:
		return max
	case 2:
		if max > 0 {
			return max - 1
		}
		return 0
	case 3:
		return max + 1
	case 4:
		return max/2 + r.Intn(3)
	default:
		m := max
		if m > 64 {
			m = 64
		}
		return r.Intn(m + 1)
	}
}

// unusual / malformed variations of a producible sequence
func (g gen) mutate(frs []drpcwire.Frame, max int) ([]drpcwire.Frame, string) {
	r := g.o.Rand
	if len(frs) == 0 {
		return frs, "empty"
	}
	i := r.Intn(len(frs))
	out := append([]drpcwire.Frame(nil), frs...)
	switch r.Intn(9) {
	case 0: // stale id
		out[i].ID.Message = 0
		return out, "stale-mid0"
	case 1: // duplicate a done frame (id reuse)
		out = append(out[:i+1], append([]drpcwire.Frame{out[i]}, out[i+1:]...)...)
		return out, "dup"
	case 2: // kind change inside a packet
		out[i].Kind ^= 1
		return out, "kindflip"
	case 3: // control on a middle frame
		out[i].Control = !out[i].Control
		return out, "ctlflip"
	case 4: // drop done -> unfinished packet superseded by next id
		out[i].Done = false
		return out, "undone"
	case 5: // big id jump
		for j := i; j < len(out); j++ {
			out[j].ID.Stream += 1 << 40
		}
		return out, "jump"
	case 6: // huge ids (10-byte varints)
		for j := i; j < len(out); j++ {
			out[j].ID.Stream |= 1 << 63
			out[j].ID.Message |= 1 << 63
		}
		return out, "hugeids"
	case 7: // oversize frame
		out[i].Data = g.payload(max + 1 + r.Intn(40))
		return out, "oversize"
	default: // swap two frames
		j := r.Intn(len(out))
		out[i], out[j] = out[j], out[i]
		return out, "swap"
	}
}

func (g gen) chunkings(stream []byte, frs []drpcwire.Frame) map[string][]int {
	r := g.o.Rand
	cs := map[string][]int{
		"all":   {1 << 30},
		"one":   nil, // filled below
		"seven": nil,
	}
	ones := make([]int, len(stream))
	for i := range ones {
		ones[i] = 1
	}
	if len(ones) > 300 { // byte-by-byte for the first 300 reads, then 13 bytes at a time (keeps the model replay fast)
		ones = ones[:300]
		for k := 0; k < len(stream)/13+1; k++ {
			ones = append(ones, 13)
		}
	}
	cs["one"] = ones
	sev := make([]int, len(stream)/7+1)
	for i := range sev {
		sev[i] = 7
	}
	cs["seven"] = sev
	// frame aligned
	var al []int
	for _, fr := range frs {
		al = append(al, len(drpcwire.AppendFrame(nil, fr)))
	}
	cs["aligned"] = al
	// straddling: cut inside each header and payload
	var st []int
	for _, fr := range frs {
		l := len(drpcwire.AppendFrame(nil, fr))
		a := 1 + r.Intn(3)
		if a >= l {
			a = l - 1
		}
		st = append(st, a, l-a-1)
		st = append(st, 1)
	}
	var st2 []int
	for _, x := range st {
		if x > 0 {
			st2 = append(st2, x)
		}
	}
	cs["straddle"] = st2
	var rnd []int
	for rem := len(stream); rem > 0; {
		n := 1 + r.Intn(1+r.Intn(200))
		rnd = append(rnd, n)
		rem -= n
	}
	cs["random"] = rnd
	// tail-together: the bytes before the start of one of the last complete frames arrive in random
	// pieces, that frame and everything after it (further frames, an unfinished tail) in ONE read --
	// as much of it as the reader offers room for -- and the transport's error right after (or with) it
	starts := frameStarts(stream)
	cut := 0
	if len(starts) > 0 {
		cut = starts[len(starts)-1-r.Intn(min(3, len(starts)))]
	}
	var tt []int
	for rem := cut; rem > 0; {
		n := 1 + r.Intn(1+r.Intn(200))
		if n > rem {
			n = rem
		}
		tt = append(tt, n)
		rem -= n
	}
	cs["tailtogether"] = append(tt, 1<<30)
	return cs
}

// frameStarts: offsets at which the complete frames of the stream start (reference decoder).
func frameStarts(stream []byte) []int {
	var out []int
	off := 0
	for {
		r := wire.RefDecode(stream[off:])
		if r.State() != "ok" {
			return out
		}
		out = append(out, off)
		off = len(stream) - r.Rem()
	}
}

func sizesStr(s []int) string {
	if len(s) == 0 {
		return "-"
	}
	// run-length compress to keep lines short: a*k
	var parts []string
	for i := 0; i < len(s); {
		j := i
		for j < len(s) && s[j] == s[i] {
			j++
		}
		if j-i > 1 {
			parts = append(parts, fmt.Sprintf("%dx%d", s[i], j-i))
		} else {
			parts = append(parts, strconv.Itoa(s[i]))
		}
		i = j
	}
	return strings.Join(parts, ",")
}

func placement(attached bool) string {
	if attached {
		return "with the last data"
	}
	return "after the last data"
}

func capBound(max int) int { return 2*max + 12348 }

func Run(o *corr.Out) {
	g := gen{o}
	maxes := []int{1, 28, 29, 31, 100, 1000, 4096 - 28, 4096, 5000}
	nStreams := 500
	if o.Thorough {
		nStreams = 12000
	}
	var bothPlacements bool // run every chunking with the final error attached to AND following the last data
	check := func(stream []byte, frs []drpcwire.Frame, max int, class string) {
		final := 0
		if o.Rand.Intn(3) == 0 {
			final = 1 + o.Rand.Intn(3)
		}
		ref := reference(stream, max, final)
		var first string
		var firstName string
		names := []string{"all", "one", "seven", "aligned", "straddle", "random", "tailtogether"}
		cs := g.chunkings(stream, frs)
		type pl struct {
			name     string
			attached bool
			second   bool
		}
		var plan []pl
		for _, name := range names {
			attached := o.Rand.Intn(2) == 0
			plan = append(plan, pl{name, attached, false})
			if bothPlacements {
				plan = append(plan, pl{name, !attached, true})
			}
		}
		for _, p := range plan {
			name, attached := p.name, p.attached
			sizes := cs[name]
			res := run(stream, max, sizes, final, attached, 0)
			obs := res.observable()
			o.Stat("reader:" + class + ":" + res.err)
			o.Stat("reader:chunking:" + name + ":attached=" + corr.B01(attached))
			req := fmt.Sprintf("reader max=%d final=%d stream=%s chunks=%s", max, final, corr.Hex(stream), sizesStr(sizes))
			if !p.second { // the request does not name the placement (the model delivers the error on the next read)
				o.Case(req, res.full(), len(frs) >= 2 && len(sizes) >= 2)
			}
			if first == "" {
				first, firstName = obs, name
			} else if obs != first {
				o.Oracle("chunk-independence", fmt.Sprintf("max=%d final=%d stream=%s", max, final, corr.Hex(stream)),
					fmt.Sprintf("%s: %s ||| %s(%s, error %s): %s", firstName, clip(first), name, sizesStr(sizes), placement(attached), clip(obs)))
			} else {
				o.OracleOK("chunk-independence")
			}
			if strings.TrimSpace(obs) != strings.TrimSpace(ref) {
				o.Oracle("reference-reassembly", fmt.Sprintf("max=%d final=%d stream=%s chunks=%s", max, final, corr.Hex(stream), sizesStr(sizes)),
					fmt.Sprintf("impl (error %s): %s ||| ref: %s", placement(attached), clip(obs), clip(ref)))
			} else {
				o.OracleOK("reference-reassembly")
			}
			if bad := idsBackwards(res.pkts); bad != "" && !strings.Contains(bad, "18446744073709551615") {
				o.Oracle("ids-never-go-backwards", fmt.Sprintf("max=%d stream=%s", max, corr.Hex(stream)), bad)
			} else {
				o.OracleOK("ids-never-go-backwards")
			}
			bound := capBound(max)
			worst := res.errCap
			for _, c := range res.caps {
				if c > worst {
					worst = c
				}
			}
			if worst > bound || res.maxReq > bound {
				o.Oracle("memory-bound", fmt.Sprintf("max=%d stream-len=%d chunks=%s", max, len(stream), sizesStr(sizes)),
					fmt.Sprintf("cap=%d requested=%d bound=%d", worst, res.maxReq, bound))
			} else {
				o.OracleOK("memory-bound")
			}
			// with interleaved empty reads (< 100 consecutive) nothing changes
			if name == "random" && len(stream) < 300 {
				res2 := run(stream, max, sizes, final, attached, 1+o.Rand.Intn(98))
				if res2.observable() != obs {
					o.Oracle("empty-reads-invisible", fmt.Sprintf("max=%d stream=%s", max, corr.Hex(stream)), clip(res2.observable())+" vs "+clip(obs))
				} else {
					o.OracleOK("empty-reads-invisible")
				}
			}
		}
	}
	for i := 0; i < nStreams; i++ {
		max := maxes[o.Rand.Intn(len(maxes))]
		frs := g.producible(max)
		class := "valid"
		for k := o.Rand.Intn(3); k > 0; k-- {
			var m string
			frs, m = g.mutate(frs, max)
			class = m
		}
		stream := enc(frs)
		switch o.Rand.Intn(6) {
		case 0: // truncated
			if len(stream) > 0 {
				stream = stream[:o.Rand.Intn(len(stream))]
				class += "+trunc"
			}
		case 1: // garbage tail
			stream = append(stream, g.payload(o.Rand.Intn(12))...)
			class += "+tail"
		}
		check(stream, frs, max, class)
	}
	// the finding-1 shape: many small complete packets arriving in one read, small maximum
	for _, max := range []int{100, 1000} {
		var frs []drpcwire.Frame
		for m := 1; m <= 40; m++ {
			frs = append(frs, drpcwire.Frame{Data: g.payload(60), ID: drpcwire.ID{Stream: 1, Message: uint64(m)}, Kind: 2, Done: true})
		}
		check(enc(frs), frs, max, "manysmall")
	}
	// a header announcing far more data than allowed, followed by endless filler: must be rejected
	// after buffering at most the bound, never swallowed
	for _, max := range []int{1, 100, 1000, 4096} {
		for _, declared := range []uint64{uint64(max) + 1, 1 << 20, 1 << 40, 1<<63 + 5} {
			hdr := []byte{0x04}
			hdr = drpcwire.AppendVarint(hdr, 1)
			hdr = drpcwire.AppendVarint(hdr, 1)
			hdr = drpcwire.AppendVarint(hdr, declared)
			fill := 3*max + 30000
			if uint64(fill) > declared {
				fill = int(declared) + 50
			}
			stream := append(hdr, g.payload(fill)...)
			check(stream, []drpcwire.Frame{{}, {}}, max, "hugelen")
		}
	}
	// the transport fails in the middle of a frame that can never be accepted: complete frames followed by
	// the first t bytes of a frame announcing more than the maximum, t around the rejection threshold
	// max+31 (the statement: the first error and its class depend only on the bytes -- at max+32 unparsed
	// bytes the stream is rejected with a protocol error however the bytes and the transport's error arrive,
	// up to max+31 the transport's error is reported). Every chunking with both placements of the error.
	bothPlacements = true
	for _, max := range maxes {
		for prefix := 0; prefix < 3; prefix++ {
			var frs []drpcwire.Frame
			pname := ""
			switch prefix {
			case 0: // one small packet
				frs = []drpcwire.Frame{{Data: []byte("hi"), ID: drpcwire.ID{Stream: 1, Message: 1}, Kind: 2, Done: true}}
				pname = "small"
			case 1: // what a stream layer emits (packets up to the maximum: the read buffer has grown)
				frs = g.producible(max)
				pname = "producible"
			default: // several small frames, the last packet unfinished (the cut frame continues it)
				n := 2 + o.Rand.Intn(8)
				for m := 1; m <= n; m++ {
					frs = append(frs, drpcwire.Frame{Data: g.payload(o.Rand.Intn(min(max, 40) + 1)), ID: drpcwire.ID{Stream: 1, Message: uint64(m)}, Kind: 2, Done: m < n})
				}
				pname = "unfinished"
			}
			last := frs[len(frs)-1]
			id := last.ID
			if last.Done {
				id.Message++
			}
			tails := []int{max + 30, max + 31, max + 32, max + 33, max + 32 + 1 + o.Rand.Intn(200)}
			if o.Thorough {
				tails = append(tails, max+32+o.Rand.Intn(20), 2*max+100+o.Rand.Intn(4096), max/2+16)
			}
			for _, t := range tails {
				hdr := []byte{byte(last.Kind) << 1}
				hdr = drpcwire.AppendVarint(hdr, id.Stream)
				hdr = drpcwire.AppendVarint(hdr, id.Message)
				// announced length: a few bytes more than what arrives, somewhat more, far more
				declared := []uint64{uint64(t), uint64(t + 1 + o.Rand.Intn(5000)), 1 << 20, 1 << 40}[o.Rand.Intn(4)]
				hdr = drpcwire.AppendVarint(hdr, declared)
				if t <= len(hdr) {
					continue
				}
				stream := append(enc(frs), hdr...)
				stream = append(stream, g.payload(t-len(hdr))...)
				o.Stat(fmt.Sprintf("reader:cutover:prefix=%s:tail-minus-max=%s", pname, bucket(t-max)))
				check(stream, append(append([]drpcwire.Frame(nil), frs...), drpcwire.Frame{}), max, "cutover")
			}
		}
	}
	bothPlacements = false
	// non-canonical 31-byte headers with payload exactly max (slack boundary), and one above
	for _, max := range []int{100, 1000, 4096} {
		for _, extra := range []int{0, 1} {
			long := func(v byte) []byte { return []byte{0x80 | v, 0x80, 0x80, 0x80, 0x80, 0x80, 0x80, 0x80, 0x80, 0x00} }
			n := max + extra
			hdr := append([]byte{0x05}, long(1)...)
			hdr = append(hdr, long(1)...)
			ln := drpcwire.AppendVarint(nil, uint64(n))
			for len(ln) < 10 { // pad the length varint to 10 bytes
				ln[len(ln)-1] |= 0x80
				ln = append(ln, 0)
			}
			hdr = append(hdr, ln...)
			stream := append(hdr, g.payload(n)...)
			stream = append(stream, drpcwire.AppendFrame(nil, drpcwire.Frame{ID: drpcwire.ID{Stream: 1, Message: 2}, Kind: 2, Done: true, Data: []byte("x")})...)
			check(stream, []drpcwire.Frame{{}, {}}, max, "longheader")
		}
	}
	// all partitions of short streams (exhaustive over chunkings)
	nShort := 6
	if o.Thorough {
		nShort = 60
	}
	for i := 0; i < nShort; i++ {
		frs := []drpcwire.Frame{
			{Data: g.payload(o.Rand.Intn(3)), ID: drpcwire.ID{Stream: 1, Message: 1}, Kind: 2, Done: o.Rand.Intn(2) == 0},
			{Data: g.payload(o.Rand.Intn(2)), ID: drpcwire.ID{Stream: 1, Message: uint64(1 + o.Rand.Intn(2))}, Kind: drpcwire.Kind(2 + o.Rand.Intn(2)), Done: true},
		}
		stream := enc(frs)
		if len(stream) > 12 {
			stream = stream[:12]
		}
		max := []int{1, 2, 100}[o.Rand.Intn(3)]
		ref := reference(stream, max, 0)
		n := len(stream)
		for mask := 0; mask < 1<<uint(n-1); mask++ {
			var sizes []int
			run1 := 1
			for b := 0; b < n-1; b++ {
				if mask&(1<<uint(b)) != 0 {
					sizes = append(sizes, run1)
					run1 = 1
				} else {
					run1++
				}
			}
			sizes = append(sizes, run1)
			res := run(stream, max, sizes, 0, mask%2 == 0, 0)
			if strings.TrimSpace(res.observable()) != strings.TrimSpace(ref) {
				o.Oracle("reference-reassembly", fmt.Sprintf("max=%d final=0 stream=%s chunks=%s", max, corr.Hex(stream), sizesStr(sizes)),
					fmt.Sprintf("impl: %s ||| ref: %s", clip(res.observable()), clip(ref)))
			} else {
				o.OracleOK("reference-reassembly")
			}
			o.Stat("reader:allpartitions")
			if mask%16 == 0 {
				o.Case(fmt.Sprintf("reader max=%d final=0 stream=%s chunks=%s", max, corr.Hex(stream), sizesStr(sizes)), res.full(), true)
			}
		}
	}
	// replay of Props.C09.ids_wrap_counterexample on the implementation (known finding C09-mid-wrap)
	{
		frs := []drpcwire.Frame{
			{ID: drpcwire.ID{Stream: 1, Message: 1<<64 - 1}, Kind: 2, Done: true},
			{ID: drpcwire.ID{Stream: 1, Message: 1}, Kind: 2, Done: true},
		}
		r := run(enc(frs), 100, nil, 0, false, 0)
		o.Case(fmt.Sprintf("reader max=100 final=0 stream=%s chunks=-", corr.Hex(enc(frs))), r.full(), true)
		if len(r.pkts) == 2 {
			o.Oracle("ids-never-go-backwards", "mid=18446744073709551615 then mid=1", r.observable())
		} else {
			o.OracleOK("ids-never-go-backwards")
		}
	}
	// ErrNoProgress: 100 consecutive empty reads
	{
		stream := enc([]drpcwire.Frame{{Data: []byte("hi"), ID: drpcwire.ID{Stream: 1, Message: 1}, Kind: 2, Done: true}})
		if r := run(stream, 100, []int{1}, 0, false, 100); r.err != "internal" {
			o.Oracle("no-progress", "100 empty reads", r.observable())
		} else {
			o.OracleOK("no-progress")
		}
		if r := run(stream, 100, []int{1}, 0, false, 99); r.err != "transport:0" || len(r.pkts) != 1 {
			o.Oracle("no-progress", "99 empty reads", r.observable())
		} else {
			o.OracleOK("no-progress")
		}
	}
	_ = bytes.Equal
}

// idsBackwards returns a description of the first pair of returned packets whose ids do not strictly increase.
func idsBackwards(pkts []string) string {
	var ps, pm uint64
	for i, p := range pkts {
		f := strings.SplitN(p, ",", 3)
		s, _ := strconv.ParseUint(f[0], 10, 64)
		m, _ := strconv.ParseUint(f[1], 10, 64)
		if i > 0 && !(ps < s || (ps == s && pm < m)) {
			return fmt.Sprintf("mid=%d then mid=%d (sid %d then %d)", pm, m, ps, s)
		}
		ps, pm = s, m
	}
	return ""
}

func bucket(d int) string {
	switch {
	case d < 30:
		return "<30"
	case d <= 33:
		return strconv.Itoa(d)
	case d <= 232:
		return "34..232"
	}
	return ">232"
}

func clip(s string) string {
	if len(s) > 300 {
		return s[:150] + "…" + s[len(s)-140:]
	}
	return s
}
