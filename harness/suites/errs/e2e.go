package errs

import (
	"bytes"
	"context"
	"errors"
	"fmt"
	"io"
	"net"
	"strings"
	"sync"
	"sync/atomic"
	"time"

	"storj.io/drpc"
	"storj.io/drpc/drpcconn"
	"storj.io/drpc/drpcerr"
	"storj.io/drpc/drpcmanager"
	"storj.io/drpc/drpcmux"
	"storj.io/drpc/drpcserver"
	"storj.io/drpc/drpcstream"
	"verifharness/corr"
)

const waitBound = 2 * time.Second

// ---- pass-through encoding ----

type rawMsg struct {
	b           []byte
	failMarshal error
}

var badMagic = []byte("\xffBAD")

// rawEnc passes bytes through; on the server it refuses payloads starting with badMagic with the
// error the current scenario prescribes (the "undecodable request").
type rawEnc struct{ decodeErr func() error }

func (e *rawEnc) Marshal(msg drpc.Message) ([]byte, error) {
	m := msg.(*rawMsg)
	if m.failMarshal != nil {
		return nil, m.failMarshal
	}
	return m.b, nil
}

func (e *rawEnc) Unmarshal(buf []byte, msg drpc.Message) error {
	if e.decodeErr != nil && bytes.HasPrefix(buf, badMagic) {
		return e.decodeErr()
	}
	msg.(*rawMsg).b = append([]byte(nil), buf...)
	return nil
}

// ---- scenario ----

type scenario struct {
	mode  string   // script: hand-written drpc.Handler | mux: real drpcmux with a hand-written description
	shape string   // unary | cstream | sstream | bidi   (mux: unary | sstream | cstream | unknown)
	sent  [][]byte // what the handler sends before its outcome
	chain string   // the handler's error ("" = returns nil)

	closeFirst   bool   // script: the handler calls CloseSend before returning
	clientCloses bool   // bidi: the client closes its send side after the exchanges and the handler drains
	nreq         int    // cstream: request messages sent by the client
	badAt        int    // index of the undecodable request message (-1: none)
	reqChain     string // the decoder's error for it
	rpc          string // mux/unknown: the rpc name
	out          string // mux/unary: nil | tnil | ok:<spec> | err:<chain>
	nrecv        int    // MsgRecv calls made by the client (Invoke: 1)
	manualFlush  bool   // ManualFlush client with an unflushed message (regression for fix 5e78564)
	wantCode     uint64 // code attached by the generator (direct oracle)
	depth        int    // wrappers above it as seen by drpcerr.Code on the server
	class        string
}

func (sc *scenario) opsSpec() string {
	var ops []string
	for _, m := range sc.sent {
		ops = append(ops, "s:"+compact(m))
	}
	if sc.closeFirst {
		ops = append(ops, "c")
	}
	if len(ops) == 0 {
		return "-"
	}
	return strings.Join(ops, ";")
}

// compact renders long periodic payloads as unit*count.
func compact(b []byte) string {
	if len(b) > 64 && len(b)%7 == 0 && bytes.Equal(b, bytes.Repeat(b[:7], len(b)/7)) {
		return repSpec(b[:7], len(b)/7)
	}
	return specOf(b)
}

func orDash(s string) string {
	if s == "" {
		return "-"
	}
	return s
}

func (sc *scenario) clientClosed() bool {
	switch sc.shape {
	case "bidi":
		return sc.clientCloses
	case "unknown-stream", "noread":
		return false
	}
	return true
}

// request is the line replayed on the model.
func (sc *scenario) request() string {
	mf := "0"
	if sc.manualFlush {
		mf = "1"
	}
	if sc.mode == "script" {
		ops, ret := sc.opsSpec(), orDash(sc.chain)
		if sc.badAt >= 0 { // the hand-written handler returns the decode error at once
			ret = sc.reqChain
			if sc.shape != "bidi" { // (bidi: after the exchanges that preceded the undecodable message)
				ops = "-"
			}
		}
		return fmt.Sprintf("err.rpc h=script cc=%s mf=%s nrecv=%d ops=%s ret=%s", corr.B01(sc.clientClosed()), mf, sc.nrecv, ops, ret)
	}
	entry, out := "m", "nil"
	switch sc.shape {
	case "unknown", "unknown-stream":
		entry = "u"
	case "cstream":
		entry = "s"
	case "unary":
		out = sc.out
		if out == "tnil" {
			out = "nil"
		}
	}
	req := "-"
	if sc.badAt >= 0 && entry == "m" {
		req = sc.reqChain
	}
	ops, ret := sc.opsSpec(), orDash(sc.chain)
	if sc.badAt >= 0 && entry == "s" { // the stream method returns the decode error itself
		ops, ret = "-", sc.reqChain
	}
	return fmt.Sprintf("err.rpc h=mux cc=%s mf=%s nrecv=%d ops=%s ret=%s entry=%s rpc=%s req=%s out=%s",
		corr.B01(sc.clientClosed()), mf, sc.nrecv, ops, ret, entry, specOf([]byte(sc.rpc)), req, out)
}

func (sc *scenario) String() string {
	return fmt.Sprintf("class=%s mode=%s shape=%s k=%d chain=%s :: %s", sc.class, sc.mode, sc.shape, len(sc.sent), clip(sc.chain), clip(sc.request()))
}

func clip(s string) string {
	if len(s) > 300 {
		return s[:200] + "…" + s[len(s)-80:]
	}
	return s
}

// ---- server side ----

type service struct {
	mu      sync.Mutex
	sc      *scenario
	enc     *rawEnc
	release chan struct{} // manualFlush replay: the handler waits for it
}

func (s *service) cur() *scenario {
	s.mu.Lock()
	defer s.mu.Unlock()
	return s.sc
}

func (s *service) set(sc *scenario) {
	s.mu.Lock()
	s.sc = sc
	s.mu.Unlock()
}

func (s *service) outcome(sc *scenario) error {
	if sc.chain == "" {
		return nil
	}
	return buildChain(sc.chain)
}

func (s *service) sendAll(stream drpc.Stream, sc *scenario) {
	for _, m := range sc.sent {
		_ = stream.MsgSend(&rawMsg{b: m}, s.enc)
	}
}

func (s *service) drain(stream drpc.Stream) error {
	for {
		if err := stream.MsgRecv(new(rawMsg), s.enc); err != nil {
			if errors.Is(err, io.EOF) {
				return nil
			}
			return err
		}
	}
}

// scriptHandler is the hand-written drpc.Handler.
type scriptHandler struct{ s *service }

func (h scriptHandler) HandleRPC(stream drpc.Stream, rpc string) error {
	s := h.s
	if rpc == "/probe" {
		m := new(rawMsg)
		if err := stream.MsgRecv(m, s.enc); err != nil {
			return err
		}
		return stream.MsgSend(m, s.enc)
	}
	sc := s.cur()
	switch sc.shape {
	case "unary", "sstream":
		if err := stream.MsgRecv(new(rawMsg), s.enc); err != nil {
			return err
		}
	case "cstream":
		if err := s.drain(stream); err != nil {
			return err
		}
	case "bidi":
		for _, m := range sc.sent {
			if err := stream.MsgRecv(new(rawMsg), s.enc); err != nil {
				return err
			}
			_ = stream.MsgSend(&rawMsg{b: m}, s.enc)
		}
		if sc.badAt >= 0 { // one more request, the undecodable one
			if err := stream.MsgRecv(new(rawMsg), s.enc); err != nil {
				return err
			}
		}
		if sc.clientCloses {
			if err := s.drain(stream); err != nil {
				return err
			}
		}
	case "noread": // ManualFlush regression: fail without reading, when told to
		<-s.release
	}
	if sc.shape != "bidi" {
		s.sendAll(stream, sc)
	}
	if sc.closeFirst {
		_ = stream.CloseSend()
	}
	return s.outcome(sc)
}

// the methods registered with the real mux (their reflect types select the dispatch shape)
func (s *service) Unary(ctx context.Context, in *rawMsg) (*rawMsg, error) { return nil, nil }
func (s *service) SStream(in *rawMsg, stream drpc.Stream) error           { return nil }
func (s *service) Stream(stream drpc.Stream) error                        { return nil }

type description struct{ s *service }

func (d description) NumMethods() int { return 4 }

func (d description) Method(n int) (string, drpc.Encoding, drpc.Receiver, interface{}, bool) {
	s := d.s
	switch n {
	case 0:
		return "/svc/Unary", s.enc, func(srv interface{}, ctx context.Context, in1, in2 interface{}) (drpc.Message, error) {
			sc := s.cur()
			stream := in2.(drpc.Stream)
			s.sendAll(stream, sc)
			if err := s.outcome(sc); err != nil {
				return nil, err
			}
			switch {
			case sc.out == "nil":
				return nil, nil
			case sc.out == "tnil":
				return (*rawMsg)(nil), nil
			case strings.HasPrefix(sc.out, "ok:"):
				return &rawMsg{b: parseSpec(sc.out[3:])}, nil
			case strings.HasPrefix(sc.out, "err:"):
				return &rawMsg{failMarshal: buildChain(sc.out[4:])}, nil
			}
			panic("bad out " + sc.out)
		}, (*service).Unary, true
	case 1:
		return "/svc/SStream", s.enc, func(srv interface{}, ctx context.Context, in1, in2 interface{}) (drpc.Message, error) {
			sc := s.cur()
			s.sendAll(in2.(drpc.Stream), sc)
			return nil, s.outcome(sc)
		}, (*service).SStream, true
	case 2:
		return "/svc/Stream", s.enc, func(srv interface{}, ctx context.Context, in1, in2 interface{}) (drpc.Message, error) {
			sc := s.cur()
			stream := in1.(drpc.Stream)
			if err := s.drain(stream); err != nil {
				return nil, err
			}
			s.sendAll(stream, sc)
			return nil, s.outcome(sc)
		}, (*service).Stream, true
	case 3:
		return "/probe", s.enc, func(srv interface{}, ctx context.Context, in1, in2 interface{}) (drpc.Message, error) {
			return in1.(*rawMsg), nil
		}, (*service).Unary, true
	}
	return "", nil, nil, nil, false
}

// ---- one client/server pair over net.Pipe ----

type env struct {
	svc    *service
	conn   *drpcconn.Conn
	c1, c2 net.Conn
	cancel context.CancelFunc
	ctx    context.Context
	cenc   *rawEnc
}

func newEnv(mode string, manualFlush bool) *env {
	e := &env{cenc: &rawEnc{}}
	e.svc = &service{release: make(chan struct{}, 1)}
	e.svc.enc = &rawEnc{decodeErr: func() error { return buildChain(e.svc.cur().reqChain) }}
	var handler drpc.Handler = scriptHandler{e.svc}
	if mode == "mux" {
		mux := drpcmux.New()
		if err := mux.Register(e.svc, description{e.svc}); err != nil {
			panic(err)
		}
		handler = mux
	}
	e.ctx, e.cancel = context.WithCancel(context.Background())
	e.c1, e.c2 = net.Pipe()
	srv := drpcserver.New(handler)
	go func() { _ = srv.ServeOne(e.ctx, e.c1) }()
	e.conn = drpcconn.NewWithOptions(e.c2, drpcconn.Options{Manager: drpcmanager.Options{Stream: drpcstream.Options{ManualFlush: manualFlush}}})
	return e
}

func (e *env) kill() {
	e.cancel()
	_ = e.c1.Close()
	_ = e.c2.Close()
}

func showErr(err error) string {
	if errors.Is(err, io.EOF) {
		return "eof"
	}
	return fmt.Sprintf("e:%d:%s", drpcerr.Code(err), digest([]byte(err.Error())))
}

// client runs the client side of the scenario and returns one entry per MsgRecv.
func (e *env) client(sc *scenario, step *atomic.Value) []string {
	var res []string
	note := func(s string) { step.Store(s) }
	recvN := func(stream drpc.Stream, n int) {
		for i := 0; i < n; i++ {
			note(fmt.Sprintf("MsgRecv #%d", len(res)))
			m := new(rawMsg)
			if err := stream.MsgRecv(m, e.cenc); err != nil {
				res = append(res, showErr(err))
			} else {
				res = append(res, "m:"+digest(m.b))
			}
		}
	}
	reqBytes := func(i int) []byte {
		if i == sc.badAt {
			return append(append([]byte(nil), badMagic...), byte(i))
		}
		return []byte{'r', byte(i)}
	}
	rpc := map[string]string{"unary": "/svc/Unary", "sstream": "/svc/SStream", "cstream": "/svc/Stream", "bidi": "/svc/Bidi", "noread": "/svc/NoRead"}[sc.shape]
	if sc.shape == "unknown" || sc.shape == "unknown-stream" {
		rpc = sc.rpc
	}
	switch sc.shape {
	case "unary", "unknown":
		note("Invoke")
		out := new(rawMsg)
		if err := e.conn.Invoke(e.ctx, rpc, e.cenc, &rawMsg{b: reqBytes(0)}, out); err != nil {
			res = append(res, showErr(err))
		} else {
			res = append(res, "m:"+digest(out.b))
		}
		return res
	}
	note("NewStream")
	stream, err := e.conn.NewStream(e.ctx, rpc, e.cenc)
	if err != nil {
		return []string{"newstream:" + err.Error()}
	}
	defer func() { note("Close"); _ = stream.Close() }()
	switch sc.shape {
	case "unknown-stream":
		recvN(stream, sc.nrecv)
	case "sstream":
		note("MsgSend")
		_ = stream.MsgSend(&rawMsg{b: reqBytes(0)}, e.cenc)
		note("CloseSend")
		_ = stream.CloseSend()
		recvN(stream, sc.nrecv)
	case "cstream":
		for i := 0; i < sc.nreq; i++ {
			note("MsgSend")
			_ = stream.MsgSend(&rawMsg{b: reqBytes(i)}, e.cenc)
		}
		note("CloseSend")
		_ = stream.CloseSend()
		recvN(stream, sc.nrecv)
	case "bidi":
		for i := range sc.sent {
			note("MsgSend")
			_ = stream.MsgSend(&rawMsg{b: reqBytes(i)}, e.cenc)
			recvN(stream, 1)
		}
		if sc.badAt >= 0 {
			note("MsgSend")
			_ = stream.MsgSend(&rawMsg{b: reqBytes(sc.badAt)}, e.cenc)
		}
		if sc.clientCloses {
			note("CloseSend")
			_ = stream.CloseSend()
		}
		recvN(stream, sc.nrecv-len(sc.sent))
	case "noread": // ManualFlush: invoke flushed, one message left unflushed, then the error arrives
		st := stream.(*drpcstream.Stream)
		note("RawFlush")
		_ = st.RawFlush()
		note("MsgSend")
		_ = stream.MsgSend(&rawMsg{b: reqBytes(0)}, e.cenc)
		e.svc.release <- struct{}{}
		note("wait Terminated")
		<-st.Terminated()
		recvN(stream, sc.nrecv)
	}
	return res
}

type runner struct {
	o     *corr.Out
	envs  map[string]*env
	hangs int
	rpcs  int
}

func (r *runner) env(mode string, mf bool) *env {
	key := fmt.Sprintf("%s/%v", mode, mf)
	if e := r.envs[key]; e != nil {
		return e
	}
	e := newEnv(mode, mf)
	r.envs[key] = e
	return e
}

func (r *runner) drop(mode string, mf bool) {
	key := fmt.Sprintf("%s/%v", mode, mf)
	if e := r.envs[key]; e != nil {
		e.kill()
		delete(r.envs, key)
	}
}

// run executes one scenario and the probe call after it; every wait is bounded.
func (r *runner) run(sc *scenario) {
	o := r.o
	if r.hangs >= 3 { // each hang costs the bound; three are evidence enough
		o.Stat("e2e:skipped-after-hangs")
		return
	}
	e := r.env(sc.mode, sc.manualFlush)
	e.svc.set(sc)
	r.rpcs++
	var step atomic.Value
	step.Store("start")
	var res []string
	if !bounded(waitBound, func() { res = e.client(sc, &step) }) {
		r.hangs++
		o.Oracle("hang", sc.String(), fmt.Sprintf("client still in %v after %v", step.Load(), waitBound))
		o.Stat("e2e:" + sc.class + ":hang")
		r.drop(sc.mode, sc.manualFlush)
		return
	}
	ans := strings.Join(res, " ")
	o.Case(sc.request(), ans, len(sc.sent) > 0 || sc.chain != "" || sc.badAt >= 0)
	o.Stat("e2e:" + sc.class + ":" + sc.mode + ":" + sc.shape)
	r.direct(sc, res)
	// the connection is usable for a following RPC
	var perr error
	var pout rawMsg
	want := []byte{'p', byte(r.rpcs), byte(r.rpcs >> 8)}
	if !bounded(waitBound, func() { perr = e.conn.Invoke(e.ctx, "/probe", e.cenc, &rawMsg{b: want}, &pout) }) {
		r.hangs++
		o.Oracle("hang", sc.String(), "probe RPC after the scenario did not complete within "+waitBound.String())
		r.drop(sc.mode, sc.manualFlush)
		return
	}
	if perr != nil || !bytes.Equal(pout.b, want) {
		o.Oracle("connection-usable-afterwards", sc.String(), fmt.Sprintf("probe: err=%v out=%s", perr, digest(pout.b)))
		r.drop(sc.mode, sc.manualFlush)
	} else {
		o.OracleOK("connection-usable-afterwards")
	}
}

// direct evaluates the property on the observed results without the model.
func (r *runner) direct(sc *scenario, res []string) {
	o := r.o
	if sc.manualFlush || sc.closeFirst {
		return // replays of the excluded points: judged by their own oracles
	}
	// expected: the messages the handler sent, first
	var want []string
	for _, m := range sc.sent {
		want = append(want, "m:"+digest(m))
	}
	if strings.HasPrefix(sc.out, "ok:") && sc.chain == "" && sc.badAt < 0 {
		want = append(want, "m:"+digest(parseSpec(sc.out[3:])))
	}
	if sc.badAt >= 0 && sc.shape != "bidi" {
		want = nil
	}
	n := len(want)
	if n > len(res) {
		n = len(res)
	}
	if strings.Join(res[:n], " ") != strings.Join(want[:n], " ") {
		o.Oracle("messages-before-error", sc.String(), "received "+clip(strings.Join(res, " ")))
	} else {
		o.OracleOK("messages-before-error")
	}
	// then the outcome
	var herr error
	switch {
	case sc.shape == "unknown" || sc.shape == "unknown-stream":
		herr = drpc.ProtocolError.New("unknown rpc: %q", sc.rpc)
	case sc.badAt >= 0:
		herr = buildChain(sc.reqChain)
	case sc.chain != "":
		herr = buildChain(sc.chain)
	case strings.HasPrefix(sc.out, "err:"):
		herr = buildChain(sc.out[4:])
	}
	tail := res[n:]
	if herr == nil {
		for _, x := range res {
			if strings.HasPrefix(x, "e:") {
				o.Oracle("success-never-yields-error", sc.String(), "received "+clip(strings.Join(res, " ")))
				return
			}
		}
		for _, x := range tail {
			if x != "eof" {
				o.Oracle("success-never-yields-error", sc.String(), "received "+clip(strings.Join(res, " ")))
				return
			}
		}
		o.OracleOK("success-never-yields-error")
		return
	}
	if len(want) >= len(res) {
		return // Invoke returned a message before the failure: nothing more to observe
	}
	wantText := digest([]byte(herr.Error()))
	for _, x := range tail {
		f := strings.SplitN(x, ":", 3)
		if len(f) != 3 || f[0] != "e" {
			o.Oracle("error-text-intact", sc.String(), "expected an error, received "+clip(strings.Join(res, " ")))
			return
		}
		if f[2] != wantText {
			o.Oracle("error-text-intact", sc.String(), fmt.Sprintf("client text %s, handler text %s", f[2], wantText))
			return
		}
		if f[1] != fmt.Sprint(sc.wantCode) {
			if sc.depth >= 100 {
				o.Oracle("code-at-depth", fmt.Sprintf("depth=%d end-to-end mode=%s shape=%s code=%d", sc.depth, sc.mode, sc.shape, sc.wantCode), "client code "+f[1])
			} else {
				o.Oracle("error-code-intact", sc.String(), fmt.Sprintf("client code %s, attached code %d", f[1], sc.wantCode))
			}
			return
		}
	}
	o.OracleOK("error-text-intact")
	o.OracleOK("error-code-intact")
}
