package errs

import (
	"bytes"
	"encoding/binary"
	"errors"
	"fmt"
	"strings"
	"time"

	"storj.io/drpc/drpcerr"
	"storj.io/drpc/drpcwire"
	"verifharness/corr"
)

const note = " (drpcwire note: invalid error data)"

var codes = []uint64{0, 1, 2, 12, 1 << 32, 1 << 63, 1<<64 - 1}

var depths = []int{0, 1, 2, 50, 99, 100, 101}

type msgClass struct {
	name string
	b    []byte
	spec string
}

// the message classes of the property: empty, 1 byte, 70000 bytes, '%', NUL, invalid UTF-8 (+ random)
func messages(o *corr.Out) []msgClass {
	unit := make([]byte, 7)
	o.Rand.Read(unit)
	rnd := make([]byte, 1+o.Rand.Intn(40))
	o.Rand.Read(rnd)
	ms := []msgClass{
		{"empty", nil, "-"},
		{"one", []byte{byte(o.Rand.Intn(256))}, ""},
		{"long", bytes.Repeat(unit, 10000), repSpec(unit, 10000)},
		{"percent", []byte("disk 100% full %s %d %% %!v(MISSING) %"), ""},
		{"nul", []byte("a\x00b\x00\x00"), ""},
		{"badutf8", []byte{0xff, 0xfe, 0xc0, 0x80, 'x', 0xed, 0xa0, 0x80, 0xf8}, ""},
		{"random", rnd, ""},
	}
	for i := range ms {
		if ms[i].spec == "" {
			ms[i].spec = specOf(ms[i].b)
		}
	}
	return ms
}

// observe canonicalises an error value: Code, Error() and (for non-nil) MarshalError.
func observeChain(err error) string {
	return corr.Catch(func() string {
		return fmt.Sprintf("code=%d text=%s marshal=%s", drpcerr.Code(err), digest([]byte(err.Error())), digest(drpcwire.MarshalError(err)))
	})
}

func observeUnmarshal(data []byte) (string, error) {
	var e error
	s := corr.Catch(func() string {
		e = drpcwire.UnmarshalError(append([]byte(nil), data...))
		_, coded := e.(interface{ Code() uint64 })
		return fmt.Sprintf("text=%s code=%d coded=%s", digest([]byte(e.Error())), drpcerr.Code(e), corr.B01(coded))
	})
	return s, e
}

// bounded runs f and reports false when it has not returned after d.
func bounded(d time.Duration, f func()) bool {
	done := make(chan struct{})
	go func() { defer close(done); f() }()
	select {
	case <-done:
		return true
	case <-time.After(d):
		return false
	}
}

func be(code uint64, msg []byte) []byte {
	var b [8]byte
	binary.BigEndian.PutUint64(b[:], code)
	return append(b[:], msg...)
}

func runCodec(o *corr.Out) {
	ms := messages(o)

	// (a1) (code, message) pairs: marshal of a coded error, unmarshal of the hand-built wire form
	pair := func(code uint64, m msgClass) {
		chain := fmt.Sprintf("C%d/L:%s", code, m.spec)
		err := buildChain(chain)
		o.Case("err.chain chain="+chain, observeChain(err), len(m.b) > 0 && code != 0)
		data := be(code, m.b)
		dspec := specOf(data[:8]) + "," + m.spec
		if m.spec == "-" {
			dspec = specOf(data[:8])
		}
		ans, back := observeUnmarshal(data)
		o.Case("err.unmarshal data="+dspec, ans, len(m.b) > 0)
		o.Stat("codec:pair:" + m.name)
		// direct oracles
		wire := drpcwire.MarshalError(err)
		if !bytes.Equal(wire, data) {
			o.Oracle("marshal-layout", fmt.Sprintf("code=%d msg=%s", code, m.spec), "MarshalError="+digest(wire))
		} else {
			o.OracleOK("marshal-layout")
		}
		if back == nil || back.Error() != string(m.b) || drpcerr.Code(back) != code {
			got := "<nil>"
			if back != nil {
				got = fmt.Sprintf("text=%s code=%d", digest([]byte(back.Error())), drpcerr.Code(back))
			}
			o.Oracle("codec-roundtrip", fmt.Sprintf("code=%d msg=%s", code, m.spec), got)
		} else {
			o.OracleOK("codec-roundtrip")
		}
		_, hasCode := back.(interface{ Code() uint64 })
		if hasCode != (code != 0) {
			o.Oracle("code-zero-means-none", fmt.Sprintf("code=%d msg=%s", code, m.spec), fmt.Sprintf("decoded error has Code() method: %v", hasCode))
		} else {
			o.OracleOK("code-zero-means-none")
		}
	}
	for _, c := range codes {
		for _, m := range ms {
			pair(c, m)
		}
	}
	nRand := 300
	if o.Thorough {
		nRand = 6000
	}
	for i := 0; i < nRand; i++ {
		var c uint64
		switch o.Rand.Intn(3) {
		case 0:
			c = uint64(o.Rand.Intn(300))
		case 1:
			c = uint64(1) << uint(o.Rand.Intn(64))
		default:
			c = o.Rand.Uint64()
		}
		b := make([]byte, o.Rand.Intn(60))
		o.Rand.Read(b)
		if o.Rand.Intn(3) == 0 && len(b) > 0 { // sprinkle format verbs
			b[o.Rand.Intn(len(b))] = '%'
		}
		pair(c, msgClass{"rand", b, specOf(b)})
	}

	// (a2) raw data of every length 0..9 and longer: boundary alphabet exhaustively for short
	// lengths, random otherwise
	raw := func(data []byte, class string) {
		ans, e := observeUnmarshal(data)
		o.Case("err.unmarshal data="+specOf(data), ans, len(data) > 0)
		o.Stat("codec:raw:" + class)
		var wantText string
		var wantCode uint64
		if len(data) < 8 {
			wantText = string(data) + note
		} else {
			wantText, wantCode = string(data[8:]), binary.BigEndian.Uint64(data[:8])
		}
		if e == nil || e.Error() != wantText || drpcerr.Code(e) != wantCode {
			o.Oracle("unmarshal-reference", "data="+specOf(data), ans)
		} else {
			o.OracleOK("unmarshal-reference")
		}
	}
	alpha := []byte{0x00, 0x01, '%', 0x7f, 0x80, 0xff}
	for n := 0; n <= 3; n++ { // all strings over the alphabet up to length 3
		idx := make([]int, n)
		for {
			b := make([]byte, n)
			for i, j := range idx {
				b[i] = alpha[j]
			}
			raw(b, fmt.Sprintf("exh%d", n))
			i := n - 1
			for ; i >= 0; i-- {
				idx[i]++
				if idx[i] < len(alpha) {
					break
				}
				idx[i] = 0
			}
			if i < 0 {
				break
			}
		}
	}
	nRaw := 40
	if o.Thorough {
		nRaw = 600
	}
	for n := 0; n <= 20; n++ {
		for i := 0; i < nRaw; i++ {
			b := make([]byte, n)
			switch o.Rand.Intn(3) {
			case 0:
				o.Rand.Read(b)
			case 1:
				for j := range b {
					b[j] = alpha[o.Rand.Intn(len(alpha))]
				}
			default: // small code, text with verbs
				for j := range b {
					if j < 8 {
						b[j] = byte(o.Rand.Intn(2))
					} else {
						b[j] = "%sdvq! x"[o.Rand.Intn(8)]
					}
				}
			}
			raw(b, fmt.Sprintf("len%d", n))
		}
	}
	for _, n := range []int{64, 255, 256, 4096, 70008} {
		b := make([]byte, n)
		o.Rand.Read(b)
		raw(b, "big")
	}
}

// ---- (b) drpcerr.Code on real error values ----

// wrapper mixes that do not collapse (each token adds one level for Code)
var mixes = map[string][]string{
	"U":     {"U"},
	"A":     {"A"},
	"F":     {"F"},
	"D":     {"D"},
	"P":     {"P0", "P1"}, // alternating classes nest
	"mixed": {"A", "U", "F", "D", "P2", "E"},
}
var mixNames = []string{"U", "A", "F", "D", "P", "mixed"}

// wrappers returns d non-collapsing wrapper tokens of the mix, run-length compressed.
func wrappers(mix string, d int) string {
	toks := mixes[mix]
	if d == 0 {
		return ""
	}
	if len(toks) == 1 {
		return fmt.Sprintf("%s^%d/", toks[0], d)
	}
	var sb strings.Builder
	for i := 0; i < d; i++ {
		// in the "mixed" order no errs.Wrap / class wrap sits directly around an *errorT of the same
		// (or, for errs.Wrap, any) class, so nothing collapses and the depth is exact
		sb.WriteString(toks[i%len(toks)] + "/")
	}
	return sb.String()
}

func runCode(o *corr.Out) {
	ms := messages(o)
	check := func(chain, class string, nontrivial bool) error {
		var err error
		ok := bounded(2*time.Second, func() {
			err = buildChain(chain)
			o.Case("err.chain chain="+chain, observeChain(err), nontrivial)
		})
		if !ok {
			o.Oracle("hang", "Code/MarshalError chain="+chain, "no result after 2s")
		}
		o.Stat("code:" + class)
		return err
	}
	// depth × mix × code: direct oracle "the attached code is found"
	for _, mix := range mixNames {
		for _, d := range depths {
			for ci, c := range codes {
				m := ms[(ci+d)%len(ms)]
				if m.name == "long" && d > 2 {
					m = ms[3]
				}
				chain := fmt.Sprintf("%sC%d/L:%s", wrappers(mix, d), c, m.spec)
				err := check(chain, fmt.Sprintf("depth%d", d), d > 0 && c != 0)
				if err == nil {
					continue
				}
				got := drpcerr.Code(err)
				if got != c {
					// the property says: found at any depth.  depth >= 100 is the known finding C10-code-depth.
					o.Oracle("code-at-depth", fmt.Sprintf("depth=%d wrappers=%s code=%d", d, mix, c), fmt.Sprintf("Code()=%d", got))
				} else {
					o.OracleOK("code-at-depth")
				}
			}
		}
	}
	// replay of Props.C10.code_depth_100_counterexample (stable input string)
	{
		e99 := buildChain("U^99/C7/L:-")
		e100 := buildChain("U^100/C7/L:-")
		o.Case("err.chain chain=U^99/C7/L:-", observeChain(e99), true)
		o.Case("err.chain chain=U^100/C7/L:-", observeChain(e100), true)
		if drpcerr.Code(e99) != 7 {
			o.Oracle("code-at-depth", "depth=99 counterexample-replay code=7", fmt.Sprintf("Code()=%d", drpcerr.Code(e99)))
		} else {
			o.OracleOK("code-at-depth")
		}
		if drpcerr.Code(e100) != 7 {
			o.Oracle("code-at-depth", "depth=100 counterexample-replay code=7", fmt.Sprintf("Code()=%d", drpcerr.Code(e100)))
		} else {
			o.OracleOK("code-at-depth")
		}
	}
	// method order, nil results, cycles, smart constructors
	fixed := []string{
		"L:-", "L:41", "NA", "NU", "SA", "SU", "K",
		"A/NA", "U/NU", "F/NA", "E/NU", "A^5/SA", "U^5/SU", "F/K", "A^98/K", "A^99/K", "A^100/K",
		"R/C5/L:41", "D/R/C5/L:41", "R/L:41", "D/L:41", "D/C5/L:41", "D^99/C5/L:41", "D^100/C5/L:41",
		"X0/C5/L:41", "X9/C5/L:41", "C5/X0/L:41", "C5/C6/L:41", "C0/C6/L:41", "C6/C0/L:41", "C0/L:41", "X0/L:-",
		"E/L:41", "E/E/E/L:41", "E/C5/L:41", "C5/E/L:41", "E/P2/L:41", "P2/E/L:41", "P2/P2/L:41", "P2/P0/P2/L:41",
		"P4/L:41", "P4/P4/L:41", "P0/P4/L:41", "P4/P0/L:-", "P2/L:-", "P2/E/L:-", "E/L:-", "P2/C5/L:-", "E/A/C5/L:2573",
		"E/SA", "P1/K", "E/NA", "C7/NA", "C7/SA", "C7/K", "F/F/F/C1/L:2525",
	}
	for _, chain := range fixed {
		check(chain, "fixed", true)
	}
	// random chains
	nRand := 1500
	if o.Thorough {
		nRand = 40000
	}
	wr := []string{"C0", "C1", "C5", "C18446744073709551615", "X0", "X3", "E", "P0", "P1", "P2", "P3", "P4", "F", "A", "U", "D", "R"}
	terms := []string{"NA", "NU", "SA", "SU", "K"}
	for i := 0; i < nRand; i++ {
		var sb strings.Builder
		n := o.Rand.Intn(7)
		if o.Rand.Intn(10) == 0 {
			n = 95 + o.Rand.Intn(10)
		}
		for j := 0; j < n; j++ {
			t := wr[o.Rand.Intn(len(wr))]
			if n > 20 && o.Rand.Intn(4) != 0 {
				t = []string{"A", "U", "F", "D", "P0", "P1"}[o.Rand.Intn(6)]
			}
			sb.WriteString(t + "/")
		}
		if o.Rand.Intn(4) == 0 {
			sb.WriteString(terms[o.Rand.Intn(len(terms))])
		} else {
			m := ms[o.Rand.Intn(len(ms))]
			if m.name == "long" && n > 3 {
				m = ms[4]
			}
			sb.WriteString("L:" + m.spec)
		}
		check(sb.String(), "random", n >= 2)
	}
	// direct oracles that need no model
	{
		base := errors.New("x")
		if drpcerr.WithCode(base, 0) != base {
			o.Oracle("code-zero-means-none", "WithCode(err, 0)", "returned a different value")
		} else {
			o.OracleOK("code-zero-means-none")
		}
		if drpcerr.WithCode(nil, 5) != nil {
			o.Oracle("code-zero-means-none", "WithCode(nil, 5)", "non-nil")
		} else {
			o.OracleOK("code-zero-means-none")
		}
		if drpcerr.Code(nil) != 0 {
			o.Oracle("code-zero-means-none", "Code(nil)", "non-zero")
		} else {
			o.OracleOK("code-zero-means-none")
		}
		for _, t := range []string{"SA", "SU", "K", "A^3/K", "U^200/SA"} {
			var c uint64
			if !bounded(2*time.Second, func() { c = drpcerr.Code(buildChain(t)) }) {
				o.Oracle("code-terminates-on-cycles", "chain="+t, "Code did not return within 2s")
			} else if c != 0 {
				o.Oracle("code-terminates-on-cycles", "chain="+t, fmt.Sprintf("Code()=%d", c))
			} else {
				o.OracleOK("code-terminates-on-cycles")
			}
		}
	}
}
