// Package errs: correspondence + direct oracles for the error path (C10): drpcwire.MarshalError /
// UnmarshalError, drpcerr.Code / WithCode, and handler outcome → client through a real
// drpcserver / drpcmux / drpcconn pair over net.Pipe.
package errs

import (
	"encoding/hex"
	"errors"
	"fmt"
	"hash/fnv"
	"strconv"
	"strings"

	zerrs "github.com/zeebo/errs"

	"storj.io/drpc"
	"storj.io/drpc/drpcerr"
)

// ---- byte specs: "-" | seg(,seg)*  with seg = HEX | HEX*COUNT ----

func parseSpec(s string) []byte {
	if s == "-" {
		return nil
	}
	var out []byte
	for _, seg := range strings.Split(s, ",") {
		h, n := seg, 1
		if i := strings.IndexByte(seg, '*'); i >= 0 {
			h = seg[:i]
			n, _ = strconv.Atoi(seg[i+1:])
		}
		b, err := hex.DecodeString(h)
		if err != nil {
			panic("bad spec " + s)
		}
		for ; n > 0; n-- {
			out = append(out, b...)
		}
	}
	return out
}

func specOf(b []byte) string {
	if len(b) == 0 {
		return "-"
	}
	return hex.EncodeToString(b)
}

// repSpec is the spec of `unit` repeated n times.
func repSpec(unit []byte, n int) string { return fmt.Sprintf("%s*%d", hex.EncodeToString(unit), n) }

// digest: hex when at most 48 bytes, else length, FNV-1a and both ends (same format as the model driver).
func digest(b []byte) string {
	if len(b) <= 48 {
		return specOf(b)
	}
	h := fnv.New64a()
	h.Write(b)
	return fmt.Sprintf("len=%d,fnv=%d,head=%s,tail=%s", len(b), h.Sum64(), hex.EncodeToString(b[:16]), hex.EncodeToString(b[len(b)-16:]))
}

// ---- real Go error values built from a chain description (grammar in lean/Drpc/Driver/Err.lean) ----

type causeOnly struct{ inner error }

func (e *causeOnly) Error() string {
	if e.inner == nil {
		return "c(nil)"
	}
	return "c(" + e.inner.Error() + ")"
}
func (e *causeOnly) Cause() error { return e.inner }

type unwrapOnly struct{ inner error }

func (e *unwrapOnly) Error() string {
	if e.inner == nil {
		return "u(nil)"
	}
	return "u(" + e.inner.Error() + ")"
}
func (e *unwrapOnly) Unwrap() error { return e.inner }

type bothT struct{ cause, unwrap error }

func (e *bothT) Error() string { return "b(" + e.cause.Error() + ")" }
func (e *bothT) Cause() error  { return e.cause }
func (e *bothT) Unwrap() error { return e.unwrap }

type nilCauseT struct{ unwrap error }

func (e *nilCauseT) Error() string { return "r(" + e.unwrap.Error() + ")" }
func (e *nilCauseT) Cause() error  { return nil }
func (e *nilCauseT) Unwrap() error { return e.unwrap }

type selfCause struct{}

func (e *selfCause) Error() string { return "selfc" }
func (e *selfCause) Cause() error  { return e }

type selfUnwrap struct{}

func (e *selfUnwrap) Error() string { return "selfu" }
func (e *selfUnwrap) Unwrap() error { return e }

type loopT struct {
	name  string
	other *loopT
}

func (e *loopT) Error() string { return e.name }
func (e *loopT) Cause() error  { return e.other }

type customCode struct {
	code  uint64
	inner error
}

func (e *customCode) Error() string { return e.inner.Error() }
func (e *customCode) Code() uint64  { return e.code }
func (e *customCode) Unwrap() error { return e.inner }

var emptyClass = zerrs.Class("")

var classes = []*zerrs.Class{&drpc.Error, &drpc.InternalError, &drpc.ProtocolError, &drpc.ClosedError, &emptyClass}

func buildTerminal(t string) error {
	switch {
	case strings.HasPrefix(t, "L:"):
		return errors.New(string(parseSpec(t[2:])))
	case t == "NA":
		return &causeOnly{}
	case t == "NU":
		return &unwrapOnly{}
	case t == "SA":
		return &selfCause{}
	case t == "SU":
		return &selfUnwrap{}
	case t == "K":
		a, b := &loopT{name: "loopa"}, &loopT{name: "loopb"}
		a.other, b.other = b, a
		return a
	}
	panic("bad terminal " + t)
}

func applyTok(t string, e error) error {
	switch t[0] {
	case 'C':
		c, _ := strconv.ParseUint(t[1:], 10, 64)
		return drpcerr.WithCode(e, c)
	case 'X':
		c, _ := strconv.ParseUint(t[1:], 10, 64)
		return &customCode{code: c, inner: e}
	case 'E':
		return zerrs.Wrap(e)
	case 'P':
		i, _ := strconv.Atoi(t[1:])
		return classes[i].Wrap(e)
	case 'F':
		return fmt.Errorf("w: %w", e)
	case 'A':
		return &causeOnly{inner: e}
	case 'U':
		return &unwrapOnly{inner: e}
	case 'D':
		return &bothT{cause: e, unwrap: drpcerr.WithCode(errors.New("decoy"), 424242)}
	case 'R':
		return &nilCauseT{unwrap: e}
	}
	panic("bad wrapper " + t)
}

// buildChain builds the error described by desc (outermost token first).
func buildChain(desc string) error {
	toks := strings.Split(desc, "/")
	e := buildTerminal(toks[len(toks)-1])
	for i := len(toks) - 2; i >= 0; i-- {
		t, n := toks[i], 1
		if j := strings.IndexByte(t, '^'); j >= 0 {
			n, _ = strconv.Atoi(t[j+1:])
			t = t[:j]
		}
		for ; n > 0; n-- {
			e = applyTok(t, e)
		}
	}
	return e
}
