package errs

import (
	"bytes"
	"fmt"
	"strings"
	"sync/atomic"

	"verifharness/corr"
)

// Run is the errs suite (C10).
func Run(o *corr.Out) {
	runCodec(o)
	runCode(o)
	runE2E(o)
}

// errChain returns a chain with `d` wrappers of `mix` around WithCode(errors.New(msg), code) and the
// depth at which drpcerr.Code on the server finds the code (the mux adds one errs.Wrap unless the
// outermost value already is an *errs.errorT).
func errChain(mode, mix string, d int, code uint64, m msgClass) (chain string, depth int) {
	w := wrappers(mix, d)
	chain = fmt.Sprintf("%sC%d/L:%s", w, code, m.spec)
	depth = d
	if mode == "mux" && !(d > 0 && (w[0] == 'P' || w[0] == 'E')) {
		depth++
	}
	return chain, depth
}

func runE2E(o *corr.Out) {
	r := &runner{o: o, envs: map[string]*env{}}
	defer func() {
		for _, e := range r.envs {
			e.kill()
		}
	}()
	ms := messages(o)
	small := func() []byte {
		b := make([]byte, o.Rand.Intn(20))
		o.Rand.Read(b)
		return b
	}
	sentOf := func(k int) [][]byte {
		var s [][]byte
		for i := 0; i < k; i++ {
			s = append(s, small())
		}
		if k == 3 && o.Rand.Intn(2) == 0 {
			s[1] = nil // an empty message in the middle
		}
		return s
	}
	shapes := map[string][]string{"script": {"unary", "cstream", "sstream", "bidi"}, "mux": {"unary", "cstream", "sstream"}}
	nrecvOf := func(shape string, k int) int {
		if shape == "unary" {
			return 1
		}
		return k + 2
	}
	base := func(mode, shape string, k int, class string) *scenario {
		sc := &scenario{mode: mode, shape: shape, sent: sentOf(k), badAt: -1, nreq: o.Rand.Intn(4), nrecv: nrecvOf(shape, k),
			clientCloses: o.Rand.Intn(2) == 0, out: "nil", class: class}
		return sc
	}
	ks := []int{0, 1, 3}
	rounds := 1
	if o.Thorough {
		rounds = 8
	}
	for round := 0; round < rounds; round++ {
		for _, mode := range []string{"script", "mux"} {
			for _, shape := range shapes[mode] {
				for _, k := range ks {
					fail := func(m msgClass, code uint64, class string) {
						sc := base(mode, shape, k, class)
						mix, d := "U", 0
						if o.Rand.Intn(3) == 0 {
							mix, d = mixNames[o.Rand.Intn(len(mixNames))], 1+o.Rand.Intn(2)
						}
						sc.chain, sc.depth = errChain(mode, mix, d, code, m)
						sc.wantCode = code
						r.run(sc)
					}
					// every message class with some code, every code with some message
					for _, m := range ms {
						fail(m, codes[o.Rand.Intn(len(codes))], "fail:msg-"+m.name)
					}
					for _, c := range codes {
						m := ms[o.Rand.Intn(len(ms))]
						if m.name == "long" {
							m = ms[3]
						}
						fail(m, c, "fail:code")
					}
					if o.Thorough { // the full product
						for _, m := range ms {
							for _, c := range codes {
								fail(m, c, "fail:product")
							}
						}
					}
					// success
					for i := 0; i < 2; i++ {
						sc := base(mode, shape, k, "success")
						if mode == "mux" && shape == "unary" {
							sc.out = []string{"nil", "tnil", "ok:" + compact(ms[o.Rand.Intn(len(ms))].b), "ok:-"}[o.Rand.Intn(4)]
						}
						if mode == "script" && shape == "unary" && k == 0 {
							sc.sent = [][]byte{small()} // a unary handler answers
						}
						r.run(sc)
					}
				}
			}
		}
		// a 70000-byte response before the failure
		for _, mode := range []string{"script", "mux"} {
			sc := base(mode, "sstream", 3, "fail:bigresp")
			sc.sent[1] = ms[2].b
			sc.chain, sc.depth = errChain(mode, "F", 1, 12, ms[3])
			sc.wantCode = 12
			r.run(sc)
		}
		// codes attached deep inside the handler's error
		for _, mode := range []string{"script", "mux"} {
			for _, shape := range []string{"unary", "sstream"} {
				for _, d := range []int{50, 98, 99, 100, 101} {
					for _, mix := range []string{"U", "mixed", "P"} {
						sc := base(mode, shape, 0, fmt.Sprintf("fail:depth%d", d))
						c := []uint64{7, 1<<64 - 1}[o.Rand.Intn(2)]
						sc.chain, sc.depth = errChain(mode, mix, d, c, ms[3])
						sc.wantCode = c
						r.run(sc)
					}
				}
			}
		}
		// errors without any code, odd error values (nil-returning / cyclic Cause chains)
		for _, chain := range []string{"L:-", "L:2525", "E/L:41", "P1/L:-", "A/NA", "F/K", "U/SU", "R/C5/L:41", "X0/C5/L:41", "D/L:2573"} {
			mode := []string{"script", "mux"}[o.Rand.Intn(2)]
			sc := base(mode, "sstream", o.Rand.Intn(2), "fail:odd")
			sc.chain, sc.wantCode = chain, 0
			r.run(sc)
		}
		// failures produced by the dispatcher: unknown rpc
		names := []string{"", "/svc/Nope", "/svc/unary", "a\"b\\c", "tab\tnl\ncr\r", "\x00\x01\x07\x08\x0b\x0c\x1f\x7f", "%s%d%q%!",
			"\x80\xbf\xc0\xc1\xf5\xff", "hi\xfe\"\\\xff\n", strings.Repeat("/long", 60), " ", "'"}
		for _, name := range names {
			for _, shape := range []string{"unknown", "unknown-stream"} {
				sc := base("mux", shape, 0, "dispatch:unknown")
				sc.rpc, sc.nrecv = name, 2
				if shape == "unknown" {
					sc.nrecv = 1
				}
				r.run(sc)
			}
		}
		for i := 0; i < 12; i++ { // random names: printable ASCII + control + never-valid UTF-8 bytes
			alpha := []byte("abz/._\"\\ %\x00\n\t\x7f\x80\x9f\xc0\xff")
			b := make([]byte, 1+o.Rand.Intn(12))
			for j := range b {
				b[j] = alpha[o.Rand.Intn(len(alpha))]
			}
			sc := base("mux", []string{"unknown", "unknown-stream"}[i%2], 0, "dispatch:unknown")
			sc.rpc, sc.nrecv = string(b), 1+i%2
			r.run(sc)
		}
		// undecodable request (mux: the dispatcher's MsgRecv; script/stream methods: the handler's)
		for _, mode := range []string{"script", "mux"} {
			for _, shape := range shapes[mode] {
				for _, rc := range []struct {
					chain string
					code  uint64
					depth int
				}{{"L:626164207265712025732025", 0, 0}, {"C12/L:2564", 12, 0}, {"F/C18446744073709551615/L:00ff", 1<<64 - 1, 1}, {"U^99/C7/L:-", 7, 99}} {
					sc := base(mode, shape, 0, "dispatch:undecodable")
					sc.reqChain, sc.wantCode, sc.depth = rc.chain, rc.code, rc.depth
					if mode == "mux" {
						sc.depth++
					}
					sc.badAt = 0
					if shape == "cstream" {
						sc.nreq = 1 + o.Rand.Intn(3)
						sc.badAt = o.Rand.Intn(sc.nreq)
					}
					if shape == "bidi" {
						sc.sent = sentOf(o.Rand.Intn(3))
						sc.badAt = len(sc.sent)
						sc.nrecv = len(sc.sent) + 2
					}
					r.run(sc)
				}
			}
		}
		// unitary response that cannot be marshalled
		for _, oc := range []struct {
			chain string
			code  uint64
		}{{"L:6e6f206d61727368616c2025", 0}, {"C2/L:25", 2}, {"E/C4294967296/L:-", 1 << 32}} {
			sc := base("mux", "unary", o.Rand.Intn(2), "dispatch:unmarshallable-out")
			if len(sc.sent) > 0 {
				sc.sent = nil
			}
			sc.out, sc.wantCode, sc.depth = "err:"+oc.chain, oc.code, 2
			r.run(sc)
		}
	}

	// replay of Props.C10.error_after_closesend_counterexample (stable input strings)
	for _, shape := range []string{"sstream", "bidi"} {
		sc := base("script", shape, 0, "replay:closesend")
		sc.clientCloses = false
		sc.closeFirst, sc.chain, sc.wantCode = true, "C9/L:6c6174652025", 9
		e := r.env(sc.mode, false)
		e.svc.set(sc)
		var res []string
		var step atomic.Value
		if !bounded(waitBound, func() { res = e.client(sc, &step) }) {
			o.Oracle("hang", sc.String(), "replay did not complete")
			r.drop(sc.mode, false)
			continue
		}
		o.Case(sc.request(), strings.Join(res, " "), true)
		if len(res) == 0 || !strings.HasPrefix(res[0], "e:9:") {
			o.Oracle("error-after-closesend", "handler CloseSend then error code=9 shape="+shape, "client received "+strings.Join(res, " "))
		} else {
			o.OracleOK("error-after-closesend")
		}
	}
	// regression for fix 5e78564 (DESIGN §9-13): ManualFlush with an unflushed message must not mask the
	// handler's error as end-of-stream (Props.C10.handler_error_reaches_client holds for every `u`)
	{
		sc := base("script", "noread", 0, "regress:manualflush")
		sc.manualFlush, sc.chain, sc.wantCode, sc.nrecv = true, "C9/L:6d61736b65642025", 9, 2
		e := r.env(sc.mode, true)
		e.svc.set(sc)
		var res []string
		var step atomic.Value
		if !bounded(waitBound, func() { res = e.client(sc, &step) }) {
			o.Oracle("hang", sc.String(), "replay did not complete")
			r.drop(sc.mode, true)
		} else {
			o.Case(sc.request(), strings.Join(res, " "), true)
			want := "e:9:" + digest([]byte(buildChain(sc.chain).Error()))
			if len(res) != 2 || res[0] != want || res[1] != want {
				o.Oracle("manualflush-error-visible", "ManualFlush unflushed message then handler error code=9", "client received "+strings.Join(res, " "))
			} else {
				o.OracleOK("manualflush-error-visible")
			}
			// the same connection still works
			var pout rawMsg
			var perr error
			if !bounded(waitBound, func() { perr = e.conn.Invoke(e.ctx, "/probe", e.cenc, &rawMsg{b: []byte("mf")}, &pout) }) {
				o.Oracle("hang", sc.String(), "probe after the ManualFlush replay")
			} else if perr != nil || !bytes.Equal(pout.b, []byte("mf")) {
				o.Oracle("connection-usable-afterwards", sc.String(), fmt.Sprintf("probe err=%v", perr))
			} else {
				o.OracleOK("connection-usable-afterwards")
			}
		}
	}
	o.Stat(fmt.Sprintf("e2e:rpcs-total-%s", bucket(r.rpcs)))
}

func bucket(n int) string {
	switch {
	case n < 100:
		return "<100"
	case n < 1000:
		return "100-999"
	}
	return ">=1000"
}
