package meta

import (
	"bytes"
	"fmt"
	"sync"

	"google.golang.org/protobuf/proto"
	"google.golang.org/protobuf/reflect/protodesc"
	"google.golang.org/protobuf/reflect/protoreflect"
	"google.golang.org/protobuf/types/descriptorpb"
	"google.golang.org/protobuf/types/dynamicpb"
)

// The message released versions of drpc used for metadata (drpcmetadata/invoke/metadata.proto of v0.0.17):
//
//	message Metadata { map<string, string> data = 1; }
//
// built here as a dynamic message of google.golang.org/protobuf. It is declared with proto2 syntax so
// that the library does not insist on UTF-8 in the strings (the wire format is the same).
var (
	mdOnce sync.Once
	mdDesc protoreflect.MessageDescriptor
	mdErr  error
)

func metadataDescriptor() (protoreflect.MessageDescriptor, error) {
	mdOnce.Do(func() {
		str := descriptorpb.FieldDescriptorProto_TYPE_STRING
		msg := descriptorpb.FieldDescriptorProto_TYPE_MESSAGE
		opt := descriptorpb.FieldDescriptorProto_LABEL_OPTIONAL
		rep := descriptorpb.FieldDescriptorProto_LABEL_REPEATED
		fdp := &descriptorpb.FileDescriptorProto{
			Name:    proto.String("verif_metadata.proto"),
			Package: proto.String("verifmetadata"),
			Syntax:  proto.String("proto2"),
			MessageType: []*descriptorpb.DescriptorProto{{
				Name: proto.String("Metadata"),
				Field: []*descriptorpb.FieldDescriptorProto{{
					Name: proto.String("data"), JsonName: proto.String("data"), Number: proto.Int32(1),
					Label: &rep, Type: &msg, TypeName: proto.String(".verifmetadata.Metadata.DataEntry"),
				}},
				NestedType: []*descriptorpb.DescriptorProto{{
					Name: proto.String("DataEntry"),
					Field: []*descriptorpb.FieldDescriptorProto{
						{Name: proto.String("key"), JsonName: proto.String("key"), Number: proto.Int32(1), Label: &opt, Type: &str},
						{Name: proto.String("value"), JsonName: proto.String("value"), Number: proto.Int32(2), Label: &opt, Type: &str},
					},
					Options: &descriptorpb.MessageOptions{MapEntry: proto.Bool(true)},
				}},
			}},
		}
		fd, err := protodesc.NewFile(fdp, nil)
		if err != nil {
			mdErr = err
			return
		}
		mdDesc = fd.Messages().Get(0)
	})
	return mdDesc, mdErr
}

// protobufLibraryAgrees returns "" when google.golang.org/protobuf (a) unmarshals `enc` into exactly
// the map `m` and (b) marshals that map (deterministic key order) into the same multiset of entries
// that `enc` consists of.
func protobufLibraryAgrees(m map[string]string, enc []byte) string {
	desc, err := metadataDescriptor()
	if err != nil {
		return "cannot build descriptor: " + err.Error()
	}
	field := desc.Fields().ByNumber(1)
	msg := dynamicpb.NewMessage(desc)
	if err := (proto.UnmarshalOptions{DiscardUnknown: false}).Unmarshal(enc, msg); err != nil {
		return "protobuf cannot unmarshal: " + err.Error()
	}
	if len(msg.GetUnknown()) != 0 {
		return "protobuf saw unknown fields"
	}
	got := map[string]string{}
	msg.Get(field).Map().Range(func(k protoreflect.MapKey, v protoreflect.Value) bool {
		got[k.String()] = v.String()
		return true
	})
	if len(got) != len(m) {
		return fmt.Sprintf("protobuf read %d entries, want %d", len(got), len(m))
	}
	for k, v := range m {
		if gv, ok := got[k]; !ok || gv != v {
			return fmt.Sprintf("protobuf read a different value for key %x", k)
		}
	}
	// the other direction: what the library writes for this map
	out := dynamicpb.NewMessage(desc)
	mp := out.Mutable(field).Map()
	for k, v := range m {
		mp.Set(protoreflect.ValueOfString(k).MapKey(), protoreflect.ValueOfString(v))
	}
	ref, err := proto.MarshalOptions{Deterministic: true}.Marshal(out)
	if err != nil {
		return "protobuf cannot marshal: " + err.Error()
	}
	if len(ref) != len(enc) {
		return fmt.Sprintf("protobuf writes %d bytes, Encode wrote %d", len(ref), len(enc))
	}
	a, ok1 := splitEntries(ref)
	b, ok2 := splitEntries(enc)
	if !ok1 || !ok2 || len(a) != len(b) {
		return "entry structure differs from protobuf's"
	}
	index := map[string][]byte{}
	for _, e := range a {
		k, _, ok := entryKV(e)
		if !ok {
			return "protobuf reference entry unparsable"
		}
		index[k] = e
	}
	for _, e := range b {
		k, _, ok := entryKV(e)
		if !ok || !bytes.Equal(index[k], e) {
			return fmt.Sprintf("entry for key %x differs from protobuf's bytes", k)
		}
	}
	return ""
}
