package meta

import (
	"context"
	"fmt"
	"io"
	"sync"
	"time"

	"storj.io/drpc/drpcconn"
	"storj.io/drpc/drpcmanager"
	"storj.io/drpc/drpcmetadata"
	"storj.io/drpc/drpcstream"
	"storj.io/drpc/drpcwire"
	"verifharness/corr"
)

// recTransport records what is written; reads block until it is closed.
type recTransport struct {
	mu     sync.Mutex
	buf    []byte
	closed chan struct{}
	once   sync.Once
}

func (t *recTransport) Read(p []byte) (int, error) { <-t.closed; return 0, io.EOF }
func (t *recTransport) Write(p []byte) (int, error) {
	t.mu.Lock()
	t.buf = append(t.buf, p...)
	t.mu.Unlock()
	return len(p), nil
}
func (t *recTransport) Close() error { t.once.Do(func() { close(t.closed) }); return nil }
func (t *recTransport) bytes() []byte {
	t.mu.Lock()
	defer t.mu.Unlock()
	return append([]byte(nil), t.buf...)
}

// hasKind reports whether the byte stream contains a complete frame of the given kind with done set.
func hasKind(b []byte, kind drpcwire.Kind) bool {
	for len(b) > 0 {
		rem, fr, ok, err := drpcwire.ParseFrame(b)
		if err != nil || !ok {
			return false
		}
		if fr.Kind == kind && fr.Done {
			return true
		}
		b = rem
	}
	return false
}

// connWire: the bytes a real drpcconn.Conn puts on a fresh connection for one unary call / one new
// stream must be the model's `encodeAll split (invokePackets …)` (Drpc/Conn/Request.lean).
func connWire(o *corr.Out, unary bool, rpc string, key, val string, hasMD bool, data []byte, split int) {
	tr := &recTransport{closed: make(chan struct{})}
	conn := drpcconn.NewWithOptions(tr, drpcconn.Options{Manager: drpcmanager.Options{Stream: drpcstream.Options{SplitSize: split}}})
	ctx, cancel := context.WithCancel(context.Background())
	if hasMD {
		ctx = drpcmetadata.Add(ctx, key, val)
	}
	done := make(chan struct{})
	go func() {
		defer close(done)
		if unary {
			var out []byte
			in := append([]byte(nil), data...)
			_ = conn.Invoke(ctx, rpc, rawEnc{}, &in, &out)
		} else {
			st, err := conn.NewStream(ctx, rpc, rawEnc{})
			if err == nil {
				_ = st.(interface{ RawFlush() error }).RawFlush()
			}
		}
	}()
	want := drpcwire.KindCloseSend
	if !unary {
		want = drpcwire.KindInvoke
	}
	deadline := time.Now().Add(5 * time.Second)
	for !hasKind(tr.bytes(), want) && time.Now().Before(deadline) {
		time.Sleep(200 * time.Microsecond)
	}
	wire := tr.bytes()
	cancel()
	_ = conn.Close()
	<-done
	md := "-"
	if hasMD {
		md = corr.Hex([]byte(key)) + "=" + corr.Hex([]byte(val))
		if key == "" {
			md = "-=" + corr.Hex([]byte(val))
		}
	}
	cmd := "conn.invoke"
	req := fmt.Sprintf("%s sid=1 rpc=%s md=%s data=%s split=%d", cmd, corr.Hex([]byte(rpc)), md, corr.Hex(data), split)
	if !unary {
		cmd = "conn.newstream"
		req = fmt.Sprintf("%s sid=1 rpc=%s md=%s split=%d", cmd, corr.Hex([]byte(rpc)), md, split)
	}
	o.Case(req, corr.Hex(wire), true)
	o.Stat(fmt.Sprintf("connwire:unary=%v:md=%v", unary, hasMD))
}

func runConnWire(o *corr.Out) {
	r := o.Rand
	n := 60
	if o.Thorough {
		n = 600
	}
	splits := []int{0, -1, 1, 3, 64, 1000}
	for i := 0; i < n; i++ {
		rpc := "/svc/" + randString(o, false)
		data := make([]byte, []int{0, 1, 5, 200, 3000, 70000}[r.Intn(6)])
		for j := range data {
			data[j] = byte(r.Intn(256))
		}
		hasMD := r.Intn(3) > 0
		key, val := randString(o, false), randString(o, false)
		if key == "" {
			key = "k"
		}
		connWire(o, r.Intn(3) > 0, rpc, key, val, hasMD, data, splits[r.Intn(len(splits))])
	}
}
