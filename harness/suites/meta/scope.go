package meta

import (
	"context"
	"fmt"
	"io"
	"net"
	"strings"
	"sync"
	"time"

	"storj.io/drpc"
	"storj.io/drpc/drpcconn"
	"storj.io/drpc/drpcmanager"
	"storj.io/drpc/drpcmetadata"
	"storj.io/drpc/drpcwire"
	"verifharness/corr"
)

// ---- scenarios: raw frames into a real server-side Manager -------------------------------------

type pkt struct {
	kind drpcwire.Kind
	sid  uint64
	data []byte
}

type scenario struct {
	class    string
	pkts     []pkt
	finish   []int // per served call: 0 Close, 1 Cancel, 2 SendError, 3 CloseSend then Close
	oneWrite bool  // all frames in one transport write (else one flush per packet)
	soft     bool  // Options.SoftCancel
	// direct expectation, computed from the way the scenario was built (no model involved):
	// per invoke, the canonical own metadata ("none" when the call has none), or "err" at the call
	// whose metadata is undecodable
	want []string
}

func (s *scenario) request() string {
	parts := make([]string, len(s.pkts))
	for i, p := range s.pkts {
		parts[i] = fmt.Sprintf("%d:%d:%s", p.kind, p.sid, corr.Hex(p.data))
	}
	if len(parts) == 0 {
		return "meta.serve p=-"
	}
	return "meta.serve p=" + strings.Join(parts, ",")
}

const stepTimeout = 5 * time.Second

// budget bounds the time the connection-level sections may take when the code under test is broken
// (every scenario then runs into its timeouts); on a healthy tree they take about a second.
func budget(o *corr.Out) time.Duration {
	if o.Thorough {
		return 10 * time.Minute
	}
	return 25 * time.Second
}

// run drives a real Manager with the scenario's packets and reports what each NewServerStream call
// returned: S[sid|rpc|metadata seen by drpcmetadata.Get on the stream's context], E[class] for a
// decode error, W when the call was still waiting when the client went away.
func (s *scenario) run() (answer string, seen []string) {
	c1, c2 := net.Pipe()
	man := drpcmanager.NewWithOptions(c2, drpcmanager.Options{SoftCancel: s.soft})
	var wg sync.WaitGroup
	served := make(chan struct{}) // closed when the serve loop is through with the invokes
	defer func() {
		_ = c1.Close()
		// Close in a goroutine with a deadline: when NewServerStream panicked (this runs while the panic
		// unwinds) the manager is left in a state in which Close waits forever, and eight such scenarios
		// would wedge the whole suite before it can report the input that caused the panic
		closed := make(chan struct{})
		go func() { defer close(closed); defer func() { recover() }(); _ = man.Close() }()
		select {
		case <-closed:
			_ = c2.Close()
		case <-time.After(stepTimeout):
			_ = c2.Close()
		}
		waitTimeout(&wg, stepTimeout)
	}()

	// client side: a writer of raw frames and a drain for whatever the server sends back
	wg.Add(2)
	go func() {
		defer wg.Done()
		_, _ = io.Copy(io.Discard, c1)
	}()
	go func() {
		defer wg.Done()
		wr := drpcwire.NewWriter(c1, 1<<20)
		mids := map[uint64]uint64{}
		for _, p := range s.pkts {
			mids[p.sid]++
			if err := wr.WritePacket(drpcwire.Packet{Kind: p.kind, ID: drpcwire.ID{Stream: p.sid, Message: mids[p.sid]}, Data: p.data}); err != nil {
				return
			}
			if !s.oneWrite {
				if err := wr.Flush(); err != nil {
					return
				}
			}
		}
		if err := wr.Flush(); err != nil {
			return
		}
		select {
		case <-served:
		case <-time.After(4 * stepTimeout):
		}
		_ = c1.Close() // the client goes away: a call still waiting for an invoke now ends
	}()

	invokes := 0
	for _, p := range s.pkts {
		if p.kind == drpcwire.KindInvoke {
			invokes++
		}
	}
	var out []string
	ctx, cancelAll := context.WithCancel(context.Background()) // one context for the connection, as a server has
	defer cancelAll()
	var once sync.Once
	release := func() { once.Do(func() { close(served) }) }
	defer release()
loop:
	for call := 0; ; call++ {
		if call == invokes {
			release() // everything sent before this point has been consumed or is parked in the reader
		}
		// a watchdog instead of a per-call context: the stream's context derives from the one passed
		// here, and cancelling that would cancel the stream (and, in hard-cancel mode, the connection)
		watchdog := time.AfterFunc(stepTimeout, cancelAll)
		stream, rpc, err := man.NewServerStream(ctx)
		timedOut := !watchdog.Stop()
		if err != nil {
			switch c := errClass(err); {
			case c == "invalid" || c == "toolong":
				out = append(out, "E["+c+"]")
			case timedOut:
				out = append(out, "timeout")
			case call >= invokes:
				out = append(out, "W")
			default:
				out = append(out, "closed-early:"+strings.ReplaceAll(err.Error(), " ", "_"))
			}
			break loop
		}
		md, ok := drpcmetadata.Get(stream.Context())
		mds := "none"
		if ok {
			mds = canonMap(md)
			if len(md) == 0 {
				mds = "empty-map"
			}
		}
		seen = append(seen, mds)
		out = append(out, fmt.Sprintf("S[%d|%s|%s]", stream.ID(), corr.Hex([]byte(rpc)), mds))
		mode := 0
		if call < len(s.finish) {
			mode = s.finish[call]
		}
		// the handler ends the call one way or another before the next one is accepted.  (Leaving the
		// stream open and relying on the reader to cancel it when the next call's packets arrive is not
		// done here: that implicit cancel races with newStream's sbuf.Set and is not C11's subject.)
		switch mode {
		case 0:
			_ = stream.Close()
		case 1:
			stream.Cancel(context.Canceled)
		case 2:
			_ = stream.SendError(fmt.Errorf("handler failed"))
		case 3:
			_ = stream.CloseSend()
			_ = stream.Close()
		}
		if call > invokes+2 {
			out = append(out, "runaway")
			break loop
		}
	}
	return strings.Join(out, " "), seen
}

func waitTimeout(wg *sync.WaitGroup, d time.Duration) bool {
	ch := make(chan struct{})
	go func() { wg.Wait(); close(ch) }()
	select {
	case <-ch:
		return true
	case <-time.After(d):
		return false
	}
}

func encodeOrdered(pairs [][2]string) []byte {
	var buf []byte
	for _, kv := range pairs {
		buf, _ = drpcmetadata.Encode(buf, map[string]string{kv[0]: kv[1]})
	}
	return buf
}

func canonPairs(pairs [][2]string) string {
	m := map[string]string{}
	for _, kv := range pairs {
		m[kv[0]] = kv[1]
	}
	if len(m) == 0 {
		return "none"
	}
	return canonMap(m)
}

func randPairs(o *corr.Out) [][2]string {
	n := 1 + o.Rand.Intn(3)
	if o.Rand.Intn(8) == 0 {
		n = 4 + o.Rand.Intn(17)
	}
	out := make([][2]string, 0, n)
	for i := 0; i < n; i++ {
		k := randString(o, false)
		if len(k) > 20 {
			k = k[:20]
		}
		v := randString(o, false)
		if len(v) > 40 {
			v = v[:40]
		}
		if i > 0 && o.Rand.Intn(5) == 0 {
			k = out[o.Rand.Intn(i)][0]
		}
		out = append(out, [2]string{k, v})
	}
	return out
}

var undecodable = [][]byte{
	{0x12, 0x00},
	{0x0a},
	{0x0a, 0x05, 0x0a, 0x01, 0x6b},
	{0x0a, 0x06, 0x12, 0x01, 0x76, 0x0a, 0x01, 0x6b},
	{0x0a, 0x07, 0x0a, 0x01, 0x6b, 0x12, 0x01, 0x76, 0x00},
	{0x0a, 0x80, 0x80, 0x80, 0x80, 0x80, 0x80, 0x80, 0x80, 0x80, 0x80, 0x01},
	// one hostile length (2^63, 2^64-1, 2^62 padded), the other two consistent
	{0x0a, 0x0e, 0x0a, 0x01, 0x6b, 0x12, 0x80, 0x80, 0x80, 0x80, 0x80, 0x80, 0x80, 0x80, 0x80, 0x01},
	{0x0a, 0x0f, 0x0a, 0x01, 0x6b, 0x12, 0xff, 0xff, 0xff, 0xff, 0xff, 0xff, 0xff, 0xff, 0xff, 0x01, 0x76},
	{0x0a, 0x0f, 0x0a, 0x80, 0x80, 0x80, 0x80, 0x80, 0x80, 0x80, 0x80, 0x80, 0x01, 0x6b, 0x12, 0x01, 0x76},
	{0x0a, 0x80, 0x80, 0x80, 0x80, 0x80, 0x80, 0x80, 0x80, 0x80, 0x01, 0x0a, 0x01, 0x6b, 0x12, 0x01, 0x76},
	{0x0a, 0x0e, 0x0a, 0x01, 0x6b, 0x12, 0x80, 0x80, 0x80, 0x80, 0x80, 0x80, 0x80, 0x80, 0xc0, 0x00},
}

// genScenario builds a sequence of calls on one connection. Stream ids increase from call to call
// (as drpcwire.Reader demands); between two invoked ids there may be ids that were abandoned after
// their metadata.
func genScenario(o *corr.Out, class string) *scenario {
	s := &scenario{class: class, oneWrite: o.Rand.Intn(2) == 0, soft: o.Rand.Intn(3) == 0}
	ncalls := 1 + o.Rand.Intn(4)
	var sid uint64
	switch o.Rand.Intn(6) {
	case 0:
		sid = uint64(o.Rand.Intn(1000))
	case 1:
		sid = 1<<63 - 3 + uint64(o.Rand.Intn(2))
	case 2:
		sid = 1<<64 - 40
	}
	failed := false
	for c := 0; c < ncalls && !failed; c++ {
		own := sid + 1
		var abandoned []uint64
		withAbandon := class == "abandoned" || (class == "mixed" && o.Rand.Intn(3) == 0)
		if withAbandon {
			na := 1 + o.Rand.Intn(2)
			for i := 0; i < na; i++ {
				abandoned = append(abandoned, own)
				own++
			}
		}
		// metadata of abandoned ids: sent, never invoked
		for _, a := range abandoned {
			reps := 1 + o.Rand.Intn(2)
			for r := 0; r < reps; r++ {
				s.pkts = append(s.pkts, pkt{drpcwire.KindInvokeMetadata, a, encodeOrdered(randPairs(o))})
			}
		}
		// own metadata: none, once, several times (the last must win), empty, undecodable
		want := "none"
		nOwn := 0
		switch class {
		case "plain":
			nOwn = o.Rand.Intn(2)
		case "abandoned":
			nOwn = o.Rand.Intn(2)
			if c == 0 {
				nOwn = 0 // the sharpest case: an abandoned call's metadata and an invoke without any
			}
		case "repeated":
			nOwn = 2 + o.Rand.Intn(2)
		case "mixed":
			nOwn = o.Rand.Intn(4)
		case "bad":
			nOwn = 1 + o.Rand.Intn(2)
		}
		for r := 0; r < nOwn; r++ {
			pairs := randPairs(o)
			data := encodeOrdered(pairs)
			w := canonPairs(pairs)
			if class != "plain" && class != "bad" && o.Rand.Intn(6) == 0 {
				data, w = nil, "none" // a metadata packet with no entries
			}
			if class == "bad" && (r == nOwn-1 || o.Rand.Intn(3) == 0) && c == ncalls-1 {
				data, w = undecodable[o.Rand.Intn(len(undecodable))], "err"
			}
			s.pkts = append(s.pkts, pkt{drpcwire.KindInvokeMetadata, own, data})
			want = w
			if w == "err" {
				failed = true
				break
			}
		}
		s.want = append(s.want, want)
		if failed {
			// whatever follows must not matter
			if o.Rand.Intn(2) == 0 {
				s.pkts = append(s.pkts, pkt{drpcwire.KindInvoke, own, []byte("/after/bad")})
			}
			break
		}
		rpc := fmt.Sprintf("/svc/Method%d", c)
		if o.Rand.Intn(8) == 0 {
			rpc = ""
		}
		s.pkts = append(s.pkts, pkt{drpcwire.KindInvoke, own, []byte(rpc)})
		s.finish = append(s.finish, o.Rand.Intn(4))
		sid = own
		if o.Rand.Intn(5) == 0 && sid < 1<<62 {
			sid += uint64(o.Rand.Intn(1 << 20))
		}
	}
	// sometimes the connection ends with metadata of a call that never gets invoked
	if !failed && o.Rand.Intn(4) == 0 {
		s.pkts = append(s.pkts, pkt{drpcwire.KindInvokeMetadata, sid + 1, encodeOrdered(randPairs(o))})
	}
	return s
}

func runScoping(o *corr.Out) {
	var scs []*scenario
	// fixed, minimal scenarios first
	kv := encodeOrdered([][2]string{{"inc", "10"}})
	kv2 := encodeOrdered([][2]string{{"other", "x"}})
	fixed := []*scenario{
		{class: "fixed", pkts: []pkt{{drpcwire.KindInvoke, 1, []byte("/a")}}, want: []string{"none"}},
		{class: "fixed", pkts: []pkt{{drpcwire.KindInvokeMetadata, 1, kv}, {drpcwire.KindInvoke, 1, []byte("/a")}}, want: []string{canonPairs([][2]string{{"inc", "10"}})}},
		// abandoned: metadata for 1, invoke for 2
		{class: "fixed-abandoned", pkts: []pkt{{drpcwire.KindInvokeMetadata, 1, kv}, {drpcwire.KindInvoke, 2, []byte("/a")}}, want: []string{"none"}},
		// abandoned after a served call
		{class: "fixed-abandoned", pkts: []pkt{{drpcwire.KindInvokeMetadata, 1, kv}, {drpcwire.KindInvoke, 1, []byte("/a")},
			{drpcwire.KindInvokeMetadata, 2, kv2}, {drpcwire.KindInvoke, 3, []byte("/b")}}, want: []string{canonPairs([][2]string{{"inc", "10"}}), "none"}},
		// metadata twice on the same id
		{class: "fixed-repeated", pkts: []pkt{{drpcwire.KindInvokeMetadata, 1, kv}, {drpcwire.KindInvokeMetadata, 1, kv2}, {drpcwire.KindInvoke, 1, []byte("/a")}},
			want: []string{canonPairs([][2]string{{"other", "x"}})}},
		// second call without metadata after a call with
		{class: "fixed", pkts: []pkt{{drpcwire.KindInvokeMetadata, 1, kv}, {drpcwire.KindInvoke, 1, []byte("/a")}, {drpcwire.KindInvoke, 2, []byte("/b")}},
			want: []string{canonPairs([][2]string{{"inc", "10"}}), "none"}},
		// metadata replaced by an empty packet
		{class: "fixed-repeated", pkts: []pkt{{drpcwire.KindInvokeMetadata, 1, kv}, {drpcwire.KindInvokeMetadata, 1, nil}, {drpcwire.KindInvoke, 1, []byte("/a")}}, want: []string{"none"}},
		{class: "fixed-bad", pkts: []pkt{{drpcwire.KindInvokeMetadata, 1, []byte{0x12, 0x00}}, {drpcwire.KindInvoke, 1, []byte("/a")}}, want: []string{"err"}},
	}
	// every undecodable shape once as the metadata of the first call (the random class "bad" draws from them)
	for _, u := range undecodable[1:] {
		fixed = append(fixed, &scenario{class: "fixed-bad", pkts: []pkt{{drpcwire.KindInvokeMetadata, 1, u}, {drpcwire.KindInvoke, 1, []byte("/a")}}, want: []string{"err"}})
	}
	for _, f := range fixed {
		for mode := 0; mode < 4; mode++ {
			c := *f
			c.finish = []int{mode, mode, mode}
			c.oneWrite = mode%2 == 0
			c.soft = mode == 3
			scs = append(scs, &c)
		}
	}
	n := 250
	if o.Thorough {
		n = 4000
	}
	for _, class := range []string{"plain", "abandoned", "repeated", "mixed", "bad"} {
		for i := 0; i < n; i++ {
			scs = append(scs, genScenario(o, class))
		}
	}

	// run them on a few workers (every scenario has its own pipe and manager)
	type result struct {
		ans  string
		seen []string
	}
	results := make([]result, len(scs))
	var wg sync.WaitGroup
	sem := make(chan struct{}, 8)
	start := time.Now()
	skipped := len(scs)
	for i := range scs {
		if time.Since(start) > budget(o) {
			skipped = i
			break
		}
		wg.Add(1)
		sem <- struct{}{}
		go func(i int) {
			defer wg.Done()
			defer func() { <-sem }()
			defer func() {
				if r := recover(); r != nil {
					results[i].ans = "panic"
				}
			}()
			results[i].ans, results[i].seen = scs[i].run()
		}(i)
	}
	wg.Wait()

	for i, s := range scs {
		if i >= skipped {
			o.Stat("serve:skipped-over-budget")
			continue
		}
		r := results[i]
		o.Stat("serve:" + s.class + ":" + lastWord(r.ans))
		o.Case(s.request(), r.ans, len(s.pkts) >= 2)
		// direct oracle: every handler saw exactly its own metadata, and an undecodable packet
		// ended the connection's serve loop with the decoder's error
		bad := ""
		k := 0
		for _, w := range s.want {
			if w == "err" {
				if !strings.Contains(r.ans, "E[") || len(r.seen) != k {
					bad = fmt.Sprintf("call %d: undecodable metadata did not end the loop with a decode error", k)
				}
				break
			}
			if k >= len(r.seen) {
				bad = fmt.Sprintf("call %d was not served", k)
				break
			}
			if r.seen[k] != w {
				bad = fmt.Sprintf("call %d saw metadata %s, its own is %s", k, r.seen[k], w)
				break
			}
			k++
		}
		if bad == "" && strings.Contains(r.ans, "timeout") {
			bad = "NewServerStream did not return"
		}
		if bad != "" {
			o.Oracle("handler-sees-own-metadata", s.request(), bad+" :: "+r.ans)
		} else {
			o.OracleOK("handler-sees-own-metadata")
		}
	}
}

func lastWord(s string) string {
	if i := strings.LastIndexByte(s, ' '); i >= 0 {
		s = s[i+1:]
	}
	if i := strings.IndexByte(s, '['); i >= 0 {
		if s[0] == 'S' {
			return "S"
		}
	}
	return s
}

// ---- end to end: a real drpcconn client against a real server-side Manager ---------------------

type rawEnc struct{}

func (rawEnc) Marshal(msg drpc.Message) ([]byte, error) { return *(msg.(*[]byte)), nil }
func (rawEnc) Unmarshal(buf []byte, msg drpc.Message) error {
	*(msg.(*[]byte)) = append([]byte(nil), buf...)
	return nil
}

// One connection, a sequence of unary and streaming calls, each with its own (or no) metadata on a
// context built from a fresh root. The server answers every call with the canonical form of the
// metadata its context carries; the client compares that with what it attached.
func endToEnd(maps []map[string]string, streaming []bool) string {
	c1, c2 := net.Pipe()
	man := drpcmanager.New(c2)
	conn := drpcconn.New(c1)
	var wg sync.WaitGroup
	defer func() {
		_ = conn.Close()
		_ = man.Close()
		waitTimeout(&wg, stepTimeout)
	}()
	wg.Add(1)
	go func() {
		defer wg.Done()
		ctx, cancel := context.WithTimeout(context.Background(), 8*stepTimeout)
		defer cancel()
		for {
			stream, rpc, err := man.NewServerStream(ctx)
			if err != nil {
				_ = c2.Close() // like drpcserver: the connection ends, the client must not wait for a reply
				return
			}
			md, ok := drpcmetadata.Get(stream.Context())
			reply := "none"
			if ok {
				reply = canonMap(md)
			}
			reply = rpc + " " + reply
			var in []byte
			if err := stream.MsgRecv(&in, rawEnc{}); err != nil {
				_ = stream.Close()
				continue
			}
			out := []byte(reply)
			_ = stream.MsgSend(&out, rawEnc{})
			_ = stream.Close()
		}
	}()
	for i, m := range maps {
		ctx, cancel := context.WithTimeout(context.Background(), stepTimeout)
		if m != nil {
			ctx = drpcmetadata.AddPairs(ctx, m)
		}
		rpc := fmt.Sprintf("/e2e/Call%d", i)
		want := rpc + " none"
		if len(m) > 0 {
			want = rpc + " " + canonMap(m)
		}
		in := []byte("ping")
		var out []byte
		var err error
		if streaming[i] {
			var st drpc.Stream
			st, err = conn.NewStream(ctx, rpc, rawEnc{})
			if err == nil {
				if err = st.MsgSend(&in, rawEnc{}); err == nil {
					err = st.MsgRecv(&out, rawEnc{})
				}
				_ = st.Close()
			}
		} else {
			err = conn.Invoke(ctx, rpc, rawEnc{}, &in, &out)
		}
		cancel()
		if err != nil {
			return fmt.Sprintf("call %d failed: %v", i, err)
		}
		if string(out) != want {
			g := string(out)
			if len(g) > 200 {
				g = g[:200] + "…"
			}
			return fmt.Sprintf("call %d: handler saw %q, attached %q", i, g, want)
		}
	}
	return ""
}

// contextOwnsMetadata: attaching a map to a context copies it (`addPairs` of the model builds a new
// list): editing the caller's map afterwards, or adding to a second context built from the same
// map, must not change what the first context carries.
func contextOwnsMetadata(o *corr.Out) {
	for i := 0; i < 40; i++ {
		m := randMap(o, 1+o.Rand.Intn(4), false)
		want := canonMap(m)
		c1 := drpcmetadata.AddPairs(context.Background(), m)
		c2 := drpcmetadata.Add(drpcmetadata.AddPairs(context.Background(), m), "role", "admin")
		m["late"] = "edit"
		got1, _ := drpcmetadata.Get(c1)
		got2, _ := drpcmetadata.Get(c2)
		desc := "addpairs m=" + want
		switch {
		case canonMap(got1) != want:
			o.Oracle("context-owns-its-metadata", desc, "the first context now carries "+canonMap(got1))
		case got2["role"] != "admin" || len(got2) != len(got1)+1:
			o.Oracle("context-owns-its-metadata", desc, "the second context carries "+canonMap(got2))
		default:
			o.OracleOK("context-owns-its-metadata")
		}
		delete(m, "late")
	}
}

func runEndToEnd(o *corr.Out) {
	contextOwnsMetadata(o)
	// Observation (recorded in the evidence, not a violation of C11): drpcmetadata.Add writes into the
	// map of the parent context when there is one, so contexts derived from one another share a map.
	// Every call context here is therefore built from a fresh root.
	{
		parent := drpcmetadata.Add(context.Background(), "a", "1")
		_ = drpcmetadata.Add(parent, "b", "2")
		if md, _ := drpcmetadata.Get(parent); len(md) == 2 {
			o.Stat("observation:Add-writes-into-parent-context-map")
		} else {
			o.Stat("observation:Add-copies-parent-context-map")
		}
	}
	n := 150
	if o.Thorough {
		n = 3000
	}
	type job struct {
		maps      []map[string]string
		streaming []bool
	}
	jobs := make([]job, n)
	for i := range jobs {
		calls := 2 + o.Rand.Intn(5)
		for c := 0; c < calls; c++ {
			var m map[string]string
			switch o.Rand.Intn(4) {
			case 0: // no metadata at all
			case 1:
				m = map[string]string{} // metadata present on the context but empty
			default:
				m = randMap(o, 1+o.Rand.Intn(4), i%10 == 0)
			}
			jobs[i].maps = append(jobs[i].maps, m)
			jobs[i].streaming = append(jobs[i].streaming, o.Rand.Intn(3) == 0)
		}
	}
	res := make([]string, n)
	var wg sync.WaitGroup
	sem := make(chan struct{}, 8)
	start := time.Now()
	skipped := n
	for i := range jobs {
		if time.Since(start) > budget(o) {
			skipped = i
			break
		}
		wg.Add(1)
		sem <- struct{}{}
		go func(i int) {
			defer wg.Done()
			defer func() { <-sem }()
			defer func() {
				if r := recover(); r != nil {
					res[i] = fmt.Sprint("panic: ", r)
				}
			}()
			res[i] = endToEnd(jobs[i].maps, jobs[i].streaming)
		}(i)
	}
	wg.Wait()
	for i, r := range res {
		if i >= skipped {
			o.Stat("e2e:skipped-over-budget")
			continue
		}
		if r != "" {
			var d []string
			for _, m := range jobs[i].maps {
				c := "nil"
				if m != nil {
					c = canonMap(m)
				}
				if len(c) > 80 {
					c = c[:80] + "…"
				}
				d = append(d, c)
			}
			o.Oracle("end-to-end-own-metadata", strings.Join(d, " | "), r)
		} else {
			o.OracleOK("end-to-end-own-metadata")
		}
		o.Stat(fmt.Sprintf("e2e:calls%d", len(jobs[i].maps)))
	}
}
