// Package meta: correspondence + direct oracles for drpcmetadata's codec and for the metadata
// scoping of drpcmanager.Manager.NewServerStream (C11).
package meta

import (
	"bytes"
	"fmt"
	"os"
	"sort"
	"strings"

	"google.golang.org/protobuf/encoding/protowire"

	"storj.io/drpc"
	"storj.io/drpc/drpcmetadata"
	"verifharness/corr"
)

// ---- canonical forms -------------------------------------------------------------------------

func showPairs(keys, vals []string) string {
	if len(keys) == 0 {
		return "-"
	}
	var sb strings.Builder
	for i := range keys {
		if i > 0 {
			sb.WriteByte(',')
		}
		sb.WriteString(corr.Hex([]byte(keys[i])))
		sb.WriteByte('=')
		sb.WriteString(corr.Hex([]byte(vals[i])))
	}
	return sb.String()
}

// canonMap: keys in byte order, hex key=value pairs, "-" for the empty (or nil) map.
func canonMap(m map[string]string) string {
	keys := make([]string, 0, len(m))
	for k := range m {
		keys = append(keys, k)
	}
	sort.Strings(keys)
	vals := make([]string, len(keys))
	for i, k := range keys {
		vals[i] = m[k]
	}
	return showPairs(keys, vals)
}

func errClass(err error) string {
	switch {
	case err == nil:
		return "nil"
	case drpc.Error.Has(err) && strings.Contains(err.Error(), "varint too long"):
		return "toolong"
	case strings.Contains(err.Error(), "invalid data"):
		return "invalid"
	}
	return "other"
}

// DecodeAnswer runs the real Decode and canonicalises.
func DecodeAnswer(b []byte) string {
	return corr.Catch(func() string {
		m, err := drpcmetadata.Decode(append([]byte(nil), b...))
		if err != nil {
			if m != nil {
				return "err-with-map"
			}
			return "err:" + errClass(err)
		}
		return "ok " + canonMap(m)
	})
}

// ---- independent references ------------------------------------------------------------------

// refEntry builds one map entry by hand with the protobuf wire primitives of
// google.golang.org/protobuf/encoding/protowire: field 1 (LEN) { field 1 (LEN) key, field 2 (LEN) value }.
func refEntry(k, v string) []byte {
	var inner []byte
	inner = protowire.AppendTag(inner, 1, protowire.BytesType)
	inner = protowire.AppendString(inner, k)
	inner = protowire.AppendTag(inner, 2, protowire.BytesType)
	inner = protowire.AppendString(inner, v)
	var out []byte
	out = protowire.AppendTag(out, 1, protowire.BytesType)
	out = protowire.AppendBytes(out, inner)
	return out
}

// refDecode is an independent strict decoder written from the format description, using only
// arithmetic: a sequence of `0a len { 0a len key 12 len value }`, lengths are LEB128 of at most ten
// bytes (value modulo 2^64, padded encodings allowed), nothing else accepted.
func refVarint(b []byte) (rest []byte, v uint64, state string) {
	var mul uint64 = 1
	for i := 0; i < 10; i++ {
		if i >= len(b) {
			return nil, 0, "invalid"
		}
		v += uint64(b[i]%128) * mul
		mul *= 128
		if b[i] < 128 {
			return b[i+1:], v, "ok"
		}
	}
	return nil, 0, "toolong"
}

func refField(tag byte, b []byte) (field, rest []byte, state string) {
	if len(b) == 0 || b[0] != tag {
		return nil, nil, "invalid"
	}
	r, n, st := refVarint(b[1:])
	if st != "ok" {
		return nil, nil, st
	}
	if n > uint64(len(r)) {
		return nil, nil, "invalid"
	}
	return r[:n], r[n:], "ok"
}

func refDecode(b []byte) string {
	out := map[string]string{}
	for len(b) > 0 {
		entry, rest, st := refField(10, b)
		if st != "ok" {
			return "err:" + st
		}
		key, r2, st := refField(10, entry)
		if st != "ok" {
			return "err:" + st
		}
		val, r3, st := refField(18, r2)
		if st != "ok" {
			return "err:" + st
		}
		if len(r3) != 0 {
			return "err:invalid"
		}
		out[string(key)] = string(val)
		b = rest
	}
	return "ok " + canonMap(out)
}

// splitEntries cuts an encoding into its top-level entries with protowire.
func splitEntries(b []byte) (entries [][]byte, ok bool) {
	for len(b) > 0 {
		num, typ, n := protowire.ConsumeTag(b)
		if n < 0 || num != 1 || typ != protowire.BytesType {
			return nil, false
		}
		_, m := protowire.ConsumeBytes(b[n:])
		if m < 0 {
			return nil, false
		}
		entries = append(entries, b[:n+m])
		b = b[n+m:]
	}
	return entries, true
}

// entryKV parses one entry with protowire (key then value, both present, nothing else).
func entryKV(e []byte) (k, v string, ok bool) {
	_, _, n := protowire.ConsumeTag(e)
	inner, m := protowire.ConsumeBytes(e[n:])
	if m < 0 {
		return "", "", false
	}
	num, typ, n1 := protowire.ConsumeTag(inner)
	if n1 < 0 || num != 1 || typ != protowire.BytesType {
		return "", "", false
	}
	kb, m1 := protowire.ConsumeBytes(inner[n1:])
	if m1 < 0 {
		return "", "", false
	}
	inner = inner[n1+m1:]
	num, typ, n2 := protowire.ConsumeTag(inner)
	if n2 < 0 || num != 2 || typ != protowire.BytesType {
		return "", "", false
	}
	vb, m2 := protowire.ConsumeBytes(inner[n2:])
	if m2 < 0 || len(inner[n2+m2:]) != 0 {
		return "", "", false
	}
	return string(kb), string(vb), true
}

// ---- generators ------------------------------------------------------------------------------

func leb(v uint64) []byte {
	var b []byte
	for v >= 128 {
		b = append(b, byte(v)|0x80)
		v >>= 7
	}
	return append(b, byte(v))
}

// lebVariants: the minimal encoding, padded by one byte, padded to ten bytes (non-minimal encodings are
// accepted by ReadVarint), and for ten-byte encodings the same with bits in the tenth byte that do not
// fit into 64 bits (dropped by ReadVarint).
func lebVariants(v uint64) [][]byte {
	m := leb(v)
	out := [][]byte{m}
	pad := func(n int) []byte {
		b := append([]byte(nil), m...)
		b[len(b)-1] |= 0x80
		for len(b) < n-1 {
			b = append(b, 0x80)
		}
		return append(b, 0x00)
	}
	if len(m) < 10 {
		out = append(out, pad(len(m)+1))
	}
	if len(m) < 9 {
		out = append(out, pad(10))
	}
	if len(m) == 10 {
		o1 := append([]byte(nil), m...)
		o1[9] |= 0x02
		o2 := append([]byte(nil), m...)
		o2[9] |= 0x7e
		out = append(out, o1, o2)
	}
	return out
}

var hostileLengths = []uint64{1<<31 - 1, 1 << 31, 1 << 32, 1 << 62, 1<<63 - 1, 1 << 63, 1<<63 + 1, 1<<64 - 2, 1<<64 - 1}

type hostileInput struct {
	pos   string // outer, key, value
	bytes []byte
}

// hostilePositions: entries `0a <outer> 0a <klen> k 12 <vlen> v` in which exactly one of the three
// lengths is hostile and the others are the true lengths of what follows them.
func hostilePositions() []hostileInput {
	var out []hostileInput
	good := refEntry("g", "ood")
	cat := func(parts ...[]byte) []byte {
		var b []byte
		for _, p := range parts {
			b = append(b, p...)
		}
		return b
	}
	tails := [][]byte{nil, []byte("v"), []byte("vvvvvvvvvvvvvvvvvvvv")}
	for _, h := range hostileLengths {
		for _, enc := range lebVariants(h) {
			for _, tail := range tails {
				var shapes []hostileInput
				// value length hostile
				inner := cat([]byte{0x0a, 0x01, 'k', 0x12}, enc, tail)
				shapes = append(shapes, hostileInput{"value", cat([]byte{0x0a}, leb(uint64(len(inner))), inner)})
				// key length hostile
				inner = cat([]byte{0x0a}, enc, tail, []byte{0x12, 0x01, 'v'})
				shapes = append(shapes, hostileInput{"key", cat([]byte{0x0a}, leb(uint64(len(inner))), inner)})
				inner = cat([]byte{0x0a}, enc, tail)
				shapes = append(shapes, hostileInput{"key", cat([]byte{0x0a}, leb(uint64(len(inner))), inner)})
				// outer length hostile
				shapes = append(shapes, hostileInput{"outer", cat([]byte{0x0a}, enc, []byte{0x0a, 0x01, 'k', 0x12, 0x01, 'v'}, tail)})
				for _, sh := range shapes {
					out = append(out, sh,
						hostileInput{sh.pos, cat(good, sh.bytes)},
						hostileInput{sh.pos, cat(sh.bytes, good)})
				}
			}
		}
	}
	return out
}

var boundaryLens = []int{0, 1, 127, 128, 16383, 16384}

func randString(o *corr.Out, allowBig bool) string {
	var n int
	switch o.Rand.Intn(12) {
	case 0:
		n = 0
	case 1:
		n = 1
	case 2:
		n = 126 + o.Rand.Intn(4) // 126..129
	case 3:
		if allowBig {
			n = 16382 + o.Rand.Intn(4) // 16382..16385
		} else {
			n = 128
		}
	default:
		n = o.Rand.Intn(12)
	}
	b := make([]byte, n)
	switch o.Rand.Intn(4) {
	case 0: // binary incl. 0x00 and 0xff and the tag bytes
		al := []byte{0x00, 0xff, 0x0a, 0x12, 0x80, 0x7f}
		for i := range b {
			b[i] = al[o.Rand.Intn(len(al))]
		}
	case 1: // duplicate-prone small alphabet
		for i := range b {
			b[i] = byte('a' + o.Rand.Intn(2))
		}
	case 2:
		o.Rand.Read(b)
	default:
		for i := range b {
			b[i] = byte(0x20 + o.Rand.Intn(0x5f))
		}
	}
	return string(b)
}

func randMap(o *corr.Out, n int, allowBig bool) map[string]string {
	m := make(map[string]string, n)
	big := 0
	for tries := 0; len(m) < n && tries < 10*n+10; tries++ {
		k := randString(o, allowBig && big < 2)
		v := randString(o, allowBig && big < 2)
		if len(k) > 1000 || len(v) > 1000 {
			big++
		}
		m[k] = v
	}
	return m
}

var decodeAlphabet = []byte{0x00, 0x01, 0x02, 0x0a, 0x12, 0x7f, 0x80, 0x81, 0xff}

func firstWord(s string) string {
	if i := strings.IndexByte(s, ' '); i >= 0 {
		return s[:i]
	}
	return s
}

// ---- the suite -------------------------------------------------------------------------------

func Run(o *corr.Out) {
	if os.Getenv("VERIF_PROP") != "C02" { // C02 uses the scoping families only
		runCodec(o)
	}
	runScoping(o)
	runEndToEnd(o)
	runConnWire(o)
}

func runCodec(o *corr.Out) {
	decode := func(b []byte, class string) {
		ans := DecodeAnswer(b)
		o.Stat("decode:" + class + ":" + firstWord(ans))
		o.Case("meta.decode b="+corr.Hex(b), ans, len(b) >= 2)
		if ans == "panic" {
			o.Oracle("decode-never-panics", corr.Hex(b), "Decode panicked")
		} else {
			o.OracleOK("decode-never-panics")
		}
		if ref := refDecode(b); ref != ans {
			o.Oracle("decode-vs-reference", corr.Hex(b), "impl="+ans+" ref="+ref)
		} else {
			o.OracleOK("decode-vs-reference")
		}
	}

	// encodeMap checks one map through every oracle and against the model.
	encodeMap := func(m map[string]string, class string) []byte {
		var enc []byte
		res := corr.Catch(func() string {
			var err error
			enc, err = drpcmetadata.Encode(nil, m)
			if err != nil {
				return "err"
			}
			return "ok"
		})
		desc := canonMap(m)
		if len(desc) > 300 {
			desc = desc[:300] + "…"
		}
		if res != "ok" {
			o.Oracle("encode-succeeds", desc, res)
			return nil
		}
		o.Stat(fmt.Sprintf("encode:%s:entries%d", class, min(len(m), 3)))
		// model: exact bytes for 0/1 entries, "some ordering of exactly these entries" otherwise
		if len(m) == 1 {
			for k, v := range m {
				o.Case("meta.entry k="+corr.Hex([]byte(k))+" v="+corr.Hex([]byte(v)), corr.Hex(enc), true)
			}
		}
		o.Case("meta.encode m="+canonMap(m)+" b="+corr.Hex(enc), fmt.Sprintf("ok n=%d", len(m)), len(m) >= 1)
		// oracle: empty map <-> empty bytes
		if (len(m) == 0) != (len(enc) == 0) {
			o.Oracle("empty-map-iff-empty-bytes", desc, fmt.Sprintf("len(map)=%d len(bytes)=%d", len(m), len(enc)))
		} else {
			o.OracleOK("empty-map-iff-empty-bytes")
		}
		// oracle: round trip
		back := corr.Catch(func() string {
			got, err := drpcmetadata.Decode(append([]byte(nil), enc...))
			if err != nil {
				return "err:" + errClass(err)
			}
			return canonMap(got)
		})
		if back != canonMap(m) {
			d := back
			if len(d) > 300 {
				d = d[:300] + "…"
			}
			o.Oracle("decode-encode-roundtrip", desc, "got "+d)
		} else {
			o.OracleOK("decode-encode-roundtrip")
		}
		// oracle: Encode appends to the buffer it is given and leaves the prefix alone
		prefix := []byte{0xde, 0xad, 0x0a}
		if withPrefix, err := drpcmetadata.Encode(append([]byte(nil), prefix...), m); err != nil ||
			!bytes.HasPrefix(withPrefix, prefix) || len(withPrefix) != len(prefix)+len(enc) {
			o.Oracle("encode-appends", desc, fmt.Sprintf("len=%d want %d err=%v", len(withPrefix), len(prefix)+len(enc), err))
		} else if got, err := drpcmetadata.Decode(withPrefix[len(prefix):]); err != nil || canonMap(got) != canonMap(m) {
			o.Oracle("encode-appends", desc, "suffix does not decode to the map")
		} else {
			o.OracleOK("encode-appends")
		}
		// oracle: the bytes are the protobuf encoding of message{map<string,string>=1}: every top-level
		// entry is byte-for-byte what protowire produces for its key/value, and the entries are the map
		entries, ok := splitEntries(enc)
		good := ok && len(entries) == len(m)
		seen := map[string]bool{}
		for _, e := range entries {
			if !good {
				break
			}
			k, v, ok := entryKV(e)
			mv, present := m[k]
			good = ok && present && mv == v && !seen[k] && bytes.Equal(e, refEntry(k, v))
			seen[k] = true
		}
		if !good {
			o.Oracle("encode-is-protobuf", desc, "entries differ from the protowire reference")
		} else {
			o.OracleOK("encode-is-protobuf")
		}
		// oracle: google.golang.org/protobuf itself reads the bytes as that message and, for the
		// deterministic key order, writes the same entries
		if detail := protobufLibraryAgrees(m, enc); detail != "" {
			o.Oracle("protobuf-library-agrees", desc, detail)
		} else {
			o.OracleOK("protobuf-library-agrees")
		}
		return enc
	}

	// 1. single entries over the boundary lengths (exact bytes against the model), both positions
	for _, lk := range boundaryLens {
		for _, lv := range boundaryLens {
			if lk > 1000 && lv > 1000 && !o.Thorough {
				continue
			}
			k := bytes.Repeat([]byte{0x6b}, lk)
			v := bytes.Repeat([]byte{0xff}, lv)
			if lv > 0 {
				v[0] = 0
			}
			encodeMap(map[string]string{string(k): string(v)}, "boundary")
		}
	}
	encodeMap(nil, "nil")
	encodeMap(map[string]string{}, "empty")
	// one string around 2^21 (4-byte length prefix): implementation-only oracles
	{
		big := strings.Repeat("x", 1<<21)
		m := map[string]string{"k": big, big[:1<<21-7]: ""}
		enc, err := drpcmetadata.Encode(nil, m)
		got, derr := drpcmetadata.Decode(enc)
		if err != nil || derr != nil || len(got) != 2 || got["k"] != big || got[big[:1<<21-7]] != "" {
			o.Oracle("decode-encode-roundtrip", "2MiB strings", fmt.Sprintf("err=%v derr=%v n=%d", err, derr, len(got)))
		} else {
			o.OracleOK("decode-encode-roundtrip")
		}
		if detail := protobufLibraryAgrees(m, enc); detail != "" {
			o.Oracle("protobuf-library-agrees", "2MiB strings", detail)
		} else {
			o.OracleOK("protobuf-library-agrees")
		}
	}

	// 2. random maps of 0..20 pairs
	nMaps := 1500
	if o.Thorough {
		nMaps = 30000
	}
	var valid [][]byte
	for i := 0; i < nMaps; i++ {
		n := o.Rand.Intn(21)
		if i%3 == 0 {
			n = o.Rand.Intn(3)
		}
		enc := encodeMap(randMap(o, n, i%25 == 0), "random")
		if len(enc) > 0 && len(enc) < 400 {
			valid = append(valid, enc)
		}
		if len(enc) < 3000 {
			decode(enc, "valid")
		}
	}

	// 3. the list form: entries appended one Encode call at a time, duplicate keys included
	// (the last write of a key must win, in the model and in the code)
	nLists := 1000
	if o.Thorough {
		nLists = 20000
	}
	for i := 0; i < nLists; i++ {
		n := 1 + o.Rand.Intn(6)
		var buf []byte
		want := map[string]string{}
		dup := false
		var keys []string
		for j := 0; j < n; j++ {
			k := randString(o, false)
			if len(keys) > 0 && o.Rand.Intn(3) == 0 {
				k = keys[o.Rand.Intn(len(keys))]
				dup = true
			}
			keys = append(keys, k)
			v := randString(o, false)
			want[k] = v
			buf, _ = drpcmetadata.Encode(buf, map[string]string{k: v})
		}
		ans := DecodeAnswer(buf)
		cl := "list"
		if dup {
			cl = "list-dup"
		}
		decode(buf, cl)
		if ans != "ok "+canonMap(want) {
			o.Oracle("last-write-wins", corr.Hex(buf), "got "+ans+" want ok "+canonMap(want))
		} else {
			o.OracleOK("last-write-wins")
		}
	}

	// 4. exhaustive: every string of length <= 3 (5 in thorough) over the boundary alphabet
	maxExh := 3
	if o.Thorough {
		maxExh = 5
	}
	var rec func(prefix []byte, depth int)
	rec = func(prefix []byte, depth int) {
		decode(prefix, "exh")
		if depth == 0 {
			return
		}
		for _, a := range decodeAlphabet {
			rec(append(append([]byte(nil), prefix...), a), depth-1)
		}
	}
	rec(nil, maxExh)
	// exhaustive entry-shaped strings: 0a L body, body over the bytes that matter inside an entry
	inner := []byte{0x00, 0x01, 0x02, 0x0a, 0x12}
	maxBody := 4
	if o.Thorough {
		maxBody = 6
	}
	var rec2 func(body []byte, depth int)
	rec2 = func(body []byte, depth int) {
		for _, l := range []byte{0, 1, 2, 3, 4, 5, 6, 7, 0x80} {
			if int(l) > len(body)+1 && l != 0x80 {
				continue
			}
			decode(append([]byte{0x0a, l}, body...), "exh-entry")
		}
		if depth == 0 {
			return
		}
		for _, a := range inner {
			rec2(append(append([]byte(nil), body...), a), depth-1)
		}
	}
	rec2(nil, maxBody)
	// hostile length fields in the three positions
	lens := [][]byte{{0x00}, {0x01}, {0x7f}, {0x80, 0x00}, {0x80, 0x01}, {0x86, 0x00}, {0xff, 0xff, 0xff, 0xff, 0xff, 0xff, 0xff, 0xff, 0xff, 0x01},
		{0xff, 0xff, 0xff, 0xff, 0xff, 0xff, 0xff, 0xff, 0xff, 0x7f}, {0x80, 0x80, 0x80, 0x80, 0x80, 0x80, 0x80, 0x80, 0x80, 0x80},
		{0x80, 0x80, 0x80, 0x80, 0x80, 0x80, 0x80, 0x80, 0x80, 0x80, 0x01}, {0x80, 0x80, 0x80, 0x80, 0x80, 0x80, 0x80, 0x80, 0x80}, {0x06}, {0x04}}
	for _, l1 := range lens {
		for _, l2 := range lens {
			for _, l3 := range lens {
				b := append([]byte{0x0a}, l1...)
				b = append(append(b, 0x0a), l2...)
				b = append(append(b, 0x6b, 0x12), l3...)
				decode(b, "hostile")
				decode(append(append([]byte(nil), b...), 0x76), "hostile")
			}
		}
	}
	// hostile length in ONE position, the other two consistent, so that the decoder gets as far as the
	// check of that position (in the triple loop above a 10-byte length in the value position is never
	// reached: the outer length would have to be 14): lengths around 2^31, 2^32, 2^62, 2^63 and 2^64,
	// encoded minimally, padded by one byte, padded to ten bytes and with overflow bits in the tenth byte;
	// followed by nothing / by the bytes a correct length would cover / by more; alone, after and in front
	// of a well-formed entry
	for _, b := range hostilePositions() {
		decode(b.bytes, "hostile-"+b.pos)
	}
	// padded (non-minimal) but consistent lengths: accepted by design of ReadVarint
	decode([]byte{0x0a, 0x86, 0x00, 0x0a, 0x01, 0x6b, 0x12, 0x01, 0x76}, "padded")
	decode([]byte{0x0a, 0x07, 0x0a, 0x81, 0x00, 0x6b, 0x12, 0x01, 0x76}, "padded")

	// 5. mutated valid encodings and every prefix of some
	nMut := 8000
	if o.Thorough {
		nMut = 200000
	}
	for i := 0; i < nMut && len(valid) > 0; i++ {
		src := valid[o.Rand.Intn(len(valid))]
		mut := append([]byte(nil), src...)
		pos := o.Rand.Intn(len(mut))
		switch o.Rand.Intn(7) {
		case 0:
			mut[pos] ^= 1 << uint(o.Rand.Intn(8))
		case 1:
			mut[pos] |= 0x80
		case 2:
			mut[1]++ // first entry length + 1
		case 3:
			mut[1]-- // first entry length - 1
		case 4:
			mut = append(mut[:pos], mut[pos+1:]...)
		case 5:
			mut = append(mut[:pos], append([]byte{[]byte{0x0a, 0x12, 0x00, 0x80, 0x1a}[o.Rand.Intn(5)]}, mut[pos:]...)...)
		case 6:
			mut = mut[:pos]
		}
		decode(mut, "mut")
	}
	for i := 0; i < 40 && i < len(valid); i++ {
		src := valid[i]
		for j := 0; j < len(src) && j < 120; j++ {
			decode(src[:j], "prefix")
		}
	}
	// 6. random bytes, plain and biased towards the bytes the decoder looks at
	nRand := 3000
	if o.Thorough {
		nRand = 80000
	}
	for i := 0; i < nRand; i++ {
		b := make([]byte, o.Rand.Intn(24))
		o.Rand.Read(b)
		if i%2 == 0 {
			for j := range b {
				switch o.Rand.Intn(4) {
				case 0:
					b[j] = 0x0a
				case 1:
					b[j] = 0x12
				case 2:
					b[j] = byte(o.Rand.Intn(8))
				}
			}
		}
		decode(b, "rand")
	}
}
