// Package wire: correspondence + direct oracles for drpcwire's codec (C08).
package wire

import (
	"bytes"
	"fmt"
	"math/bits"

	"storj.io/drpc/drpcwire"
	"verifharness/corr"
)

// ---- independent reference decoder, written from the wire description (arithmetic, no shifts) ----

type refRes struct {
	state string // ok | short | err
	fr    drpcwire.Frame
	rem   int
}

func refVarint(b []byte) (rem []byte, v uint64, state string) {
	// LEB128: little-endian base-128 digits, continuation = byte >= 128, at most 10 bytes, mod 2^64
	var mul uint64 = 1
	for i := 0; i < 10; i++ {
		if i >= len(b) {
			return nil, 0, "short"
		}
		d := uint64(b[i] % 128)
		v += d * mul // wraps mod 2^64 exactly like the spec says
		mul *= 128
		if b[i] < 128 {
			return b[i+1:], v, "ok"
		}
	}
	return nil, 0, "err"
}

func RefDecode(b []byte) refRes {
	if len(b) < 4 {
		return refRes{state: "short"}
	}
	c := int(b[0])
	var fr drpcwire.Frame
	fr.Control = c >= 128
	fr.Kind = drpcwire.Kind((c / 2) % 64)
	fr.Done = c%2 == 1
	rem := b[1:]
	var st string
	var length uint64
	if rem, fr.ID.Stream, st = refVarint(rem); st != "ok" {
		return refRes{state: st}
	}
	if rem, fr.ID.Message, st = refVarint(rem); st != "ok" {
		return refRes{state: st}
	}
	if rem, length, st = refVarint(rem); st != "ok" {
		return refRes{state: st}
	}
	if length > uint64(len(rem)) {
		return refRes{state: "short"}
	}
	fr.Data = rem[:length]
	return refRes{state: "ok", fr: fr, rem: len(rem) - int(length)}
}

func (r refRes) State() string        { return r.state }
func (r refRes) Frame() drpcwire.Frame { return r.fr }
func (r refRes) Rem() int              { return r.rem }

func showFrame(fr drpcwire.Frame, rem int) string {
	return fmt.Sprintf("ok kind=%d done=%s ctl=%s sid=%d mid=%d data=%s rem=%d",
		fr.Kind, corr.B01(fr.Done), corr.B01(fr.Control), fr.ID.Stream, fr.ID.Message, corr.Hex(fr.Data), rem)
}

// ParseAnswer runs the real ParseFrame and canonicalises.
func ParseAnswer(b []byte) string {
	return corr.Catch(func() string {
		in := append([]byte(nil), b...)
		rem, fr, ok, err := drpcwire.ParseFrame(in)
		switch {
		case err != nil:
			return "err"
		case !ok:
			if len(rem) != len(b) {
				return fmt.Sprintf("short-but-consumed rem=%d", len(rem))
			}
			return "short"
		default:
			return showFrame(fr, len(rem))
		}
	})
}

func refAnswer(b []byte) string {
	r := RefDecode(b)
	if r.state != "ok" {
		return r.state
	}
	return showFrame(r.fr, r.rem)
}

func varintReadAnswer(b []byte) string {
	return corr.Catch(func() string {
		rem, v, ok, err := drpcwire.ReadVarint(append([]byte(nil), b...))
		switch {
		case err != nil:
			return "toolong"
		case !ok:
			return "short"
		default:
			return fmt.Sprintf("ok %d rem=%d", v, len(rem))
		}
	})
}

func refVarintAnswer(b []byte) string {
	rem, v, st := refVarint(b)
	switch st {
	case "err":
		return "toolong"
	case "short":
		return "short"
	}
	return fmt.Sprintf("ok %d rem=%d", v, len(rem))
}

var alphabet = []byte{0x00, 0x01, 0x02, 0x7F, 0x80, 0x81, 0xFE, 0xFF, 0x0A, 0x12, 0x25, 0x3D}

func Run(o *corr.Out) {
	parse := func(b []byte, class string) {
		ans := ParseAnswer(b)
		o.Stat("parse:" + class + ":" + firstWord(ans))
		o.Case("frame.parse b="+corr.Hex(b), ans, len(b) >= 4)
		if ref := refAnswer(b); ref != ans {
			o.Oracle("parse-vs-reference", corr.Hex(b), "impl="+ans+" ref="+ref)
		} else {
			o.OracleOK("parse-vs-reference")
		}
	}
	vread := func(b []byte) {
		ans := varintReadAnswer(b)
		o.Stat("varint.read:" + firstWord(ans))
		o.Case("varint.read b="+corr.Hex(b), ans, len(b) >= 2)
		if ref := refVarintAnswer(b); ref != ans {
			o.Oracle("varint-vs-reference", corr.Hex(b), "impl="+ans+" ref="+ref)
		} else {
			o.OracleOK("varint-vs-reference")
		}
	}
	vappend := func(x uint64) {
		enc := drpcwire.AppendVarint(nil, x)
		o.Stat(fmt.Sprintf("varint.append:len%d", len(enc)))
		o.Case(fmt.Sprintf("varint.append x=%d", x), corr.Hex(enc), x >= 128)
		// oracle: round trip, exact consumption, with and without trailing bytes
		for _, tail := range [][]byte{nil, {0x80}, {0x00, 0xff}} {
			rem, v, ok, err := drpcwire.ReadVarint(append(append([]byte(nil), enc...), tail...))
			if err != nil || !ok || v != x || !bytes.Equal(rem, tail) {
				o.Oracle("varint-roundtrip", fmt.Sprint(x), fmt.Sprintf("enc=%x got v=%d ok=%v err=%v rem=%x", enc, v, ok, err, rem))
			} else {
				o.OracleOK("varint-roundtrip")
			}
		}
		want := (bits.Len64(x) + 6) / 7
		if want == 0 {
			want = 1
		}
		if len(enc) != want {
			o.Oracle("varint-length", fmt.Sprint(x), fmt.Sprintf("len=%d want=%d", len(enc), want))
		}
		vread(enc)
		for i := 0; i < len(enc); i++ {
			vread(enc[:i])
		}
	}

	// 1. varints: boundaries of every bit length, random by bit length
	for k := 0; k <= 64; k++ {
		var p uint64
		if k < 64 {
			p = 1 << uint(k)
		}
		for _, x := range []uint64{p - 1, p, p + 1} {
			vappend(x)
		}
	}
	nRand := 2000
	if o.Thorough {
		nRand = 60000
	}
	for i := 0; i < nRand; i++ {
		vappend(randU64(o))
	}
	// every 1..11-byte encoding built from boundary bytes (non-canonical, over-long)
	contBytes := []byte{0x80, 0x81, 0xFF, 0xAA}
	lastBytes := []byte{0x00, 0x01, 0x7F, 0x02}
	for n := 1; n <= 12; n++ {
		for _, c := range contBytes {
			for _, l := range lastBytes {
				b := bytes.Repeat([]byte{c}, n-1)
				vread(append(append([]byte(nil), b...), l))
				vread(append(append([]byte(nil), b...), c)) // no terminator
				vread(append(append(append([]byte(nil), b...), l), 0x33, 0x80))
			}
		}
	}
	for i := 0; i < nRand/2; i++ {
		n := o.Rand.Intn(13)
		b := make([]byte, n)
		for j := range b {
			if o.Rand.Intn(4) > 0 {
				b[j] = 0x80 | byte(o.Rand.Intn(128))
			} else {
				b[j] = byte(o.Rand.Intn(128))
			}
		}
		vread(b)
	}

	// 2. parser: exhaustive short strings over the boundary alphabet
	var rec func(prefix []byte, depth int)
	rec = func(prefix []byte, depth int) {
		parse(prefix, "exh")
		if depth == 0 {
			return
		}
		for _, a := range alphabet {
			rec(append(append([]byte(nil), prefix...), a), depth-1)
		}
	}
	maxExh := 4
	if o.Thorough {
		maxExh = 5
	}
	rec(nil, maxExh)
	// all 256 control bytes x boundary tails of length 3..4
	for c := 0; c < 256; c++ {
		for _, t := range [][]byte{{1, 1, 0}, {1, 1, 1, 0x41}, {0x80, 0x01, 0x7f, 0x00}, {0xff, 0xff, 0x01, 0x02, 0x00},
			{1, 1, 2, 9}, {0, 0, 0}, {1, 0x80, 0x80, 0x80}} {
			parse(append([]byte{byte(c)}, t...), "ctl")
		}
	}

	// 2b. hostile headers: every header field replaced by boundary varint encodings (over-long,
	// exactly 10 continuation bytes at the end of the buffer, huge declared lengths)
	fields := [][]byte{{0x01}, {0x00}, {0x7f}, {0x80, 0x01}, {0xff, 0xff, 0xff, 0xff, 0xff, 0xff, 0xff, 0xff, 0xff, 0x01},
		{0xff, 0xff, 0xff, 0xff, 0xff, 0xff, 0xff, 0xff, 0xff, 0x7f}, {0x80, 0x80, 0x80, 0x80, 0x80, 0x80, 0x80, 0x80, 0x80, 0x01},
		{0x80, 0x80, 0x80, 0x80, 0x80, 0x80, 0x80, 0x80, 0x80, 0x80}, {0x80, 0x80, 0x80, 0x80, 0x80, 0x80, 0x80, 0x80, 0x80, 0x80, 0x01},
		{0xff, 0xff, 0xff, 0xff, 0xff, 0xff, 0xff, 0xff, 0x7f}, {0x80, 0x80, 0x80, 0x80, 0x80, 0x80, 0x80, 0x80, 0x80},
		{0x03}, {0x80, 0x00}}
	for _, c := range []byte{0x05, 0x84, 0xff} {
		for _, f1 := range fields {
			for _, f2 := range fields {
				for _, f3 := range fields {
					b := append([]byte{c}, f1...)
					b = append(b, f2...)
					b = append(b, f3...)
					parse(b, "hostile")
					parse(append(append([]byte(nil), b...), 0xaa, 0xbb, 0xcc), "hostile")
				}
			}
		}
	}

	// 3. structured frames: encode, re-parse, truncate at every prefix, mutate
	nFrames := 1500
	if o.Thorough {
		nFrames = 40000
	}
	for i := 0; i < nFrames; i++ {
		fr := randFrame(o, i)
		enc := drpcwire.AppendFrame(nil, fr)
		o.Stat(fmt.Sprintf("frame.append:hdr%d", len(enc)-len(fr.Data)))
		o.Case(fmt.Sprintf("frame.append kind=%d done=%s ctl=%s sid=%d mid=%d data=%s",
			fr.Kind, corr.B01(fr.Done), corr.B01(fr.Control), fr.ID.Stream, fr.ID.Message, corr.Hex(fr.Data)),
			corr.Hex(enc), true)
		// direct oracle: round trip with exact remainder (6-bit kinds)
		if fr.Kind < 64 {
			tail := []byte{0xde, 0xad}
			rem, got, ok, err := drpcwire.ParseFrame(append(append([]byte(nil), enc...), tail...))
			if err != nil || !ok || !bytes.Equal(rem, tail) || !sameFrame(got, fr) {
				o.Oracle("frame-roundtrip", showFrame(fr, 0), fmt.Sprintf("got %s ok=%v err=%v rem=%x", showFrame(got, len(rem)), ok, err, rem))
			} else {
				o.OracleOK("frame-roundtrip")
			}
		}
		parse(enc, "valid")
		if len(enc) <= 64 || i%50 == 0 {
			lim := len(enc)
			if lim > 40 {
				lim = 40
			}
			for j := 0; j < lim; j++ {
				parse(enc[:j], "prefix")
				// oracle: need-more-data exactly for proper prefixes
				if fr.Kind < 64 {
					if a := ParseAnswer(enc[:j]); a != "short" {
						o.Oracle("proper-prefix-is-short", corr.Hex(enc[:j]), a)
					} else {
						o.OracleOK("proper-prefix-is-short")
					}
				}
			}
			if len(enc) > 40 {
				parse(enc[:len(enc)-1], "prefix")
			}
		}
		// mutations
		for m := 0; m < 3; m++ {
			mut := append([]byte(nil), enc...)
			hdr := len(enc) - len(fr.Data)
			pos := o.Rand.Intn(hdr)
			switch o.Rand.Intn(4) {
			case 0:
				mut[pos] ^= 1 << uint(o.Rand.Intn(8))
			case 1:
				mut[pos] |= 0x80
			case 2:
				mut[hdr-1]++ // length field +1
			case 3:
				mut = append(mut[:pos], append([]byte{0x80}, mut[pos:]...)...)
			}
			if len(mut) > 200 {
				mut = mut[:200]
			}
			parse(mut, "mut")
		}
	}
	// random garbage
	for i := 0; i < nFrames; i++ {
		b := make([]byte, o.Rand.Intn(24))
		o.Rand.Read(b)
		parse(b, "rand")
	}

	// 4. splitting
	nSplit := 600
	if o.Thorough {
		nSplit = 8000
	}
	sizes := []int{0, 1, 2, 3, 7, 8, 9, 63, 64, 65, 200}
	ns := []int{-5, -1, 0, 1, 2, 3, 7, 8, 64, 1000}
	for i := 0; i < nSplit; i++ {
		sz := sizes[o.Rand.Intn(len(sizes))]
		if i%40 == 0 {
			sz = 65536*o.Rand.Intn(3) + o.Rand.Intn(3) - 1
			if sz < 0 {
				sz = 0
			}
		}
		n := ns[o.Rand.Intn(len(ns))]
		data := make([]byte, sz)
		o.Rand.Read(data)
		pkt := drpcwire.Packet{Data: data, ID: drpcwire.ID{Stream: randU64(o), Message: randU64(o)},
			Kind: drpcwire.Kind(o.Rand.Intn(64)), Control: o.Rand.Intn(2) == 0}
		var frs []drpcwire.Frame
		_ = drpcwire.SplitN(pkt, n, func(fr drpcwire.Frame) error { frs = append(frs, fr); return nil })
		var sb bytes.Buffer
		var cat []byte
		for j, fr := range frs {
			if j > 0 {
				sb.WriteByte(' ')
			}
			fmt.Fprintf(&sb, "[%d,%s,%s,%d,%d,%s]", fr.Kind, corr.B01(fr.Done), corr.B01(fr.Control), fr.ID.Stream, fr.ID.Message, corr.Hex(fr.Data))
			cat = append(cat, fr.Data...)
			lim := n
			if n == 0 {
				lim = 65536
			}
			if (fr.Done != (j == len(frs)-1)) || (n >= 0 && len(fr.Data) > lim) || fr.ID != pkt.ID || fr.Kind != pkt.Kind || fr.Control != pkt.Control {
				o.Oracle("split-frame", fmt.Sprintf("n=%d len=%d", n, sz), fmt.Sprintf("frame %d: %v", j, fr))
			}
		}
		if !bytes.Equal(cat, data) || len(frs) == 0 {
			o.Oracle("split-concat", fmt.Sprintf("n=%d len=%d", n, sz), "concatenation differs")
		} else {
			o.OracleOK("split")
		}
		o.Stat(fmt.Sprintf("split:frames%d", min(len(frs), 5)))
		if sz <= 300 {
			o.Case(fmt.Sprintf("split n=%d kind=%d ctl=%s sid=%d mid=%d data=%s", n, pkt.Kind, corr.B01(pkt.Control), pkt.ID.Stream, pkt.ID.Message, corr.Hex(data)),
				sb.String(), len(frs) > 1)
		}
	}
}

func sameFrame(a, b drpcwire.Frame) bool {
	return a.ID == b.ID && a.Kind == b.Kind && a.Done == b.Done && a.Control == b.Control && bytes.Equal(a.Data, b.Data)
}

func firstWord(s string) string {
	for i := 0; i < len(s); i++ {
		if s[i] == ' ' {
			return s[:i]
		}
	}
	return s
}

func randU64(o *corr.Out) uint64 {
	k := o.Rand.Intn(65)
	if k == 0 {
		return 0
	}
	v := o.Rand.Uint64()
	if k < 64 {
		v &= (1 << uint(k)) - 1
		v |= 1 << uint(k-1)
	} else {
		v |= 1 << 63
	}
	return v
}

func randFrame(o *corr.Out, i int) drpcwire.Frame {
	var n int
	switch o.Rand.Intn(10) {
	case 0:
		n = 0
	case 1:
		n = 127 + o.Rand.Intn(3)
	case 2:
		n = 16383 + o.Rand.Intn(3)
		if i%20 != 0 {
			n = 130
		}
	default:
		n = o.Rand.Intn(20)
	}
	d := make([]byte, n)
	o.Rand.Read(d)
	kind := drpcwire.Kind(o.Rand.Intn(64))
	if o.Rand.Intn(20) == 0 {
		kind = drpcwire.Kind(o.Rand.Intn(256))
	}
	return drpcwire.Frame{Data: d, ID: drpcwire.ID{Stream: randU64(o), Message: randU64(o)},
		Kind: kind, Done: o.Rand.Intn(2) == 0, Control: o.Rand.Intn(2) == 0}
}
