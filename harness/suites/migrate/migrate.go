// Package migrate: correspondence + direct oracles for drpcmigrate (C16): ListenMux, listener,
// prefixConn (through the default route) and HeaderConn, all real code over in-memory fakes.
//
//	mroute  one connection through the running mux: every split of the client's bytes into reads,
//	        prefix lengths, registered / unregistered / short prefixes, read sizes of the acceptor
//	hdr     HeaderConn.Write from several goroutines with the underlying Write parked: every order
//	mux     schedules of Route / Accept / Close / cancel / base failure relative to connections
//	        whose bytes arrive piecemeal; after every operation the process runs to quiescence
//	        (one stop-the-world goroutine snapshot in which everything but the harness is blocked);
//	        `Q<l>:<p>` is the one burst: Close(listener l) and Route(p) back to back, without waiting for
//	        the monitor goroutine the Close wakes up (which of the two reaches m.mu first is observed from
//	        Route's result and recorded in the request: `Q` = Route first, `q` = the monitor's delete first)
package migrate

import (
	"bytes"
	"context"
	"fmt"
	"net"
	"runtime"
	"sort"
	"strconv"
	"strings"
	"sync"
	"time"

	"storj.io/drpc/drpcmigrate"
	"verifharness/corr"
)

const waitLimit = 5 * time.Second

var self string

// hangs counts timeouts; after a few the rest of the suite is skipped (each timeout costs waitLimit,
// and the oracle failures that matter are already reported)
var hangs int

func giveUp(o *corr.Out) bool {
	if hangs >= 2 {
		o.Stat("skipped-after-hangs")
		return true
	}
	return false
}

func Run(o *corr.Out) {
	self = goid()
	runRouteCases(o)
	runHeaderCases(o)
	runMuxCases(o)
}

func sizesStr(s []int) string {
	if len(s) == 0 {
		return "-"
	}
	var parts []string
	for _, x := range s {
		parts = append(parts, strconv.Itoa(x))
	}
	return strings.Join(parts, ",")
}

func hexList(bs [][]byte) string {
	if len(bs) == 0 {
		return "none"
	}
	var parts []string
	for _, b := range bs {
		parts = append(parts, corr.Hex(b))
	}
	return strings.Join(parts, ",")
}

// readAll reads from r with sizes max(1, sizes[i]) (then 4096) until the first error.
func readAll(r interface{ Read([]byte) (int, error) }, sizes []int) (reads [][]byte, err error, ok bool) {
	for i := 0; i < 100000; i++ {
		sz := 4096
		if i < len(sizes) {
			sz = sizes[i]
		}
		if sz < 1 {
			sz = 1
		}
		buf := make([]byte, sz)
		n, e := r.Read(buf)
		reads = append(reads, buf[:n])
		if e != nil {
			return reads, e, true
		}
	}
	return reads, nil, false
}

func showReads(reads [][]byte, err error) string {
	var parts []string
	for _, r := range reads {
		parts = append(parts, corr.Hex(r))
	}
	return "reads=" + strings.Join(parts, ",") + ";E=" + errName(err)
}

// ---------------------------------------------------------------- a running mux

type accRes struct {
	done bool
	conn net.Conn
	err  error
}

type world struct {
	n        int
	base     *baseLis
	mux      *drpcmigrate.ListenMux
	cancel   context.CancelFunc
	runMu    sync.Mutex
	runDone  bool
	runErr   error
	lis      []net.Listener // 0 = default, then in order of creation by Route
	lisPfx   [][]byte       // the prefix each routed listener was created for
	lisDead  []bool         // the harness closed it, or it was created after the mux stopped
	stopped  bool           // the harness cancelled the context / made the base listener fail
	last     int            // the listener returned by the most recent Route (what `*` refers to)
	conns    []*sconn
	clog     *closeLog
	accMu    sync.Mutex
	acc      []*accRes
	accLis   []int
	baseDead bool
	panics   int
}

func newWorld(n int) (*world, error) {
	w := &world{n: n, base: newBase(), clog: &closeLog{}}
	w.mux = drpcmigrate.NewListenMux(w.base, n)
	w.lis = []net.Listener{w.mux.Default()}
	w.lisPfx = [][]byte{nil}
	w.lisDead = []bool{false}
	ctx, cancel := context.WithCancel(context.Background())
	w.cancel = cancel
	go func() {
		err := w.mux.Run(ctx)
		w.runMu.Lock()
		w.runDone, w.runErr = true, err
		w.runMu.Unlock()
	}()
	_, err := settle(self, waitLimit)
	return w, err
}

func (w *world) runState() (bool, error) {
	w.runMu.Lock()
	defer w.runMu.Unlock()
	return w.runDone, w.runErr
}

// route calls m.Route(p); result "l<i>" or "panic".
func (w *world) route(p []byte) (res string) {
	defer func() {
		if r := recover(); r != nil {
			w.panics++
			res = "panic"
		}
	}()
	l := w.mux.Route(string(p))
	for i, x := range w.lis {
		if x == l {
			w.last = i
			return fmt.Sprintf("l%d", i)
		}
	}
	w.lis = append(w.lis, l)
	w.lisPfx = append(w.lisPfx, append([]byte(nil), p...))
	w.lisDead = append(w.lisDead, w.stopped)
	w.last = len(w.lis) - 1
	return fmt.Sprintf("l%d", len(w.lis)-1)
}

// liveRoute: the listener the harness holds for prefix key that must be registered right now: returned
// by Route(key), not closed by the harness, the mux not stopped (0 = none).  This is the harness's own
// bookkeeping of the API calls it made, not the model's state.
func (w *world) liveRoute(key []byte) int {
	if w.stopped {
		return 0
	}
	for l := len(w.lis) - 1; l >= 1; l-- {
		if !w.lisDead[l] && bytes.Equal(w.lisPfx[l], key) {
			return l
		}
	}
	return 0
}

func (w *world) accept(li int) int {
	r := &accRes{}
	w.accMu.Lock()
	w.acc = append(w.acc, r)
	w.accLis = append(w.accLis, li)
	t := len(w.acc) - 1
	w.accMu.Unlock()
	l := w.lis[li]
	go func() {
		c, err := l.Accept()
		w.accMu.Lock()
		r.done, r.conn, r.err = true, c, err
		w.accMu.Unlock()
	}()
	return t
}

func (w *world) accSnapshot() []accRes {
	w.accMu.Lock()
	defer w.accMu.Unlock()
	out := make([]accRes, len(w.acc))
	for i, r := range w.acc {
		out[i] = *r
	}
	return out
}

// hand a new connection to the base listener's Accept
func (w *world) newConn() (*sconn, error) {
	c := newSconn(len(w.conns), w.clog)
	w.conns = append(w.conns, c)
	if w.n == 0 {
		c.wantLis = w.liveRoute(nil) // a zero-length prefix is complete at once
	}
	select {
	case w.base.ch <- c:
		return c, nil
	case <-time.After(waitLimit):
		return c, fmt.Errorf("base listener's Accept was not called within %v", waitLimit)
	}
}

func (w *world) baseFail(tag int) error {
	select {
	case w.base.fail <- tagErr{tag}:
		w.baseDead = true
		return nil
	case <-time.After(waitLimit):
		return fmt.Errorf("base listener's Accept was not called within %v", waitLimit)
	}
}

func connID(c net.Conn) int {
	if a, ok := c.LocalAddr().(fakeAddr); ok {
		return a.id
	}
	return -1
}

func accErrName(err error) string {
	switch {
	case err == nil:
		return "nil"
	case err == drpcmigrate.Closed:
		return "closed"
	}
	if te, ok := err.(tagErr); ok {
		return fmt.Sprintf("base%d", te.tag)
	}
	return "other:" + strings.ReplaceAll(err.Error(), " ", "_")
}

// ---------------------------------------------------------------- mroute: one connection, pure routing

type routeCase struct {
	n        int
	routes   [][]byte
	data     []byte
	chunks   []int
	final    int
	attached bool
	sizes    []int
}

func (rc routeCase) request() string {
	return fmt.Sprintf("mroute n=%d routes=%s data=%s chunks=%s final=%d att=%s sizes=%s", rc.n, hexList(rc.routes),
		corr.Hex(rc.data), sizesStr(rc.chunks), rc.final, corr.B01(rc.attached), sizesStr(rc.sizes))
}

type delivered struct {
	li   int
	conn net.Conn
	err  error
}

// runRoute pushes one fully scripted connection through a running mux with an Accept pending on every
// listener.  Everything is event driven (no quiescence detection needed): either some Accept returns
// the connection or the mux closes it.
func runRoute(o *corr.Out, rc routeCase) (ans string, ok bool) {
	base := newBase()
	mux := drpcmigrate.NewListenMux(base, rc.n)
	ctx, cancel := context.WithCancel(context.Background())
	runDone := make(chan error, 1)
	go func() { runDone <- mux.Run(ctx) }()
	lis := []net.Listener{mux.Default()}
	for _, p := range rc.routes {
		l := mux.Route(string(p))
		dup := false
		for _, x := range lis {
			dup = dup || x == l
		}
		if !dup {
			lis = append(lis, l)
		}
	}
	got := make(chan delivered, len(lis))
	var wg sync.WaitGroup
	for i, l := range lis {
		wg.Add(1)
		go func(i int, l net.Listener) {
			defer wg.Done()
			c, err := l.Accept()
			got <- delivered{i, c, err}
		}(i, l)
	}
	clog := &closeLog{ch: make(chan int, 4)}
	sc := newSconn(0, clog)
	sc.data = append([]byte(nil), rc.data...)
	sc.all = sc.data
	sc.eof, sc.final, sc.attached, sc.chunks = true, finalErr(rc.final), rc.attached, rc.chunks
	fail := func(what string) (string, bool) {
		o.Oracle("no-hang", rc.request(), what)
		cancel()
		return "hang", false
	}
	select {
	case base.ch <- sc:
	case <-time.After(waitLimit):
		return fail("base Accept not called")
	}
	var d *delivered
	select {
	case x := <-got:
		d = &x
	case <-clog.ch:
	case <-time.After(waitLimit):
		return fail("connection neither delivered nor closed")
	}
	if d == nil {
		ans = "closed"
	} else if d.err != nil {
		ans = "accept-error:" + accErrName(d.err)
	} else {
		wrapped := d.conn != net.Conn(sc)
		reads, err, fin := readAll(d.conn, rc.sizes)
		if !fin {
			return fail("reads never end")
		}
		ans = fmt.Sprintf("L%d w=%s %s", d.li, corr.B01(wrapped), showReads(reads, err))
		// direct oracles: byte transparency and the right listener
		all := bytes.Join(reads, nil)
		key := rc.data
		if len(key) > rc.n {
			key = key[:rc.n]
		}
		want, wantLi := rc.data, 0
		for i, p := range rc.routes {
			if bytes.Equal(p, key) {
				// index among distinct routes
				wantLi = 1
				for j := 0; j < i; j++ {
					if !bytes.Equal(rc.routes[j], p) && firstIndex(rc.routes, rc.routes[j]) == j {
						wantLi++
					}
				}
				want = rc.data[rc.n:]
				break
			}
		}
		if d.li != wantLi {
			o.Oracle("routed-by-prefix", rc.request(), fmt.Sprintf("delivered to listener %d, registered route is %d", d.li, wantLi))
		} else {
			o.OracleOK("routed-by-prefix")
		}
		if !bytes.Equal(all, want) {
			o.Oracle("byte-transparency", rc.request(), fmt.Sprintf("acceptor read %s, client sent %s (expected %s)", corr.Hex(all), corr.Hex(rc.data), corr.Hex(want)))
		} else {
			o.OracleOK("byte-transparency")
		}
		if errName(err) != strconv.Itoa(rc.final) {
			o.Oracle("byte-transparency", rc.request(), "final error "+errName(err))
		}
	}
	if len(rc.data) < rc.n {
		if ans != "closed" {
			o.Oracle("short-prefix-closed", rc.request(), ans)
		} else {
			o.OracleOK("short-prefix-closed")
		}
	}
	// stop: every remaining Accept must fail, Run must return
	cancel()
	stopped := make(chan struct{})
	go func() { wg.Wait(); close(stopped) }()
	select {
	case <-stopped:
	case <-time.After(waitLimit):
		o.Oracle("stopped-accept-fails", rc.request(), "an Accept is still blocked after the mux stopped")
		hangs++
		return ans, true
	}
	select {
	case <-runDone:
	case <-time.After(waitLimit):
		o.Oracle("stopped-accept-fails", rc.request(), "Run did not return after cancel")
		hangs++
		return ans, true
	}
	n := 0
	for len(got) > 0 {
		x := <-got
		if x.err == nil {
			o.Oracle("exactly-once", rc.request(), fmt.Sprintf("a second Accept (listener %d) returned a connection", x.li))
		}
		n++
	}
	closes := len(clog.snapshot())
	deliveredN := 0
	if d != nil && d.err == nil {
		deliveredN = 1
	}
	if closes+deliveredN != 1 {
		o.Oracle("exactly-once", rc.request(), fmt.Sprintf("deliveries=%d closes=%d", deliveredN, closes))
	} else {
		o.OracleOK("exactly-once")
	}
	o.OracleOK("stopped-accept-fails")
	return ans, true
}

func firstIndex(l [][]byte, p []byte) int {
	for i, x := range l {
		if bytes.Equal(x, p) {
			return i
		}
	}
	return -1
}

// compositions of n into positive parts (all splits of n bytes into reads)
func compositions(n int) [][]int {
	if n == 0 {
		return [][]int{nil}
	}
	var out [][]int
	for first := 1; first <= n; first++ {
		for _, rest := range compositions(n - first) {
			out = append(out, append([]int{first}, rest...))
		}
	}
	return out
}

func runRouteCases(o *corr.Out) {
	emit := func(class string, rc routeCase) {
		if giveUp(o) {
			return
		}
		ans, ok := runRoute(o, rc)
		if !ok {
			hangs++
			return
		}
		o.Stat("route:" + class + ":" + strings.SplitN(ans, " ", 2)[0])
		o.Case(rc.request(), ans, len(rc.data) >= 2 && len(rc.chunks) >= 2)
	}
	hdr := []byte(drpcmigrate.DRPCHeader)
	payload := []byte{0xa0, 0xa1, 0xa2, 0xa3, 0xa4, 0xa5, 0xa6, 0xa7, 0xa8, 0xa9}
	// exhaustive: every split of streams of <= 10 bytes, prefix lengths {0,1,4,8}, registered and not
	maxLen := 10
	if o.Thorough {
		maxLen = 12
	}
	for _, n := range []int{0, 1, 4, 8} {
		pfx := hdr[:n]
		other := append([]byte(nil), pfx...)
		if n > 0 {
			other[n-1] ^= 0x55
		}
		for total := 0; total <= maxLen; total++ {
			for _, registered := range []bool{true, false} {
				if n == 0 && !registered {
					// prefix "" unregistered: only the default listener
				}
				data := append(append([]byte(nil), pfx...), payload...)
				if len(data) > total {
					data = data[:total]
				} else {
					data = append(data, payload...)[:total]
				}
				routes := [][]byte{other}
				if registered {
					routes = [][]byte{other, pfx}
				}
				if n == 0 {
					routes = nil
					if registered {
						routes = [][]byte{{}}
					}
				}
				for ci, comp := range compositions(total) {
					sizes := []int{3, 1, 2}
					if ci%2 == 1 {
						sizes = []int{1, 1, 1, 1, 1, 1, 1, 1, 1, 1, 1, 1, 1}
					}
					emit("exhaustive", routeCase{n: n, routes: routes, data: data, chunks: comp, sizes: sizes})
				}
			}
		}
	}
	// random: several routes, random data around registered prefixes, random chunk scripts, final
	// errors attached to the last data or not, hostile read sizes
	N := 1500
	if o.Thorough {
		N = 20000
	}
	for i := 0; i < N; i++ {
		n := []int{0, 1, 2, 4, 8, 8, 16}[o.Rand.Intn(7)]
		var routes [][]byte
		for k := o.Rand.Intn(4); k > 0; k-- {
			p := make([]byte, n)
			for j := range p {
				p[j] = hdr[j%8] ^ byte(o.Rand.Intn(2))
			}
			routes = append(routes, p)
		}
		var data []byte
		switch o.Rand.Intn(4) {
		case 0: // registered prefix + payload
			if len(routes) > 0 {
				data = append(data, routes[o.Rand.Intn(len(routes))]...)
			}
			data = append(data, payload[:o.Rand.Intn(len(payload)+1)]...)
		case 1: // near miss
			if len(routes) > 0 && n > 0 {
				data = append(data, routes[0]...)
				data[o.Rand.Intn(n)] ^= 0x10
			}
			data = append(data, payload[:o.Rand.Intn(len(payload)+1)]...)
		case 2: // truncated prefix
			if len(routes) > 0 && n > 0 {
				data = append(data, routes[0][:o.Rand.Intn(n)]...)
			}
		default:
			data = make([]byte, o.Rand.Intn(2*n+6))
			for j := range data {
				data[j] = hdr[j%8] ^ byte(o.Rand.Intn(2))
			}
		}
		var chunks, sizes []int
		for k := o.Rand.Intn(8); k > 0; k-- {
			chunks = append(chunks, []int{0, 1, 1, 2, 3, 7, 8, 9, 100}[o.Rand.Intn(9)])
		}
		for k := o.Rand.Intn(6); k > 0; k-- {
			sizes = append(sizes, []int{0, 1, 1, 2, 3, 8, 4096}[o.Rand.Intn(7)])
		}
		final := []int{0, 0, 0, 3}[o.Rand.Intn(4)]
		emit("random", routeCase{n: n, routes: routes, data: data, chunks: chunks, final: final,
			attached: o.Rand.Intn(3) == 0, sizes: sizes})
	}
}

// ---------------------------------------------------------------- hdr: HeaderConn under parked writes

type hdrRun struct {
	parked []string // after each step: goroutines parked in the underlying Write
	wire   [][]byte
	res    []string // per goroutine
	next   []string // enabled continuations after the last step
	bad    string
}

// runHdr executes a schedule from scratch on a real HeaderConn.
func runHdr(hdr []byte, bufs [][]byte, sched []string) (hr hdrRun) {
	pc := &pconn{}
	pc.cond = sync.NewCond(&pc.mu)
	pc.closeLog = &closeLog{}
	hc := drpcmigrate.NewHeaderConn(pc, string(hdr))
	type thr struct {
		gid     string
		called  bool
		running bool
		n       int
		err     error
		done    bool
	}
	var mu sync.Mutex
	ths := make([]*thr, len(bufs))
	for i := range ths {
		ths[i] = &thr{}
	}
	call := func(i int) {
		t := ths[i]
		mu.Lock()
		t.called, t.running, t.done = true, true, false
		mu.Unlock()
		ready := make(chan struct{})
		go func() {
			mu.Lock()
			t.gid = goid()
			mu.Unlock()
			close(ready)
			n, err := hc.Write(bufs[i])
			mu.Lock()
			t.n, t.err, t.done, t.running = n, err, true, false
			mu.Unlock()
		}()
		<-ready
	}
	parkedNow := func() []int {
		gids := pc.parkedGids()
		var ids []int
		mu.Lock()
		for i, t := range ths {
			for _, g := range gids {
				if t.running && t.gid == g {
					ids = append(ids, i)
				}
			}
		}
		mu.Unlock()
		sort.Ints(ids)
		return ids
	}
	step := func(tok string) bool {
		kind, rest := tok[0], tok[1:]
		switch kind {
		case 'c':
			i, _ := strconv.Atoi(rest)
			call(i)
		case 'w', 'f':
			r := wres{}
			if kind == 'f' {
				parts := strings.SplitN(rest, ":", 2)
				rest = parts[0]
				r.k, _ = strconv.Atoi(parts[1])
				r.fail = true
			}
			i, _ := strconv.Atoi(rest)
			mu.Lock()
			gid := ths[i].gid
			mu.Unlock()
			if !pc.complete(gid, r) {
				hr.bad = "goroutine " + rest + " is not parked in the underlying Write"
				return false
			}
		}
		if _, err := settle(self, waitLimit); err != nil {
			hr.bad = err.Error()
			return false
		}
		return true
	}
	for _, tok := range sched {
		if !step(tok) {
			break
		}
		ids := parkedNow()
		if len(ids) == 0 {
			hr.parked = append(hr.parked, "-")
		} else {
			var s []string
			for _, i := range ids {
				s = append(s, strconv.Itoa(i))
			}
			hr.parked = append(hr.parked, strings.Join(s, "+"))
		}
	}
	pc.pmu.Lock()
	hr.wire = append([][]byte(nil), pc.wire...)
	pc.pmu.Unlock()
	mu.Lock()
	for _, t := range ths {
		switch {
		case t.done:
			e := "nil"
			if t.err != nil {
				e = "err"
			}
			hr.res = append(hr.res, fmt.Sprintf("%d/%s", t.n, e))
		case !t.called:
			hr.res = append(hr.res, "idle")
		default:
			hr.res = append(hr.res, "blocked")
		}
	}
	mu.Unlock()
	if hr.bad == "" {
		for _, i := range parkedNow() {
			hr.next = append(hr.next, "w"+strconv.Itoa(i))
		}
		mu.Lock()
		for i, t := range ths {
			if !t.called {
				hr.next = append(hr.next, "c"+strconv.Itoa(i))
			}
		}
		mu.Unlock()
	}
	// clean up: let every remaining write complete so that no goroutine stays behind
	for guard := 0; guard < 4*len(bufs)+4; guard++ {
		gids := pc.parkedGids()
		if len(gids) == 0 {
			break
		}
		pc.complete(gids[0], wres{})
		if _, err := settle(self, waitLimit); err != nil {
			break
		}
	}
	return hr
}

func (hr hdrRun) answer() string {
	w := "none"
	if len(hr.wire) > 0 {
		var parts []string
		for _, b := range hr.wire {
			parts = append(parts, corr.Hex(b))
		}
		w = strings.Join(parts, ",")
	}
	return "p=" + strings.Join(hr.parked, ";") + " wire=" + w + " res=" + strings.Join(hr.res, ",")
}

func hdrRequest(hdr []byte, bufs [][]byte, sched []string) string {
	s := "-"
	if len(sched) > 0 {
		s = strings.Join(sched, ",")
	}
	return fmt.Sprintf("hdr h=%s bufs=%s sched=%s", corr.Hex(hdr), hexList(bufs), s)
}

// the direct oracle: the header exactly once and first, whole payloads, n never counts the header
func checkHeaderOracle(o *corr.Out, hdr []byte, bufs [][]byte, sched []string, hr hdrRun) {
	req := hdrRequest(hdr, bufs, sched)
	failed := false
	for _, t := range sched {
		failed = failed || t[0] == 'f'
	}
	if failed {
		for i, r := range hr.res {
			if strings.HasSuffix(r, "/err") || strings.HasSuffix(r, "/nil") {
				n, _ := strconv.Atoi(strings.SplitN(r, "/", 2)[0])
				if n > len(bufs[i]) || n < 0 {
					o.Oracle("header-n", req, fmt.Sprintf("goroutine %d got n=%d for a %d-byte buffer", i, n, len(bufs[i])))
				}
			}
		}
		return
	}
	if len(hr.wire) > 0 {
		if !bytes.HasPrefix(hr.wire[0], hdr) {
			o.Oracle("header-once-first", req, "first completed write "+corr.Hex(hr.wire[0])+" does not start with the header")
			return
		}
		// completion order of payloads: first write minus header, then the others; each must be a whole buf
		payloads := append([][]byte{hr.wire[0][len(hdr):]}, hr.wire[1:]...)
		used := make([]int, len(bufs))
		for _, p := range payloads {
			found := false
			for i, b := range bufs {
				if bytes.Equal(b, p) && used[i] < 2 {
					used[i]++
					found = true
					break
				}
			}
			if !found {
				o.Oracle("header-once-first", req, "write "+corr.Hex(p)+" is not a whole payload (header repeated or payload torn)")
				return
			}
		}
	}
	for i, r := range hr.res {
		if strings.HasSuffix(r, "/nil") || strings.HasSuffix(r, "/err") {
			if r != fmt.Sprintf("%d/nil", len(bufs[i])) {
				o.Oracle("header-n", req, fmt.Sprintf("goroutine %d: Write returned %s for a %d-byte buffer", i, r, len(bufs[i])))
				return
			}
		}
	}
	o.OracleOK("header-once-first")
}

func runHeaderCases(o *corr.Out) {
	emit := func(hdr []byte, bufs [][]byte, sched []string, hr hdrRun) {
		if hr.bad != "" {
			o.Oracle("no-hang", hdrRequest(hdr, bufs, sched), hr.bad)
			hangs++
			return
		}
		checkHeaderOracle(o, hdr, bufs, sched, hr)
		conc := false
		for i, tok := range sched {
			conc = conc || (tok[0] == 'c' && i > 0 && i-1 < len(hr.parked) && hr.parked[i-1] != "-")
		}
		o.Stat(fmt.Sprintf("hdr:threads=%d", len(bufs)))
		o.Case(hdrRequest(hdr, bufs, sched), hr.answer(), conc)
	}
	// every order of calls and write completions, driven by what is really parked
	var dfs func(hdr []byte, bufs [][]byte, sched []string, budget *int)
	dfs = func(hdr []byte, bufs [][]byte, sched []string, budget *int) {
		if *budget <= 0 || giveUp(o) {
			return
		}
		hr := runHdr(hdr, bufs, sched)
		if hr.bad != "" || len(hr.next) == 0 {
			*budget--
			emit(hdr, bufs, sched, hr)
			return
		}
		for _, nx := range hr.next {
			dfs(hdr, bufs, append(append([]string(nil), sched...), nx), budget)
		}
	}
	full := []byte(drpcmigrate.DRPCHeader)
	type cfg struct {
		hdr  []byte
		bufs [][]byte
	}
	cfgs := []cfg{
		{full, [][]byte{{0xa1, 0xa2}, {0xb1}}},
		{full, [][]byte{{0xa1}, {}}},
		{full[:1], [][]byte{{0xa1, 0xa2, 0xa3}, {0xb1, 0xb2}, {0xc1}}},
		{full, [][]byte{{0xa1}, {0xb1, 0xb2}, {}}},
		{nil, [][]byte{{0xa1}, {0xb1}}},
	}
	for _, c := range cfgs {
		budget := 400
		if o.Thorough {
			budget = 5000
		}
		dfs(c.hdr, c.bufs, nil, &budget)
	}
	// sequential patterns of writes (any sizes, including empty), one completes before the next starts
	for i := 0; i < 60; i++ {
		k := 1 + o.Rand.Intn(6)
		var bufs [][]byte
		var sched []string
		for j := 0; j < k; j++ {
			b := make([]byte, o.Rand.Intn(4))
			for x := range b {
				b[x] = byte(0xa0 + 16*j + x)
			}
			bufs = append(bufs, b)
			sched = append(sched, fmt.Sprintf("c%d", j), fmt.Sprintf("w%d", j))
		}
		h := full[:[]int{0, 1, 8}[o.Rand.Intn(3)]]
		if giveUp(o) {
			break
		}
		emit(h, bufs, sched, runHdr(h, bufs, sched))
	}
	// a goroutine writes again after its first write returned; failures of the underlying write
	extra := [][]string{
		{"c0", "c1", "w0", "c0", "w1", "w0"},
		{"c0", "w0", "c0", "c1", "w1", "w0"},
		{"c0", "c1", "f0:3", "w1"},
		{"c0", "c1", "f0:9", "w1"},
		{"c0", "c1", "f0:0", "f1:1"},
		{"c0", "f0:100", "c1", "w1"},
		{"c1", "c0", "w1", "f0:1"},
	}
	for _, s := range extra {
		bufs := [][]byte{{0xa1, 0xa2}, {0xb1, 0xb2, 0xb3}}
		if giveUp(o) {
			break
		}
		emit(full, bufs, s, runHdr(full, bufs, s))
	}
}

// ---------------------------------------------------------------- mux: schedules

type muxRun struct {
	notEnabled string
	evs        []string
	fin        []string
	bad        string
	used       bool // interleaving: some op happened while a connection was mid-prefix or waiting
	ops        []string // the operations as issued: `*` resolved, the outcome of every burst recorded
	bursts     []string // per burst Q: "old" (Route got the closed, still registered listener) / "fresh" / "other"
}

type muxScenario struct {
	n     int
	ops   []string
	sizes []int
	sym   bool // listeners are referred to symbolically (`*`) or exist by construction: no static validity filter
}

func (sc muxScenario) request() string {
	ops := "-"
	if len(sc.ops) > 0 {
		ops = strings.Join(sc.ops, ",")
	}
	return fmt.Sprintf("mux n=%d ops=%s sizes=%s", sc.n, ops, sizesStr(sc.sizes))
}

// valid says whether op can be issued in the current world (mirrors the enabledness of the model's
// environment steps; the harness never issues anything else).
func (w *world) valid(op string) bool {
	switch op[0] {
	case 'R':
		return true
	case 'A', 'C':
		i, err := strconv.Atoi(op[1:])
		return err == nil && i < len(w.lis)
	case 'Q':
		i, err := strconv.Atoi(strings.SplitN(op[1:], ":", 2)[0])
		return err == nil && i < len(w.lis) && strings.Contains(op, ":")
	case 'X':
		return true
	case 'F', 'N':
		return !w.baseDead
	case 'W':
		k, _ := strconv.Atoi(strings.SplitN(op[1:], ":", 2)[0])
		return k < len(w.conns) && !w.conns[k].eof
	case 'E':
		k, _ := strconv.Atoi(op[1:])
		return k < len(w.conns)
	}
	return false
}

func unhex(s string) []byte {
	if s == "-" || s == "" {
		return nil
	}
	b := make([]byte, len(s)/2)
	for i := range b {
		v, _ := strconv.ParseUint(s[2*i:2*i+2], 16, 8)
		b[i] = byte(v)
	}
	return b
}

// resolve replaces the symbolic listener `*` (the one the most recent Route returned) in A*, C*, Q*:<p>.
func (w *world) resolve(op string) string {
	switch {
	case op == "A*" || op == "C*":
		return op[:1] + strconv.Itoa(w.last)
	case strings.HasPrefix(op, "Q*:"):
		return "Q" + strconv.Itoa(w.last) + op[2:]
	}
	return op
}

// apply issues one operation.  canon is the operation as it is recorded in the request: the same text,
// except for the burst Q, where it says which of the two racing critical sections came first.
func (w *world) apply(op string) (pre, canon string, err error) {
	canon = op
	switch op[0] {
	case 'R':
		pre = w.route(unhex(op[1:]))
	case 'A':
		i, _ := strconv.Atoi(op[1:])
		w.accept(i)
	case 'C':
		i, _ := strconv.Atoi(op[1:])
		_ = w.lis[i].Close()
		w.lisDead[i] = true
	case 'Q':
		// Close and Route back to back on this goroutine: the monitor goroutine woken by the Close races
		// with the Route for m.mu.  Route returns the registered listener when there is one, so a NEW
		// listener for the closed listener's own prefix means the monitor's delete came first.
		parts := strings.SplitN(op[1:], ":", 2)
		i, _ := strconv.Atoi(parts[0])
		p := unhex(parts[1])
		before := len(w.lis)
		_ = w.lis[i].Close()
		pre = w.route(p)
		w.lisDead[i] = true
		if len(w.lis) > before && i > 0 && bytes.Equal(w.lisPfx[i], p) {
			canon = "q" + op[1:]
		}
	case 'X':
		w.cancel()
		w.baseDead = true
		w.stopped = true
	case 'F':
		tag, _ := strconv.Atoi(op[1:])
		err = w.baseFail(tag)
		w.stopped = true
	case 'N':
		_, err = w.newConn()
	case 'W':
		parts := strings.SplitN(op[1:], ":", 2)
		k, _ := strconv.Atoi(parts[0])
		b := unhex(parts[1])
		c := w.conns[k]
		c.mu.Lock()
		have := len(c.all)
		c.mu.Unlock()
		if have < w.n && have+len(b) >= w.n {
			// the prefix completes with this write: routeConn looks the route up now
			key := append(append([]byte(nil), c.all...), b...)[:w.n]
			c.wantLis = w.liveRoute(key)
		}
		c.push(b)
	case 'E':
		k, _ := strconv.Atoi(op[1:])
		w.conns[k].clientClose()
	}
	return pre, canon, err
}

// events between two observations, canonical order: accept results by call index, closes by
// connection id, Run's return
func (w *world) events(acc0 []accRes, closes0 int, run0 bool) string {
	var evs []string
	acc1 := w.accSnapshot()
	for t, r := range acc1 {
		if r.done && (t >= len(acc0) || !acc0[t].done) {
			if r.err != nil {
				evs = append(evs, fmt.Sprintf("a%d=err:%s", t, accErrName(r.err)))
			} else {
				evs = append(evs, fmt.Sprintf("a%d=c%d", t, connID(r.conn)))
			}
		}
	}
	cl := w.clog.snapshot()[closes0:]
	sort.Ints(cl)
	for _, c := range cl {
		evs = append(evs, fmt.Sprintf("x%d", c))
	}
	if done, err := w.runState(); done && !run0 {
		e := "nil"
		if err != nil {
			e = accErrName(err)
		}
		evs = append(evs, "run="+e)
	}
	if len(evs) == 0 {
		return "-"
	}
	return strings.Join(evs, "+")
}

func runMux(o *corr.Out, sc muxScenario) (mr muxRun) {
	w, err := newWorld(sc.n)
	if err != nil {
		mr.bad = err.Error()
		return
	}
	for i, op := range sc.ops {
		op = w.resolve(op)
		acc0 := w.accSnapshot()
		closes0 := len(w.clog.snapshot())
		run0, _ := w.runState()
		busy := false
		for _, c := range w.conns {
			busy = busy || c.readersWaiting() > 0
		}
		for _, r := range acc0 {
			busy = busy || !r.done
		}
		if busy && op[0] != 'W' && op[0] != 'E' {
			mr.used = true
		}
		if !w.valid(op) {
			// the schedule was generated from the documented behaviour; the implementation has fewer
			// listeners / connections than it should have at this point
			mr.notEnabled = op
			mr.ops = append(append(mr.ops, op), sc.ops[i+1:]...)
			break
		}
		pre, canon, err := w.apply(op)
		mr.ops = append(mr.ops, canon)
		if op[0] == 'Q' {
			switch {
			case canon[0] == 'q':
				mr.bursts = append(mr.bursts, "fresh")
			case pre != "panic" && w.lisDead[w.last]:
				mr.bursts = append(mr.bursts, "old")
			default:
				mr.bursts = append(mr.bursts, "other")
			}
		}
		if err == nil {
			_, err = settle(self, waitLimit)
		}
		if err != nil {
			mr.bad = "op " + op + ": " + err.Error()
			mr.ops = append(mr.ops, sc.ops[i+1:]...)
			break
		}
		ev := w.events(acc0, closes0, run0)
		switch {
		case pre == "":
		case ev == "-":
			ev = pre
		default:
			ev = pre + "+" + ev
		}
		mr.evs = append(mr.evs, ev)
	}
	if mr.bad == "" && mr.notEnabled == "" {
		rsc := sc
		rsc.ops = mr.ops
		mr.fin, mr.bad = w.finish(o, rsc)
	}
	if mr.notEnabled != "" {
		w.cancel()
		for _, c := range w.conns {
			c.clientClose()
		}
		_, _ = settle(self, waitLimit)
	}
	if mr.bad != "" {
		// abandon the world: let everything go as far as possible
		w.cancel()
		for _, c := range w.conns {
			c.clientClose()
		}
	}
	return mr
}

// finish: the fate of every connection (delivered ones are read to the end after the client closed),
// then the stop phase with the direct oracles.
func (w *world) finish(o *corr.Out, sc muxScenario) (fin []string, bad string) {
	req := sc.request()
	acc := w.accSnapshot()
	deliveredBy := map[int][]int{} // conn id -> accept calls that returned it
	for t, r := range acc {
		if r.done && r.err == nil {
			deliveredBy[connID(r.conn)] = append(deliveredBy[connID(r.conn)], t)
		}
	}
	closes := map[int]int{}
	for _, c := range w.clog.snapshot() {
		closes[c]++
	}
	for k, c := range w.conns {
		ts := deliveredBy[k]
		switch {
		case len(ts) > 0:
			t := ts[0]
			li := w.accLis[t]
			conn := acc[t].conn
			wrapped := conn != net.Conn(c)
			c.clientClose()
			reads, err, ok := readAll(conn, sc.sizes)
			if !ok {
				return fin, "reads never end"
			}
			fin = append(fin, fmt.Sprintf("L%d:w%s:%s", li, corr.B01(wrapped), showReads(reads, err)))
			// direct oracles
			got := bytes.Join(reads, nil)
			want := c.all
			if !wrapped {
				if len(want) >= w.n {
					want = want[w.n:]
				}
				if li == 0 || !bytes.Equal(w.lisPfx[li], c.all[:min(w.n, len(c.all))]) {
					o.Oracle("routed-by-prefix", req, fmt.Sprintf("conn %d (%s) delivered raw by listener %d (prefix %s)", k, corr.Hex(c.all), li, corr.Hex(w.lisPfx[li])))
				} else {
					o.OracleOK("routed-by-prefix")
				}
			} else if li != 0 {
				o.Oracle("routed-by-prefix", req, fmt.Sprintf("conn %d delivered wrapped by routed listener %d", k, li))
			}
			// the route registered for its prefix: when the prefix arrived the harness held a live listener
			// returned by Route for exactly these bytes, so that listener must be the one that delivers it
			if l := c.wantLis; l > 0 {
				if li != l {
					o.Oracle("routed-by-prefix", req, fmt.Sprintf("conn %d (%s) was delivered by listener %d although Route(%s) had returned the live listener %d before the prefix arrived",
						k, corr.Hex(c.all), li, corr.Hex(w.lisPfx[l]), l))
				} else {
					o.OracleOK("live-route-receives")
				}
			}
			if !bytes.Equal(got, want) {
				o.Oracle("byte-transparency", req, fmt.Sprintf("conn %d: acceptor read %s, client sent %s", k, corr.Hex(got), corr.Hex(c.all)))
			} else {
				o.OracleOK("byte-transparency")
			}
		case closes[k] > 0:
			fin = append(fin, "closed")
			if l := c.wantLis; l > 0 && !w.stopped && !w.lisDead[l] {
				o.Oracle("routed-by-prefix", req, fmt.Sprintf("conn %d (%s) was closed by the mux although the live listener %d is registered for its prefix", k, corr.Hex(c.all), l))
			}
		case c.readersWaiting() > 0:
			fin = append(fin, "reading")
		default:
			fin = append(fin, "offered")
		}
	}
	// ---- live routes receive (not compared with the model: direct oracle only).  A connection that is
	// still undelivered although the harness holds a live listener for its prefix must be waiting for
	// exactly that listener: no Accept on it may be blocked, and an Accept issued now returns it.
	if !w.stopped {
		for l := 1; l < len(w.lis); l++ {
			if w.lisDead[l] {
				continue
			}
			pend := map[int]bool{}
			for k, c := range w.conns {
				if c.wantLis == l && len(deliveredBy[k]) == 0 && closes[k] == 0 {
					pend[k] = true
				}
			}
			if len(pend) == 0 {
				continue
			}
			what := fmt.Sprintf("live listener %d registered for prefix %s, %d undelivered connection(s) carrying it", l, corr.Hex(w.lisPfx[l]), len(pend))
			okLive := true
			for t, r := range acc {
				if !r.done && w.accLis[t] == l {
					okLive = false
					o.Oracle("live-route-receives", req, fmt.Sprintf("%s: Accept call %d on it is blocked", what, t))
					break
				}
			}
			for n := len(pend); okLive && n > 0; n-- {
				t := w.accept(l)
				if _, err := settle(self, waitLimit); err != nil {
					return fin, "probe: " + err.Error()
				}
				r := w.accSnapshot()[t]
				if !r.done || r.err != nil || !pend[connID(r.conn)] {
					okLive = false
					o.Oracle("live-route-receives", req, fmt.Sprintf("%s: a new Accept on it: done=%v err=%v", what, r.done, r.err))
				} else {
					delete(pend, connID(r.conn))
				}
			}
			if okLive {
				o.OracleOK("live-route-receives")
			}
		}
	}
	// ---- stop phase (not compared with the model: direct oracles only)
	w.cancel()
	for _, c := range w.conns {
		c.clientClose()
	}
	if _, err := settle(self, waitLimit); err != nil {
		return fin, "stop: " + err.Error()
	}
	for t, r := range w.accSnapshot() {
		if !r.done {
			o.Oracle("stopped-accept-fails", req, fmt.Sprintf("Accept call %d on listener %d is still blocked after the mux stopped", t, w.accLis[t]))
			return fin, ""
		}
	}
	if done, _ := w.runState(); !done {
		o.Oracle("stopped-accept-fails", req, "Run did not return after the mux stopped")
		return fin, ""
	}
	first := len(w.acc)
	for li := range w.lis {
		w.accept(li)
	}
	if _, err := settle(self, waitLimit); err != nil {
		return fin, "stop: " + err.Error()
	}
	okStop := true
	for t, r := range w.accSnapshot()[first:] {
		if !r.done || r.err == nil {
			okStop = false
			o.Oracle("stopped-accept-fails", req, fmt.Sprintf("Accept on listener %d after stop: done=%v err=%v", t, r.done, r.err))
		}
	}
	if okStop {
		o.OracleOK("stopped-accept-fails")
	}
	// exactly once: after stop and client close every connection has exactly one fate
	acc = w.accSnapshot()
	cnt := map[int]int{}
	for _, r := range acc {
		if r.done && r.err == nil {
			cnt[connID(r.conn)]++
		}
	}
	for _, c := range w.clog.snapshot()[0:] {
		cnt[c]++
	}
	okOnce := true
	for k := range w.conns {
		if cnt[k] != 1 {
			okOnce = false
			o.Oracle("exactly-once", req, fmt.Sprintf("conn %d: deliveries+closes = %d", k, cnt[k]))
		}
	}
	if okOnce {
		o.OracleOK("exactly-once")
	}
	// nothing left behind
	if n, _ := settle(self, waitLimit); n != 0 {
		// blocked Accepts on listeners of a stopped mux / routeConn goroutines would show up here
		o.Oracle("no-goroutine-left", req, fmt.Sprintf("%d goroutines still alive after stop", n))
	} else {
		o.OracleOK("no-goroutine-left")
	}
	return fin, ""
}

func (mr muxRun) answer() string {
	if mr.notEnabled != "" {
		return "ev=" + strings.Join(mr.evs, "|") + " not-enabled:" + mr.notEnabled
	}
	fin := "-"
	if len(mr.fin) > 0 {
		fin = strings.Join(mr.fin, " ")
	}
	return "ev=" + strings.Join(mr.evs, "|") + " fin=" + fin
}

// permutations of ops that respect `before` constraints (pairs i<j meaning ops[i] must precede ops[j])
func orderings(ops []string, before [][2]int, visit func([]string)) {
	n := len(ops)
	used := make([]bool, n)
	cur := make([]string, 0, n)
	var rec func()
	rec = func() {
		if len(cur) == n {
			visit(append([]string(nil), cur...))
			return
		}
		for i := 0; i < n; i++ {
			if used[i] {
				continue
			}
			ok := true
			for _, b := range before {
				if b[1] == i && !used[b[0]] {
					ok = false
				}
			}
			if !ok {
				continue
			}
			used[i] = true
			cur = append(cur, ops[i])
			rec()
			cur = cur[:len(cur)-1]
			used[i] = false
		}
	}
	rec()
}

func runMuxCases(o *corr.Out) {
	baseline, _ := settle(self, waitLimit)
	emit := func(class string, sc muxScenario) {
		// skip schedules containing an operation that is not enabled when its turn comes: checked
		// dynamically by a dry pass over listener / connection counts
		if !sc.sym && !staticallyValid(sc) {
			o.Stat("mux:" + class + ":skipped-invalid")
			return
		}
		if giveUp(o) {
			return
		}
		mr := runMux(o, sc)
		sc.ops = mr.ops
		for _, b := range mr.bursts {
			o.Stat("mux:burst:" + b)
		}
		if mr.bad != "" {
			hangs++
			o.Oracle("no-hang", sc.request(), mr.bad)
			// leaked goroutines would confuse the later leak oracle: re-baseline
			baseline, _ = settle(self, waitLimit)
			return
		}
		_ = baseline
		o.Stat("mux:" + class)
		for _, f := range mr.fin {
			o.Stat("mux:fate:" + strings.SplitN(f, ":", 2)[0])
		}
		blocked := strings.Contains(mr.answer(), "=err:") || strings.Contains(mr.answer(), "=c")
		o.Case(sc.request(), mr.answer(), mr.used && blocked)
	}
	hdr := []byte(drpcmigrate.DRPCHeader)
	hx := func(b []byte) string { return corr.Hex(b) }
	// F1: every order of Route / Accept(route) / Accept(default) / a stopping or closing event relative to a
	// connection whose prefix arrives in two pieces
	for _, n := range []int{1, 4, 8} {
		p := hdr[:n]
		cut := n / 2
		w1 := "W0:" + hx(p[:cut])
		if cut == 0 {
			w1 = "W0:" + hx(p) // n = 1: the whole prefix, then the payload separately
		}
		w2 := "W0:" + hx(append(append([]byte(nil), p[cut:]...), 0xa0, 0xa1))
		if cut == 0 {
			w2 = "W0:a0a1"
		}
		for _, term := range []string{"C1", "X", "F7", "C0", "E0", "A1"} {
			ops := []string{"R" + hx(p), "A1", "A0", "N", w1, w2, term}
			before := [][2]int{{0, 1}, {3, 4}, {4, 5}}
			if term == "C1" || term == "A1" {
				before = append(before, [2]int{0, 6})
			}
			if term == "E0" {
				before = append(before, [2]int{3, 6})
			}
			if term == "X" || term == "F7" {
				// N must come before the base stops
			}
			idx := 0
			orderings(ops, before, func(s []string) {
				idx++
				if !o.Thorough && idx%4 != int(o.Seed%4) {
					return
				}
				emit("orders", muxScenario{n: n, ops: s, sizes: []int{2, 1}})
			})
		}
	}
	// F2: two connections for the same route, Accepts before / after / in between; unknown prefix in between
	{
		p := hdr[:4]
		ops := []string{"R" + hx(p), "N", "W0:" + hx(p) + "a0", "N", "W1:" + hx(p) + "b0b1", "A1", "A1", "A0"}
		before := [][2]int{{0, 5}, {0, 6}, {1, 2}, {3, 4}, {1, 3}, {5, 6}}
		idx := 0
		orderings(ops, before, func(s []string) {
			idx++
			if !o.Thorough && idx%3 != int(o.Seed%3) {
				return
			}
			emit("two-conns", muxScenario{n: 4, ops: s, sizes: nil})
		})
	}
	// F3: prefix length 0 (Route("") takes everything), wrong-length Route panics, re-Route after Close
	fixed := []muxScenario{
		{n: 0, ops: []string{"A0", "N", "W0:a0", "R-", "A1", "N", "W1:b0", "X"}},
		{n: 0, ops: []string{"R-", "N", "A1", "A0", "X"}},
		{n: 4, ops: []string{"R4452", "R445250432121", "R-", "R44525043", "R44525043", "A1", "X"}},
		{n: 4, ops: []string{"R44525043", "C1", "R44525043", "A1", "A2", "N", "W0:44525043a0", "X"}},
		{n: 4, ops: []string{"R44525043", "N", "W0:4452", "C1", "W0:5043a0", "A0", "A1"}},
		{n: 4, ops: []string{"R44525043", "N", "W0:4452", "C1", "R44525043", "W0:5043a0", "A2", "A1"}},
		{n: 4, ops: []string{"N", "W0:4452", "R44525043", "W0:5043a0", "A0", "A1"}},
		{n: 4, ops: []string{"N", "W0:44525043", "R44525043", "W0:a0", "A1", "A0"}},
		{n: 4, ops: []string{"R44525043", "A1", "A1", "A0", "F3", "R44525043", "A2"}},
		{n: 4, ops: []string{"R44525043", "N", "W0:44525043", "F3"}},
		{n: 4, ops: []string{"R44525043", "N", "W0:445250", "E0", "A1", "A0", "X"}},
		{n: 4, ops: []string{"N", "N", "N", "W2:ffffffff01", "W0:ffffffff02", "A0", "W1:ffffffff03", "A0", "A0"}},
		{n: 8, ops: []string{"R" + hx(hdr), "A1", "N", "W0:" + hx(hdr[:3]), "W0:" + hx(hdr[3:7]), "W0:" + hx(hdr[7:]) + "a0", "W0:a1", "E0"}},
		{n: 1, ops: []string{"R44", "A0", "A1", "C0", "N", "W0:45", "N", "W1:44", "X"}},
		{n: 4, ops: []string{"X", "R44525043", "A1", "A0"}},
		{n: 4, ops: []string{"F5", "X", "R44525043", "A1", "A0", "C1"}},
	}
	for _, sc := range fixed {
		sc.sizes = []int{3}
		emit("fixed", sc)
	}
	// F4: random schedules
	N := 700
	if o.Thorough {
		N = 12000
	}
	for i := 0; i < N; i++ {
		n := []int{0, 1, 2, 4}[o.Rand.Intn(4)]
		pfx := [][]byte{hdr[:n], append([]byte(nil), hdr[:n]...)}
		if n > 0 {
			pfx[1][n-1] ^= 1
		}
		nl, nc, dead := 1, 0, false
		sent := map[int]int{}
		closed := map[int]bool{}
		var ops []string
		for len(ops) < 4+o.Rand.Intn(9) {
			switch o.Rand.Intn(10) {
			case 0:
				p := pfx[o.Rand.Intn(2)]
				if o.Rand.Intn(12) == 0 {
					p = append(append([]byte(nil), p...), 0x01) // wrong length: panics
				} else {
					nl++ // upper bound on the number of listeners; validity is re-checked statically
				}
				ops = append(ops, "R"+hx(p))
			case 1, 2:
				ops = append(ops, fmt.Sprintf("A%d", o.Rand.Intn(nl)))
			case 3:
				ops = append(ops, fmt.Sprintf("C%d", o.Rand.Intn(nl)))
			case 4:
				if o.Rand.Intn(3) == 0 {
					if o.Rand.Intn(2) == 0 {
						ops = append(ops, "X")
					} else if !dead {
						ops = append(ops, fmt.Sprintf("F%d", 1+o.Rand.Intn(5)))
					}
					dead = true
				}
			case 5, 6:
				if !dead && nc < 3 {
					ops = append(ops, "N")
					nc++
				}
			case 7, 8:
				if nc > 0 {
					k := o.Rand.Intn(nc)
					if closed[k] {
						continue
					}
					var b []byte
					p := pfx[o.Rand.Intn(2)]
					if o.Rand.Intn(5) == 0 {
						p = []byte{0xee, 0xee, 0xee, 0xee}[:n]
					}
					full := append(append([]byte(nil), p...), byte(0xa0+k), byte(0xb0+k))
					if sent[k] < len(full) {
						m := 1 + o.Rand.Intn(len(full)-sent[k])
						b = full[sent[k] : sent[k]+m]
						sent[k] += m
					} else {
						b = []byte{byte(0xc0 + k)}
					}
					ops = append(ops, fmt.Sprintf("W%d:%s", k, hx(b)))
				}
			case 9:
				if nc > 0 && o.Rand.Intn(2) == 0 {
					k := o.Rand.Intn(nc)
					if !closed[k] {
						closed[k] = true
						ops = append(ops, fmt.Sprintf("E%d", k))
					}
				}
			}
		}
		var sizes []int
		for k := o.Rand.Intn(4); k > 0; k-- {
			sizes = append(sizes, 1+o.Rand.Intn(4))
		}
		emit("random", muxScenario{n: n, ops: ops, sizes: sizes})
	}
	// F5: re-registering a prefix.  Route(p) again without closing (the same listener), after Close once
	// everything settled (a fresh listener), and as a burst (Close and Route back to back: whichever of
	// Route and the closed listener's monitor goroutine reaches m.mu first), once or repeatedly, possibly
	// with another prefix in between — relative to connections carrying p that arrive before, during
	// (mid-prefix) or after the re-registration, with Accepts pending or issued later.  `*` is the
	// listener the most recent Route returned.
	ns := []int{1, 4}
	if o.Thorough {
		ns = []int{1, 2, 4, 8}
	}
	for _, n := range ns {
		p := hdr[:n]
		q := append([]byte(nil), p...)
		q[n-1] ^= 0x55
		rp, rq := "R"+hx(p), "R"+hx(q)
		qp, qsp := "Q1:"+hx(p), "Q*:"+hx(p)
		mids := [][]string{
			{},
			{rp},
			{"C1", rp},
			{qp},
			{qp, rp},
			{qp, qsp},
			{"C1", rp, qsp, rp},
			{"Q1:" + hx(q), rp},
			{rq, qp, "C2"},
		}
		cut := n / 2
		full := func(k int, tail ...byte) []string { // connection k: N, then the prefix in two pieces (+ tail)
			c := strconv.Itoa(k)
			if cut == 0 {
				return []string{"N", "W" + c + ":" + hx(p), "W" + c + ":" + hx(tail)}
			}
			return []string{"N", "W" + c + ":" + hx(p[:cut]), "W" + c + ":" + hx(append(append([]byte(nil), p[cut:]...), tail...))}
		}
		idx := 0
		for mi, mid := range mids {
			run := func(timing string, head []string, tail []string, before [][2]int) {
				orderings(tail, before, func(t []string) {
					idx++
					if !o.Thorough && idx%3 != int(o.Seed%3) {
						return
					}
					ops := append(append(append([]string{rp}, head...), mid...), t...)
					o.Stat(fmt.Sprintf("mux:rereg:%s:mid%d", timing, mi))
					emit("rereg", muxScenario{n: n, ops: ops, sizes: []int{2, 1}, sym: true})
				})
			}
			c0 := full(0, 0xa0, 0xa1)
			// the connection arrives after the re-registration
			run("after", nil, []string{"A*", "A0", c0[0], c0[1], c0[2]}, [][2]int{{2, 3}, {3, 4}})
			// an Accept is pending on the first listener while the prefix is re-registered
			run("accept-pending", []string{"A1"}, []string{"A*", "A0", c0[0], c0[1], c0[2]}, [][2]int{{2, 3}, {3, 4}})
			// the connection is in the middle of its prefix while the prefix is re-registered
			run("mid-prefix", c0[:2], []string{"A*", "A0", c0[2]}, nil)
			// a first connection is already waiting for the first listener; a second one arrives afterwards
			c1 := full(1, 0xb0)
			run("offered", c0, []string{"A*", "A0", c1[0], c1[1], c1[2]}, [][2]int{{2, 3}, {3, 4}})
		}
	}
	// F6: random schedules around re-registration: two prefixes, Route / burst / Close / Accept on the
	// most recently returned listener, connections carrying either prefix or none, an occasional stop
	N6 := 400
	if o.Thorough {
		N6 = 8000
	}
	for i := 0; i < N6; i++ {
		n := []int{1, 2, 4}[o.Rand.Intn(3)]
		pfx := [][]byte{hdr[:n], append([]byte(nil), hdr[:n]...)}
		pfx[1][n-1] ^= 1
		ops := []string{"R" + hx(pfx[0])}
		nc, dead := 0, false
		sent := map[int]int{}
		data := map[int][]byte{}
		closed := map[int]bool{}
		want := 5 + o.Rand.Intn(10)
		for guard := 0; len(ops) < want && guard < 200; guard++ {
			switch o.Rand.Intn(12) {
			case 0:
				ops = append(ops, "R"+hx(pfx[o.Rand.Intn(2)]))
			case 1, 2:
				ops = append(ops, "Q*:"+hx(pfx[o.Rand.Intn(2)]))
			case 3:
				ops = append(ops, "C*")
			case 4, 5:
				ops = append(ops, "A*")
			case 6:
				ops = append(ops, []string{"A0", "A1", "Q1:" + hx(pfx[0])}[o.Rand.Intn(3)])
			case 7:
				if o.Rand.Intn(8) == 0 {
					if o.Rand.Intn(2) == 0 {
						ops = append(ops, "X")
					} else if !dead {
						ops = append(ops, fmt.Sprintf("F%d", 1+o.Rand.Intn(5)))
					}
					dead = true
				}
			case 8:
				if !dead && nc < 3 {
					ops = append(ops, "N")
					pp := pfx[o.Rand.Intn(2)]
					if o.Rand.Intn(6) == 0 {
						pp = []byte{0xee, 0xee, 0xee, 0xee}[:n]
					}
					data[nc] = append(append([]byte(nil), pp...), byte(0xa0+nc), byte(0xb0+nc))
					nc++
				}
			case 9, 10:
				if nc > 0 {
					k := o.Rand.Intn(nc)
					if closed[k] {
						continue
					}
					b := []byte{byte(0xc0 + k)}
					if sent[k] < len(data[k]) {
						m := 1 + o.Rand.Intn(len(data[k])-sent[k])
						b = data[k][sent[k] : sent[k]+m]
						sent[k] += m
					}
					ops = append(ops, fmt.Sprintf("W%d:%s", k, hx(b)))
				}
			case 11:
				if nc > 0 && o.Rand.Intn(3) == 0 {
					k := o.Rand.Intn(nc)
					if !closed[k] {
						closed[k] = true
						ops = append(ops, fmt.Sprintf("E%d", k))
					}
				}
			}
		}
		var sizes []int
		for k := o.Rand.Intn(3); k > 0; k-- {
			sizes = append(sizes, 1+o.Rand.Intn(4))
		}
		emit("rereg-random", muxScenario{n: n, ops: ops, sizes: sizes, sym: true})
	}
	if !giveUp(o) {
		replayStalledClient(o)
	}
	if n, err := settle(self, waitLimit); err != nil || n != 0 {
		o.Oracle("no-goroutine-left", "end of suite", fmt.Sprintf("%d goroutines alive (%v)", n, err))
	}
	_ = runtime.NumGoroutine
}

// replayStalledClient replays Props.C16.stalled_connection_counterexample on the implementation: a client
// that sent half of its prefix and then stalls is still open inside routeConn after the mux stopped and
// Run returned (known finding C16-stalled-prefix).
func replayStalledClient(o *corr.Out) {
	const input = "mux n=4 ops=N,W0:4452,X stalled-client"
	w, err := newWorld(4)
	if err != nil {
		o.Oracle("no-hang", input, err.Error())
		return
	}
	for _, op := range []string{"N", "W0:4452", "X"} {
		if _, _, err := w.apply(op); err == nil {
			_, err = settle(self, waitLimit)
		}
		if err != nil {
			o.Oracle("no-hang", input, err.Error())
			return
		}
	}
	done, _ := w.runState()
	c := w.conns[0]
	c.mu.Lock()
	closes := c.closes
	c.mu.Unlock()
	if done && closes == 0 && c.readersWaiting() > 0 {
		o.Oracle("closed-after-stop", input, "Run has returned, connection 0 is neither delivered nor closed: routeConn is still blocked in io.ReadFull")
	} else {
		o.OracleOK("closed-after-stop")
	}
	c.clientClose()
	if _, err := settle(self, waitLimit); err != nil {
		o.Oracle("no-hang", input, err.Error())
	}
}

// staticallyValid replays the bookkeeping of a schedule (listeners created, connections, base alive)
// the way the model's environment steps are enabled; Route creating a listener is over-approximated
// by the dynamic check in runMux (an Accept on a listener index that does not exist yet is skipped here).
func staticallyValid(sc muxScenario) bool {
	// listeners: simulate the route table exactly (close + monitor delete frees the prefix; after stop every
	// new listener is closed at once)
	type lst struct {
		pfx    string
		closed bool
	}
	lis := []lst{{}}
	reg := map[string]int{}
	stopped, dead := false, false
	nc := 0
	eof := map[int]bool{}
	for _, op := range sc.ops {
		switch op[0] {
		case 'R':
			p := string(unhex(op[1:]))
			if len(p) != sc.n {
				continue
			}
			if _, ok := reg[p]; !ok {
				lis = append(lis, lst{pfx: p, closed: stopped})
				if !stopped {
					reg[p] = len(lis) - 1
				}
			}
		case 'A', 'C':
			i, _ := strconv.Atoi(op[1:])
			if i >= len(lis) {
				return false
			}
			if op[0] == 'C' && i > 0 && !lis[i].closed {
				lis[i].closed = true
				delete(reg, lis[i].pfx)
			}
		case 'X':
			stopped, dead = true, true
			reg = map[string]int{}
		case 'F':
			if dead {
				return false
			}
			stopped, dead = true, true
			reg = map[string]int{}
		case 'N':
			if dead {
				return false
			}
			nc++
		case 'W':
			k, _ := strconv.Atoi(strings.SplitN(op[1:], ":", 2)[0])
			if k >= nc || eof[k] {
				return false
			}
		case 'E':
			k, _ := strconv.Atoi(op[1:])
			if k >= nc {
				return false
			}
			eof[k] = true
		}
	}
	return true
}
