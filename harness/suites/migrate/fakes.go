package migrate

import (
	"errors"
	"fmt"
	"io"
	"net"
	"regexp"
	"runtime"
	"strings"
	"sync"
	"time"
)

// ---------------------------------------------------------------- errors, addresses

type tagErr struct{ tag int }

func (e tagErr) Error() string { return fmt.Sprintf("scripted error %d", e.tag) }

var errBaseClosed = errors.New("fake base listener closed")

func finalErr(tag int) error {
	if tag == 0 {
		return io.EOF
	}
	return tagErr{tag}
}

// errName canonicalises a read error: nil | 0 (io.EOF) | tag | other:<msg>
func errName(err error) string {
	var te tagErr
	switch {
	case err == nil:
		return "nil"
	case err == io.EOF:
		return "0"
	case errors.As(err, &te):
		return fmt.Sprint(te.tag)
	}
	return "other:" + strings.ReplaceAll(err.Error(), " ", "_")
}

type fakeAddr struct{ id int }

func (fakeAddr) Network() string  { return "fake" }
func (a fakeAddr) String() string { return fmt.Sprintf("fake:%d", a.id) }

// ---------------------------------------------------------------- quiescence

var goHdr = regexp.MustCompile(`(?m)^goroutine (\d+) \[([^\],]+)`)

func goid() string {
	var buf [64]byte
	n := runtime.Stack(buf[:], false)
	m := goHdr.FindSubmatch(buf[:n])
	if m == nil {
		return "?"
	}
	return string(m[1])
}

// blockedState: wait states that only another goroutine can end.
func blockedState(s string) bool {
	switch s {
	case "chan receive", "chan send", "select", "sync.Mutex.Lock", "sync.Cond.Wait", "sync.WaitGroup.Wait",
		"semacquire", "sync.RWMutex.RLock", "sync.RWMutex.Lock", "chan receive (nil chan)", "chan send (nil chan)",
		"select (no cases)":
		return true
	}
	return false
}

var stackBuf = make([]byte, 1<<18)

// snapshot: one stop-the-world dump of all goroutines: number of goroutines other than self, and the
// states of those that are not blocked.
func snapshot(self string) (others int, busy []string) {
	for {
		n := runtime.Stack(stackBuf, true)
		if n < len(stackBuf) {
			for _, m := range goHdr.FindAllSubmatch(stackBuf[:n], -1) {
				if string(m[1]) == self {
					continue
				}
				others++
				if st := string(m[2]); !blockedState(st) {
					busy = append(busy, "g"+string(m[1])+":"+st)
				}
			}
			return others, busy
		}
		stackBuf = make([]byte, 2*len(stackBuf))
	}
}

// settle waits until every goroutine other than the caller is blocked (nothing can move unless the
// caller acts).  It returns the number of other goroutines, or an error after the timeout.
func settle(self string, timeout time.Duration) (int, error) {
	deadline := time.Now().Add(timeout)
	for spins := 0; ; spins++ {
		runtime.Gosched()
		n, busy := snapshot(self)
		if len(busy) == 0 {
			return n, nil
		}
		if time.Now().After(deadline) {
			return n, fmt.Errorf("not quiescent after %v: %s", timeout, strings.Join(busy, " "))
		}
		if spins > 20 {
			time.Sleep(20 * time.Microsecond)
		}
	}
}

// ---------------------------------------------------------------- base listener

type baseLis struct {
	ch     chan net.Conn
	fail   chan error
	closed chan struct{}
	once   sync.Once
}

func newBase() *baseLis {
	return &baseLis{ch: make(chan net.Conn), fail: make(chan error), closed: make(chan struct{})}
}

func (b *baseLis) Accept() (net.Conn, error) {
	select {
	case c := <-b.ch:
		return c, nil
	case e := <-b.fail:
		return nil, e
	case <-b.closed:
		return nil, errBaseClosed
	}
}
func (b *baseLis) Close() error   { b.once.Do(func() { close(b.closed) }); return nil }
func (b *baseLis) Addr() net.Addr { return fakeAddr{-1} }

// ---------------------------------------------------------------- scripted server-side connection

// sconn is the server side of a connection whose client is the harness: bytes are pushed by the
// harness; Read blocks while nothing is available and the client has not closed; the i-th data read
// returns max(1, min(chunks[i], len(p), available)) bytes.
type sconn struct {
	id       int
	mu       sync.Mutex
	cond     *sync.Cond
	data     []byte
	all      []byte // everything the client sent
	eof      bool
	final    error
	attached bool
	chunks   []int
	step     int
	closes   int
	waiting  int // readers blocked in Read
	closeLog *closeLog
	writes   [][]byte
	wantLis  int // harness bookkeeping (mux schedules): the live listener held for its prefix when the prefix arrived; -1 = prefix incomplete
}

type closeLog struct {
	mu  sync.Mutex
	ids []int
	ch  chan int
}

func (l *closeLog) add(id int) {
	l.mu.Lock()
	l.ids = append(l.ids, id)
	l.mu.Unlock()
	if l.ch != nil {
		select {
		case l.ch <- id:
		default:
		}
	}
}

func (l *closeLog) snapshot() []int {
	l.mu.Lock()
	defer l.mu.Unlock()
	return append([]int(nil), l.ids...)
}

func newSconn(id int, log *closeLog) *sconn {
	c := &sconn{id: id, closeLog: log, final: io.EOF, wantLis: -1}
	c.cond = sync.NewCond(&c.mu)
	return c
}

func (c *sconn) push(b []byte) {
	c.mu.Lock()
	c.data = append(c.data, b...)
	c.all = append(c.all, b...)
	c.mu.Unlock()
	c.cond.Broadcast()
}

func (c *sconn) clientClose() {
	c.mu.Lock()
	c.eof = true
	c.mu.Unlock()
	c.cond.Broadcast()
}

func (c *sconn) Read(p []byte) (int, error) {
	c.mu.Lock()
	defer c.mu.Unlock()
	for len(c.data) == 0 && !c.eof && c.closes == 0 {
		c.waiting++
		c.cond.Wait()
		c.waiting--
	}
	if c.closes > 0 {
		return 0, net.ErrClosed
	}
	if len(c.data) == 0 {
		return 0, c.final
	}
	if len(p) == 0 {
		return 0, nil
	}
	k := 1 << 30
	if c.step < len(c.chunks) {
		k = c.chunks[c.step]
	}
	c.step++
	if k > len(p) {
		k = len(p)
	}
	if k > len(c.data) {
		k = len(c.data)
	}
	if k < 1 {
		k = 1
	}
	copy(p, c.data[:k])
	c.data = c.data[k:]
	if len(c.data) == 0 && c.eof && c.attached {
		return k, c.final
	}
	return k, nil
}

func (c *sconn) Write(p []byte) (int, error) {
	c.mu.Lock()
	c.writes = append(c.writes, append([]byte(nil), p...))
	c.mu.Unlock()
	return len(p), nil
}

func (c *sconn) Close() error {
	c.mu.Lock()
	c.closes++
	c.mu.Unlock()
	c.cond.Broadcast()
	c.closeLog.add(c.id)
	return nil
}

func (c *sconn) readersWaiting() int {
	c.mu.Lock()
	defer c.mu.Unlock()
	return c.waiting
}

func (c *sconn) LocalAddr() net.Addr              { return fakeAddr{c.id} }
func (c *sconn) RemoteAddr() net.Addr             { return fakeAddr{c.id} }
func (c *sconn) SetDeadline(time.Time) error      { return nil }
func (c *sconn) SetReadDeadline(time.Time) error  { return nil }
func (c *sconn) SetWriteDeadline(time.Time) error { return nil }

// ---------------------------------------------------------------- connection whose Write parks

type wres struct {
	k    int // bytes written before the failure
	fail bool
}

type pwrite struct {
	gid     string
	data    []byte
	release chan wres
}

// pconn is an underlying connection for HeaderConn: every Write parks until the harness releases
// it; completed writes are recorded in completion order.
type pconn struct {
	sconn
	pmu    sync.Mutex
	parked []*pwrite
	wire   [][]byte
}

func (c *pconn) Write(b []byte) (int, error) {
	w := &pwrite{gid: goid(), data: append([]byte(nil), b...), release: make(chan wres)}
	c.pmu.Lock()
	c.parked = append(c.parked, w)
	c.pmu.Unlock()
	r := <-w.release
	if r.fail {
		return r.k, tagErr{9}
	}
	return len(b), nil
}

// complete lets the parked write of goroutine gid return; the bytes it put on the wire are recorded now.
func (c *pconn) complete(gid string, r wres) bool {
	c.pmu.Lock()
	var w *pwrite
	for i, x := range c.parked {
		if x.gid == gid {
			w = x
			c.parked = append(c.parked[:i], c.parked[i+1:]...)
			break
		}
	}
	if w == nil {
		c.pmu.Unlock()
		return false
	}
	out := w.data
	if r.fail {
		if r.k > len(out) {
			r.k = len(out)
		}
		out = out[:r.k]
	}
	c.wire = append(c.wire, out)
	c.pmu.Unlock()
	w.release <- r
	return true
}

func (c *pconn) parkedGids() []string {
	c.pmu.Lock()
	defer c.pmu.Unlock()
	var g []string
	for _, w := range c.parked {
		g = append(g, w.gid)
	}
	return g
}
