package compat

import (
	"bufio"
	"fmt"
	"io"
	"os"
	"os/exec"
	"path/filepath"
	"strings"
)

// oldProc is the released storj.io/drpc v0.0.17 behind the line protocol of /verif/oldwire.
type oldProc struct {
	cmd *exec.Cmd
	in  io.WriteCloser
	out *bufio.Reader
}

func verifRoot() string {
	if r := os.Getenv("VERIF_ROOT"); r != "" {
		return r
	}
	if exe, err := os.Executable(); err == nil {
		// <root>/build/corr
		if root := filepath.Dir(filepath.Dir(exe)); fileExists(filepath.Join(root, "oldwire", "main.go")) {
			return root
		}
	}
	return "/verif"
}

func fileExists(p string) bool { _, err := os.Stat(p); return err == nil }

// ensureOldwire builds <root>/build/oldwire from <root>/oldwire when it is missing or older than
// its sources (check.py only builds `corr`).  The released module comes from the module cache.
func ensureOldwire() (string, error) {
	root := verifRoot()
	bin := filepath.Join(root, "build", "oldwire")
	src := filepath.Join(root, "oldwire")
	need := true
	if bi, err := os.Stat(bin); err == nil {
		need = false
		for _, f := range []string{"main.go", "go.mod", "go.sum"} {
			if si, err := os.Stat(filepath.Join(src, f)); err != nil || si.ModTime().After(bi.ModTime()) {
				need = true
			}
		}
	}
	if !need {
		return bin, nil
	}
	tmp := fmt.Sprintf("%s.tmp%d", bin, os.Getpid())
	try := func(gobin string) ([]byte, error) {
		cmd := exec.Command(gobin, "build", "-o", tmp, ".")
		cmd.Dir = src
		cmd.Env = append(os.Environ(), "GOFLAGS=-mod=mod", "GOPROXY=off", "GOSUMDB=off", "GOTOOLCHAIN=local", "CGO_ENABLED=0")
		return cmd.CombinedOutput()
	}
	out, err := try("go1.26.8")
	if err != nil {
		var out2 []byte
		if out2, err = try("go"); err != nil {
			return "", fmt.Errorf("building oldwire: %v\n%s\n%s", err, out, out2)
		}
	}
	if err := os.Rename(tmp, bin); err != nil {
		return "", err
	}
	return bin, nil
}

func startOld() (*oldProc, error) {
	bin, err := ensureOldwire()
	if err != nil {
		return nil, err
	}
	cmd := exec.Command(bin)
	in, err := cmd.StdinPipe()
	if err != nil {
		return nil, err
	}
	outp, err := cmd.StdoutPipe()
	if err != nil {
		return nil, err
	}
	cmd.Stderr = os.Stderr
	if err := cmd.Start(); err != nil {
		return nil, err
	}
	p := &oldProc{cmd: cmd, in: in, out: bufio.NewReaderSize(outp, 1<<20)}
	if got := p.ask("ping"); got != "pong v0.0.17" {
		return nil, fmt.Errorf("oldwire handshake: %q", got)
	}
	return p, nil
}

func (p *oldProc) ask(line string) string {
	if _, err := io.WriteString(p.in, line+"\n"); err != nil {
		panic("oldwire: write: " + err.Error())
	}
	s, err := p.out.ReadString('\n')
	if err != nil {
		panic("oldwire: read: " + err.Error())
	}
	return strings.TrimRight(s, "\r\n")
}

func (p *oldProc) close() {
	p.in.Close()
	_ = p.cmd.Wait()
}
