// Package compat: correspondence + direct oracles for C18 (wire compatibility with the released
// storj.io/drpc v0.0.17).  The old code runs unmodified in a child process (/verif/oldwire, built
// from the module cache), the working tree in-process; every byte stream goes through both
// implementations and — via the request line — through both Lean models.
package compat

import (
	"bytes"
	"context"
	"encoding/hex"
	"errors"
	"fmt"
	"io"
	"sort"
	"strconv"
	"strings"
	"time"

	"storj.io/drpc"
	"storj.io/drpc/drpcerr"
	"storj.io/drpc/drpcmetadata"
	"storj.io/drpc/drpcstream"
	"storj.io/drpc/drpcwire"
	"verifharness/corr"
)

const (
	oldMaxTok    = 1 << 20
	oldMaxPacket = 4 << 20
)

// ---------------------------------------------------------------- byte strings on request lines

// spec renders bytes as "-" | comma separated tokens, each hex or "<count>x<hexbyte>".
func spec(b []byte) string {
	if len(b) == 0 {
		return "-"
	}
	var parts []string
	var lit []byte
	flush := func() {
		if len(lit) > 0 {
			parts = append(parts, hex.EncodeToString(lit))
			lit = nil
		}
	}
	for i := 0; i < len(b); {
		j := i
		for j < len(b) && b[j] == b[i] {
			j++
		}
		if j-i >= 12 {
			flush()
			parts = append(parts, fmt.Sprintf("%dx%02x", j-i, b[i]))
		} else {
			lit = append(lit, b[i:j]...)
		}
		i = j
	}
	flush()
	return strings.Join(parts, ",")
}

func showData(b []byte) string {
	if len(b) <= 128 {
		return corr.Hex(b)
	}
	h := uint32(7)
	for _, x := range b {
		h = h*31 + uint32(x)
	}
	return fmt.Sprintf("#%d.%d", len(b), h)
}

func sizesStr(s []int) string {
	if len(s) == 0 {
		return "-"
	}
	var parts []string
	for i := 0; i < len(s); {
		j := i
		for j < len(s) && s[j] == s[i] {
			j++
		}
		if j-i > 1 {
			parts = append(parts, fmt.Sprintf("%dx%d", s[i], j-i))
		} else {
			parts = append(parts, strconv.Itoa(s[i]))
		}
		i = j
	}
	return strings.Join(parts, ",")
}

// ---------------------------------------------------------------- the new reader, in-process

type tagErr struct{ tag int }

func (e tagErr) Error() string { return "scripted transport error " + strconv.Itoa(e.tag) }

type script struct {
	data     []byte
	sizes    []int
	i        int
	final    error
	attached bool
}

func (s *script) Read(p []byte) (int, error) {
	if len(s.data) == 0 {
		return 0, s.final
	}
	n := 1 << 30
	if s.i < len(s.sizes) {
		n = s.sizes[s.i]
	}
	s.i++
	if n > len(p) {
		n = len(p)
	}
	if n > len(s.data) {
		n = len(s.data)
	}
	if n < 1 {
		n = 1
	}
	copy(p, s.data[:n])
	s.data = s.data[n:]
	if len(s.data) == 0 && s.attached {
		return n, s.final
	}
	return n, nil
}

func errClass(err error) string {
	var te tagErr
	switch {
	case err == nil:
		return "nil"
	case drpc.ProtocolError.Has(err):
		return "protocol"
	case drpc.InternalError.Has(err):
		return "internal"
	case errors.Is(err, io.EOF):
		return "transport:0"
	case errors.As(err, &te):
		return fmt.Sprintf("transport:%d", te.tag)
	}
	return "other:" + strings.ReplaceAll(err.Error(), " ", "_")
}

type pk struct {
	sid, mid uint64
	kind     uint8
	ctl      bool
	data     []byte
}

type readRes struct {
	pkts []pk
	err  string
}

func (r readRes) newStr() string {
	var sb strings.Builder
	for _, p := range r.pkts {
		fmt.Fprintf(&sb, "P[%d,%d,%d,%s,%s] ", p.sid, p.mid, p.kind, corr.B01(p.ctl), showData(p.data))
	}
	return sb.String() + "E[" + r.err + "]"
}

// what a v0.0.17 reader must return for what the current reader returned
func (r readRes) minusControlStr() string {
	var sb strings.Builder
	for _, p := range r.pkts {
		if !p.ctl {
			fmt.Fprintf(&sb, "P[%d,%d,%d,%s] ", p.sid, p.mid, p.kind, showData(p.data))
		}
	}
	return sb.String() + "E[" + r.err + "]"
}

func oldStrOf(pkts []pk, err string) string {
	var sb strings.Builder
	for _, p := range pkts {
		fmt.Fprintf(&sb, "P[%d,%d,%d,%s] ", p.sid, p.mid, p.kind, showData(p.data))
	}
	return sb.String() + "E[" + err + "]"
}

func newRead(stream []byte, max int, sizes []int, final int, attached bool) (res readRes) {
	defer func() {
		if r := recover(); r != nil {
			res.err = "panic"
		}
	}()
	var ferr error = io.EOF
	if final != 0 {
		ferr = tagErr{final}
	}
	sc := &script{data: stream, sizes: sizes, final: ferr, attached: attached}
	rd := drpcwire.NewReaderWithOptions(sc, drpcwire.ReaderOptions{MaximumBufferSize: max})
	for n := 0; n < 1<<22; n++ {
		pkt, err := rd.ReadPacket()
		if err != nil {
			res.err = errClass(err)
			return res
		}
		res.pkts = append(res.pkts, pk{pkt.ID.Stream, pkt.ID.Message, uint8(pkt.Kind), pkt.Control, append([]byte(nil), pkt.Data...)})
	}
	res.err = "runaway"
	return res
}

// ---------------------------------------------------------------- WellFormed / limits (mirror of Drpc/Wire/Compat.lean)

func idLess(s1, m1, s2, m2 uint64) bool { return s1 < s2 || (s1 == s2 && m1 < m2) }

func wellFormed(frs []drpcwire.Frame) bool {
	for i, f := range frs {
		if f.Kind >= 64 {
			return false
		}
		if i == 0 {
			if idLess(f.ID.Stream, f.ID.Message, 1, 1) {
				return false
			}
			continue
		}
		g := frs[i-1]
		if idLess(g.ID.Stream, g.ID.Message, f.ID.Stream, f.ID.Message) {
			continue
		}
		if !g.Done && g.ID == f.ID && g.Kind == f.Kind && g.Control == f.Control {
			continue
		}
		return false
	}
	return true
}

func framesWithin(frs []drpcwire.Frame, lim int) bool {
	for _, f := range frs {
		if len(drpcwire.AppendFrame(nil, f)) > lim {
			return false
		}
	}
	return true
}

func packetsWithin(frs []drpcwire.Frame, lim int) bool {
	acc := 0
	var pid drpcwire.ID
	for _, f := range frs {
		if pid != f.ID {
			acc = 0
		}
		acc += len(f.Data)
		if acc > lim {
			return false
		}
		pid = f.ID
	}
	return true
}

func effMax(max int) int {
	if max == 0 {
		return 4 << 20
	}
	return max
}

// ---------------------------------------------------------------- generators

type gen struct {
	o   *corr.Out
	old *oldProc
}

func (g gen) payload(n int) []byte {
	b := make([]byte, n)
	r := g.o.Rand
	if n > 96 {
		// long payloads are runs (>= 12 bytes each) so that request lines stay short
		for i := 0; i < n; {
			l := 12 + r.Intn(1+n/3)
			c := byte(r.Intn(256))
			for j := 0; j < l && i < n; j++ {
				b[i] = c
				i++
			}
		}
		return b
	}
	switch r.Intn(3) {
	case 0:
		r.Read(b)
	case 1:
		for i := range b {
			b[i] = byte('a' + i%7)
		}
	default:
		c := byte(r.Intn(256))
		for i := range b {
			b[i] = c
		}
	}
	return b
}

// a 64-bit value with a random bit length (so that every varint length occurs)
func (g gen) u64() uint64 {
	r := g.o.Rand
	switch r.Intn(10) {
	case 0:
		return 1<<64 - 1
	case 1:
		return 1<<63 + uint64(r.Intn(5))
	}
	bits := uint(1 + r.Intn(64))
	v := r.Uint64()
	if bits < 64 {
		v &= 1<<bits - 1
	}
	return v
}

// strictly increasing ids starting at (1,1) or above; ok=false when the id space is exhausted
type idGen struct {
	g        gen
	sid, mid uint64
	started  bool
}

func (ig *idGen) next() (sid, mid uint64, ok bool) {
	r := ig.g.o.Rand
	if !ig.started {
		ig.started = true
		ig.sid, ig.mid = 1, 1
		if r.Intn(6) == 0 {
			ig.sid = 1 + ig.g.u64()%1000
		}
		if r.Intn(6) == 0 {
			ig.mid = ig.g.u64()
			if ig.mid == 0 {
				ig.mid = 1
			}
		}
		return ig.sid, ig.mid, true
	}
	switch k := r.Intn(12); {
	case k < 7: // next message of the stream
		if ig.mid == 1<<64-1 {
			if ig.sid == 1<<64-1 {
				return 0, 0, false
			}
			ig.sid, ig.mid = ig.sid+1, 1
		} else {
			ig.mid++
		}
	case k < 9: // jump within the stream
		if ig.mid == 1<<64-1 {
			if ig.sid == 1<<64-1 {
				return 0, 0, false
			}
			ig.sid, ig.mid = ig.sid+1, 1
		} else {
			d := ig.g.u64()
			if d == 0 || ig.mid+d < ig.mid {
				ig.mid = 1<<64 - 1
			} else {
				ig.mid += d
			}
		}
	default: // next stream (sometimes far away)
		if ig.sid == 1<<64-1 {
			return 0, 0, false
		}
		d := uint64(1)
		if r.Intn(3) == 0 {
			d = ig.g.u64()
		}
		if d == 0 || ig.sid+d < ig.sid {
			ig.sid = 1<<64 - 1
		} else {
			ig.sid += d
		}
		ig.mid = 1
		if r.Intn(4) == 0 {
			ig.mid = ig.g.u64()
			if ig.mid == 0 {
				ig.mid = 1
			}
		}
	}
	return ig.sid, ig.mid, true
}

var splitSizes = []int{1, 7, 1024, 65536, -1, 0}

func effSplit(n int, old bool) int {
	switch {
	case n < 0:
		return 0
	case n == 0 && old:
		return 1024
	case n == 0:
		return 65536
	}
	return n
}

func (g gen) payloadSize(m int) int {
	r := g.o.Rand
	if m == 0 {
		m = 5000
	}
	switch r.Intn(9) {
	case 0, 1:
		return 0
	case 2:
		return m
	case 3:
		return m + 1
	case 4:
		if m > 1 {
			return m - 1
		}
		return 1
	case 5:
		return 2*m + r.Intn(2)
	case 6:
		k := 3 + r.Intn(40)
		if k*m > 70000 {
			return 70000 + r.Intn(3)
		}
		return k*m + r.Intn(m+1)
	default:
		return r.Intn(40)
	}
}

// a packet list as a stream layer / application hands it to the writer; control packets with
// probability pctl: soft cancels (kind 4, empty), unknown control kinds 8..63, known kinds with the bit
func (g gen) packets(n int, m int, pctl int, oldKinds bool) []pk {
	r := g.o.Rand
	ig := &idGen{g: g}
	var out []pk
	for i := 0; i < n; i++ {
		sid, mid, ok := ig.next()
		if !ok {
			break
		}
		p := pk{sid: sid, mid: mid}
		if pctl > 0 && r.Intn(100) < pctl {
			p.ctl = true
			switch r.Intn(4) {
			case 0, 1:
				p.kind = 4
			case 2:
				p.kind = uint8(8 + r.Intn(56))
				p.data = g.payload(g.payloadSize(m))
			default:
				p.kind = uint8(r.Intn(64))
				p.data = g.payload(r.Intn(5))
			}
		} else {
			kinds := []uint8{1, 2, 2, 2, 3, 5, 6, 7}
			p.kind = kinds[r.Intn(len(kinds))]
			if !oldKinds && r.Intn(12) == 0 {
				p.kind = uint8(r.Intn(64))
			}
			if p.kind != 5 && p.kind != 6 || r.Intn(4) == 0 {
				p.data = g.payload(g.payloadSize(m))
			}
		}
		out = append(out, p)
	}
	return out
}

func pktsStr(ps []pk) string {
	if len(ps) == 0 {
		return "-"
	}
	parts := make([]string, len(ps))
	for i, p := range ps {
		parts[i] = fmt.Sprintf("%d:%d:%d:%s:%s", p.sid, p.mid, p.kind, corr.B01(p.ctl), spec(p.data))
	}
	return strings.Join(parts, ";")
}

func oldPktsStr(ps []pk) string {
	if len(ps) == 0 {
		return "-"
	}
	parts := make([]string, len(ps))
	for i, p := range ps {
		parts[i] = fmt.Sprintf("%d:%d:%d:%s", p.sid, p.mid, p.kind, spec(p.data))
	}
	return strings.Join(parts, ";")
}

// the frames SplitN of the working tree produces (via the real SplitN)
func newFrames(ps []pk, n int) []drpcwire.Frame {
	var frs []drpcwire.Frame
	for _, p := range ps {
		_ = drpcwire.SplitN(drpcwire.Packet{Data: p.data, ID: drpcwire.ID{Stream: p.sid, Message: p.mid}, Kind: drpcwire.Kind(p.kind), Control: p.ctl}, n,
			func(fr drpcwire.Frame) error { frs = append(frs, fr); return nil })
	}
	return frs
}

// bytes the working tree's Writer puts on the wire for the packets
func newEmit(ps []pk, n int, wsize int, usePacket bool) []byte {
	var buf bytes.Buffer
	wr := drpcwire.NewWriter(&buf, wsize)
	for _, p := range ps {
		pkt := drpcwire.Packet{Data: p.data, ID: drpcwire.ID{Stream: p.sid, Message: p.mid}, Kind: drpcwire.Kind(p.kind), Control: p.ctl}
		if usePacket && n < 0 {
			_ = wr.WritePacket(pkt)
		} else {
			_ = drpcwire.SplitN(pkt, n, wr.WriteFrame)
		}
	}
	_ = wr.Flush()
	return buf.Bytes()
}

func parseFrames(stream []byte) []drpcwire.Frame {
	var frs []drpcwire.Frame
	for len(stream) > 0 {
		rem, fr, ok, err := drpcwire.ParseFrame(stream)
		if !ok || err != nil {
			break
		}
		frs = append(frs, fr)
		stream = rem
	}
	return frs
}

func (g gen) chunkings(stream []byte, frs []drpcwire.Frame, few bool) map[string][]int {
	r := g.o.Rand
	cs := map[string][]int{"all": nil}
	if len(stream) <= 600 {
		ones := make([]int, len(stream))
		for i := range ones {
			ones[i] = 1
		}
		cs["one"] = ones
	}
	var rnd []int
	top := 1 + r.Intn(300)
	if len(stream) > 20000 {
		top = 4000 + r.Intn(16000)
	}
	for rem := len(stream); rem > 0; {
		n := 1 + r.Intn(1+r.Intn(top))
		rnd = append(rnd, n)
		rem -= n
	}
	cs["random"] = rnd
	if few {
		return cs
	}
	if len(stream) <= 20000 {
		sev := make([]int, len(stream)/7+1)
		for i := range sev {
			sev[i] = 7
		}
		cs["seven"] = sev
	}
	if len(frs) > 0 && len(frs) < 3000 {
		var al, st []int
		for _, fr := range frs {
			l := len(drpcwire.AppendFrame(nil, fr))
			al = append(al, l)
			a := 1 + r.Intn(3)
			if a >= l {
				a = l - 1
			}
			for _, x := range []int{a, l - a - 1, 1} {
				if x > 0 {
					st = append(st, x)
				}
			}
		}
		cs["aligned"] = al
		cs["straddle"] = st
	}
	// reads the size of the scanner's buffers (shift / grow boundaries of bufio.Scanner)
	if len(stream) > 3000 {
		var bs []int
		for rem := len(stream); rem > 0; {
			n := []int{4096, 4095, 2048, 2049, 8192, 4097}[r.Intn(6)]
			bs = append(bs, n)
			rem -= n
		}
		cs["bufsized"] = bs
	}
	return cs
}

// ---------------------------------------------------------------- the central check

type checker struct {
	g gen
}

// read runs one byte stream under one chunking through the old binary and the new reader, emits
// the correspondence case and returns both results.
func (c checker) read(stream []byte, streamSpec string, max int, sizes []int, final int, nontrivial bool) (oldStr string, nw readRes) {
	o := c.g.o
	if streamSpec == "" {
		streamSpec = spec(stream)
	}
	oldStr = c.g.old.ask(fmt.Sprintf("read final=%d attached=0 chunks=%s stream=%s", final, sizesStr(sizes), streamSpec))
	nw = newRead(stream, max, sizes, final, false)
	req := fmt.Sprintf("c18.read max=%d final=%d chunks=%s stream=%s", max, final, sizesStr(sizes), streamSpec)
	o.Case(req, "OLD "+oldStr+" NEW "+nw.newStr(), nontrivial)
	return oldStr, nw
}

// checkStream: all chunkings of a stream; `frs` (if known) decides whether the compatibility
// oracle applies (WellFormed and within the limits of both readers).
func (c checker) checkStream(stream []byte, streamSpec string, frs []drpcwire.Frame, max int, class string, few bool) (firstOld string, firstNew readRes) {
	o := c.g.o
	final := 0
	if o.Rand.Intn(3) == 0 {
		final = 1 + o.Rand.Intn(3)
	}
	cs := c.g.chunkings(stream, frs, few)
	names := make([]string, 0, len(cs))
	for k := range cs {
		names = append(names, k)
	}
	sort.Strings(names)
	complete := len(frs) > 0 && bytes.Equal(enc(frs), stream)
	applies := complete && wellFormed(frs) && framesWithin(frs, oldMaxTok) && packetsWithin(frs, oldMaxPacket) && packetsWithin(frs, effMax(max))
	for i, name := range names {
		sizes := cs[name]
		oldStr, nw := c.read(stream, streamSpec, max, sizes, final, len(frs) >= 2 && (len(sizes) >= 2 || name == "all"))
		o.Stat("read:" + class + ":old=" + errOf(oldStr) + ":new=" + nw.err)
		if i == 0 {
			firstOld, firstNew = oldStr, nw
		} else {
			// both readers are functions of the byte stream only
			if oldStr != firstOld {
				o.Oracle("old-chunk-independence", fmt.Sprintf("final=%d stream=%s", final, clip(streamSpec, stream)), fmt.Sprintf("%s: %s ||| %s: %s", names[0], clipS(firstOld), name, clipS(oldStr)))
			} else {
				o.OracleOK("old-chunk-independence")
			}
			if nw.newStr() != firstNew.newStr() {
				o.Oracle("new-chunk-independence", fmt.Sprintf("final=%d stream=%s", final, clip(streamSpec, stream)), fmt.Sprintf("%s: %s ||| %s: %s", names[0], clipS(firstNew.newStr()), name, clipS(nw.newStr())))
			} else {
				o.OracleOK("new-chunk-independence")
			}
		}
		if applies {
			if want := nw.minusControlStr(); oldStr != want {
				o.Oracle("old-reads-new", fmt.Sprintf("class=%s max=%d final=%d chunks=%s stream=%s", class, max, final, name, clip(streamSpec, stream)),
					fmt.Sprintf("v0.0.17: %s ||| current minus control: %s", clipS(oldStr), clipS(want)))
			} else {
				o.OracleOK("old-reads-new")
			}
		}
	}
	// the placement of the transport's final error (with the last bytes / on its own) is invisible —
	// for io.EOF always, for other errors whenever the stream is a sequence of complete frames
	// (a scanner-level "truncated frame"/"varint too long" loses against an earlier read error)
	if final == 0 || complete {
		sizes := cs["random"]
		o1 := c.g.old.ask(fmt.Sprintf("read final=%d attached=1 chunks=%s stream=%s", final, sizesStr(sizes), orSpec(streamSpec, stream)))
		if o1 != firstOld {
			o.Oracle("old-attached-error-invisible", fmt.Sprintf("final=%d stream=%s", final, clip(streamSpec, stream)), clipS(o1)+" vs "+clipS(firstOld))
		} else {
			o.OracleOK("old-attached-error-invisible")
		}
	}
	return firstOld, firstNew
}

func orSpec(s string, stream []byte) string {
	if s != "" {
		return s
	}
	return spec(stream)
}

func errOf(s string) string {
	i := strings.LastIndex(s, "E[")
	if i < 0 {
		return "?"
	}
	return strings.TrimSuffix(s[i+2:], "]")
}

func enc(frs []drpcwire.Frame) []byte {
	var b []byte
	for _, fr := range frs {
		b = drpcwire.AppendFrame(b, fr)
	}
	return b
}

func clip(specStr string, stream []byte) string {
	s := orSpec(specStr, stream)
	return clipS(s)
}

func clipS(s string) string {
	if len(s) > 400 {
		return s[:200] + "…" + s[len(s)-190:]
	}
	return s
}

// ---------------------------------------------------------------- stream layer scripts

type op struct {
	typ  byte // W E K C S X F
	kind uint8
	code uint64
	data []byte
}

type streamScript struct {
	sid uint64
	ops []op
}

func (s streamScript) str() string {
	if len(s.ops) == 0 {
		return fmt.Sprintf("%d@-", s.sid)
	}
	parts := make([]string, len(s.ops))
	for i, o := range s.ops {
		switch o.typ {
		case 'W':
			parts[i] = fmt.Sprintf("W%d:%s", o.kind, spec(o.data))
		case 'E':
			parts[i] = fmt.Sprintf("E:%d:%s", o.code, spec(o.data))
		default:
			parts[i] = string(o.typ)
		}
	}
	return fmt.Sprintf("%d@%s", s.sid, strings.Join(parts, ";"))
}

func connStr(conn []streamScript) string {
	if len(conn) == 0 {
		return "-"
	}
	parts := make([]string, len(conn))
	for i, s := range conn {
		parts[i] = s.str()
	}
	return strings.Join(parts, "|")
}

func (g gen) conn(old bool, split int) []streamScript {
	r := g.o.Rand
	var conn []streamScript
	sid := uint64(1)
	if r.Intn(5) == 0 {
		sid = 1 + g.u64()%(1<<62)
	}
	m := effSplit(split, old)
	for i, n := 0, 1+r.Intn(4); i < n; i++ {
		s := streamScript{sid: sid}
		nops := r.Intn(8)
		for j := 0; j < nops; j++ {
			switch k := r.Intn(20); {
			case k < 9:
				kinds := []uint8{2, 2, 2, 1, 7}
				s.ops = append(s.ops, op{typ: 'W', kind: kinds[r.Intn(len(kinds))], data: g.payload(g.payloadSize(m))})
			case k < 11:
				s.ops = append(s.ops, op{typ: 'F'})
			case k < 13:
				s.ops = append(s.ops, op{typ: 'S'})
			case k < 15:
				s.ops = append(s.ops, op{typ: 'C'})
			case k < 16:
				s.ops = append(s.ops, op{typ: 'E', code: g.u64(), data: g.payload(r.Intn(20))})
			case k < 17:
				s.ops = append(s.ops, op{typ: 'X'})
			default:
				if old {
					s.ops = append(s.ops, op{typ: 'C'})
				} else {
					s.ops = append(s.ops, op{typ: 'K'}) // soft cancel at every position
				}
			}
		}
		conn = append(conn, s)
		d := uint64(1)
		if r.Intn(4) == 0 {
			d = 1 + g.u64()%(1<<61)
		}
		sid += d
	}
	return conn
}

func runNewConn(conn []streamScript, split int) (out []byte, perr string) {
	defer func() {
		if r := recover(); r != nil {
			perr = fmt.Sprint("panic: ", r)
		}
	}()
	var buf bytes.Buffer
	wr := drpcwire.NewWriter(&buf, 1)
	ctx := context.Background()
	for _, s := range conn {
		st := drpcstream.NewWithOptions(ctx, s.sid, wr, drpcstream.Options{SplitSize: split})
		for _, o := range s.ops {
			switch o.typ {
			case 'W':
				_ = st.RawWrite(drpcwire.Kind(o.kind), o.data)
			case 'F':
				_ = st.RawFlush()
			case 'E':
				_ = st.SendError(drpcerr.WithCode(errors.New(string(o.data)), o.code))
			case 'K':
				_, _ = st.SendCancel(context.Canceled)
			case 'C':
				_ = st.Close()
			case 'S':
				_ = st.CloseSend()
			case 'X':
				st.Cancel(context.Canceled)
			}
		}
	}
	_ = wr.Flush()
	return buf.Bytes(), ""
}

func (g gen) runOldConn(conn []streamScript, split int) []byte {
	var out []byte
	for _, s := range conn {
		str := s.str()
		ops := str[strings.IndexByte(str, '@')+1:]
		h := g.old.ask(fmt.Sprintf("stream sid=%d split=%d wsize=1 ops=%s", s.sid, split, ops))
		if h != "-" {
			b, err := hex.DecodeString(h)
			if err != nil {
				panic("oldwire stream: " + h)
			}
			out = append(out, b...)
		}
	}
	return out
}

// ---------------------------------------------------------------- HandlePacket on a real Stream

func sigClass(err error) string {
	switch {
	case err == nil:
		return "-"
	case errors.Is(err, io.EOF):
		return "eof"
	case errors.Is(err, context.Canceled):
		return "canceled"
	case drpc.ProtocolError.Has(err):
		return "protocol"
	case drpc.InternalError.Has(err):
		return "internal"
	case drpc.ClosedError.Has(err):
		return "closed"
	case drpc.Error.Has(err):
		return "error"
	}
	return "remote"
}

func retClass(err error) string {
	switch {
	case err == nil:
		return "nil"
	case drpc.ProtocolError.Has(err):
		return "protocol"
	case drpc.InternalError.Has(err):
		return "internal"
	}
	return "other"
}

type handleRes struct {
	steps     []string // "ret,term" per packet
	send      string
	recv      string
	delivered [][]byte
	hang      bool
}

func (h handleRes) str() string {
	d := make([]string, len(h.delivered))
	for i, b := range h.delivered {
		d[i] = showData(b)
	}
	return fmt.Sprintf("%s | send=%s recv=%s D[%s]", strings.Join(h.steps, " "), h.send, h.recv, strings.Join(d, ","))
}

type recvRes struct {
	data []byte
	err  error
}

// feed a message to the stream with a receiver waiting for it (HandlePacket parks in pbuf.Put until
// the message is taken); returns what the receiver got
func deliver(st *drpcstream.Stream, pkt drpcwire.Packet) (ret error, got recvRes, hang bool) {
	ch := make(chan recvRes, 1)
	go func() {
		d, err := st.RawRecv()
		ch <- recvRes{append([]byte(nil), d...), err}
	}()
	done := make(chan error, 1)
	go func() { done <- st.HandlePacket(pkt) }()
	select {
	case ret = <-done:
	case <-time.After(5 * time.Second):
		return nil, recvRes{}, true
	}
	select {
	case got = <-ch:
	case <-time.After(5 * time.Second):
		return ret, recvRes{}, true
	}
	return ret, got, false
}

func runHandle(sid uint64, pkts []pk) (res handleRes) {
	var buf bytes.Buffer
	wr := drpcwire.NewWriter(&buf, 1)
	st := drpcstream.New(context.Background(), sid, wr)
	for _, p := range pkts {
		pkt := drpcwire.Packet{Data: p.data, ID: drpcwire.ID{Stream: p.sid, Message: p.mid}, Kind: drpcwire.Kind(p.kind), Control: p.ctl}
		var err error
		if p.kind == 2 && p.sid == sid {
			var got recvRes
			var hang bool
			err, got, hang = deliver(st, pkt)
			if hang {
				res.hang = true
				return res
			}
			if got.err == nil {
				res.delivered = append(res.delivered, got.data)
			}
		} else {
			err = st.HandlePacket(pkt)
		}
		res.steps = append(res.steps, retClass(err)+","+corr.B01(st.IsTerminated()))
	}
	// probes: is the receive side still open (a message gets through), what does a send return
	_, got, hang := deliver(st, drpcwire.Packet{Data: []byte("probe"), ID: drpcwire.ID{Stream: sid, Message: 1 << 40}, Kind: drpcwire.KindMessage})
	if hang {
		res.hang = true
		return res
	}
	res.recv = sigClass(got.err)
	res.send = sigClass(st.RawWrite(drpcwire.KindMessage, nil))
	st.Cancel(context.Canceled)
	return res
}

func knownKind(k uint8) bool { return k >= 1 && k <= 6 }

// ---------------------------------------------------------------- Run

func Run(o *corr.Out) {
	old, err := startOld()
	if err != nil {
		panic("compat: cannot start the v0.0.17 binary: " + err.Error())
	}
	defer old.close()
	g := gen{o, old}
	c := checker{g}
	r := o.Rand
	scale := 1
	if o.Thorough {
		scale = 25
	}

	// ---- 1. every first byte (kind x done x control) through both readers, alone and after a data frame
	for b := 0; b < 256; b++ {
		fr := []byte{byte(b), 1, 1, 1, 0x5a}
		stream := append([]byte(nil), fr...)
		oldStr, nw := c.read(stream, "", 0, nil, 0, true)
		o.Stat("ctlbyte:old=" + errOf(oldStr))
		frs := parseFrames(stream)
		if len(frs) == 1 && wellFormed(frs) {
			if want := nw.minusControlStr(); want != oldStr {
				o.Oracle("old-reads-new", fmt.Sprintf("class=ctlbyte stream=%s", spec(stream)), oldStr+" ||| "+want)
			} else {
				o.OracleOK("old-reads-new")
			}
		}
		// bit 7 changes nothing but Control: the same byte without it parses to the same frame
		_, f1, ok1, e1 := drpcwire.ParseFrame(stream)
		s2 := append([]byte{byte(b) & 0x7f}, stream[1:]...)
		_, f2, ok2, e2 := drpcwire.ParseFrame(s2)
		f1c := f1
		f1c.Control = false
		if ok1 != ok2 || (e1 == nil) != (e2 == nil) || f1c.Kind != f2.Kind || f1c.Done != f2.Done || f1c.ID != f2.ID || !bytes.Equal(f1c.Data, f2.Data) || f2.Control || f1.Control != (b >= 128) {
			o.Oracle("control-bit-is-bit7", fmt.Sprintf("byte=%#x", b), fmt.Sprintf("%+v vs %+v", f1, f2))
		} else {
			o.OracleOK("control-bit-is-bit7")
		}
		// preceded by an unfinished data packet of a lower id
		pre := drpcwire.AppendFrame(nil, drpcwire.Frame{Data: []byte("ab"), ID: drpcwire.ID{Stream: 1, Message: 1}, Kind: 2})
		fr2 := []byte{byte(b), 1, 2, 1, 0x5a}
		c.read(append(pre, fr2...), "", 0, []int{3, 2, 100}, 0, true)
	}

	// ---- 2. what the CURRENT writer emits, read by both
	for i := 0; i < 60*scale; i++ {
		n := splitSizes[r.Intn(len(splitSizes))]
		m := effSplit(n, false)
		ps := g.packets(1+r.Intn(7), m, 30, false)
		wsize := []int{0, 1, 100, 70000}[r.Intn(4)]
		stream := newEmit(ps, n, wsize, r.Intn(2) == 0)
		o.Case(fmt.Sprintf("c18.emit ver=new n=%d pkts=%s", n, pktsStr(ps)), showData(stream), len(ps) >= 2)
		frs := newFrames(ps, n)
		if !bytes.Equal(enc(frs), stream) {
			o.Oracle("writer-emits-split-frames", fmt.Sprintf("n=%d wsize=%d pkts=%s", n, wsize, clipS(pktsStr(ps))), "Writer output differs from the concatenated SplitN frames")
		} else {
			o.OracleOK("writer-emits-split-frames")
		}
		if !wellFormed(frs) {
			o.Oracle("new-emits-wellformed", fmt.Sprintf("n=%d pkts=%s", n, clipS(pktsStr(ps))), "not WellFormed")
		} else {
			o.OracleOK("new-emits-wellformed")
		}
		max := []int{0, 0, 0, 100000, 1000}[r.Intn(5)]
		_, nw := c.checkStream(stream, "", frs, max, "newemit", false)
		// round trip: within its limits the current reader returns exactly what was sent
		if packetsWithin(frs, effMax(max)) {
			want := readRes{pkts: ps, err: nw.err}
			if nw.err == "protocol" || nw.newStr() != want.newStr() {
				o.Oracle("new-roundtrip", fmt.Sprintf("n=%d max=%d pkts=%s", n, max, clipS(pktsStr(ps))), clipS(nw.newStr()))
			} else {
				o.OracleOK("new-roundtrip")
			}
		}
	}

	// ---- 2b. interrupted emissions: a multi-frame packet whose send stopped after some of its frames
	// (the stream layer checks for termination between the frames of a message; a raw Writer user can stop
	// anywhere), followed by what the connection sends next — packets with higher ids. Still a
	// well-formed sequence; the unfinished packet, control or not, must leave no trace on what follows.
	for i := 0; i < 150*scale; i++ {
		n := []int{1, 7, 1024}[r.Intn(3)]
		ps := g.packets(2+r.Intn(6), n, 50, false)
		var frs []drpcwire.Frame
		cut := 0
		for j, p := range ps {
			pf := newFrames([]pk{p}, n)
			if len(pf) >= 2 && j < len(ps)-1 && r.Intn(2) == 0 {
				pf = pf[:1+r.Intn(len(pf)-1)]
				cut++
			}
			frs = append(frs, pf...)
		}
		if cut == 0 {
			continue
		}
		stream := enc(frs)
		if !wellFormed(frs) {
			o.Oracle("new-emits-wellformed", fmt.Sprintf("interrupted n=%d pkts=%s", n, clipS(pktsStr(ps))), "not WellFormed")
			continue
		}
		max := []int{0, 0, 100000}[r.Intn(3)]
		c.checkStream(stream, "", frs, max, "newemit-cut", false)
		o.Stat(fmt.Sprintf("interrupted-emission:cut=%d", cut))
	}

	// Writer.WritePacket (one done frame, no splitting) keeps every field, the control bit included
	for _, kind := range []uint8{0, 1, 4, 9, 63} {
		for _, ctl := range []bool{false, true} {
			ps := []pk{{sid: 1, mid: 1, kind: 2, data: []byte("x")}, {sid: 1, mid: 2, kind: kind, ctl: ctl, data: g.payload(r.Intn(300))}, {sid: 2, mid: 1, kind: 5}}
			stream := newEmit(ps, -1, 1, true)
			o.Case(fmt.Sprintf("c18.emit ver=new n=-1 pkts=%s", pktsStr(ps)), showData(stream), true)
			oldStr, nw := c.read(stream, "", 0, nil, 0, true)
			want := readRes{pkts: ps, err: "transport:0"}
			if nw.newStr() != want.newStr() || oldStr != want.minusControlStr() {
				o.Oracle("new-roundtrip", fmt.Sprintf("WritePacket kind=%d ctl=%v", kind, ctl), clipS(nw.newStr())+" ||| v0.0.17: "+clipS(oldStr))
			} else {
				o.OracleOK("new-roundtrip")
			}
		}
	}

	// ---- 3. a soft-cancel control packet at every position of a sequence (and unknown control kinds)
	for i := 0; i < 8*scale; i++ {
		n := splitSizes[r.Intn(len(splitSizes))]
		base := g.packets(2+r.Intn(4), effSplit(n, false), 0, true)
		for pos := 0; pos <= len(base); pos++ {
			for _, kind := range []uint8{4, uint8(8 + r.Intn(56))} {
				// renumber so that ids stay strictly increasing
				var ps []pk
				ps = append(ps, base[:pos]...)
				ctl := pk{kind: kind, ctl: true}
				if kind != 4 {
					ctl.data = g.payload(r.Intn(2000))
				}
				ps = append(ps, ctl)
				ps = append(ps, base[pos:]...)
				for j := range ps {
					ps[j].sid, ps[j].mid = 1+uint64(j/3), 1+uint64(j%3)
				}
				stream := newEmit(ps, n, 1, false)
				frs := newFrames(ps, n)
				oldStr, nw := c.checkStream(stream, "", frs, 0, "ctl-at-every-position", true)
				// the old endpoint sees exactly the base sequence
				var want []pk
				for _, p := range ps {
					if !p.ctl {
						want = append(want, p)
					}
				}
				if oldStr != oldStrOf(want, nw.err) || !strings.HasPrefix(nw.err, "transport:") {
					o.Oracle("old-reads-new", fmt.Sprintf("class=ctl-at-%d kind=%d n=%d pkts=%s", pos, kind, n, clipS(pktsStr(ps))), clipS(oldStr))
				} else {
					o.OracleOK("old-reads-new")
				}
			}
		}
	}

	// ---- 4. what the v0.0.17 writer emits, read by both
	for i := 0; i < 50*scale; i++ {
		n := splitSizes[r.Intn(len(splitSizes))]
		m := effSplit(n, true)
		ps := g.packets(1+r.Intn(7), m, 0, r.Intn(4) != 0)
		wsize := []int{0, 1, 100}[r.Intn(3)]
		h := old.ask(fmt.Sprintf("emit n=%d wsize=%d pkts=%s", n, wsize, oldPktsStr(ps)))
		var stream []byte
		if h != "-" {
			var err error
			if stream, err = hex.DecodeString(h); err != nil {
				panic("oldwire emit: " + clipS(h))
			}
		}
		o.Case(fmt.Sprintf("c18.emit ver=old n=%d pkts=%s", n, pktsStr(ps)), showData(stream), len(ps) >= 2)
		for _, p := range ps[:1] {
			ans := old.ask(fmt.Sprintf("split n=%d sid=%d mid=%d kind=%d data=%s", n, p.sid, p.mid, p.kind, spec(p.data)))
			o.Case(fmt.Sprintf("c18.oldsplit n=%d sid=%d mid=%d kind=%d data=%s", n, p.sid, p.mid, p.kind, spec(p.data)), ans, strings.Count(ans, "[") >= 2)
		}
		frs := parseFrames(stream)
		ok := bytes.Equal(enc(frs), stream) && wellFormed(frs)
		for _, fr := range frs {
			if fr.Control {
				ok = false
			}
		}
		if !ok {
			o.Oracle("old-emits-wellformed", fmt.Sprintf("n=%d pkts=%s", n, clipS(oldPktsStr(ps))), "not WellFormed / control bit set / unparsable")
		} else {
			o.OracleOK("old-emits-wellformed")
		}
		oldStr, nw := c.checkStream(stream, "", frs, 0, "oldemit", false)
		// new(oldEmission) == old(oldEmission) == what was sent
		want := oldStrOf(ps, "transport:0")
		if framesWithin(frs, oldMaxTok) && packetsWithin(frs, oldMaxPacket) {
			strip := func(s string) string { i := strings.LastIndex(s, "E["); return s[:i] }
			if strip(oldStr) != strip(want) || strip(nw.minusControlStr()) != strip(want) || len(nw.pkts) != len(ps) {
				o.Oracle("new-reads-old", fmt.Sprintf("n=%d pkts=%s", n, clipS(oldPktsStr(ps))), fmt.Sprintf("old: %s ||| new: %s", clipS(oldStr), clipS(nw.newStr())))
			} else {
				o.OracleOK("new-reads-old")
			}
		}
	}

	// ---- 5. the stream layers: API call scripts on consecutive streams of a connection
	for i := 0; i < 60*scale; i++ {
		split := splitSizes[r.Intn(len(splitSizes))]
		// current stream layer (with soft cancels)
		conn := g.conn(false, split)
		stream, perr := runNewConn(conn, split)
		if perr != "" {
			o.Oracle("no-crash-no-hang", connStr(conn), perr)
			continue
		}
		nops := 0
		for _, s := range conn {
			nops += len(s.ops)
		}
		o.Case(fmt.Sprintf("c18.stream ver=new split=%d conn=%s", split, connStr(conn)), showData(stream), nops >= 2)
		frs := parseFrames(stream)
		if !bytes.Equal(enc(frs), stream) || !wellFormed(frs) {
			o.Oracle("new-emits-wellformed", fmt.Sprintf("split=%d conn=%s", split, clipS(connStr(conn))), "stream layer emission not WellFormed")
		} else {
			o.OracleOK("new-emits-wellformed")
		}
		oldStr, nwS := c.checkStream(stream, "", frs, 0, "newstream", true)
		c.oldEndpointUndisturbed(oldStr, connStr(conn))
		// the only thing the stream layer hides from a v0.0.17 peer is the soft cancel
		nK, bad := 0, ""
		for _, s := range conn {
			for _, o := range s.ops {
				if o.typ == 'K' {
					nK++
				}
			}
		}
		nCtl := 0
		for _, p := range nwS.pkts {
			if p.ctl {
				nCtl++
				if p.kind != 4 || len(p.data) != 0 {
					bad = fmt.Sprintf("control packet of kind %d with %d payload bytes", p.kind, len(p.data))
				}
			}
		}
		if nCtl > nK {
			bad = fmt.Sprintf("%d control packets for %d SendCancel calls", nCtl, nK)
		}
		if bad != "" {
			o.Oracle("only-soft-cancel-is-hidden", fmt.Sprintf("split=%d conn=%s", split, clipS(connStr(conn))), bad)
		} else {
			o.OracleOK("only-soft-cancel-is-hidden")
		}

		// v0.0.17 stream layer
		oconn := g.conn(true, split)
		ostream := g.runOldConn(oconn, split)
		nops = 0
		for _, s := range oconn {
			nops += len(s.ops)
		}
		o.Case(fmt.Sprintf("c18.stream ver=old split=%d conn=%s", split, connStr(oconn)), showData(ostream), nops >= 2)
		ofrs := parseFrames(ostream)
		if !bytes.Equal(enc(ofrs), ostream) || !wellFormed(ofrs) {
			o.Oracle("old-emits-wellformed", fmt.Sprintf("split=%d conn=%s", split, clipS(connStr(oconn))), "stream layer emission not WellFormed")
		} else {
			o.OracleOK("old-emits-wellformed")
		}
		oldStr2, nw2 := c.checkStream(ostream, "", ofrs, 0, "oldstream", true)
		if framesWithin(ofrs, oldMaxTok) && packetsWithin(ofrs, oldMaxPacket) {
			if nw2.minusControlStr() != oldStr2 || anyControl(nw2.pkts) {
				o.Oracle("new-reads-old", fmt.Sprintf("split=%d conn=%s", split, clipS(connStr(oconn))), fmt.Sprintf("old: %s ||| new: %s", clipS(oldStr2), clipS(nw2.newStr())))
			} else {
				o.OracleOK("new-reads-old")
			}
		}
	}

	// ---- 6. unusual and malformed sequences (outside WellFormed): both models against both readers
	for i := 0; i < 120*scale; i++ {
		n := splitSizes[r.Intn(len(splitSizes))]
		ps := g.packets(1+r.Intn(6), effSplit(n, false), 25, false)
		frs := newFrames(ps, n)
		class := "valid"
		for k := 1 + r.Intn(2); k > 0; k-- {
			frs, class = g.mutate(frs)
		}
		stream := enc(frs)
		switch r.Intn(6) {
		case 0:
			if len(stream) > 0 {
				stream = stream[:r.Intn(len(stream))]
				class += "+trunc"
			}
		case 1:
			stream = append(stream, g.payload(r.Intn(12))...)
			class += "+tail"
		case 2:
			// an over-long varint somewhere in a header
			hdr := []byte{0x05, 0x81, 0x80, 0x80, 0x80, 0x80, 0x80, 0x80, 0x80, 0x80, 0x80, 0x01, 0x01, 0x00}
			stream = append(stream, hdr...)
			class += "+longvarint"
		}
		c.checkStream(stream, "", frs, []int{0, 0, 1000}[r.Intn(3)], class, r.Intn(2) == 0)
	}

	// ---- 7. many medium frames: the scanner's shift / grow decisions (streams well above 4 KiB)
	for i := 0; i < 6*scale; i++ {
		var ps []pk
		ig := &idGen{g: g}
		for j, n := 0, 8+r.Intn(30); j < n; j++ {
			sid, mid, ok := ig.next()
			if !ok {
				break
			}
			ps = append(ps, pk{sid: sid, mid: mid, kind: 2, ctl: r.Intn(6) == 0, data: g.payload(r.Intn(6000))})
		}
		n := []int{1024, 4090, 4096, 65536, -1}[r.Intn(5)]
		stream := newEmit(ps, n, 0, false)
		c.checkStream(stream, "", newFrames(ps, n), 0, "scanner-geometry", false)
	}

	// ---- 8. the limits of the hypothesis: frames at 1 MiB +-1, packets at 4 MiB +-1 (few, big)
	c.limits()

	// ---- 9. metadata
	c.metadata(40 * scale)

	// ---- 10. real Stream objects fed known / unknown, control / non-control packets
	c.handle(20 * scale)
}

func anyControl(ps []pk) bool {
	for _, p := range ps {
		if p.ctl {
			return true
		}
	}
	return false
}

// mutate: unusual / malformed variations (outside what a writer produces)
func (g gen) mutate(frs []drpcwire.Frame) ([]drpcwire.Frame, string) {
	r := g.o.Rand
	if len(frs) == 0 {
		return frs, "empty"
	}
	i := r.Intn(len(frs))
	out := append([]drpcwire.Frame(nil), frs...)
	switch r.Intn(12) {
	case 0:
		out[i].ID.Message = 0
		return out, "mid0"
	case 1:
		out = append(out[:i+1], append([]drpcwire.Frame{out[i]}, out[i+1:]...)...)
		return out, "dup"
	case 2:
		out[i].Kind ^= 1
		return out, "kindflip"
	case 3:
		out[i].Control = !out[i].Control
		return out, "ctlflip"
	case 4:
		out[i].Done = false
		return out, "undone"
	case 5:
		out[i].ID = drpcwire.ID{}
		return out, "id00"
	case 6:
		out[i].ID.Stream = 0
		return out, "sid0"
	case 7:
		out[i].Kind = 0
		return out, "kind0"
	case 8:
		j := r.Intn(len(out))
		out[i], out[j] = out[j], out[i]
		return out, "swap"
	case 9:
		// a control frame with a HIGHER id in the middle, then lower ids again (old skips, new rejects)
		c := drpcwire.Frame{ID: drpcwire.ID{Stream: out[i].ID.Stream + 5, Message: 1}, Kind: 4, Control: true, Done: true}
		out = append(out[:i+1], append([]drpcwire.Frame{c}, out[i+1:]...)...)
		return out, "ctl-high-id"
	case 10:
		// done frame repeated with kind 0 (v0.0.17 quirk: packet with id (0,0))
		c := out[i]
		c.Kind, c.Done, c.Control = 0, true, false
		out = append(out[:i+1], append([]drpcwire.Frame{c}, out[i+1:]...)...)
		return out, "reuse-kind0"
	default:
		for j := i; j < len(out); j++ {
			out[j].ID.Stream |= 1 << 63
		}
		return out, "hugeids"
	}
}

// every packet the v0.0.17 reader hands to its endpoint has a kind that endpoint knows, and the
// v0.0.17 Stream.HandlePacket accepts the stream-level ones without error
func (c checker) oldEndpointUndisturbed(oldStr string, input string) {
	o := c.g.o
	bySid := map[string][]string{}
	var order []string
	for _, tok := range strings.Fields(oldStr) {
		if !strings.HasPrefix(tok, "P[") {
			continue
		}
		f := strings.Split(strings.TrimSuffix(strings.TrimPrefix(tok, "P["), "]"), ",")
		kind, _ := strconv.Atoi(f[2])
		switch kind {
		case 1, 2, 3, 5, 6, 7:
		default:
			o.Oracle("old-endpoint-undisturbed", clipS(input), fmt.Sprintf("v0.0.17 reader delivers a packet of kind %d (unknown to v0.0.17: InternalError, connection torn down)", kind))
			return
		}
		if kind == 1 || kind == 7 || strings.HasPrefix(f[3], "#") {
			continue // handled by the manager, not the stream / payload elided
		}
		if _, ok := bySid[f[0]]; !ok {
			order = append(order, f[0])
		}
		bySid[f[0]] = append(bySid[f[0]], fmt.Sprintf("%s:%s:%s:%s", f[0], f[1], f[2], f[3]))
	}
	for _, sid := range order {
		ans := c.g.old.ask(fmt.Sprintf("handle sid=%s pkts=%s", sid, strings.Join(bySid[sid], ";")))
		if strings.Contains(ans, "internal") || strings.Contains(ans, "protocol") || strings.Contains(ans, "panic") {
			o.Oracle("old-endpoint-undisturbed", clipS(input), "v0.0.17 Stream.HandlePacket: "+clipS(ans))
			return
		}
	}
	o.OracleOK("old-endpoint-undisturbed")
}

func (c checker) limits() {
	o := c.g.o
	hdr := func(ctl byte, sid, mid uint64, n int) []byte {
		b := []byte{ctl}
		b = drpcwire.AppendVarint(b, sid)
		b = drpcwire.AppendVarint(b, mid)
		return drpcwire.AppendVarint(b, uint64(n))
	}
	type part struct {
		hdr  []byte
		n    int
		fill byte
	}
	build := func(parts []part) ([]byte, string) {
		var b []byte
		var ss []string
		for _, p := range parts {
			b = append(b, p.hdr...)
			b = append(b, bytes.Repeat([]byte{p.fill}, p.n)...)
			ss = append(ss, hex.EncodeToString(p.hdr))
			if p.n > 0 {
				ss = append(ss, fmt.Sprintf("%dx%02x", p.n, p.fill))
			}
		}
		return b, strings.Join(ss, ",")
	}
	tail := part{hdr: hdr(0x0b, 2, 1, 0)} // a close packet of the next stream after the big one
	// one frame whose encoding is 1 MiB - 1, 1 MiB, 1 MiB + 1 bytes (header 6 bytes)
	for _, total := range []int{oldMaxTok - 1, oldMaxTok, oldMaxTok + 1} {
		for _, ctl := range []byte{0x05, 0x85} {
			n := total - 6
			stream, sp := build([]part{{hdr(ctl, 1, 1, n), n, 0x61}, tail})
			for i, sizes := range [][]int{nil, {70000, 1 << 30}} {
				if i > 0 && ctl != 0x05 {
					continue
				}
				oldStr, nw := c.read(stream, sp, 0, sizes, 0, true)
				o.Stat(fmt.Sprintf("limit:frame=%d:old=%s:new=%s", total, errOf(oldStr), nw.err))
				within := total <= oldMaxTok
				if within && oldStr != nw.minusControlStr() {
					o.Oracle("old-reads-new", fmt.Sprintf("class=frame-limit total=%d ctl=%#x", total, ctl), clipS(oldStr)+" ||| "+clipS(nw.minusControlStr()))
				} else if !within && errOf(oldStr) != "toolong" {
					// documented boundary of the hypothesis: one byte more and v0.0.17 gives up
					o.Oracle("old-token-limit", fmt.Sprintf("total=%d ctl=%#x", total, ctl), clipS(oldStr))
				} else {
					o.OracleOK("old-reads-new")
				}
			}
		}
	}
	// the DEFAULT split size of the current stream layer keeps every frame of a large message (3 MiB)
	// within the v0.0.17 token limit
	{
		msg := bytes.Repeat([]byte{0x63}, 3<<20)
		conn := []streamScript{{sid: 1, ops: []op{{typ: 'W', kind: 2, data: msg}, {typ: 'C'}}}}
		stream, perr := runNewConn(conn, 0)
		if perr != "" {
			o.Oracle("no-crash-no-hang", "3 MiB message, default split", perr)
		} else {
			o.Case("c18.stream ver=new split=0 conn="+connStr(conn), showData(stream), true)
			frs := parseFrames(stream)
			// compact request line: header bytes in hex, payload as a run
			var ss []string
			for _, fr := range frs {
				e := drpcwire.AppendFrame(nil, fr)
				ss = append(ss, hex.EncodeToString(e[:len(e)-len(fr.Data)]))
				if len(fr.Data) > 0 {
					ss = append(ss, fmt.Sprintf("%dx%02x", len(fr.Data), fr.Data[0]))
				}
			}
			oldStr, nw := c.read(stream, strings.Join(ss, ","), 0, []int{1 << 19, 1 << 30}, 0, true)
			if !framesWithin(frs, oldMaxTok) || oldStr != nw.minusControlStr() || len(nw.pkts) != 2 {
				o.Oracle("old-reads-new", "class=default-split 3 MiB message through the current stream layer", clipS(oldStr)+" ||| "+clipS(nw.minusControlStr()))
			} else {
				o.OracleOK("old-reads-new")
			}
		}
	}
	// one packet of 4 MiB - 1, 4 MiB, 4 MiB + 1 payload bytes in frames of at most 1 MiB - 6
	for _, total := range []int{oldMaxPacket - 1, oldMaxPacket, oldMaxPacket + 1} {
		var parts []part
		rem := total
		for rem > 0 {
			n := oldMaxTok - 6
			ctl := byte(0x04)
			if n >= rem {
				n, ctl = rem, 0x05
			}
			parts = append(parts, part{hdr(ctl, 1, 1, n), n, 0x62})
			rem -= n
		}
		parts = append(parts, tail)
		stream, sp := build(parts)
		oldStr, nw := c.read(stream, sp, 0, []int{1 << 19, 1 << 30}, 0, true)
		o.Stat(fmt.Sprintf("limit:packet=%d:old=%s:new=%s", total, errOf(oldStr), nw.err))
		if oldStr != nw.minusControlStr() {
			o.Oracle("old-reads-new", fmt.Sprintf("class=packet-limit total=%d", total), clipS(oldStr)+" ||| "+clipS(nw.minusControlStr()))
		} else {
			o.OracleOK("old-reads-new")
		}
		if (total > oldMaxPacket) != (nw.err == "protocol") {
			o.Oracle("packet-limit", fmt.Sprintf("total=%d", total), clipS(nw.newStr()))
		} else {
			o.OracleOK("packet-limit")
		}
	}
}

func (c checker) metadata(n int) {
	o := c.g.o
	r := o.Rand
	runes := []rune("abcXYZ09 _-é中€😀\n\x00\x7f")
	str := func() []byte {
		var n int
		switch r.Intn(8) {
		case 0:
			return nil
		case 1:
			n = 127 + r.Intn(3)
		case 2:
			n = 16383 + r.Intn(3)
		case 3:
			return []byte{10, 18, 0, 10}[:1+r.Intn(4)] // looks like tag bytes
		default:
			n = 1 + r.Intn(12)
		}
		if n > 100 {
			return bytes.Repeat([]byte{byte('a' + r.Intn(26))}, n)
		}
		var sb strings.Builder
		for sb.Len() < n {
			sb.WriteRune(runes[r.Intn(len(runes))])
		}
		return []byte(sb.String())
	}
	canon := func(m map[string]string) string {
		var keys []string
		for k := range m {
			keys = append(keys, k)
		}
		sort.Strings(keys)
		var parts []string
		for _, k := range keys {
			parts = append(parts, corr.Hex([]byte(k))+":"+corr.Hex([]byte(m[k])))
		}
		if len(parts) == 0 {
			return "-"
		}
		return strings.Join(parts, ";")
	}
	pairs := func(m map[string]string) string {
		var keys []string
		for k := range m {
			keys = append(keys, k)
		}
		sort.Strings(keys)
		var parts []string
		for _, k := range keys {
			parts = append(parts, spec([]byte(k))+":"+spec([]byte(m[k])))
		}
		if len(parts) == 0 {
			return "-"
		}
		return strings.Join(parts, ";")
	}
	for i := 0; i < n; i++ {
		m := map[string]string{}
		cnt := 1
		if i%2 == 1 {
			cnt = r.Intn(6)
		}
		for j := 0; j < cnt; j++ {
			m[string(str())] = string(str())
		}
		newB, err := drpcmetadata.Encode(nil, m)
		if err != nil {
			o.Oracle("metadata-old-new", pairs(m), "Encode failed: "+err.Error())
			continue
		}
		oldH := c.g.old.ask("menc pairs=" + pairs(m))
		var oldB []byte
		if oldH != "-" {
			oldB, _ = hex.DecodeString(oldH)
		}
		if len(m) <= 1 {
			// one entry: the bytes are determined; old, new and the model agree byte for byte
			o.Case("c18.meta pairs="+pairs(m), corr.Hex(newB), len(m) == 1)
			if !bytes.Equal(oldB, newB) {
				o.Oracle("metadata-old-new", pairs(m), fmt.Sprintf("v0.0.17: %s ||| current: %s", clipS(oldH), clipS(corr.Hex(newB))))
			} else {
				o.OracleOK("metadata-old-new")
			}
		}
		// old encodes, new decodes
		dm, derr := drpcmetadata.Decode(oldB)
		ans := "err"
		if derr == nil {
			ans = "ok " + canon(dm)
		}
		o.Case("c18.metadec b="+spec(oldB), ans, len(m) >= 1)
		if derr != nil || canon(dm) != canon(m) {
			o.Oracle("metadata-old-new", pairs(m), "current Decode of v0.0.17 bytes: "+clipS(ans))
		} else {
			o.OracleOK("metadata-old-new")
		}
		// new encodes, old decodes
		if got := c.g.old.ask("mdec b=" + spec(newB)); got != canon(m) {
			o.Oracle("metadata-old-new", pairs(m), "v0.0.17 Decode of current bytes: "+clipS(got))
		} else {
			o.OracleOK("metadata-old-new")
		}
		o.Stat(fmt.Sprintf("meta:entries=%d", len(m)))
	}
	// known finding C18-metadata-non-utf8: the working tree encodes and decodes any bytes, while
	// v0.0.17 (gogo/protobuf, proto3 `string`) refuses keys/values that are not valid UTF-8
	for _, kv := range [][2][]byte{{[]byte("k"), {0xff}}, {{0xc3, 0x28}, []byte("v")}} {
		m := map[string]string{string(kv[0]): string(kv[1])}
		newB, _ := drpcmetadata.Encode(nil, m)
		o.Case("c18.meta pairs="+pairs(m), corr.Hex(newB), true)
		in := fmt.Sprintf("key=%s value=%s", corr.Hex(kv[0]), corr.Hex(kv[1]))
		if got := c.g.old.ask("mdec b=" + spec(newB)); got != canon(m) {
			o.Oracle("metadata-non-utf8", in, "v0.0.17 Decode of the current encoding "+corr.Hex(newB)+": "+got)
		} else {
			o.OracleOK("metadata-non-utf8")
		}
	}
}

func (c checker) handle(n int) {
	o := c.g.o
	r := o.Rand
	run := func(sid uint64, pkts []pk, class string) {
		res := runHandle(sid, pkts)
		if res.hang {
			o.Oracle("no-crash-no-hang", fmt.Sprintf("sid=%d pkts=%s", sid, clipS(pktsStr(pkts))), "HandlePacket / RawRecv did not return")
			return
		}
		o.Case(fmt.Sprintf("c18.handle sid=%d pkts=%s", sid, pktsStr(pkts)), res.str(), len(pkts) >= 2)
		o.Stat("handle:" + class)
		// direct oracle: an unknown control packet leaves the stream undisturbed; an unknown
		// non-control packet on an open stream is an InternalError
		term := false
		for i, p := range pkts {
			f := strings.Split(res.steps[i], ",")
			now := f[1] == "1"
			if p.sid == sid && !knownKind(p.kind) {
				if p.ctl && (f[0] != "nil" || now != term) {
					o.Oracle("unknown-control-ignored", fmt.Sprintf("sid=%d pkts=%s", sid, clipS(pktsStr(pkts))), fmt.Sprintf("packet %d: %s (terminated before: %v)", i, res.steps[i], term))
				} else if !p.ctl && !term && (f[0] != "internal" || !now) {
					o.Oracle("unknown-noncontrol-internal", fmt.Sprintf("sid=%d pkts=%s", sid, clipS(pktsStr(pkts))), fmt.Sprintf("packet %d: %s", i, res.steps[i]))
				} else {
					o.OracleOK("unknown-control-ignored")
				}
			}
			term = now
		}
	}
	// exhaustive: every kind x control on a fresh stream, followed by a message that must still arrive
	for kind := 0; kind < 64; kind++ {
		for _, ctl := range []bool{false, true} {
			pkts := []pk{{sid: 7, mid: 1, kind: uint8(kind), ctl: ctl, data: []byte{1, 2}}, {sid: 7, mid: 2, kind: 2, data: []byte("after")}}
			res := runHandle(7, pkts)
			if !res.hang && ctl && !knownKind(uint8(kind)) {
				if len(res.delivered) != 1 || string(res.delivered[0]) != "after" || res.send != "-" || res.recv != "-" {
					o.Oracle("unknown-control-ignored", fmt.Sprintf("kind=%d", kind), "stream disturbed: "+res.str())
				} else {
					o.OracleOK("unknown-control-ignored")
				}
			}
			run(7, pkts, "exhaustive")
			// after the remote's CloseSend
			run(7, append([]pk{{sid: 7, mid: 1, kind: 6}}, pk{sid: 7, mid: 2, kind: uint8(kind), ctl: ctl}), "after-closesend")
		}
	}
	for i := 0; i < n; i++ {
		sid := uint64(1 + r.Intn(3))
		var pkts []pk
		for j, m := 0, 1+r.Intn(7); j < m; j++ {
			p := pk{sid: sid, mid: uint64(j + 1)}
			if r.Intn(10) == 0 {
				p.sid = sid + 1
			}
			switch k := r.Intn(10); {
			case k < 3:
				p.kind = 2
				p.data = c.g.payload(r.Intn(200))
			case k < 6:
				p.kind = uint8(7 + r.Intn(57))
				p.ctl = r.Intn(4) != 0
				p.data = c.g.payload(r.Intn(10))
			case k < 7:
				p.kind = 0
				p.ctl = r.Intn(2) == 0
			default:
				p.kind = []uint8{1, 3, 4, 5, 6, 6}[r.Intn(6)]
				p.ctl = r.Intn(3) == 0
				p.data = c.g.payload(r.Intn(12))
			}
			pkts = append(pkts, p)
		}
		run(sid, pkts, "random")
	}
}
