package httpsuite

import (
	"bytes"
	"encoding/base64"
	"encoding/binary"
	"encoding/json"
	"fmt"
	"io"
	"net/textproto"
	"strconv"
	"strings"

	"storj.io/drpc/drpcerr"
	"storj.io/drpc/drpchttp"
	"verifharness/corr"
)

// ---------------------------------------------------------------- regressions (the three repaired defects)

func (g gen) regressions() {
	o := g.o
	// 1. "%%": strings.Builder.Grow(len(s) - 2*count) was negative
	for _, s := range []string{"%%", "%%%", "%%%%%%%%", "%=%", "=%%"} {
		ans := unescapeAnswer(s)
		if ans == "panic" || strings.HasPrefix(ans, "ok") {
			o.Oracle("regression-unescape-grow", "header="+corr.Hex([]byte(s)), "unescape("+s+") -> "+ans)
		} else {
			o.OracleOK("regression-unescape-grow")
		}
		o.Case("http.unescape s="+corr.Hex([]byte(s)), ans, true)
		rq := request{ct: "application/proto", hdrs: []blob{str(s)}, sc: script{msgs: []blob{str("x")}}}
		out := serve(rq)
		o.Case(rq.line(), out.answer(), true)
		checkOutcome(o, rq, out)
	}
	// 2. an error whose Unwrap() returns nil: reflect.ValueOf(nil).MethodByName panicked
	for _, d := range []errDesc{
		{nilWrap: true, msg: str("boom")},
		{chain: []node{{kind: 'w'}}, nilWrap: true, msg: str("boom")},
		{chain: []node{{kind: 'n', code: 7}, {kind: 'c'}}, nilWrap: true, msg: str("boom")},
	} {
		ans := getCodeAnswer(d, false)
		if ans == "panic" {
			o.Oracle("regression-getcode-nil-unwrap", "err="+d.String(), "getCode panicked")
		} else {
			o.OracleOK("regression-getcode-nil-unwrap")
		}
		o.Case("http.getcode err="+d.String(), ans, true)
		for _, ct := range []string{"application/json", "application/grpc-web+proto"} {
			rq := request{ct: ct, sc: script{result: d}}
			out := serve(rq)
			o.Case(rq.line(), out.answer(), true)
			checkOutcome(o, rq, out)
		}
	}
	// 3. a Twirp request body of maxSize+1 bytes must be rejected, never truncated
	{
		body := fill('a', maxSize+1)
		data, err := drpchttp.VerifTwirpRead(bytes.NewReader(body.bytes()))
		if err == nil {
			o.Oracle("regression-twirp-oversize", "twirpread b="+body.String(), fmt.Sprintf("accepted, %d bytes returned", len(data)))
		} else {
			o.OracleOK("regression-twirp-oversize")
		}
		rq := request{ct: "application/proto", body: body, payload: body, wireLen: maxSize + 1,
			sc: script{recv: true, echo: true}}
		out := serve(rq)
		o.Case(rq.line(), out.answer(), true)
		checkOutcome(o, rq, out)
		if out.rec.Code == 200 || out.h.recvErr == nil {
			o.Oracle("regression-twirp-oversize", rq.line(), fmt.Sprintf("status %d, handler received %d bytes", out.rec.Code, len(out.h.recvd)))
		} else {
			o.OracleOK("regression-twirp-oversize")
		}
	}
}

// ---------------------------------------------------------------- unescape / buildContext

var headerAlphabet = []byte{'%', '=', '0', '9', 'a', 'f', 'A', 'F', 'g', ' ', 0xff}
var headerAlphabetSmall = []byte{'%', '=', '0', 'A', 'f', 'g', 0xff}

func enumerate(alpha []byte, n int, f func([]byte)) {
	buf := make([]byte, n)
	var rec func(i int)
	rec = func(i int) {
		if i == n {
			f(buf)
			return
		}
		for _, c := range alpha {
			buf[i] = c
			rec(i + 1)
		}
	}
	rec(0)
}

func (g gen) oneUnescape(s string, class string) {
	o := g.o
	ans := unescapeAnswer(s)
	o.Case("http.unescape s="+corr.Hex([]byte(s)), ans, strings.Contains(s, "%"))
	checkUnescape(o, s, ans)
	o.Stat("unescape:" + class + ":" + strings.SplitN(ans, " ", 2)[0])
}

func (g gen) randHeader(n int, mostlyPct bool) string {
	r := g.o.Rand
	b := make([]byte, 0, n)
	valid := !mostlyPct && r.Intn(2) == 0 // only well-formed escapes and plain bytes
	for len(b) < n {
		switch k := r.Intn(10); {
		case valid && k < 5:
			b = append(b, []byte(fmt.Sprintf("%%%02X", r.Intn(256)))...)
		case valid && k < 6:
			b = append(b, []byte(fmt.Sprintf("%%%02x", r.Intn(256)))...)
		case valid:
			if c := byte(r.Intn(256)); c != '%' {
				b = append(b, c)
			}
		case mostlyPct && k < 8:
			b = append(b, '%')
		case k < 3:
			b = append(b, headerAlphabet[r.Intn(len(headerAlphabet))])
		case k < 6: // a valid escape
			b = append(b, []byte(fmt.Sprintf("%%%02X", r.Intn(256)))...)
		case k < 7:
			b = append(b, []byte(fmt.Sprintf("%%%02x", r.Intn(256)))...)
		default:
			b = append(b, byte(r.Intn(256)))
		}
	}
	if valid {
		return string(b)
	}
	return string(b[:n])
}

func (g gen) unescapeCases() {
	o := g.o
	full := 5
	for n := 0; n <= full; n++ {
		enumerate(headerAlphabet, n, func(b []byte) { g.oneUnescape(string(b), "exhaustive") })
	}
	small := full + 1
	if o.Thorough {
		small = full + 2
	}
	for n := full + 1; n <= small; n++ {
		enumerate(headerAlphabetSmall, n, func(b []byte) { g.oneUnescape(string(b), "exhaustive-small") })
	}
	k := 1500
	if o.Thorough {
		k = 30000
	}
	for i := 0; i < k; i++ {
		g.oneUnescape(g.randHeader(o.Rand.Intn(201), i%4 == 0), "random")
	}
}

func (g gen) oneContext(entries []string, class string) {
	o := g.o
	ans := contextAnswer(entries)
	bs := make([]blob, len(entries))
	nt := false
	for i, e := range entries {
		bs[i] = str(e)
		nt = nt || strings.Contains(e, "=") || strings.Contains(e, "%")
	}
	o.Case("http.context es="+blobList(bs), ans, nt)
	if ans == "panic" {
		o.Oracle("no-panic", "context es="+blobList(bs), "buildContext panicked")
	} else {
		o.OracleOK("no-panic")
	}
	o.Stat("context:" + class + ":" + strings.SplitN(ans, " ", 2)[0])
}

func (g gen) randText(n int) string {
	r := g.o.Rand
	b := make([]byte, n)
	for i := range b {
		switch r.Intn(6) {
		case 0:
			b[i] = "%= +&/"[r.Intn(6)]
		case 1:
			b[i] = byte(r.Intn(256))
		default:
			b[i] = byte('a' + r.Intn(26))
		}
	}
	return string(b)
}

func (g gen) contextCases() {
	o := g.o
	r := o.Rand
	g.oneContext(nil, "none")
	full := 3
	if o.Thorough {
		full = 4
	}
	for n := 0; n <= full; n++ {
		enumerate(headerAlphabet, n, func(b []byte) { g.oneContext([]string{string(b)}, "exhaustive") })
	}
	k := 1500
	if o.Thorough {
		k = 20000
	}
	for i := 0; i < k; i++ {
		n := 1 + r.Intn(4)
		var entries []string
		want := map[string]string{}
		wellFormed := true
		for j := 0; j < n; j++ {
			key, val := g.randText(r.Intn(6)), g.randText(r.Intn(8))
			if r.Intn(4) == 0 && j > 0 {
				key = "dup"
			}
			esc := escapers[r.Intn(len(escapers))]
			switch r.Intn(8) {
			case 0:
				entries = append(entries, g.randHeader(r.Intn(12), r.Intn(2) == 0))
				wellFormed = false
			case 1: // key only
				entries = append(entries, esc(key))
				want[key] = ""
			default:
				entries = append(entries, esc(key)+"="+esc(val))
				want[key] = val
			}
		}
		g.oneContext(entries, "random")
		if wellFormed {
			// metadata_header_decodes on the implementation
			ans := contextAnswer(entries)
			h := &handler{md: want, mdOK: true}
			if ans != "ok "+mdString(h) {
				o.Oracle("metadata-decodes", "context es="+strings.Join(entries, ","), "got "+ans+" want ok "+mdString(h))
			} else {
				o.OracleOK("metadata-decodes")
			}
		}
	}
}

// ---------------------------------------------------------------- getCode

func getCodeAnswer(d errDesc, useDrpcerr bool) string {
	return corr.Catch(func() string {
		err := d.build(useDrpcerr)
		return "ok " + corr.Hex([]byte(drpchttp.VerifGetCode(err))) + " dcode=" + fmt.Sprint(drpcerr.Code(err))
	})
}

var twirpCodes = []string{"canceled", "unknown", "invalid_argument", "malformed", "deadline_exceeded", "not_found", "bad_route",
	"already_exists", "permission_denied", "unauthenticated", "resource_exhausted", "failed_precondition", "aborted",
	"out_of_range", "unimplemented", "internal", "unavailable", "dataloss"}
var otherCodes = []string{"", "teapot", "NOT_FOUND", "not_found ", "drpcerr(5)", "a\r\nb", "x\rgrpc-status: 0", "\xff\xfe", "café", " \t"}

var drpcCodes = []uint64{0, 1, 2, 12, 1<<64 - 1}

func (g gen) randNode() node {
	r := g.o.Rand
	switch r.Intn(7) {
	case 0:
		return node{kind: 'w'}
	case 1:
		return node{kind: 'c'}
	case 2, 3:
		return node{kind: 'n', code: drpcCodes[r.Intn(len(drpcCodes))]}
	case 4:
		return node{kind: 't', s: twirpCodes[r.Intn(len(twirpCodes))]}
	case 5:
		return node{kind: 't', s: otherCodes[r.Intn(len(otherCodes))]}
	default:
		return node{kind: 'b'}
	}
}

var errTexts = []blob{
	str("boom"), str(""), str("line1\nline2"), str("line1\r\nline2"), str("lone\rcr"), str("x\rgrpc-status: 0"),
	str("a\r\r\nb\n\rc"), str("  leading and trailing \t "), str("\r\nstarts and ends\r\n"), str("\n"), str("\r"), str(" "),
	str("café   日本"), str("bad utf8 \xff\xfe\x80 end"), str("<html>&\"quoted\"\\"), str("\x00\x01\x7f"),
	str("message too large"), str("EOF"),
	append(append(fill('x', 5000), str("\r")...), fill('y', 5000)...),
	append(append(fill(' ', 3000), str("mid\ndle")...), fill('\t', 7000)...),
}

func (g gen) randErrText() blob {
	r := g.o.Rand
	if r.Intn(3) > 0 {
		return errTexts[r.Intn(len(errTexts))]
	}
	n := r.Intn(40)
	b := make([]byte, n)
	for i := range b {
		switch r.Intn(5) {
		case 0:
			b[i] = "\r\n \t:"[r.Intn(5)]
		case 1:
			b[i] = byte(r.Intn(256))
		default:
			b[i] = byte('a' + r.Intn(26))
		}
	}
	return lit(b)
}

func (g gen) randErr() errDesc {
	r := g.o.Rand
	d := errDesc{msg: g.randErrText(), nilWrap: r.Intn(6) == 0}
	n := r.Intn(5)
	for i := 0; i < n; i++ {
		nd := g.randNode()
		if r.Intn(12) == 0 {
			nd.count = []int{2, 98, 99, 100, 101, 150}[r.Intn(6)]
		}
		d.chain = append(d.chain, nd)
	}
	return d
}

func (g gen) oneGetCode(d errDesc, class string) {
	o := g.o
	useDrpcerr := o.Rand.Intn(2) == 0
	ans := getCodeAnswer(d, useDrpcerr)
	o.Case("http.getcode err="+d.String(), ans, len(d.chain) > 0)
	if ans == "panic" {
		o.Oracle("no-panic", "getcode err="+d.String(), "getCode panicked")
	} else {
		o.OracleOK("no-panic")
	}
	o.Stat("getcode:" + class)
}

func (g gen) getCodeCases() {
	o := g.o
	g.oneGetCode(errDesc{isNil: true}, "nil")
	kinds := []node{{kind: 'w'}, {kind: 'c'}, {kind: 'n', code: 12}, {kind: 'n', code: 0}, {kind: 't', s: "not_found"}, {kind: 'b'}}
	for _, end := range []bool{false, true} {
		for n := 0; n <= 3; n++ {
			idx := make([]int, n)
			var rec func(i int)
			rec = func(i int) {
				if i == n {
					d := errDesc{nilWrap: end, msg: str("m")}
					for _, k := range idx {
						d.chain = append(d.chain, kinds[k])
					}
					g.oneGetCode(d, "exhaustive")
					return
				}
				for k := range kinds {
					idx[i] = k
					rec(i + 1)
				}
			}
			rec(0)
		}
	}
	// the two 100-iteration bounds
	for _, depth := range []int{98, 99, 100, 101, 150} {
		for _, w := range []byte{'w', 'c'} {
			for _, tail := range [][]node{
				{{kind: 'n', code: 5}},
				{{kind: 't', s: "aborted"}},
				{{kind: 'n', code: 5}, {kind: 't', s: "aborted"}},
				{{kind: 't', s: "aborted"}, {kind: 'n', code: 5}},
				{},
			} {
				for _, end := range []bool{false, true} {
					d := errDesc{nilWrap: end, msg: str("deep"), chain: append([]node{{kind: w, count: depth}}, tail...)}
					g.oneGetCode(d, "depth")
				}
			}
		}
	}
	k := 1500
	if o.Thorough {
		k = 20000
	}
	for i := 0; i < k; i++ {
		g.oneGetCode(g.randErr(), "random")
	}
}

// ---------------------------------------------------------------- stdlib pieces the model re-implements

func (g gen) stdlibCases() {
	o := g.o
	r := o.Rand
	k := 400
	if o.Thorough {
		k = 5000
	}
	for i := 0; i < k; i++ {
		n := i % 40
		b := make([]byte, n)
		r.Read(b)
		if i%5 == 0 {
			for j := range b {
				b[j] = []byte{0, 0xff, 0xfb, 0x3f, 0x3e}[r.Intn(5)]
			}
		}
		o.Case("http.b64 b="+corr.Hex(b), corr.Hex([]byte(base64.StdEncoding.EncodeToString(b))), n >= 3)
		js, _ := json.Marshal(b)
		if string(js) != `"`+base64.StdEncoding.EncodeToString(b)+`"` {
			o.Oracle("json-bytes-is-base64-string", corr.Hex(b), string(js))
		} else {
			o.OracleOK("json-bytes-is-base64-string")
		}
	}
	alpha := []byte{'\r', '\n', ' ', '\t', 'a', ':', 0xff}
	full := 4
	if o.Thorough {
		full = 6
	}
	for n := 0; n <= full; n++ {
		enumerate(alpha, n, func(b []byte) {
			o.Case("http.sanitize v="+corr.Hex(b), corr.Hex([]byte(sanitizeRef(string(b)))), n >= 2)
		})
	}
	_ = textproto.TrimString
}

// ---------------------------------------------------------------- request size rules

func readAnswer(f func(io.Reader) ([]byte, error), body []byte) (string, []byte, error) {
	var data []byte
	var err error
	var panicked bool
	n := allocated(func() {
		defer func() {
			if r := recover(); r != nil {
				panicked = true
			}
		}()
		data, err = f(bytes.NewReader(body))
	})
	if panicked {
		return "panic", nil, nil
	}
	var res string
	switch {
	case err == nil:
		res = "ok " + digest(data)
	case err == io.EOF: //nolint
		res = "eof"
	case err == io.ErrUnexpectedEOF: //nolint
		res = "unexpected-eof"
	case strings.Contains(err.Error(), "message too large"):
		res = "too-large"
	default:
		res = "err?" + err.Error()
	}
	class := "S"
	if n >= 262144 {
		class = "L"
	}
	return res + " alloc=" + class, data, err
}

func grpcHeader(flag byte, n uint32) []byte {
	h := []byte{flag, 0, 0, 0, 0}
	binary.BigEndian.PutUint32(h[1:], n)
	return h
}

func (g gen) readCases() {
	o := g.o
	r := o.Rand
	oneGrpc := func(b blob, class string) {
		body := b.bytes()
		ans, data, err := readAnswer(drpchttp.VerifGrpcRead, body)
		o.Case("http.grpcread b="+b.String(), ans, len(body) >= 5)
		o.Stat("grpcread:" + class + ":" + strings.SplitN(ans, " ", 2)[0])
		in := "grpcread b=" + b.String()
		if ans == "panic" {
			o.Oracle("no-panic", in, "grpcRead panicked")
			return
		}
		// oversize rejected, never truncated; allocation bounded by the limit, not by the declared size
		if err == nil {
			declared := int(binary.BigEndian.Uint32(body[1:5]))
			if declared > maxSize || !bytes.Equal(data, body[5:5+declared]) {
				o.Oracle("oversize-rejected-not-truncated", in, fmt.Sprintf("declared %d, returned %d bytes", declared, len(data)))
				return
			}
		}
		if len(body) >= 5 && int64(binary.BigEndian.Uint32(body[1:5])) > maxSize && !strings.HasPrefix(ans, "too-large alloc=S") {
			o.Oracle("grpc-alloc-bound", in, "declared size over the limit: "+ans)
			return
		}
		if len(body) >= 5 {
			if d := int(binary.BigEndian.Uint32(body[1:5])); d <= maxSize && len(body)-5 >= d && err != nil {
				o.Oracle("request-within-limit-accepted", in, fmt.Sprintf("complete message of %d bytes rejected: %v", d, err))
				return
			}
			o.OracleOK("request-within-limit-accepted")
		}
		o.OracleOK("oversize-rejected-not-truncated")
	}
	// headers of 0..4 bytes and bodies of 0..6 bytes with small declared sizes
	for n := 0; n <= 4; n++ {
		b := make([]byte, n)
		r.Read(b)
		oneGrpc(lit(b), "short-header")
	}
	declared := []uint32{0, 1, 2, 3, 5, 6, 7, 100, 255, 256, 4096, 32000, 1 << 20, 1<<21 + 7, maxSize - 1, maxSize, maxSize + 1,
		1 << 24, 1 << 31, 1<<32 - 1}
	for _, d := range declared {
		for _, have := range []int{0, 1, 2, 3, 4, 5, 6, int(d) - 1, int(d), int(d) + 1} {
			if have < 0 || have > 200 {
				continue
			}
			body := make([]byte, have)
			r.Read(body)
			for _, flag := range []byte{0, 1, 0x80} {
				oneGrpc(lit(append(grpcHeader(flag, d), body...)), "small")
			}
		}
	}
	// full bodies around the limit (described as fills so that the lines stay short)
	for _, d := range []uint32{1 << 20, maxSize - 1, maxSize, maxSize + 1} {
		oneGrpc(append(lit(grpcHeader(0, d)), fill('q', int(d))...), "big")
		oneGrpc(append(lit(grpcHeader(0, d)), fill('q', int(d)-1)...), "big-short")
		oneGrpc(append(append(lit(grpcHeader(0, d)), fill('q', int(d))...), str("tail")...), "big-tail")
	}

	oneTwirp := func(b blob, class string) {
		body := b.bytes()
		ans, data, err := readAnswer(drpchttp.VerifTwirpRead, body)
		o.Case("http.twirpread b="+b.String(), ans, len(body) > 0)
		o.Stat("twirpread:" + class + ":" + strings.SplitN(ans, " ", 2)[0])
		in := "twirpread b=" + b.String()
		switch {
		case ans == "panic":
			o.Oracle("no-panic", in, "twirpRead panicked")
		case err == nil && !bytes.Equal(data, body):
			o.Oracle("oversize-rejected-not-truncated", in, fmt.Sprintf("body of %d bytes returned as %d bytes", len(body), len(data)))
		case err == nil && len(body) > maxSize:
			o.Oracle("oversize-rejected-not-truncated", in, fmt.Sprintf("body of %d bytes accepted", len(body)))
		case err != nil && len(body) <= maxSize:
			o.Oracle("oversize-rejected-not-truncated", in, fmt.Sprintf("body of %d bytes rejected: %v", len(body), err))
		default:
			o.OracleOK("oversize-rejected-not-truncated")
		}
	}
	for n := 0; n <= 6; n++ {
		b := make([]byte, n)
		r.Read(b)
		oneTwirp(lit(b), "small")
	}
	for _, n := range []int{100, 1000, 32000, 1 << 20, maxSize - 1, maxSize, maxSize + 1, maxSize + 2, 2 * maxSize} {
		oneTwirp(fill('t', n), "sized")
	}
}

// ---------------------------------------------------------------- end to end

var contentTypes = []string{
	"*", "application/proto", "application/json", "application/grpc-web+proto", "application/grpc-web+json",
	"application/grpc-web-text+proto", "application/grpc-web-text+json",
}
var oddContentTypes = []string{
	"", "text/plain", "application/protobuf", "application/grpc-web", "application/grpc", "Application/JSON",
	"APPLICATION/GRPC-WEB+PROTO", "application/json; charset=utf-8", "application/grpc-web+proto;x=1", " application/json",
	"application/json ", "application/grpc-web-text", "application/grpc-web-text+proto ", "application/jso\xff", "**",
}

var msgSizes = []int{0, 1, 2, 3, 100}

func (g gen) randMsg() blob {
	r := g.o.Rand
	n := msgSizes[r.Intn(len(msgSizes))]
	b := make([]byte, n)
	r.Read(b)
	if r.Intn(4) == 0 {
		for i := range b {
			b[i] = byte("\r\n\"\\\x00\xff"[r.Intn(6)])
		}
	}
	return lit(b)
}

// requestBody builds the wire form of one request message for the documented protocol of ct.
func requestBody(p docProto, payload []byte) (wire []byte, body []byte) {
	wire = marshalRef(p, payload)
	body = wire
	if p.grpc {
		body = append(grpcHeader(0, uint32(len(wire))), wire...)
		if p.text {
			body = []byte(base64.StdEncoding.EncodeToString(body))
		}
	}
	return wire, body
}

func (g gen) serveOne(rq request, class string) {
	o := g.o
	out := serve(rq)
	ans := out.answer()
	nt := len(rq.sc.msgs) > 0 || !rq.sc.result.isNil || rq.sc.recv
	o.Case(rq.line(), ans, nt)
	checkOutcome(o, rq, out)
	// the same bytes with the length not declared / arriving a byte at a time: a handler that reads the
	// request must see the same exchange (no receive path may depend on Content-Length or on how the
	// body splits into reads, and none may panic)
	if rq.sc.recv {
		for _, mode := range []int{bodyUndeclared, bodyTrickle} {
			alt := serveAs(rq, mode)
			if a := alt.answer(); a != ans {
				name, d := "body-presentation-independent", a
				if alt.panicked {
					name, d = "panic:body-presentation", "panic: "+alt.panicMsg
				}
				o.Oracle(name, fmt.Sprintf("%s mode=%d", rq.line(), mode), "declared: "+ans+" | now: "+d)
			} else {
				o.OracleOK("body-presentation-independent")
			}
		}
	}
	kind := "twirp"
	if docSelect(rq.ct).grpc {
		kind = "grpcweb"
	}
	res := "ok"
	if out.h.ret != nil {
		res = "failed"
	}
	o.Stat("serve:" + class + ":" + kind + ":" + res)
}

func (g gen) randRequest() request {
	r := g.o.Rand
	var rq request
	switch k := r.Intn(10); {
	case k < 7:
		rq.ct = contentTypes[r.Intn(len(contentTypes))]
	case k < 9:
		rq.ct = oddContentTypes[r.Intn(len(oddContentTypes))]
	default:
		rq.noCT = true
	}
	ct := rq.ct
	p := docSelect(ct)
	// metadata headers
	if r.Intn(3) == 0 {
		n := 1 + r.Intn(3)
		want := map[string]string{}
		ok := true
		for j := 0; j < n; j++ {
			key, val := g.randText(r.Intn(5)), g.randText(r.Intn(6))
			esc := escapers[r.Intn(len(escapers))]
			if r.Intn(6) == 0 {
				rq.hdrs = append(rq.hdrs, str(g.randHeader(r.Intn(10), r.Intn(2) == 0)))
				ok = false
			} else {
				rq.hdrs = append(rq.hdrs, str(esc(key)+"="+esc(val)))
				want[key] = val
			}
		}
		if ok {
			rq.wantMD = want
		}
	}
	// script
	rq.sc.stop = r.Intn(2) == 0
	rq.sc.drpc = r.Intn(2) == 0
	n := r.Intn(6)
	for i := 0; i < n; i++ {
		rq.sc.msgs = append(rq.sc.msgs, g.randMsg())
	}
	if r.Intn(5) < 2 {
		rq.sc.result = errDesc{isNil: true}
	} else {
		rq.sc.result = g.randErr()
	}
	// request message
	if r.Intn(10) < 3 {
		rq.sc.recv = true
		rq.sc.echo = r.Intn(3) > 0
		payload := g.randMsg().bytes()
		wire, body := requestBody(p, payload)
		switch k := r.Intn(10); {
		case k < 6: // well-formed
			rq.payload = lit(payload)
			rq.wireLen = len(wire)
		case k < 7: // empty body
			body = nil
			if !p.grpc && !p.json {
				rq.payload = lit(nil)
			}
		case k < 8 && p.grpc: // declared more than present
			raw := append(grpcHeader(0, uint32(len(wire)+1+r.Intn(5))), wire...)
			body = raw
			if p.text {
				body = []byte(base64.StdEncoding.EncodeToString(raw))
			}
		case k < 9 && p.grpc: // truncated header / huge declared size with a short body
			raw := grpcHeader(0, []uint32{1<<32 - 1, maxSize + 1, 1 << 31}[r.Intn(3)])
			if r.Intn(2) == 0 {
				raw = raw[:r.Intn(5)]
			}
			body = raw
			if p.text {
				body = []byte(base64.StdEncoding.EncodeToString(raw))
			}
		case p.json: // not a JSON string of base64
			bad := [][]byte{[]byte("{"), {0xff, 0x00}, []byte(`"ab"`), []byte(`"YQ=="x`), []byte(`"YQ"`), []byte("{}"), []byte("[")}[r.Intn(7)]
			body = bad
			if p.grpc {
				body = append(grpcHeader(0, uint32(len(bad))), bad...)
				if p.text {
					body = []byte(base64.StdEncoding.EncodeToString(body))
				}
			}
		default:
			rq.payload = lit(payload)
			rq.wireLen = len(wire)
		}
		rq.body = lit(body)
	}
	return rq
}

func (g gen) serveCases() {
	o := g.o
	r := o.Rand
	// every content type with a fixed small script: success and failure
	for _, ct := range append(append([]string{}, contentTypes...), oddContentTypes...) {
		for _, res := range []errDesc{{isNil: true}, {msg: str("oops\r\nx: y"), chain: []node{{kind: 'n', code: 12}}}} {
			g.serveOne(request{ct: ct, sc: script{msgs: []blob{str("hello"), str("world")}, result: res}}, "fixed")
			g.serveOne(request{ct: ct, sc: script{msgs: []blob{str("hello"), str("world")}, result: res, stop: true}}, "fixed")
		}
	}
	g.serveOne(request{noCT: true, sc: script{msgs: []blob{str("hello")}, result: errDesc{isNil: true}}}, "fixed")
	// every error text x {grpc-web, twirp} x a few code shapes
	for _, txt := range errTexts {
		for _, ct := range []string{"application/grpc-web+proto", "application/grpc-web-text+proto", "application/json"} {
			for _, chain := range [][]node{nil, {{kind: 'n', code: 0}}, {{kind: 'n', code: 1<<64 - 1}}, {{kind: 'w'}, {kind: 't', s: "not_found"}},
				{{kind: 't', s: "x\rgrpc-status: 0"}}} {
				g.serveOne(request{ct: ct, sc: script{msgs: []blob{str("m")}, result: errDesc{msg: txt, chain: chain}}}, "errtext")
			}
		}
	}
	// every twirp code string through the Twirp error path
	for _, c := range append(append([]string{}, twirpCodes...), otherCodes...) {
		g.serveOne(request{ct: "application/proto", sc: script{result: errDesc{msg: str("e"), chain: []node{{kind: 't', s: c}}}}}, "twirpcode")
	}
	k := 3000
	if o.Thorough {
		k = 60000
	}
	for i := 0; i < k; i++ {
		g.serveOne(g.randRequest(), "random")
	}
	// messages and request bodies at the limit (binary protocols only; a few per run)
	big := []request{
		{ct: "application/grpc-web+proto", sc: script{msgs: []blob{str("a"), fill('m', maxSize-1), str("z")}, result: errDesc{isNil: true}}},
		{ct: "application/grpc-web+proto", sc: script{msgs: []blob{str("a"), fill('m', maxSize), str("z")}, result: errDesc{isNil: true}}},
		{ct: "application/grpc-web+proto", sc: script{stop: true, msgs: []blob{str("a"), fill('m', maxSize), str("z")}, result: errDesc{isNil: true}}},
		{ct: "application/proto", sc: script{msgs: []blob{fill('m', maxSize)}, result: errDesc{isNil: true}}},
		{ct: "application/proto", body: fill('r', maxSize), payload: fill('r', maxSize), wireLen: maxSize, sc: script{recv: true, echo: true, result: errDesc{isNil: true}}},
		{ct: "text/plain", body: fill('r', maxSize+1), payload: fill('r', maxSize+1), wireLen: maxSize + 1, sc: script{recv: true, echo: true, result: errDesc{isNil: true}}},
	}
	gr := func(n int, have int) blob { return append(lit(grpcHeader(0, uint32(n))), fill('r', have)...) }
	big = append(big,
		request{ct: "application/grpc-web+proto", body: gr(maxSize, maxSize), payload: fill('r', maxSize), wireLen: maxSize, sc: script{recv: true, echo: true, stop: true, result: errDesc{isNil: true}}},
		request{ct: "application/grpc-web+proto", body: gr(maxSize+1, maxSize+1), payload: fill('r', maxSize+1), wireLen: maxSize + 1, sc: script{recv: true, echo: true, result: errDesc{isNil: true}}},
	)
	if o.Thorough {
		for i := 0; i < 12; i++ {
			n := maxSize - 2 + r.Intn(4)
			big = append(big, request{ct: contentTypes[1+2*r.Intn(2)], sc: script{stop: r.Intn(2) == 0, msgs: []blob{fill(byte(r.Intn(256)), n), str("after")}, result: g.randErr()}})
		}
	}
	for _, rq := range big {
		g.serveOne(rq, "big")
	}
	g.errLimitCases()
}

// serveDirect: one exchange evaluated by the direct oracles only (no model case: the request would
// cost the model driver seconds).
func (g gen) serveDirect(rq request, class string) {
	o := g.o
	out := serve(rq)
	checkOutcome(o, rq, out)
	kind := "twirp"
	if docSelect(rq.ct).grpc {
		kind = "grpcweb"
	}
	res := "ok"
	if out.h.ret != nil {
		res = "failed"
	}
	o.Stat("serve:" + class + ":" + kind + ":" + res)
}

// errLimitCases: failed RPCs whose error text brings every quantity the response derives from it
// (the text itself, the grpc-web trailer block "grpc-status: S\r\ngrpc-code: C\r\ngrpc-message: T\r\n",
// the Twirp JSON body) to the 4 MiB limit -1 / +0 / +1. The statement: the status is non-zero iff the RPC
// failed whatever the error text, and limits reject, never truncate -- so the response must still carry
// the handler's messages, ONE trailer frame / error body, the failure status and the whole text.
// Sizes go to the model in the compact `zXX*N` syntax, and only a handful of them (each costs the
// driver 1-3 s); all of them are evaluated by the direct oracles.
func (g gen) errLimitCases() {
	o := g.o
	r := o.Rand
	cts := []string{"application/grpc-web+proto", "application/grpc-web-text+proto", "application/proto", "application/json"}
	if o.Thorough {
		cts = append(cts, "application/grpc-web+json", "application/grpc-web-text+json", "text/plain")
	}
	chains := [][]node{nil, {{kind: 'n', code: 12}}, {{kind: 'w'}, {kind: 't', s: "not_found"}}}
	for ci, ct := range cts {
		chain := chains[(ci+r.Intn(len(chains)))%len(chains)]
		// the trailer block without the text, as documented (status and code come from the error's chain)
		probe := errDesc{msg: str(""), chain: chain}.build(false)
		status := strconv.FormatUint(drpcerr.Code(probe), 10)
		if status == "0" {
			status = "2"
		}
		overhead := len("grpc-status: "+status+"\r\n") + len("grpc-code: "+drpchttp.VerifGetCode(probe)+"\r\n") + len("grpc-message: \r\n")
		type sz struct {
			what string
			n    int
		}
		var sizes []sz
		for d := -1; d <= 1; d++ {
			sizes = append(sizes, sz{fmt.Sprintf("block=limit%+d", d), maxSize - overhead + d}, sz{fmt.Sprintf("text=limit%+d", d), maxSize + d})
		}
		if o.Thorough {
			sizes = append(sizes, sz{"text=2*limit", 2 * maxSize}, sz{"block=limit-framehdr", maxSize - overhead - 5},
				sz{"text=random-near-limit", maxSize - 200 + r.Intn(400)})
		}
		for _, z := range sizes {
			c := byte('a' + r.Intn(26))
			txt := fill(c, z.n)
			if r.Intn(3) == 0 { // a forged trailer line in the middle of the long text (same length)
				inj := "\r\ngrpc-status: 0\r\n"
				k := (z.n - len(inj)) / 2
				txt = append(append(fill(c, k), str(inj)...), fill(c, z.n-len(inj)-k)...)
			}
			msgs := [][]blob{nil, {str("first")}, {str("first"), str("second"), str("")}}[r.Intn(3)]
			rq := request{ct: ct, sc: script{msgs: msgs, stop: r.Intn(2) == 0, result: errDesc{msg: txt, chain: chain}}}
			o.Stat("errlimit:" + z.what)
			// model: the trailer block exactly at the limit (grpc-web), the text exactly at the limit (Twirp)
			p := docSelect(ct)
			// (quick tier: binary grpc-web and Twirp only; the text mode costs the driver twice the memory)
			if (p.grpc && z.what == "block=limit+0" || !p.grpc && z.what == "text=limit+0") && (!p.text || o.Thorough) {
				g.serveOne(rq, "errlimit")
			} else {
				g.serveDirect(rq, "errlimit")
			}
		}
	}
}
