package httpsuite

import (
	"bytes"
	"context"
	"encoding/base64"
	"encoding/binary"
	"encoding/json"
	"fmt"
	"net/textproto"
	"net/url"
	"strings"

	"storj.io/drpc/drpchttp"
	"storj.io/drpc/drpcmetadata"
	"verifharness/corr"
)

// Direct oracles on the implementation: they use only the documented behaviour of the gateway
// (package doc of drpchttp, grpc-web framing, RFC 3986, RFC 4648), never the Lean model.

// docProto is the documented protocol of a request Content-Type (exact match, else the Twirp/proto
// fallback).
type docProto struct {
	grpc, text, json bool
	ct               string
}

var docTable = map[string]docProto{
	"application/proto":               {false, false, false, "application/proto"},
	"application/json":                {false, false, true, "application/json"},
	"application/grpc-web+proto":      {true, false, false, "application/grpc-web+proto"},
	"application/grpc-web+json":       {true, false, true, "application/grpc-web+json"},
	"application/grpc-web-text+proto": {true, true, false, "application/grpc-web-text+proto"},
	"application/grpc-web-text+json":  {true, true, true, "application/grpc-web-text+json"},
}

func docSelect(ct string) docProto {
	if p, ok := docTable[ct]; ok {
		return p
	}
	return docTable["application/proto"]
}

func marshalRef(p docProto, msg []byte) []byte {
	if p.json {
		b, _ := json.Marshal(msg) // a JSON string holding base64
		return b
	}
	return msg
}

var refReplacer = strings.NewReplacer("\n", " ", "\r", " ")

func sanitizeRef(v string) string { return textproto.TrimString(refReplacer.Replace(v)) }

// decodeChunks decodes base64 text made of separately encoded writes (padding may occur anywhere
// at a 4-character boundary).
func decodeChunks(b []byte) ([]byte, bool) {
	if len(b)%4 != 0 {
		return nil, false
	}
	var out []byte
	for i := 0; i < len(b); i += 4 {
		d, err := base64.StdEncoding.DecodeString(string(b[i : i+4]))
		if err != nil {
			return nil, false
		}
		out = append(out, d...)
	}
	return out, true
}

type gframe struct {
	flag byte
	data []byte
}

func parseFrames(b []byte) ([]gframe, bool) {
	var out []gframe
	for len(b) > 0 {
		if len(b) < 5 {
			return out, false
		}
		n := int(binary.BigEndian.Uint32(b[1:5]))
		if len(b)-5 < n {
			return out, false
		}
		out = append(out, gframe{b[0], b[5 : 5+n]})
		b = b[5+n:]
	}
	return out, true
}

// lenientLines splits on CRLF, bare CR and bare LF (what a lenient header parser accepts).
func lenientLines(block string) []string {
	block = strings.ReplaceAll(block, "\r\n", "\n")
	block = strings.ReplaceAll(block, "\r", "\n")
	lines := strings.Split(block, "\n")
	if len(lines) > 0 && lines[len(lines)-1] == "" {
		lines = lines[:len(lines)-1]
	}
	return lines
}

func short(s string) string {
	if len(s) > 300 {
		return s[:300] + "…"
	}
	return s
}

// checkOutcome evaluates the direct oracles on one end-to-end exchange.
func checkOutcome(o *corr.Out, rq request, out outcome) {
	in := rq.line()
	if out.panicked {
		o.Oracle("no-panic", in, "ServeHTTP panicked: "+out.panicMsg)
		return
	}
	o.OracleOK("no-panic")
	h, rec := out.h, out.rec
	ct := rq.ct
	if rq.noCT {
		ct = ""
	}
	p := docSelect(ct)
	failed := h.ret != nil
	body := rec.Body.Bytes()

	// metadata: well-formed headers arrive exactly; anything else never crashes (checked above)
	if rq.wantMD != nil {
		got := map[string]string{}
		if h.mdOK {
			got = h.md
		}
		if fmt.Sprint(got) != fmt.Sprint(rq.wantMD) {
			o.Oracle("metadata-decodes", in, fmt.Sprintf("handler saw %q, want %q", got, rq.wantMD))
		} else {
			o.OracleOK("metadata-decodes")
		}
	}

	// request side: a received message is the whole payload, never a shortened one
	if rq.sc.recv && rq.payload != nil {
		want := rq.payload.bytes()
		switch {
		case h.recvErr == nil && !bytes.Equal(h.recvd, want):
			o.Oracle("oversize-rejected-not-truncated", in, fmt.Sprintf("handler received %d bytes (%s), request carried %d",
				len(h.recvd), digest(h.recvd), len(want)))
		case h.recvErr == nil && rq.wireLen > maxSize:
			o.Oracle("oversize-rejected-not-truncated", in, fmt.Sprintf("a %d-byte message was accepted (limit %d)", rq.wireLen, maxSize))
		default:
			o.OracleOK("oversize-rejected-not-truncated")
		}
	}

	if rec.Header().Get("Content-Type") != p.ct && !(failed && !p.grpc) {
		o.Oracle("response-content-type", in, fmt.Sprintf("got %q want %q", rec.Header().Get("Content-Type"), p.ct))
	} else {
		o.OracleOK("response-content-type")
	}

	if p.grpc {
		if rec.Code != 200 {
			o.Oracle("grpcweb-body", in, fmt.Sprintf("status %d", rec.Code))
		}
		if p.text {
			dec, ok := decodeChunks(body)
			if !ok {
				o.Oracle("grpcweb-text-decodes", in, "body is not a sequence of base64 groups: "+digest(body))
				return
			}
			o.OracleOK("grpcweb-text-decodes")
			body = dec
		}
		frames, ok := parseFrames(body)
		if !ok || len(frames) == 0 || frames[len(frames)-1].flag != 0x80 {
			o.Oracle("grpcweb-body", in, "body does not parse as frames ending in a trailer frame: "+digest(body))
			if ok && failed {
				// well-formed message frames and nothing after them: the client sees HTTP 200 and no status at all
				o.Oracle("grpc-status-nonzero-iff-failed", in, fmt.Sprintf("the RPC failed (error text of %d bytes) but the response is status 200 with %d message frame(s) and no trailer frame",
					len(h.ret.Error()), len(frames)))
			}
			return
		}
		msgs := frames[:len(frames)-1]
		good := len(msgs) == len(h.sent)
		for i := 0; good && i < len(msgs); i++ {
			good = msgs[i].flag == 0 && bytes.Equal(msgs[i].data, marshalRef(p, h.sent[i]))
		}
		if !good {
			o.Oracle("grpcweb-body", in, fmt.Sprintf("%d message frames for %d acknowledged sends (or contents differ)", len(msgs), len(h.sent)))
		} else {
			o.OracleOK("grpcweb-body")
		}
		for _, m := range h.sent {
			if len(marshalRef(p, m)) >= maxSize {
				o.Oracle("response-size-limit", in, fmt.Sprintf("a %d-byte message was acknowledged", len(m)))
			}
		}
		// trailers
		block := string(frames[len(frames)-1].data)
		wantKeys := []string{"grpc-status"}
		if failed {
			wantKeys = []string{"grpc-status", "grpc-code", "grpc-message"}
		}
		lines := lenientLines(block)
		okT := len(lines) == len(wantKeys) && strings.HasSuffix(block, "\r\n")
		vals := map[string]string{}
		for i := 0; okT && i < len(lines); i++ {
			k, v, found := strings.Cut(lines[i], ": ")
			okT = found && k == wantKeys[i]
			vals[k] = v
		}
		if !okT {
			o.Oracle("trailer-no-injection", in, fmt.Sprintf("trailer block has lines %q, want exactly the keys %v", short(fmt.Sprint(lines)), wantKeys))
		} else {
			o.OracleOK("trailer-no-injection")
			if (vals["grpc-status"] != "0") != failed {
				o.Oracle("grpc-status-nonzero-iff-failed", in, fmt.Sprintf("grpc-status=%q failed=%v", vals["grpc-status"], failed))
			} else {
				o.OracleOK("grpc-status-nonzero-iff-failed")
			}
			if failed && vals["grpc-message"] != sanitizeRef(h.ret.Error()) {
				o.Oracle("grpc-message-faithful", in, fmt.Sprintf("grpc-message=%q want %q", short(vals["grpc-message"]), short(sanitizeRef(h.ret.Error()))))
			} else {
				o.OracleOK("grpc-message-faithful")
			}
		}
		return
	}

	// Twirp style
	if (rec.Code == 200) != !failed {
		o.Oracle("twirp-status-200-iff-success", in, fmt.Sprintf("status=%d failed=%v", rec.Code, failed))
	} else {
		o.OracleOK("twirp-status-200-iff-success")
	}
	if !failed {
		// the body holds one message, so every acknowledged send must be that message
		var want []byte
		if len(h.sent) > 0 {
			want = marshalRef(p, h.sent[0])
		}
		if len(h.sent) > 1 || !bytes.Equal(body, want) {
			o.Oracle("twirp-single-response", in, fmt.Sprintf("%d sends acknowledged, body=%s", len(h.sent), digest(body)))
		} else {
			o.OracleOK("twirp-single-response")
		}
		return
	}
	var obj map[string]json.RawMessage
	var code, msg string
	okJ := json.Unmarshal(body, &obj) == nil && len(obj) == 2 &&
		json.Unmarshal(obj["code"], &code) == nil && json.Unmarshal(obj["msg"], &msg) == nil &&
		rec.Header().Get("Content-Type") == "application/json"
	if !okJ || msg != jsonRoundTrip(h.ret.Error()) {
		o.Oracle("twirp-error-body", in, "error body is not {code,msg} with the handler's text: "+digest(body))
		return
	}
	o.OracleOK("twirp-error-body")
	want, inSpec := twirpSpecStatus[code]
	if !inSpec {
		want = 500
	}
	if rec.Code != want {
		o.Oracle("twirp-status-from-spec", in, fmt.Sprintf("code %q answered with status %d, the Twirp spec says %d", code, rec.Code, want))
	} else {
		o.OracleOK("twirp-status-from-spec")
	}
}

// twirpSpecStatus is the error-code table of the Twirp wire protocol specification (v7).
var twirpSpecStatus = map[string]int{
	"canceled": 408, "unknown": 500, "invalid_argument": 400, "malformed": 400, "deadline_exceeded": 408,
	"not_found": 404, "bad_route": 404, "already_exists": 409, "permission_denied": 403, "unauthenticated": 401,
	"resource_exhausted": 429, "failed_precondition": 412, "aborted": 409, "out_of_range": 400, "unimplemented": 501,
	"internal": 500, "unavailable": 503, "dataloss": 500,
}

// ---- percent decoding: independent reference = net/url.PathUnescape (RFC 3986, no '+' handling)

func unescapeAnswer(s string) string {
	return corr.Catch(func() string {
		out, err := drpchttp.VerifUnescape(s)
		if err != nil {
			switch {
			case strings.Contains(err.Error(), "sequence ends"):
				return "ends"
			case strings.Contains(err.Error(), "invalid hex digit"):
				return "hex"
			}
			return "err?" + err.Error()
		}
		return "ok " + corr.Hex([]byte(out))
	})
}

func checkUnescape(o *corr.Out, s string, ans string) {
	in := "unescape s=" + corr.Hex([]byte(s))
	if ans == "panic" {
		o.Oracle("no-panic", in, "unescape panicked")
		return
	}
	want, err := url.PathUnescape(s)
	switch {
	case err != nil && strings.HasPrefix(ans, "ok "):
		o.Oracle("unescape-agrees-reference", in, "accepted "+ans+", reference rejects: "+err.Error())
	case err == nil && ans != "ok "+corr.Hex([]byte(want)):
		o.Oracle("unescape-agrees-reference", in, "got "+ans+", reference ok "+corr.Hex([]byte(want)))
	default:
		o.OracleOK("unescape-agrees-reference")
	}
}

func contextAnswer(entries []string) string {
	return corr.Catch(func() string {
		ctx, err := drpchttp.VerifBuildContext(context.Background(), entries)
		if err != nil {
			switch {
			case strings.Contains(err.Error(), "sequence ends"):
				return "ends"
			case strings.Contains(err.Error(), "invalid hex digit"):
				return "hex"
			}
			return "err?" + err.Error()
		}
		md, ok := drpcmetadata.Get(ctx)
		h := &handler{md: md, mdOK: ok}
		return "ok " + mdString(h)
	})
}

// escapers a client may use
func escapeAll(s string) string {
	var sb strings.Builder
	for i := 0; i < len(s); i++ {
		fmt.Fprintf(&sb, "%%%02X", s[i])
	}
	return sb.String()
}

func escapeMin(s string) string {
	s = strings.ReplaceAll(s, "%", "%25")
	return strings.ReplaceAll(s, "=", "%3D")
}

func escapeLower(s string) string {
	var sb strings.Builder
	for i := 0; i < len(s); i++ {
		c := s[i]
		if c == '%' || c == '=' || c >= 0x80 || c < 0x20 {
			fmt.Fprintf(&sb, "%%%02x", c)
		} else {
			sb.WriteByte(c)
		}
	}
	return sb.String()
}

var escapers = []func(string) string{escapeAll, escapeMin, escapeLower}
