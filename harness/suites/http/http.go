// Package http: correspondence + direct oracles for the drpchttp gateway (C14, and the http
// entry points of C13).
//
// Model cases (replayed on lean/Drpc/Driver/Http.lean):
//
//	http.unescape / http.context    VerifUnescape, VerifBuildContext
//	http.getcode                    VerifGetCode + drpcerr.Code on error values built from a description
//	http.b64 / http.sanitize        the stdlib pieces the model re-implements (base64, Replacer+TrimString)
//	http.grpcread / http.twirpread  VerifGrpcRead, VerifTwirpRead (result + allocation class)
//	http.serve                      drpchttp.New(handler).ServeHTTP end to end with a scripted handler
//
// Direct oracles (no model) are in oracles.go.
package httpsuite

import (
	"bytes"
	"encoding/base64"
	"encoding/hex"
	"encoding/json"
	"errors"
	"fmt"
	"io"
	"net/http"
	"net/http/httptest"
	"runtime"
	"sort"
	"strconv"
	"strings"

	"storj.io/drpc"
	"storj.io/drpc/drpcerr"
	"storj.io/drpc/drpchttp"
	"storj.io/drpc/drpcmetadata"
	"verifharness/corr"
)

const maxSize = drpchttp.VerifMaxSize

// ---------------------------------------------------------------- blobs

// seg is a run of bytes: either literal or n copies of one byte.
type seg struct {
	lit  []byte
	fill byte
	n    int
}

type blob []seg

func lit(b []byte) blob { return blob{{lit: b}} }
func str(s string) blob { return blob{{lit: []byte(s)}} }
func fill(c byte, n int) blob {
	return blob{{fill: c, n: n}}
}

func (b blob) bytes() []byte {
	var out []byte
	for _, s := range b {
		if s.lit != nil || s.n == 0 {
			out = append(out, s.lit...)
		} else {
			out = append(out, bytes.Repeat([]byte{s.fill}, s.n)...)
		}
	}
	if out == nil {
		out = []byte{}
	}
	return out
}

func (b blob) String() string {
	var parts []string
	for _, s := range b {
		if s.lit != nil || s.n == 0 {
			if len(s.lit) > 0 {
				parts = append(parts, hex.EncodeToString(s.lit))
			}
		} else {
			parts = append(parts, fmt.Sprintf("z%02x*%d", s.fill, s.n))
		}
	}
	if len(parts) == 0 {
		return "-"
	}
	return strings.Join(parts, "+")
}

func blobList(bs []blob) string {
	if len(bs) == 0 {
		return "."
	}
	parts := make([]string, len(bs))
	for i, b := range bs {
		parts[i] = b.String()
	}
	return strings.Join(parts, ",")
}

// digest mirrors Drpc.Driver.Http.digest.
func digest(b []byte) string {
	if len(b) <= 1024 {
		return corr.Hex(b)
	}
	h := uint64(7)
	for _, x := range b {
		h = (h*257 + uint64(x) + 1) % 2147483629
	}
	return fmt.Sprintf("len:%d,h:%d", len(b), h)
}

// ---------------------------------------------------------------- error values from a description

type node struct {
	kind  byte // 'w' wrap, 'c' cause, 'n' coded, 't' twirp, 'b' badCode
	code  uint64
	s     string
	count int // repeat (>=1)
}

type errDesc struct {
	isNil   bool
	chain   []node
	nilWrap bool
	msg     blob
}

func (d errDesc) String() string {
	if d.isNil {
		return "nil"
	}
	var parts []string
	for _, n := range d.chain {
		var p string
		switch n.kind {
		case 'n':
			p = "n" + strconv.FormatUint(n.code, 10)
		case 't':
			p = "t" + corr.Hex([]byte(n.s))
		default:
			p = string(n.kind)
		}
		if n.count > 1 {
			p += "^" + strconv.Itoa(n.count)
		}
		parts = append(parts, p)
	}
	ch := "-"
	if len(parts) > 0 {
		ch = strings.Join(parts, ".")
	}
	end := "leaf"
	if d.nilWrap {
		end = "nilw"
	}
	return ch + "/" + end + "/" + d.msg.String()
}

type leafErr struct{ msg string }

func (e *leafErr) Error() string { return e.msg }

type nilWrapErr struct{ msg string }

func (e *nilWrapErr) Error() string { return e.msg }
func (e *nilWrapErr) Unwrap() error { return nil }

type wrapErr struct{ inner error }

func (e *wrapErr) Error() string { return e.inner.Error() }
func (e *wrapErr) Unwrap() error { return e.inner }

type causeErr struct{ inner error }

func (e *causeErr) Error() string { return e.inner.Error() }
func (e *causeErr) Cause() error  { return e.inner }

type codedErr struct {
	inner error
	code  uint64
}

func (e *codedErr) Error() string { return e.inner.Error() }
func (e *codedErr) Unwrap() error { return e.inner }
func (e *codedErr) Code() uint64  { return e.code }

type twirpErr struct {
	inner error
	code  string
}

func (e *twirpErr) Error() string { return e.inner.Error() }
func (e *twirpErr) Unwrap() error { return e.inner }
func (e *twirpErr) Code() string  { return e.code }

type badCodeErr struct{ inner error }

func (e *badCodeErr) Error() string   { return e.inner.Error() }
func (e *badCodeErr) Unwrap() error   { return e.inner }
func (e *badCodeErr) Code(int) string { return "bad-signature" }

// build constructs the error value; useDrpcerr uses drpcerr.WithCode for non-zero coded nodes.
func (d errDesc) build(useDrpcerr bool) error {
	if d.isNil {
		return nil
	}
	msg := string(d.msg.bytes())
	var err error = &leafErr{msg}
	if d.nilWrap {
		err = &nilWrapErr{msg}
	}
	for i := len(d.chain) - 1; i >= 0; i-- {
		n := d.chain[i]
		c := n.count
		if c < 1 {
			c = 1
		}
		for k := 0; k < c; k++ {
			switch n.kind {
			case 'w':
				err = &wrapErr{err}
			case 'c':
				err = &causeErr{err}
			case 'n':
				if useDrpcerr && n.code != 0 {
					err = drpcerr.WithCode(err, n.code)
				} else {
					err = &codedErr{err, n.code}
				}
			case 't':
				err = &twirpErr{err, n.s}
			case 'b':
				err = &badCodeErr{err}
			}
		}
	}
	return err
}

// ---------------------------------------------------------------- pass-through encoding

type rawEnc struct{}

func (rawEnc) Marshal(msg drpc.Message) ([]byte, error) {
	p := msg.(*[]byte)
	return append([]byte{}, *p...), nil
}

func (rawEnc) Unmarshal(buf []byte, msg drpc.Message) error {
	p := msg.(*[]byte)
	*p = append([]byte{}, buf...)
	return nil
}

// ---------------------------------------------------------------- scripted handler

type script struct {
	recv   bool
	echo   bool
	stop   bool
	msgs   []blob
	result errDesc
	drpc   bool // build coded nodes with drpcerr.WithCode
}

type handler struct {
	sc       script
	acks     []error
	sent     [][]byte // messages whose MsgSend returned nil
	recvd    []byte
	recvErr  error
	recvDone bool
	md       map[string]string
	mdOK     bool
	ret      error
}

var errUnmarshal = errors.New("verif: unmarshal")

func (h *handler) HandleRPC(st drpc.Stream, rpc string) (err error) {
	defer func() { h.ret = err }()
	md, ok := drpcmetadata.Get(st.Context())
	h.mdOK = ok
	h.md = map[string]string{}
	for k, v := range md {
		h.md[k] = v
	}
	var msgs [][]byte
	if h.sc.recv {
		var m []byte
		err := st.MsgRecv(&m, rawEnc{})
		h.recvDone = true
		if err != nil {
			var se *json.SyntaxError
			var ue *json.UnmarshalTypeError
			var ce base64.CorruptInputError
			if errors.As(err, &se) || errors.As(err, &ue) || errors.As(err, &ce) {
				err = errUnmarshal
			}
			h.recvErr = err
			return err
		}
		h.recvd = m
		if h.sc.echo {
			msgs = append(msgs, m)
		}
	}
	for _, b := range h.sc.msgs {
		msgs = append(msgs, b.bytes())
	}
	for _, m := range msgs {
		m := m
		err := st.MsgSend(&m, rawEnc{})
		h.acks = append(h.acks, err)
		if err == nil {
			h.sent = append(h.sent, m)
		} else if h.sc.stop {
			return err
		}
	}
	return h.sc.result.build(h.sc.drpc)
}

func (h *handler) HandleRPCNoop() {}

func ackClass(err error) string {
	switch {
	case err == nil:
		return "o"
	case err == io.EOF: //nolint
		return "E"
	case strings.Contains(err.Error(), "message too large"):
		return "L"
	}
	return "?(" + hex.EncodeToString([]byte(err.Error())) + ")"
}

type request struct {
	ct   string
	noCT bool // header absent (same as "")
	hdrs []blob
	body blob
	sc   script

	// what the direct oracles know about a request built from known parts (not sent to the model)
	wantMD  map[string]string // metadata the handler must see (nil: some header is malformed on purpose)
	payload blob              // the request message the body carries (nil: body malformed on purpose)
	wireLen int               // its marshalled length
}

type outcome struct {
	h        *handler
	rec      *httptest.ResponseRecorder
	panicked bool
	panicMsg string
}

// how the request body is presented to the gateway (the bytes are the same)
const (
	bodyDeclared  = iota // Content-Length declared, body readable in one piece
	bodyUndeclared       // length not declared (chunked upload): Request.ContentLength = -1
	bodyTrickle          // undeclared, and every Read returns one byte
)

// plainReader hides the concrete type of the body so that net/http cannot derive a length from it;
// with `one` every Read returns at most one byte.
type plainReader struct {
	r   io.Reader
	one bool
}

func (p plainReader) Read(b []byte) (int, error) {
	if p.one && len(b) > 1 {
		b = b[:1]
	}
	return p.r.Read(b)
}

func serve(rq request) (out outcome) { return serveAs(rq, bodyDeclared) }

func serveAs(rq request, mode int) (out outcome) {
	h := &handler{sc: rq.sc}
	out.h = h
	rec := httptest.NewRecorder()
	out.rec = rec
	var body io.Reader = bytes.NewReader(rq.body.bytes())
	if mode != bodyDeclared {
		body = plainReader{r: body, one: mode == bodyTrickle}
	}
	req := httptest.NewRequest("POST", "/service.Server/Method", body)
	if mode != bodyDeclared {
		req.TransferEncoding = []string{"chunked"}
	}
	if !rq.noCT {
		req.Header["Content-Type"] = []string{rq.ct}
	}
	if len(rq.hdrs) > 0 {
		var vals []string
		for _, b := range rq.hdrs {
			vals = append(vals, string(b.bytes()))
		}
		req.Header["X-Drpc-Metadata"] = vals
	}
	defer func() {
		if r := recover(); r != nil {
			out.panicked = true
			out.panicMsg = fmt.Sprint(r)
		}
	}()
	drpchttp.New(h).ServeHTTP(rec, req)
	return out
}

func jsonRoundTrip(s string) string {
	b, err := json.Marshal(s)
	if err != nil {
		return "\x00marshal-failed"
	}
	var out string
	if err := json.Unmarshal(b, &out); err != nil {
		return "\x00unmarshal-failed"
	}
	return out
}

func mdString(h *handler) string {
	if !h.mdOK || len(h.md) == 0 {
		return "none"
	}
	keys := make([]string, 0, len(h.md))
	for k := range h.md {
		keys = append(keys, k)
	}
	sort.Strings(keys)
	parts := make([]string, len(keys))
	for i, k := range keys {
		parts[i] = corr.Hex([]byte(k)) + ":" + corr.Hex([]byte(h.md[k]))
	}
	return strings.Join(parts, ";")
}

// answer renders what the model's `http.serve` prints.
func (out outcome) answer() string {
	if out.panicked {
		return "panic"
	}
	h, rec := out.h, out.rec
	ct := rec.Header().Get("Content-Type")
	body := rec.Body.Bytes()
	var bodyS string
	if h.ret != nil && rec.Code != 200 && ct == "application/json" {
		// Twirp error body: compare after parsing it back (encoding/json is not modelled byte for byte)
		var obj map[string]json.RawMessage
		var code, msg string
		ok := json.Unmarshal(body, &obj) == nil && len(obj) == 2
		if ok {
			ok = json.Unmarshal(obj["code"], &code) == nil && json.Unmarshal(obj["msg"], &msg) == nil
		}
		if !ok {
			bodyS = "json UNPARSABLE " + digest(body)
		} else {
			// what the handler returned, up to the replacement encoding/json applies to invalid UTF-8
			wantMsg := h.ret.Error()
			wantCode := drpchttp.VerifGetCode(h.ret)
			if msg == jsonRoundTrip(wantMsg) {
				msg = wantMsg
			} else {
				msg = "MISMATCH:" + msg
			}
			if code == jsonRoundTrip(wantCode) {
				code = wantCode
			} else {
				code = "MISMATCH:" + code
			}
			bodyS = "json code=" + corr.Hex([]byte(code)) + " msg=" + digest([]byte(msg))
		}
	} else {
		bodyS = "body=" + digest(body)
	}
	recv := "-"
	if h.recvDone {
		if h.recvErr != nil {
			recv = "err"
		} else {
			recv = "ok"
		}
	}
	acks := "-"
	if len(h.acks) > 0 {
		acks = ""
		for _, a := range h.acks {
			acks += ackClass(a)
		}
	}
	return fmt.Sprintf("status=%d ct=%s %s recv=%s acks=%s md=%s", rec.Code, ct, bodyS, recv, acks, mdString(h))
}

func (rq request) line() string {
	ct := rq.ct
	if rq.noCT {
		ct = ""
	}
	return fmt.Sprintf("http.serve ct=%s hdrs=%s body=%s recv=%s echo=%s stop=%s msgs=%s err=%s",
		corr.Hex([]byte(ct)), blobList(rq.hdrs), rq.body.String(), corr.B01(rq.sc.recv), corr.B01(rq.sc.echo),
		corr.B01(rq.sc.stop), blobList(rq.sc.msgs), rq.sc.result.String())
}

// ---------------------------------------------------------------- allocation measurement

// allocated runs f and returns the heap bytes allocated meanwhile (single goroutine).
func allocated(f func()) uint64 {
	var a, b runtime.MemStats
	runtime.ReadMemStats(&a)
	f()
	runtime.ReadMemStats(&b)
	return b.TotalAlloc - a.TotalAlloc
}

// ---------------------------------------------------------------- suite

type gen struct{ o *corr.Out }

func Run(o *corr.Out) {
	g := gen{o}
	g.regressions()
	g.unescapeCases()
	g.contextCases()
	g.getCodeCases()
	g.stdlibCases()
	g.readCases()
	g.serveCases()
}

var _ http.Handler = drpchttp.New(nil)
