// Package director runs real drpc objects under a controlled environment: every transport
// call parks until the director releases it, API calls are issued on named goroutines, and
// Settle waits for true quiescence, detected with one stop-the-world runtime.Stack snapshot in
// which every goroutine other than the director is in a wait state that only another goroutine
// (or the director) can end.
package director

import (
	"bytes"
	"fmt"
	"regexp"
	"runtime"
	"sort"
	"strings"
	"sync"
	"time"
)

type op struct {
	name   string
	done   bool
	result string
}

type D struct {
	mu      sync.Mutex
	ops     map[string]*op
	order   []string
	Timeout time.Duration
	self    string // goroutine id of the director

	goOp   map[string]string       // goroutine id -> operation name (for goroutines started by Go)
	points map[string]*parkedPoint // operation name (or "g<id>") -> where it is parked
}

type parkedPoint struct {
	name string
	ch   chan struct{}
}

func New() *D {
	return &D{ops: map[string]*op{}, Timeout: 15 * time.Second, self: goid(), goOp: map[string]string{}, points: map[string]*parkedPoint{}}
}

var goidRe = regexp.MustCompile(`^goroutine (\d+) \[`)

func goid() string {
	var buf [64]byte
	n := runtime.Stack(buf[:], false)
	m := goidRe.FindSubmatch(buf[:n])
	if m == nil {
		return "?"
	}
	return string(m[1])
}

// Go runs f on a new goroutine as the operation `name`; its result is recorded when it returns.
// A panic inside f is caught and becomes the result "panic:<value>".
func (d *D) Go(name string, f func() string) {
	o := &op{name: name}
	d.mu.Lock()
	d.ops[name] = o
	d.order = append(d.order, name)
	d.mu.Unlock()
	go func() {
		var res string
		id := goid()
		d.mu.Lock()
		d.goOp[id] = name
		d.mu.Unlock()
		defer func() {
			if r := recover(); r != nil {
				res = fmt.Sprintf("panic:%v", r)
			}
			d.mu.Lock()
			o.result, o.done = res, true
			delete(d.goOp, id)
			d.mu.Unlock()
		}()
		res = f()
	}()
}

// Result reports whether the operation has returned, and its result.
func (d *D) Result(name string) (string, bool) {
	d.mu.Lock()
	defer d.mu.Unlock()
	o := d.ops[name]
	if o == nil {
		return "", false
	}
	return o.result, o.done
}

// Pending lists the operations that have not returned, in issue order.
func (d *D) Pending() []string {
	d.mu.Lock()
	defer d.mu.Unlock()
	var p []string
	for _, n := range d.order {
		if !d.ops[n].done {
			p = append(p, n)
		}
	}
	return p
}

// PointHook is meant to be installed with drpcdebug.SetPointHook: the calling goroutine parks at the
// named point until the director releases it.  Only goroutines selected by `filter` (operation name,
// point name) park; filter == nil parks every goroutine started by Go.
func (d *D) PointHook(filter func(op, point string) bool) func(string) {
	return func(point string) {
		id := goid()
		d.mu.Lock()
		opName, ok := d.goOp[id]
		if !ok {
			opName = "g" + id
		}
		if !ok && filter == nil || filter != nil && !filter(opName, point) {
			d.mu.Unlock()
			return
		}
		pp := &parkedPoint{name: point, ch: make(chan struct{})}
		d.points[opName] = pp
		d.mu.Unlock()
		<-pp.ch
	}
}

// ParkedAt returns the point at which the operation is parked ("" if it is not parked at a point).
func (d *D) ParkedAt(opName string) string {
	d.mu.Lock()
	defer d.mu.Unlock()
	if pp := d.points[opName]; pp != nil {
		return pp.name
	}
	return ""
}

// ParkedOps lists the operations parked at points, sorted.
func (d *D) ParkedOps() []string {
	d.mu.Lock()
	defer d.mu.Unlock()
	var out []string
	for n := range d.points {
		out = append(out, n)
	}
	sort.Strings(out)
	return out
}

// ReleasePoint lets the operation run on from the point it is parked at.
func (d *D) ReleasePoint(opName string) bool {
	d.mu.Lock()
	pp := d.points[opName]
	delete(d.points, opName)
	d.mu.Unlock()
	if pp == nil {
		return false
	}
	close(pp.ch)
	return true
}

// Lock / Unlock expose the director's mutex for harness-side bookkeeping shared with helper goroutines.
func (d *D) Lock()   { d.mu.Lock() }
func (d *D) Unlock() { d.mu.Unlock() }

// Forget drops a finished operation's record so that its name can be reused.
func (d *D) Forget(name string) {
	d.mu.Lock()
	defer d.mu.Unlock()
	delete(d.ops, name)
	for i, n := range d.order {
		if n == name {
			d.order = append(d.order[:i], d.order[i+1:]...)
			break
		}
	}
}

// G describes one goroutine of a snapshot.
type G struct {
	ID      string
	State   string
	Stack   string // function names, innermost first, one per line
	Creator string // id of the goroutine that started this one ("" if unknown)
}

var hdrRe = regexp.MustCompile(`^goroutine (\d+) \[([^\],]+)(?:, [^\]]*)?\]:$`)

// Snapshot takes one atomic (stop-the-world) dump of all goroutines.
func Snapshot() []G {
	buf := make([]byte, 1<<20)
	for {
		n := runtime.Stack(buf, true)
		if n < len(buf) {
			buf = buf[:n]
			break
		}
		buf = make([]byte, 2*len(buf))
	}
	var gs []G
	for _, blk := range bytes.Split(buf, []byte("\n\n")) {
		lines := strings.Split(strings.TrimSpace(string(blk)), "\n")
		if len(lines) == 0 {
			continue
		}
		m := hdrRe.FindStringSubmatch(lines[0])
		if m == nil {
			continue
		}
		g := G{ID: m[1], State: m[2]}
		var fns []string
		for _, l := range lines[1:] {
			if strings.HasPrefix(l, "created by") {
				if i := strings.LastIndex(l, " in goroutine "); i >= 0 {
					g.Creator = strings.TrimSpace(l[i+len(" in goroutine "):])
				}
				continue
			}
			if strings.HasPrefix(l, "\t") {
				continue
			}
			if i := strings.LastIndex(l, "("); i > 0 {
				l = l[:i]
			}
			fns = append(fns, l)
		}
		g.Stack = strings.Join(fns, "\n")
		gs = append(gs, g)
	}
	return gs
}

// blocked reports whether a goroutine state can only be ended by another goroutine.
func blocked(state string) bool {
	switch state {
	// NOT "semacquire": that is what runtime-internal waits (GC assist, stack growth, world stop) look like,
	// and those end by themselves.
	case "chan receive", "chan send", "select", "sync.Mutex.Lock", "sync.Cond.Wait", "sync.WaitGroup.Wait",
		"sync.RWMutex.RLock", "sync.RWMutex.Lock", "chan receive (nil chan)", "chan send (nil chan)",
		"select (no cases)":
		return true
	}
	return false
}

// ignorable goroutines: runtime/testing helpers that are not part of the system under test.
func ignorable(g G) bool {
	return strings.Contains(g.Stack, "os/signal.") || strings.Contains(g.Stack, "runtime.ensureSigM") ||
		strings.Contains(g.Stack, "testing.(*T).Run") || strings.Contains(g.Stack, "testing.tRunner.func") && g.State == "chan receive"
}

// Settle waits until the process is quiescent: every goroutine except the director is blocked.
// It returns the final snapshot, or an error describing the goroutines that keep running
// (busy loop, sleep, timer, I/O) when the timeout expires.
func (d *D) Settle() ([]G, error) {
	deadline := time.Now().Add(d.Timeout)
	spins := 0
	for {
		gs := Snapshot()
		var busy []G
		for _, g := range gs {
			if g.ID == d.self || ignorable(g) {
				continue
			}
			if !blocked(g.State) {
				busy = append(busy, g)
			}
		}
		if len(busy) == 0 {
			// confirm with a second snapshot after yielding: identical goroutine states
			sig := signature(gs, d.self)
			runtime.Gosched()
			gs2 := Snapshot()
			if signature(gs2, d.self) == sig {
				return gs2, nil
			}
			continue
		}
		if time.Now().After(deadline) {
			var sb strings.Builder
			for _, g := range busy {
				fmt.Fprintf(&sb, "[g%s %s: %s] ", g.ID, g.State, firstLine(g.Stack))
			}
			return gs, fmt.Errorf("not quiescent after %v: %s", d.Timeout, sb.String())
		}
		spins++
		if spins < 50 {
			runtime.Gosched()
		} else {
			time.Sleep(50 * time.Microsecond)
		}
	}
}

func signature(gs []G, self string) string {
	var sb strings.Builder
	for _, g := range gs {
		if g.ID == self {
			continue
		}
		sb.WriteString(g.ID)
		sb.WriteByte(':')
		sb.WriteString(g.State)
		sb.WriteByte(':')
		sb.WriteString(firstLine(g.Stack))
		sb.WriteByte(';')
	}
	return sb.String()
}

func firstLine(s string) string {
	if i := strings.IndexByte(s, '\n'); i >= 0 {
		return s[:i]
	}
	return s
}

// Census summarises, for a quiescent snapshot, the goroutines that are blocked inside drpc code:
// sorted list of "function@waitstate" (innermost storj.io/drpc frame).
func (d *D) Census(gs []G) []string {
	var out []string
	for _, g := range gs {
		if g.ID == d.self || ignorable(g) {
			continue
		}
		for _, fn := range strings.Split(g.Stack, "\n") {
			if strings.Contains(fn, "storj.io/drpc/") {
				fn = fn[strings.Index(fn, "storj.io/drpc/")+len("storj.io/drpc/"):]
				out = append(out, fn+"@"+g.State)
				break
			}
		}
	}
	sort.Strings(out)
	return out
}

// CensusBy is Census restricted to goroutines whose chain of creators leads to the goroutine `root`
// (own = true) or does not (own = false).  A manager's goroutines are started by whoever created the
// manager, so this separates the two endpoints of a connection living in one process.
func (d *D) CensusBy(gs []G, root string, own bool) []string {
	parent := map[string]string{}
	for _, g := range gs {
		parent[g.ID] = g.Creator
	}
	descends := func(id string) bool {
		for i := 0; i < 50 && id != ""; i++ {
			if id == root {
				return true
			}
			id = parent[id]
		}
		return false
	}
	var out []string
	for _, g := range gs {
		if g.ID == d.self || ignorable(g) || descends(g.ID) != own || g.ID == root {
			continue
		}
		for _, fn := range strings.Split(g.Stack, "\n") {
			if strings.Contains(fn, "storj.io/drpc/") {
				fn = fn[strings.Index(fn, "storj.io/drpc/")+len("storj.io/drpc/"):]
				out = append(out, fn+"@"+g.State)
				break
			}
		}
	}
	sort.Strings(out)
	return out
}

// Self returns the goroutine id of the director.
func (d *D) Self() string { return d.self }

// OpGoroutine returns the goroutine id an operation runs on ("" once it has returned).
func (d *D) OpGoroutine(name string) string {
	d.mu.Lock()
	defer d.mu.Unlock()
	for id, n := range d.goOp {
		if n == name {
			return id
		}
	}
	return ""
}

// ---------------------------------------------------------------- parkable writer

type pendingWrite struct {
	data []byte
	ch   chan writeResult
}

type writeResult struct {
	n   int
	err error
}

// Writer is an io.Writer whose every Write parks until the director releases it.
// With AutoOK set it completes writes immediately (recording them) instead of parking.
type Writer struct {
	mu      sync.Mutex
	pending []*pendingWrite
	Done    [][]byte // completed writes (what reached "the wire"), in order
	AutoOK  bool
	Max     int            // number of overlapping writes ever observed (must stay 1)
	OnWrite func(p []byte) // called at the entry of every Write, before it parks or completes
}

func (w *Writer) Write(p []byte) (int, error) {
	if w.OnWrite != nil {
		w.OnWrite(p)
	}
	cp := append([]byte(nil), p...)
	w.mu.Lock()
	if w.AutoOK {
		w.Done = append(w.Done, cp)
		w.mu.Unlock()
		return len(p), nil
	}
	pw := &pendingWrite{data: cp, ch: make(chan writeResult, 1)}
	w.pending = append(w.pending, pw)
	if len(w.pending) > w.Max {
		w.Max = len(w.pending)
	}
	w.mu.Unlock()
	r := <-pw.ch
	return r.n, r.err
}

// Parked returns the payloads of the writes currently parked.
func (w *Writer) Parked() [][]byte {
	w.mu.Lock()
	defer w.mu.Unlock()
	var out [][]byte
	for _, p := range w.pending {
		out = append(out, p.data)
	}
	return out
}

// Release completes the oldest parked write: with err == nil all its bytes are recorded as written.
func (w *Writer) Release(err error) bool {
	w.mu.Lock()
	if len(w.pending) == 0 {
		w.mu.Unlock()
		return false
	}
	pw := w.pending[0]
	w.pending = w.pending[1:]
	n := 0
	if err == nil {
		n = len(pw.data)
		w.Done = append(w.Done, pw.data)
	}
	w.mu.Unlock()
	pw.ch <- writeResult{n, err}
	return true
}

// SetAuto switches between parking and auto-completing mode.
func (w *Writer) SetAuto(auto bool) {
	w.mu.Lock()
	w.AutoOK = auto
	w.mu.Unlock()
}

// DoneCopy returns a snapshot of the completed writes.
func (w *Writer) DoneCopy() [][]byte {
	w.mu.Lock()
	defer w.mu.Unlock()
	return append([][]byte(nil), w.Done...)
}

// Wire returns the concatenation of all completed writes.
func (w *Writer) Wire() []byte {
	w.mu.Lock()
	defer w.mu.Unlock()
	var out []byte
	for _, d := range w.Done {
		out = append(out, d...)
	}
	return out
}
