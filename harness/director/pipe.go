package director

import (
	"errors"
	"io"
	"sync"
)

// Pipe is an in-memory duplex byte transport between two ends whose every step is under the
// director's control.  A Write hands its bytes to the other end's inbound queue and (in manual
// mode) parks until the director acknowledges it; a Read parks until the director has released
// bytes to it.  Close makes every pending and later Read/Write on that end fail and lets the
// peer read what was already released, then io.EOF.
type Pipe struct {
	mu   sync.Mutex
	cond *sync.Cond
	ends [2]*End
	// Flow: writes complete at once and all written bytes are readable at once.
	Flow bool
	// LazyClose: closing an end does not by itself fail a Write that is already parked on that end;
	// the parked Write fails only when the director acknowledges it (a transport that lets go of
	// pending I/O late).
	LazyClose bool
}

type End struct {
	p    *Pipe
	idx  int
	name string

	inbound   []byte // bytes written by the peer, not yet released to Read
	readable  []byte // released bytes
	peerGone  bool   // the peer closed: after `readable` drains, Read returns EOF
	closed    bool
	closes    int
	readErr   error // injected: the next Read fails with it
	writeErr  error // injected: the next (or the parked) Write fails with it
	wParked   bool
	wAck      bool
	wLen      int
	rParked   bool
	MaxWrites int // concurrent Write calls ever seen (must stay ≤ 1)
	MaxReads  int
	inW, inR  int
	Written   []byte // everything accepted from Write calls on this end, in order
	ReadSizes []int
}

var ErrClosedPipe = errors.New("director pipe: closed")

func NewPipe() (*Pipe, *End, *End) {
	p := &Pipe{}
	p.cond = sync.NewCond(&p.mu)
	a := &End{p: p, idx: 0, name: "A"}
	b := &End{p: p, idx: 1, name: "B"}
	p.ends = [2]*End{a, b}
	return p, a, b
}

func (e *End) peer() *End { return e.p.ends[1-e.idx] }

func (e *End) Write(b []byte) (int, error) {
	p := e.p
	p.mu.Lock()
	defer p.mu.Unlock()
	e.inW++
	if e.inW > e.MaxWrites {
		e.MaxWrites = e.inW
	}
	defer func() { e.inW-- }()
	if e.closed {
		return 0, ErrClosedPipe
	}
	if e.writeErr != nil {
		err := e.writeErr
		return 0, err
	}
	if e.peer().closed {
		return 0, io.ErrClosedPipe
	}
	e.Written = append(e.Written, b...)
	pe := e.peer()
	if p.Flow {
		pe.readable = append(pe.readable, b...)
		p.cond.Broadcast()
		return len(b), nil
	}
	pe.inbound = append(pe.inbound, b...)
	e.wParked, e.wAck, e.wLen = true, false, len(b)
	p.cond.Broadcast()
	for !e.wAck && !(e.closed && !p.LazyClose) && e.writeErr == nil {
		p.cond.Wait()
	}
	if e.wAck && e.closed {
		e.wParked = false
		return 0, ErrClosedPipe
	}
	e.wParked = false
	switch {
	case e.wAck:
		return len(b), nil
	case e.writeErr != nil:
		return 0, e.writeErr
	default:
		return 0, ErrClosedPipe
	}
}

func (e *End) Read(b []byte) (int, error) {
	p := e.p
	p.mu.Lock()
	defer p.mu.Unlock()
	e.inR++
	if e.inR > e.MaxReads {
		e.MaxReads = e.inR
	}
	defer func() { e.inR-- }()
	e.ReadSizes = append(e.ReadSizes, len(b))
	for {
		switch {
		case e.closed:
			return 0, ErrClosedPipe
		case e.readErr != nil:
			return 0, e.readErr
		case len(e.readable) > 0:
			n := copy(b, e.readable)
			e.readable = e.readable[n:]
			return n, nil
		case e.peerGone && len(e.inbound) == 0:
			return 0, io.EOF
		}
		e.rParked = true
		p.cond.Wait()
		e.rParked = false
	}
}

// Break is the harness' way to take an end down from outside (the peer or the network went away):
// like Close, but not counted as a Close call of the code under test.
func (e *End) Break() {
	e.p.mu.Lock()
	e.closes--
	e.p.mu.Unlock()
	_ = e.Close()
}

func (e *End) Close() error {
	p := e.p
	p.mu.Lock()
	defer p.mu.Unlock()
	e.closes++
	if e.closed {
		return ErrClosedPipe
	}
	e.closed = true
	e.peer().peerGone = true
	if p.Flow {
		// nothing held back
	}
	p.cond.Broadcast()
	return nil
}

// ---- director side ----

// Status is a consistent view of one end.
type Status struct {
	WriteParked bool
	WriteLen    int
	ReadParked  bool
	Inbound     int // bytes written by the peer and not yet released to this end's reader
	Readable    int
	Closed      bool
	Closes      int
}

func (e *End) Status() Status {
	e.p.mu.Lock()
	defer e.p.mu.Unlock()
	return Status{e.wParked && !e.wAck, e.wLen, e.rParked, len(e.inbound), len(e.readable), e.closed, e.closes}
}

// Ack completes the parked Write of this end (its bytes stay queued for the peer until Deliver).
func (e *End) Ack() bool {
	e.p.mu.Lock()
	defer e.p.mu.Unlock()
	if !e.wParked || e.wAck {
		return false
	}
	e.wAck = true
	e.p.cond.Broadcast()
	return true
}

// Deliver releases up to n queued bytes (n < 0: all) to this end's reader.
func (e *End) Deliver(n int) int {
	e.p.mu.Lock()
	defer e.p.mu.Unlock()
	if n < 0 || n > len(e.inbound) {
		n = len(e.inbound)
	}
	e.readable = append(e.readable, e.inbound[:n]...)
	e.inbound = e.inbound[n:]
	e.p.cond.Broadcast()
	return n
}

// FailWrite makes the parked (or next) Write of this end fail.
func (e *End) FailWrite(err error) {
	e.p.mu.Lock()
	defer e.p.mu.Unlock()
	e.writeErr = err
	e.p.cond.Broadcast()
}

// FailRead makes the parked (or next) Read of this end fail.
func (e *End) FailRead(err error) {
	e.p.mu.Lock()
	defer e.p.mu.Unlock()
	e.readErr = err
	e.p.cond.Broadcast()
}

// SetFlow switches the pipe between flowing and manual mode; switching to flow acknowledges parked
// writes and releases everything queued.
func (p *Pipe) SetFlow(flow bool) {
	p.mu.Lock()
	defer p.mu.Unlock()
	p.Flow = flow
	if flow {
		for _, e := range p.ends {
			if e.wParked {
				e.wAck = true
			}
			e.readable = append(e.readable, e.inbound...)
			e.inbound = nil
		}
		p.cond.Broadcast()
	}
}

// SetLazyClose switches the LazyClose behaviour.
func (p *Pipe) SetLazyClose(lazy bool) {
	p.mu.Lock()
	p.LazyClose = lazy
	p.mu.Unlock()
}

// WrittenCopy returns everything this end has written so far.
func (e *End) WrittenCopy() []byte {
	e.p.mu.Lock()
	defer e.p.mu.Unlock()
	return append([]byte(nil), e.Written...)
}

// Limits returns the maximal number of overlapping Write and Read calls seen on this end.
func (e *End) Limits() (writes, reads int) {
	e.p.mu.Lock()
	defer e.p.mu.Unlock()
	return e.MaxWrites, e.MaxReads
}
