// dbg2: run one e2e scenario: dbg2 <soft 0|1> <actions...>
package main

import (
	"fmt"
	"os"
	"strings"

	"verifharness/suites/e2e"
)

func main() {
	cfg := e2e.Config{Soft: os.Args[1] == "1"}
	if v := os.Getenv("WBUF"); v != "" {
		fmt.Sscan(v, &cfg.WBuf)
	}
	if v := os.Getenv("SPLIT"); v != "" {
		fmt.Sscan(v, &cfg.Split)
	}
	w := e2e.NewWorld(cfg)
	fmt.Println("start =>", w.Do("noop"))
	for _, a := range os.Args[2:] {
		fmt.Println(a, "=>", w.Do(a))
		fmt.Println("      census:", strings.Join(w.LastObs().Census, " | "))
	}
	fmt.Println("leftover after cleanup:", w.Cleanup())
}
