// dbg: run one stream scenario (actions as arguments) and print observations + census of blocked goroutines
package main

import (
	"fmt"
	"os"
	"strconv"

	"verifharness/director"
	"verifharness/suites/stream"
)

func main() {
	split, _ := strconv.Atoi(os.Args[1])
	manual := os.Args[2] == "1"
	wsize, _ := strconv.Atoi(os.Args[3])
	w := stream.NewWorld(split, manual, wsize)
	for _, a := range os.Args[4:] {
		fmt.Println(a, "=>", w.Do(a))
	}
	gs := director.Snapshot()
	for _, g := range gs {
		fmt.Printf("g%s [%s]\n%s\n\n", g.ID, g.State, g.Stack)
	}
}
