// corre2e <suite> [-seed N] [-thorough] : development build of the connection-level suites only
// (e2e, stream, meta), so that work on them does not depend on the other suites compiling.
package main

import (
	"flag"
	"fmt"
	"os"

	"verifharness/corr"
	"verifharness/suites/e2e"
	"verifharness/suites/meta"
	streamsuite "verifharness/suites/stream"
)

func main() {
	suites := map[string]func(*corr.Out){"e2e": e2e.Run, "stream": streamsuite.Run, "meta": meta.Run}
	if len(os.Args) < 2 || suites[os.Args[1]] == nil {
		fmt.Fprintln(os.Stderr, "usage: corre2e e2e|stream|meta [-seed N] [-thorough]")
		os.Exit(2)
	}
	fs := flag.NewFlagSet("corre2e", flag.ExitOnError)
	seed := fs.Int64("seed", 1, "PRNG seed")
	thorough := fs.Bool("thorough", false, "thorough tier")
	_ = fs.Parse(os.Args[2:])
	o := corr.New(*seed, *thorough)
	suites[os.Args[1]](o)
	o.Finish()
}
