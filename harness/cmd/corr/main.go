// corr <suite> [-seed N] [-thorough]
package main

import (
	"flag"
	"fmt"
	"os"

	"verifharness/corr"
	"verifharness/suites/compat"
	"verifharness/suites/e2e"
	"verifharness/suites/errs"
	"verifharness/suites/gen"
	httpsuite "verifharness/suites/http"
	"verifharness/suites/meta"
	"verifharness/suites/migrate"
	"verifharness/suites/pool"
	"verifharness/suites/reader"
	signalsuite "verifharness/suites/signal"
	streamsuite "verifharness/suites/stream"
	"verifharness/suites/wire"
)

var suites = map[string]func(*corr.Out){
	"compat":  compat.Run,
	"http":    httpsuite.Run,
	"errs":    errs.Run,
	"meta":    meta.Run,
	"gen":     gen.Run,
	"wire":    wire.Run,
	"migrate": migrate.Run,
	"pool":    pool.Run,
	"reader":  reader.Run,
	"signal":  signalsuite.Run,
	"e2e":     e2e.Run,
	"stream":  streamsuite.Run,
}

func main() {
	if len(os.Args) < 2 {
		fmt.Fprintln(os.Stderr, "usage: corr <suite> [-seed N] [-thorough]")
		os.Exit(2)
	}
	name := os.Args[1]
	fs := flag.NewFlagSet("corr", flag.ExitOnError)
	seed := fs.Int64("seed", 1, "PRNG seed")
	thorough := fs.Bool("thorough", false, "thorough tier")
	_ = fs.Parse(os.Args[2:])
	run, ok := suites[name]
	if !ok {
		fmt.Fprintln(os.Stderr, "unknown suite", name)
		os.Exit(2)
	}
	o := corr.New(*seed, *thorough)
	run(o)
	o.Finish()
}
