"""Claimed level, notes and technique per property (input of tools/mk_manifest.py)."""

HOOK_COMMITS = ["dc355a8", "7f77ba1", "f3aabec", "4172416", "1e9f3cf", "699f384", "43c9b4c", "4082f4a"]

NOTE_COMMON = ("Trusted: Lean 4.33.0 kernel (leanchecker re-check in the thorough tier); axioms limited to propext, "
               "Classical.choice, Quot.sound (audited per theorem on every run); no sorry/admit/native_decide/bv_decide. "
               "The Lean model is hand-written; it is tied to /repo on every run by regenerated facts (tools/extract) and by "
               "differential correspondence on sampled and enumerated inputs, so agreement outside the explored inputs is not "
               "established. ")

META = {
    "C14": dict(
        text="Full proof for the gateway model (after the three fix: commits 5275520, f0c3efe, 5ad3838, each found by a proof "
             "obligation of this property and kept expressible in the model: unescape_grow_guard_needed, getCode_guard_needed, "
             "twirp_old_reader_truncates): unescape equals an RFC 3986 reference decoder on every byte string and "
             "escape(key)=escape(value) decodes to (key,value) for every escaper covering '%' and '='; grpc-web bodies parse back "
             "(reference frame parser) to exactly the accepted messages in order plus the trailer frame, text mode decodes "
             "group-wise to the binary body; the trailer block has exactly one line per key even for a parser accepting bare CR "
             "or LF, no value contains CR/LF, grpc-status is 0 iff the RPC succeeded; Twirp status is 200 iff success, error "
             "status from the regenerated table (no entry is 200, default 500) with the {code,msg} object, the success body is the "
             "first message sent (later sends refused); request bodies over the limit are rejected, never truncated, and grpcRead "
             "allocates at most 5+maxSize and rejects an oversize declaration before allocating; getCode/unescape/buildContext/"
             "ServeHTTP never panic. Tie: 17 function fingerprints, maxSize, nlSpace, twirpStatus and defaultProtocols regenerated "
             "from the source; differential runs of VerifUnescape/BuildContext/GetCode/GrpcRead/TwirpRead and of "
             "drpchttp.New(handler).ServeHTTP on httptest.ResponseRecorder with a scripted handler against the compiled model, "
             "plus model-free oracles (net/url reference, frame/trailer parsers, status and size rules, recover).",
        design_ref="DESIGN.md §6 C14 (and the http parts of C13)",
        note=NOTE_COMMON + "encoding/json, encoding/base64, net/http and reflect are trusted stdlib; the JSON error body is compared "
             "after parsing it back. Observations outside the property: the package doc names 'application/protobuf' but the table "
             "key is 'application/proto' (the former falls back to it), and '+' in a header is not decoded as a space although "
             "the doc speaks of query-string encoding.",
        technique="Lean 4 theorems (induction over byte strings / message lists / unwrap chains, reference decoders) + regenerated tie + differential correspondence",
    ),
    "C17": dict(
        text="Partial proof. Proved for the generator model (all service / method / package names, all streaming combinations): "
             "the client stub, case i of the generated Description and the documented form '/'+full service name+'/'+method "
             "are one string (rpc_name_shared) and that string determines service and method (rpc_name_injective); the four "
             "generated method expressions are classified by the model of registerOne as the documented classes and HandleRPC "
             "supplies exactly what the generated receiver type-asserts (shapes_classified, shape_cases, foreign_shapes_rejected); "
             "NumMethods / Method(i) are complete (description_complete) and Mux.Register on the generated Description succeeds "
             "and registers every method under its rpc string (register_succeeds); under the decidable predicate CollisionFree "
             "all package-level identifiers emitted into a Go package, together with those of other generators, are pairwise "
             "distinct and client interfaces have no duplicate method (names_distinct_partial, client_iface_methods_distinct), "
             "with a counterexample theorem per excluded class (A_B vs A.B, FooUnimplemented, RegisterFoo/FooClient, Go-name "
             "clashes, a method DRPCConn, foreign declarations, the leading-underscore ambiguity of the _->__ doubling). "
             "NOT proved in Lean: that the generated file type-checks for every descriptor (needs Go's type system) - this "
             "rests on go/types over every generated descriptor and on compiling and running generated client <-> generated "
             "server for a subset. Tie: fingerprints and affix literals of every generator function and of "
             "Mux.Register/registerOne/HandleRPC regenerated from source; declaration-by-declaration comparison of the real "
             "plugin's output with the model; all method-expression arities on a real Mux.",
        design_ref="DESIGN.md §6 C17",
        note=NOTE_COMMON + "protogen and the message generators are trusted; type-correctness of generated code is evidenced by go/types "
             "and execution, not proved. Known findings: name collisions (C17-name-collision), hard-coded `context` qualifier "
             "(C17-context-qualifier).",
        technique="Lean 4 theorems (list/string injectivity, case analysis, decide) + regenerated tie + differential correspondence of the "
                  "generator's output + go/types + compile-and-run round trips",
    ),
    "C11": dict(
        text="Full proof for the codec model: varintSize's (9*bits.Len64(n)+64)/64 equals the number of bytes AppendVarint writes for "
             "every 64-bit n; Encode is byte for byte the protobuf encoding (spec encoder written from the wire rules) of "
             "message{map<string,string>=1} in iteration order; Decode(Encode(m)) returns the writes of m in order for every list of "
             "pairs (any bytes, empty strings, duplicate keys; last write wins), concatenated encodings merge, empty map <-> empty "
             "bytes, Decode never indexes out of range on any input, and the documented strictness (wrong tag, trailing bytes, unknown "
             "field, swapped or missing fields, over-long varint) is shown on concrete inputs. Full proof for NewServerStream's packet "
             "loop in isolation: the stream's context carries exactly the map of the last metadata packet with the invoke's stream "
             "id received in the same call and nothing otherwise (metadata_scoped, metadata_scoped_own_id under the reader's id "
             "monotonicity), abandoned metadata is not inherited, the last metadata packet wins, undecodable metadata ends the call "
             "with the decoder's error, consecutive calls are independent, and codec + scoping compose (client_metadata_arrives). "
             "Partial end to end: which packets reach NewServerStream (manageReader routing) is not modelled; it is exercised on a "
             "real Manager over net.Pipe with raw frames and with a real drpcconn client. Tie: fingerprints of varintSize, "
             "encodedStringSize, appendEntry, readEntry, readKeyValue, Encode, Decode, NewServerStream, doInvoke/doNewStream and the "
             "Kind constants regenerated from source; differential runs of Encode/Decode and of NewServerStream call sequences "
             "against the compiled model; direct oracles: round trip, protowire reference bytes, google.golang.org/protobuf "
             "(dynamicpb) reading and writing the same message, independent strict reference decoder, handler-sees-own-metadata.",
        design_ref="DESIGN.md §6 C11",
        note=NOTE_COMMON + "Go maps are modelled as write logs observed through last-write-wins lookup; entry sizes are assumed to fit 64 bits.",
        technique="Lean 4 theorems (induction, bit-length arithmetic, refinement to a protobuf spec encoder) + regenerated tie + differential correspondence + direct oracles incl. the protobuf library",
    ),
    "C10": dict(
        text="Full proof for the error codec and the code search: any 64-bit code and any message bytes ('%', NUL, invalid "
             "UTF-8, empty, long) survive MarshalError/UnmarshalError exactly (error_codec_roundtrip, error_roundtrip, "
             "marshal_layout), fewer than 8 bytes decode to a plain error, code 0 adds no wrapper, drpcerr.Code finds a code "
             "below any mix of fewer than 100 Cause()/Unwrap() wrappers, prefers Code() over Cause() over Unwrap(), returns 0 on "
             "every cyclic or code-less structure, and loses codes from depth 100 on (counterexample theorem replayed on the "
             "code; listed finding). Partial for the end-to-end statement: over a sequential model of drpcserver.handleRPC, "
             "drpcmux.HandleRPC and the client's HandlePacket/MsgRecv, a handler that sends k messages and returns error e "
             "makes the client receive the k messages and then an error with text e.Error() and code Code(e) "
             "(handler_error_reaches_client, through the mux: mux_handler_error_reaches_client), dispatcher failures arrive "
             "with their text (dispatcher_errors_reach_client), a nil return never yields an error "
             "(success_never_yields_error); the composition with the concurrent manager/transport is evidenced by end-to-end "
             "correspondence runs over net.Pipe, not proved. The statements hold with ManualFlush and unflushed client data (the masking "
             "defect of DESIGN §9-13 was repaired by fix 5e78564, found by this obligation; regression oracle in the suite). One "
             "excluded point is a theorem replayed on the code and listed as a finding: error after CloseSend.",
        design_ref="DESIGN.md §6 C10, §9-10, §9-13",
        note=NOTE_COMMON + "Error values are an inductive model (which methods exist, what they return, the Error() text); "
             "strconv.Quote is modelled exactly for ASCII and never-valid UTF-8 bytes only; in-order packet delivery and the "
             "absence of transport faults/cancellation are assumed for the end-to-end statement.",
        technique="Lean 4 theorems (induction on wrapper lists and message lists, arithmetic for the big-endian code) + "
                  "regenerated tie (fingerprints of 16 functions, loop bound, format strings, packet kinds) + differential "
                  "correspondence (codec, code search on real Go error values, end-to-end RPCs) + direct oracles",
    ),
    "C08": dict(
        text="Full proof for the codec model: varint and frame round trip for all 64-bit ids / 6-bit kinds / payloads, totality "
             "of the parser, exact accounting of consumed bytes, extension stability, 'need more data' for proper prefixes, "
             "equality with an arithmetic reference decoder on every byte string, and the split laws. The model is tied to "
             "drpcwire by function fingerprints regenerated from the source and by differential runs of ParseFrame / AppendFrame "
             "/ ReadVarint / AppendVarint / SplitN against the compiled model, with an independent Go reference decoder as oracle.",
        design_ref="DESIGN.md §6 C08",
        note=NOTE_COMMON + "Real Go panics / out-of-bounds reads are evidenced by the correspondence runs, not proved.",
        technique="Lean 4 theorems (induction, bit-vector extensionality) + regenerated tie + differential correspondence",
    ),
    "C09": dict(
        text="Full proof for the reader model: for every byte stream, maximum and chunking oracle the packets returned and the "
             "class of the first error equal a chunk-independent reference reassembly (run_eq_reference, chunk_independent), "
             "returned packets never exceed the maximum, the buffer capacity never exceeds 2*max+12348, packets of a stream "
             "prefix are a prefix (prefix_monotone), and ids strictly increase except across message id 2^64-1 (partial; the "
             "wrap is a listed finding with a counterexample theorem replayed on the code). The model follows reader.go after "
             "the fix: commit 355cfda, found by this proof obligation. Tie: fingerprints + maxFrameOverhead regenerated from "
             "source, differential runs of Reader.ReadPacketUsing over a scripted io.Reader comparing packets, error class and "
             "cap(r.buf) after every call.",
        design_ref="DESIGN.md §6 C09",
        note=NOTE_COMMON + "io.Reader contract assumed (0<=n<=len(p), bytes in order).",
        technique="Lean 4 theorems (induction on the stream, refinement to a chunk-independent reference) + regenerated tie + differential correspondence",
    ),
    "C18": dict(
        text="Full proof for the model pair (v0.0.17 reader incl. its bufio.Scanner buffer policy; current reader of C09): "
             "old_run_eq_reference (the released reader's result is a function of the byte stream only, for every chunking), "
             "old_reads_new (WellFormed sequence, frames <= 1 MiB encoded, packets <= the limits: the released reader returns the "
             "current reader's packets minus the control ones and the same final error), new_reads_old (everything a v0.0.17 "
             "writer produces is read identically by both, no control packets), new_emits_wellformed / old_emits_wellformed "
             "(SplitN-produced sequences with increasing ids, any split size), interop_new_to_old, "
             "control_bit_is_old_reserved_bit (the two ParseFrame are the same function on every byte string and bit 7 affects "
             "only Frame.Control) with old_skips_control_frames, unknown_control_ignored / unknown_noncontrol_internal for the "
             "HandlePacket model, soft_cancel_is_control, metadata_old_new (current encoder = protobuf spec encoding of "
             "map<string,string>=1, decoder reads it back; reuses the C11 codec lemmas), plus two theorems showing where outside "
             "WellFormed the readers differ. Tie: fingerprints of ParseFrame/AppendFrame/ReadVarint/AppendVarint/reader/writer/"
             "SplitN/SplitData/HandlePacket/SendCancel/sendPacketLocked/rawWriteLocked/terminal calls and the Kind table "
             "regenerated from source; differential runs of BOTH implementations (the unmodified release in a child process) "
             "against BOTH models on the same requests, stream-layer emission of both versions, HandlePacket on real Streams; "
             "direct oracles old(new emission) == new emission minus control, new(old emission) == old(old emission), v0.0.17 "
             "endpoint undisturbed, unknown control packet leaves the stream undisturbed, metadata cross-decoding. One listed "
             "finding: metadata that is not valid UTF-8 is emitted by the working tree and refused by v0.0.17.",
        design_ref="DESIGN.md §6 C18",
        note=NOTE_COMMON + "bufio.Scanner is standard-library code, modelled as far as ReadPacket observes it and tied by the "
             "differential runs only; v0.0.17 constants are hand-copied from the immutable release. Stream-layer emission "
             "(emitStep) and HandlePacket are tied by correspondence; the well-formedness theorems are stated for SplitN-produced "
             "packet lists with increasing ids, of which a stream's emission is an instance by construction (oracle-checked).",
        technique="Lean 4 theorems (refinement of both readers to chunk-independent references, simulation on well-formed frame "
                  "sequences) + regenerated tie + differential correspondence against the released binary and the working tree",
    ),
    "C16": dict(
        text="Full proof on the model of drpcmigrate for all three parts. prefixConn / routeConn (sequential): for every prefix, "
             "rest, read sizes and chunking of the connection the bytes read are prefix ++ rest and no Read spans the two readers "
             "(prefix_transparent, prefix_reads_never_span); io.ReadFull's outcome depends only on the bytes "
             "(read_full_chunk_independent); a registered prefix is consumed and the raw connection goes to that route, an "
             "unregistered one goes wrapped to the default listener and reads back unmodified, a short one is closed "
             "(routed_consumes_prefix, default_route_transparent, short_connection_closed). HeaderConn.Write over sync.Once as a "
             "transition system for any number of goroutines and all interleavings: header exactly once and first, whole "
             "payloads, returned n never counts header bytes, plain writes only after the header write returned, no lost "
             "wake-up (header_once_first, header_n_excludes_header, header_write_exclusive, header_waiter_has_runner). ListenMux "
             "as a transition system (unbounded connections, Accept callers, routed listeners; Route, routeConn, Accept, Close, "
             "monitorListener, Run, cancel, base failure): every connection is returned by exactly one Accept or closed exactly "
             "once, by the listener registered for its first N bytes (delivered_exactly_once_or_closed, "
             "delivered_to_registered_route); in every quiescent state of a stopped mux all listeners are closed with an error, "
             "no Accept is pending, no connection is parked in routeConn and Run has returned (stopped_mux_fails_accept, "
             "accept_on_closed_listener_errors); Route with a wrong-length prefix is the only panic (route_lookup_exact, "
             "only_route_panics). One listed finding with a counterexample theorem replayed on the code: a client that stalls "
             "inside the prefix is never closed, not even after Run returned (stalled_connection_counterexample, "
             "C16-stalled-prefix). Tie: function fingerprints + DRPCHeader regenerated from source; differential runs of the real "
             "ListenMux / HeaderConn against the compiled model on all splits of short streams, all orders of parked header "
             "writes and enumerated / random mux schedules run to quiescence, with direct oracles (byte transparency, routed by "
             "prefix, header once and first, exactly once, Accept fails after stop, no goroutine left).",
        design_ref="DESIGN.md §6 C16",
        note=NOTE_COMMON + "Non-blocking critical sections of m.mu and the once functions are atomic steps of the routing model; "
             "the link between the routing transition system and the byte-level reader model is the shared key "
             "(first N bytes) and is not itself a theorem.",
        technique="Lean 4 theorems (induction; inductive invariants over transition systems with unbounded threads, grind per "
                  "step and conjunct) + regenerated tie + differential correspondence / trace validation at quiescence",
    ),
    "C03": dict(
        text="Proof, partial (growing): the stream is modelled as an atomic-step transition system (Drpc/Stream/Conc.lean: every "
             "lock acquisition, held-flag store, signal set, writer append, transport write begin/end, packet-buffer wait of "
             "stream.go/pktbuf.go/inspectmu.go, unbounded threads). Proved for every quiet state: terminal calls are idempotent, "
             "nothing is emitted by calls issued after termination, sends after a remote error/cancel give EOF, receives after a "
             "remote half-close give EOF and after a cancel the context error, unknown control packets are ignored, unknown "
             "non-control packets and Invoke on an existing stream terminate with the documented errors, foreign-id and "
             "post-termination packets are ignored. The model is tied to the code by fingerprints of every stream/pktbuf/"
             "writer function and by trace validation at quiescent points of real Stream objects under a director (sequential "
             "and parked histories); for this property a model/implementation difference on a history IS the violation "
             "(the property says behaviour equals the state machine).",
        design_ref="DESIGN.md §6 C03, Appendix A.3",
        note=NOTE_COMMON + "Go runtime semantics of sync/atomic trusted; interleavings inside one quiescence-to-quiescence step are "
             "covered by the model's theorems, not by the trace validation.",
        technique="Lean 4 theorems over an atomic-step model (symbolic execution of call sequences) + regenerated tie + trace validation under a director",
    ),
    "C15": dict(
        text="Full proof for the pool model (drpcpool/pool.go + entry.go as repaired by three fix commits found by this "
             "proof obligation): for ALL sequences of Put/Take/Close, timer firings, the two callback phases and peer "
             "close/block/unblock events, any Capacity/KeyCapacity (positive, zero, negative), expiration on or off: both lists "
             "are duplicate-free with the same members, stored counts equal lengths and every linked entry sits in the list "
             "registered under its key (lists_consistent); cached <= Capacity, per key <= KeyCapacity, nothing cached when "
             "negative (bounded); Take returns only an entry that was cached under that key, open, unblocked, with its timer "
             "not fired, and unlinks it (take_sound); no entry is returned twice (exclusive_handout); every entry is in exactly "
             "one of cached / handed out / closed by the pool / dropped-because-closed / owned by its expiry callback, never "
             "handed out and closed, and at quiescence handed out xor closed (ownership, never_handed_out_and_closed, "
             "ownership_at_quiescence, closed_pool_owns_nothing); for callers that only put connections they hold, a held "
             "connection has no linked and no fired-but-unclosed entry and no connection is cached twice "
             "(held_connection_out_of_reach, one_live_entry_per_connection, take_returns_unheld); unlinking is idempotent (remove_idempotent); the eviction "
             "loops never dereference a nil head and terminate (no_panic). Tie: fingerprints of the seven pool/list functions + "
             "trace validation of the real Pool with fake connections under testing/synctest, comparing after every event the "
             "result, both list walks, both stored counts and who closed what, against the list-level and the pointer-level model.",
        design_ref="DESIGN.md §6 C15, Appendix A.5, §9-6",
        note=NOTE_COMMON + "Atomicity of the p.mu critical sections and time.Timer.Stop semantics are assumed; the proofs are about "
             "the list-level model, the pointer-level list code is covered by the correspondence runs; that the pool calls "
             "Close only through closeEntry on a linked entry, an expiry callback of a fired entry, or Put's negative-capacity "
             "path is read off the model, the per-connection close counters are compared with the code on every event.",
        technique="Lean 4 theorems (inductive invariant over all operation/event sequences) + regenerated tie + trace validation under a fake clock",
    ),
    "C02": dict(
        text="Proof, partial: the two guards that implement isolation are proved in full on the models — the manager's dispatch "
             "decision (deliver only on equal id, lower ids dropped, higher ids never delivered to the current stream) and the "
             "stream's own guard (a packet with a foreign id or arriving after termination changes nothing, in every state) — "
             "plus strict growth of client ids. The system-level statement over all interleavings of two endpoints is not a "
             "theorem: it is explored by the e2e suite with tagged payloads (cross-talk would be seen as a foreign tag). Added in the second session: the manager itself is modelled — a protocol checker over its event trace (Drpc.Manager.Proto, theorems in Drpc.Props.Manager about every accepted trace) and an atomic-step model of all its goroutines (Drpc.Manager.Sys) proved to refine the checker and to be free of internal deadlock under stated hypotheses (Drpc.Props.ManagerSys); every event trace the real managers produce in the e2e worlds is replayed on both (accepted by the checker up to termination; a member of the model's traces, by search). Further theorems: requests on one connection do not mix and an abandoned call's metadata is not inherited (Drpc.Props.Request, composition of codec, reader and accept loop); each unary call sends its own request despite the shared buffer (Drpc.Props.Conn).",
        design_ref="DESIGN.md §6 C02",
        note=NOTE_COMMON + "Two-endpoint composition explored, not proved.",
        technique="Lean 4 theorems: dispatch + stream guards, manager protocol checker and atomic-step manager model (refinement proved), request composition, Conn buffer model; ties: fingerprints, manager event traces replayed on checker and model, metadata scoping and Conn wire correspondence; e2e exploration under a director with tagged payloads as failing-input search",
    ),
    "C04": dict(
        text="Proof, partial: on the atomic-step stream model: Cancel terminates an idle stream with the context's error and closes "
             "the packet buffer; a receive parked in Get then returns that error; SendCancel's lock acquisitions are TryLocks "
             "and never wait; with a writer active it reports busy. The default-mode hang (send parked in the transport + "
             "terminal call holding the transition lock + Cancel) is proved reachable and quiescent (cancel_hang_counterexample) "
             "and replayed on the code: known finding. The watcher goroutine and the peer side are explored by the e2e suite. Added in the second session: the manager itself is modelled — a protocol checker over its event trace (Drpc.Manager.Proto, theorems in Drpc.Props.Manager about every accepted trace) and an atomic-step model of all its goroutines (Drpc.Manager.Sys) proved to refine the checker and to be free of internal deadlock under stated hypotheses (Drpc.Props.ManagerSys); every event trace the real managers produce in the e2e worlds is replayed on both (accepted by the checker up to termination; a member of the model's traces, by search). For this property: a caller whose context is done is never blocked inside the manager (ctx_cancel_unblocks_caller), the hand-off select without a context branch never waits (handoff_never_waits_long); stream level: exact classification of blocked threads, no_internal_deadlock, terminated_quiescent_all_done.",
        design_ref="DESIGN.md §6 C04, §9-7",
        note=NOTE_COMMON + "Progress is judged as safety at quiescent points.",
        technique="Lean 4 theorems on the stream model (blocking classification, hang counterexample) and on the manager model (cancellability of every waiting position); e2e exploration: grid of in-flight sets x stalled/flowing x soft/hard, cancel before invoke / at hand-off / select races, server-side cancel",
    ),
    "C06": dict(
        text="Proof, partial: stream-level theorems for what the server does when a handler returns (after the fix: commit "
             "5c5c1df found by this obligation): the stream is terminated, every later packet for it returns at once, a reader "
             "already parked in Put is released by termination; and the counterexample for the old behaviour (reader parked "
             "forever after a handler returned without draining). The property itself (any history, then a probe) is explored "
             "by the e2e probe family. Added in the second session: the manager itself is modelled — a protocol checker over its event trace (Drpc.Manager.Proto, theorems in Drpc.Props.Manager about every accepted trace) and an atomic-step model of all its goroutines (Drpc.Manager.Sys) proved to refine the checker and to be free of internal deadlock under stated hypotheses (Drpc.Props.ManagerSys); every event trace the real managers produce in the e2e worlds is replayed on both (accepted by the checker up to termination; a member of the model's traces, by search). For this property: ready_when_quiet (a stuck, non-terminated manager whose streams have all finished has an idle stream manager, no token pending and the semaphore free or held by a server waiting for an invoke) and token_send_never_blocks, after the three defects these proofs and the e2e probes exposed were repaired (c4bccc7, 0eebf00, 110f4d6).",
        design_ref="DESIGN.md §6 C06, §9-8",
        note=NOTE_COMMON + "Judged at quiescence with a flowing transport.",
        technique="Lean 4 theorems on the stream model and on the manager model (ready_when_quiet, token_send_never_blocks, semaphore alternation); e2e exploration: probe after a grid of endings incl. cancel / marshal error before the invoke, publish-after-release, soft-cancel tokens, handler flush, hostile peers",
    ),
    "C12": dict(
        text="Proof, partial: stream-level teardown: Cancel (what Manager.Close / termination applies to the active stream) does not "
             "wait for a writer parked in the transport, and once the closed transport fails that write the sender returns the "
             "cancel error, releases the lock and its checkFinished finishes the stream and emits the single fin token the "
             "manager's watcher waits for. Manager goroutines, exactly-once transport close and Serve's wait are explored by the "
             "e2e close/fault families (goroutine census at quiescence). Added in the second session: the manager itself is modelled — a protocol checker over its event trace (Drpc.Manager.Proto, theorems in Drpc.Props.Manager about every accepted trace) and an atomic-step model of all its goroutines (Drpc.Manager.Sys) proved to refine the checker and to be free of internal deadlock under stated hypotheses (Drpc.Props.ManagerSys); every event trace the real managers produce in the e2e worlds is replayed on both (accepted by the checker up to termination; a member of the model's traces, by search). For this property: close_completes_client / close_completes_serve, termination_unblocks_everything (manager model), transport closed at most once and only after term (every accepted trace), and the Serve/Tracker model (Drpc.Props.Serve: Serve returns only after every tracked goroutine exited, serve_completes) with its own correspondence (real Server.Serve over a scripted listener against the model driver).",
        design_ref="DESIGN.md §6 C12",
        note=NOTE_COMMON + "Goroutine census by runtime.Stack.",
        technique="Lean 4 theorems on the stream model, the manager model (Close completes, termination unblocks everything) and the Serve/Tracker model; correspondence: manager traces, `serve ops=` histories; e2e exploration with Close / faults at every transport step, lazy-closing transport, hostile peers, goroutine census",
    ),
    "C01": dict(
        text="Proof: the pure data path is proved in full: for every list of packets with increasing ids, every split size, every "
             "payload size and maximum, what the reader reassembles from the concatenated frame encodings is exactly the list sent "
             "(delivery_pure), for every chunking of the byte stream (delivery_any_chunking), every cut of the stream yields a prefix "
             "(delivery_prefix), batches concatenate (delivery_two_writers_order). The concurrent part (write lock across the frames of "
             "a message, packet-buffer hand-over, flush after send) is covered by the atomic-step stream model tied by trace validation "
             "(stream suite) and by the C07 invariants; the two-endpoint composition is explored by the e2e delivery family with tagged "
             "payloads. Partial: the composition is not one theorem.",
        design_ref="DESIGN.md §6 C01",
        note=NOTE_COMMON + "Two-endpoint composition explored, not proved.",
        technique="Lean 4 theorems (induction over frames and packets, refinement through the reader reference) + trace validation + e2e exploration",
    ),
    "C05": dict(
        text="Proof, partial: proved on the reader model: a packet is surfaced only on its done frame and is completed by the bytes "
             "read (no_partial_packet_surfaced), for every cut of a valid stream and every final error the packets returned are a "
             "prefix of what was sent and the error is the transport's (delivered_is_prefix_despite_fault), bytes appended after a "
             "packet boundary can never change what was already returned (garbage_*). Termination on a read error, failing of pending "
             "and later calls, Closed() and absence of panics are explored by the e2e fault family (fault position enumerated). Added in the second session: the manager itself is modelled — a protocol checker over its event trace (Drpc.Manager.Proto, theorems in Drpc.Props.Manager about every accepted trace) and an atomic-step model of all its goroutines (Drpc.Manager.Sys) proved to refine the checker and to be free of internal deadlock under stated hypotheses (Drpc.Props.ManagerSys); every event trace the real managers produce in the e2e worlds is replayed on both (accepted by the checker up to termination; a member of the model's traces, by search). For this property: read_error_terminates and termination_unblocks_everything (after a transport failure no call is left blocked in the manager model).",
        design_ref="DESIGN.md §6 C05",
        note=NOTE_COMMON + "Transport contract assumed: a broken transport fails all its pending and later I/O.",
        technique="Lean 4 theorems on the reader model and the manager model (a read error terminates the manager, termination unblocks every call); e2e exploration with the fault position enumerated, stalled large writes, select races",
    ),
    "C19": dict(
        text="Proof, full for Signal; for Chan full under 'at most one Close (and no Send/Full next to it)'. drpcsignal.Signal and "
             "drpcsignal.Chan are modelled as atomic-step transition systems (Drpc/Signal.lean, Drpc/Chan.lean: one step per atomic "
             "load/store of the status / done word, lock acquisition, non-atomic read or write of err / ch, close, unlock, blocking "
             "receive; unbounded threads). Proved for every reachable state, i.e. every interleaving of any number of calls: at most "
             "one Set returns true and exactly one thread is the winner once any Set has completed (exactly_one_winner); every Get "
             "with ok and every non-nil Err is the winner's error and such a winner exists, IsSet/Get/Set observations are monotone "
             "(observers_see_winner, isSet_monotone); all Signal() calls return the same non-nil channel (channel_unique); close runs "
             "at most once, only on that channel, only after the status bit is stored and err written, never on the sentinel "
             "(closed_once_and_after_visible); with no Set in progress and one completed every channel handed out is closed and no "
             "Wait is blocked (no_lost_wakeup); err/ch/status accesses are data-race free (race_free); no panic (no_panic). Chan: "
             "chan_unique, first_do_wins, close_then_get_is_closed, make_after_use_is_noop, chan_race_free, no_panic_single_closer; "
             "double Close and Send after Close panic (counterexample theorems; Go's channel contract, replayed by the suite). Tied "
             "to the code by fingerprints of all 15 functions incl. the positions of the scheduling points and by trace validation "
             "of real Signal/Chan objects under the director at scheduling-point granularity (all schedules for 2 goroutines x 1 op "
             "and for selected 2 x 2 programs, counts cross-checked against the model's enumeration; seeded walks for 3).",
        design_ref="DESIGN.md §6 C19, Appendix A.1, Appendix D",
        note=NOTE_COMMON + "Go memory model: atomics sequentially consistent, DRF-SC; interleavings between two scheduling points "
             "are covered by the theorems only.",
        technique="Lean 4 invariant proofs over atomic-step models (grind per step) + regenerated tie + exhaustive/seeded schedule "
                  "replay of the real primitives under a director",
    ),
    "C13": dict(
        text="Proof at model level, evidence at runtime level: every receive path is modelled with its panicking operations explicit "
             "and proved total (frame parser, reader incl. its memory bound 2*max+12348 on every input and chunking, metadata decoder "
             "and the server's metadata/invoke loop, gateway header unescaping / context building / error-code extraction / the whole "
             "ServeHTTP exchange incl. request allocation bounds, stream packet handling after termination and for foreign ids, the "
             "manager's dispatch decision); two of these obligations exposed real panics in the pinned code (unescape '%%', getCode on a "
             "nil unwrap), repaired by fix: commits. That the Go code itself never panics or over-allocates is evidenced by running all "
             "entry points under recover on exhaustive-short, structured and hostile inputs.",
        design_ref="DESIGN.md §6 C13",
        note=NOTE_COMMON + "Runtime memory safety is evidenced, not proved.",
        technique="Lean 4 totality / bound theorems over models with explicit panic outcomes + differential runs under recover",
    ),
    "C07": dict(
        text="Proof (per stream, unbounded threads, all interleavings of the atomic-step model): lock ownership invariants, every "
             "change of the writer / wire / in-flight write / message id is made by the write-lock owner (emit_under_write_lock, "
             "single_writer), the history of appended frames is well-formed (stream id, ids non-decreasing and bounded by the counter, "
             "one kind per id, frames of one id contiguous, nothing after the done frame), the wire is that history when no write "
             "failed, a conforming reader (the C09 reference) never rejects it, and finished_is_final: once the finished flag is set no "
             "thread can append a frame or start a transport write (the store-buffering argument over inspectMutex.held and the three "
             "reads of checkFinished). Partial: the ordering of successive streams on one connection (manager) is explored by the e2e "
             "suite's wire oracle, not proved. Added in the second session: the manager itself is modelled — a protocol checker over its event trace (Drpc.Manager.Proto, theorems in Drpc.Props.Manager about every accepted trace) and an atomic-step model of all its goroutines (Drpc.Manager.Sys) proved to refine the checker and to be free of internal deadlock under stated hypotheses (Drpc.Props.ManagerSys); every event trace the real managers produce in the e2e worlds is replayed on both (accepted by the checker up to termination; a member of the model's traces, by search). For this property: next_stream_after_previous_finished, one_stream_at_a_time, publish_under_semaphore and the corresponding sys_ corollaries: frames of a later stream cannot precede frames of an earlier one because the later stream does not exist before the earlier is finished; one manager per connection (Serve model + oracle).",
        design_ref="DESIGN.md §6 C07, Appendix A.6",
        note=NOTE_COMMON + "Sequential consistency of sync/atomic and mutex semantics trusted; thread-local steps merged (commute).",
        technique="Lean 4 theorems on the stream model (lock ownership, wire = history, finished is final) and on the manager model (succession of streams); correspondence: stream histories under the director, manager traces; reference frame parser over every transport write (stream suite and whole connections)",
    ),
}

_NYB = "check not built yet in this round (planned: Lean model + correspondence, see DESIGN.md §6)"
NOT_APPLICABLE = {f"C{n:02d}": _NYB for n in range(1, 20)}
