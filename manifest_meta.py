"""Claimed level, notes and technique per property (input of tools/mk_manifest.py)."""

HOOK_COMMITS = []

NOTE_COMMON = ("Trusted: Lean 4.33.0 kernel (leanchecker re-check in the thorough tier); axioms limited to propext, "
               "Classical.choice, Quot.sound (audited per theorem on every run); no sorry/admit/native_decide/bv_decide. "
               "The Lean model is hand-written; it is tied to /repo on every run by regenerated facts (tools/extract) and by "
               "differential correspondence on sampled and enumerated inputs, so agreement outside the explored inputs is not "
               "established. ")

META = {
    "C08": dict(
        text="Full proof for the codec model: varint and frame round trip for all 64-bit ids / 6-bit kinds / payloads, totality "
             "of the parser, exact accounting of consumed bytes, extension stability, 'need more data' for proper prefixes, "
             "equality with an arithmetic reference decoder on every byte string, and the split laws. The model is tied to "
             "drpcwire by function fingerprints regenerated from the source and by differential runs of ParseFrame / AppendFrame "
             "/ ReadVarint / AppendVarint / SplitN against the compiled model, with an independent Go reference decoder as oracle.",
        design_ref="DESIGN.md §6 C08",
        note=NOTE_COMMON + "Real Go panics / out-of-bounds reads are evidenced by the correspondence runs, not proved.",
        technique="Lean 4 theorems (induction, bit-vector extensionality) + regenerated tie + differential correspondence",
    ),
    "C09": dict(
        text="Full proof for the reader model: for every byte stream, maximum and chunking oracle the packets returned and the "
             "class of the first error equal a chunk-independent reference reassembly (run_eq_reference, chunk_independent), "
             "returned packets never exceed the maximum, the buffer capacity never exceeds 2*max+12348, packets of a stream "
             "prefix are a prefix (prefix_monotone), and ids strictly increase except across message id 2^64-1 (partial; the "
             "wrap is a listed finding with a counterexample theorem replayed on the code). The model follows reader.go after "
             "the fix: commit 355cfda, found by this proof obligation. Tie: fingerprints + maxFrameOverhead regenerated from "
             "source, differential runs of Reader.ReadPacketUsing over a scripted io.Reader comparing packets, error class and "
             "cap(r.buf) after every call.",
        design_ref="DESIGN.md §6 C09",
        note=NOTE_COMMON + "io.Reader contract assumed (0<=n<=len(p), bytes in order).",
        technique="Lean 4 theorems (induction on the stream, refinement to a chunk-independent reference) + regenerated tie + differential correspondence",
    ),
}

_NYB = "check not built yet in this round (planned: Lean model + correspondence, see DESIGN.md §6)"
NOT_APPLICABLE = {f"C{n:02d}": _NYB for n in range(1, 20)}
