"""Per-property configuration of check.py: Lean modules (property theorems + tie lemmas),
correspondence suites, and what the evidence file says about the trusted base."""

COMMON_TRUST = [
    "Go `int` lengths treated as unbounded naturals (buffers fit in memory); uint64 wire quantities exact (BitVec 64)",
]

PROPS = {
    "C08": dict(
        modules=["Drpc.Props.C08", "Drpc.Tie.C08"],
        suites=["wire"],
        rule="wire suite: exhaustive byte strings over a 12-byte boundary alphabet to length 4 (5 in thorough), all 256 control "
             "bytes x boundary tails, boundary and random varints, structured random frames re-parsed / truncated at every "
             "prefix / mutated, payload splitting; a case is non-trivial when the input has >= 4 bytes (parser), >= 2 bytes "
             "(varint reader), value >= 128 (varint writer), or yields >= 2 frames (split); distinct by hash of the request",
        trusted=COMMON_TRUST + ["absence of real Go panics / out-of-bounds reads is evidenced by the correspondence runs (recover), not proved"],
        assumptions=["frame payload length < 2^64 (Go slice)"],
    ),
}
