"""Per-property configuration of check.py: Lean modules (property theorems + tie lemmas),
correspondence suites, and what the evidence file says about the trusted base."""

COMMON_TRUST = [
    "Go `int` lengths treated as unbounded naturals (buffers fit in memory); uint64 wire quantities exact (BitVec 64)",
]

PROPS = {
    "C08": dict(
        modules=["Drpc.Props.C08", "Drpc.Tie.C08"],
        suites=["wire"],
        rule="wire suite: exhaustive byte strings over a 12-byte boundary alphabet to length 4 (5 in thorough), all 256 control "
             "bytes x boundary tails, boundary and random varints, structured random frames re-parsed / truncated at every "
             "prefix / mutated, payload splitting; a case is non-trivial when the input has >= 4 bytes (parser), >= 2 bytes "
             "(varint reader), value >= 128 (varint writer), or yields >= 2 frames (split); distinct by hash of the request",
        trusted=COMMON_TRUST + ["absence of real Go panics / out-of-bounds reads is evidenced by the correspondence runs (recover), not proved"],
        assumptions=["frame payload length < 2^64 (Go slice)"],
    ),
    "C09": dict(
        modules=["Drpc.Props.C09", "Drpc.Tie.C09"],
        suites=["reader"],
        rule="reader suite: producible / unusual / malformed / hostile frame sequences (id jumps, superseded packets, control on "
             "a middle frame, kind change, stale and duplicated ids, 10-byte-varint ids, oversize around the maximum, truncated, "
             "garbage tail, non-canonical 31-byte headers) for maxima {1,28,29,31,100,1000,4068,4096,5000}, each under six "
             "chunkings (all-at-once, 1 byte, 7 bytes, frame-aligned, frame-straddling, random) with the final error attached "
             "to or following the last data, plus ALL partitions of streams <= 12 bytes; a case is non-trivial when the stream "
             "has >= 2 frames and the chunking >= 2 reads; distinct by hash of (max, final, stream, chunking)",
        trusted=COMMON_TRUST + ["io.Reader contract: returns 0 <= n <= len(p) bytes in order; the deferred (n>0, err) error is "
                                "modelled as arriving on the next read (tied by the suite running both placements)"],
        assumptions=["transport delivers the bytes in order, in non-empty reads (fewer than 100 consecutive empty reads are shown "
                     "invisible by an oracle on the implementation; 100 give InternalError)"],
    ),
    "C03": dict(
        modules=["Drpc.Stream.Conc"],
        suites=["stream"],
        rule="stream suite (work in progress)",
        trusted=COMMON_TRUST,
        assumptions=[],
    ),
}
