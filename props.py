"""Per-property configuration of check.py: Lean modules (property theorems + tie lemmas),
correspondence suites, and what the evidence file says about the trusted base."""

COMMON_TRUST = [
    "Go `int` lengths treated as unbounded naturals (buffers fit in memory); uint64 wire quantities exact (BitVec 64)",
]

E2E_TRUST = COMMON_TRUST + [
    "Go runtime (goroutines, sync, channels) trusted; the two-endpoint behaviour is explored, not modelled: the Lean theorems "
    "cover the wire codec, the reader, the stream state machine, the dispatch decision and the manager's protocol "
    "(Drpc.Manager.Proto: a checker over the manager's event trace — semaphore, previous-stream wait, stream creation, reader "
    "decisions, termination, transport close, fin tokens; every trace the real managers produce in the e2e worlds is replayed on it "
    "(requests `mgrtrace`), Drpc.Props.Manager proves what every accepted trace satisfies). The events are reported by verif-tagged "
    "hooks in drpcmanager/manager.go; their placement (release-type before the action, acquire-type after it) is trusted",
    "quiescence detection by stop-the-world goroutine snapshots; transport = the director's in-memory pipe (bytes in order, "
    "unmodified, arbitrary pieces and delays; Close/failure make pending and later calls fail)"]

PROPS = {
    "C14": dict(
        modules=["Drpc.Props.C14", "Drpc.Tie.C14"],
        suites=["http"],
        rule="(family `errlimit`: failed RPCs whose error text brings the grpc-web trailer block / the Twirp body to the 4 MiB limit -1/+0/+1, evaluated by the direct oracles; a frames-only body of a failed RPC now fails grpc-status-nonzero-iff-failed) http suite: (unescape) ALL header strings over {%,=,0,9,a,f,A,F,g,space,0xff} to length 5 and over a "
             "7-byte alphabet to length 6 (7 in thorough), random strings to 200 bytes incl. 'mostly %' and valid-escape-heavy ones; (context) all "
             "single entries to length 3 (4) and random 1-4 entry lists built with three escapers, duplicates, key-only and "
             "malformed entries; (getcode) ALL error chains of <= 3 nodes over {Unwrap, Cause, Code()uint64 12/0, Code()string, "
             "wrong-signature Code} x {leaf, Unwrap()=nil}, wrapper depths {98,99,100,101,150} in front of a code, random chains; "
             "(stdlib) base64 of 0-39 byte strings and CR/LF/blank sanitising of ALL strings to length 4 (6) over {CR,LF,space,tab,"
             "a,:,0xff} against encoding/base64 and strings.Replacer+textproto.TrimString; (reads) grpc headers of 0-4 bytes, "
             "declared sizes {0..7,100,255,256,4096,32000,2^20,2^21+7,maxSize-1,maxSize,maxSize+1,2^24,2^31,2^32-1} x actual "
             "{0..6, declared-1, declared, declared+1} x 3 flags, full bodies at the limit +-1 (as fills), twirp bodies of "
             "{0..6,100,1000,32000,2^20,maxSize-1,maxSize,maxSize+1,maxSize+2,2*maxSize} bytes, result and allocation class; "
             "(serve) drpchttp.New(handler).ServeHTTP on a ResponseRecorder for all 7 table content types + 15 unknown / case / "
             "parameter variants + absent header, 0-5 messages of sizes {0,1,2,3,100} (and 4 MiB-1 / 4 MiB a few times), handler "
             "stopping on or ignoring send errors, optional MsgRecv (+echo) of well-formed, empty, short, over-declared and "
             "non-JSON bodies, 20 hostile error texts (CR, LF, CRLF, lone CR, forged trailer lines, blanks, non-ASCII, invalid "
             "UTF-8, 10 kB) x drpc codes {0,1,2,12,2^64-1} x twirp code strings inside and outside the table x wrap depth x "
             "nil-unwrap, 0-3 metadata headers: status, Content-Type, body bytes (Twirp error body after parsing it back), the "
             "acknowledgement of every send and the metadata seen by the handler are compared with the model. A case is "
             "non-trivial when the header contains '%' (unescape) / '=' or '%' (context), the chain is non-empty (getcode), the "
             "input has >= 3 (b64) / >= 2 (sanitize) / >= 5 (grpcread) / >= 1 (twirpread) bytes, or the exchange has a message, a "
             "receive or an error (serve); distinct by hash of the request",
        trusted=COMMON_TRUST + [
            "net/http (Header.Get, ResponseRecorder), encoding/json, encoding/base64, strings.Replacer, textproto.TrimString, "
            "io.ReadFull/ReadAll/LimitReader and reflect are stdlib: base64, the replacer+trim and the read rules are re-modelled in "
            "Lean and compared with the stdlib by the suite; the JSON error body is checked by parsing it back in Go "
            "(code/msg up to encoding/json's U+FFFD replacement), not modelled byte for byte",
            "the suite's pass-through byte encoding has no JSONMarshal/JSONUnmarshal, so JSON modes use drpchttp's fallback "
            "(a JSON string holding base64); request bodies in JSON modes are limited to ones on which encoding/json and the "
            "model's unmarshal (quote + base64 + quote, else error) agree (no escapes inside the string)",
            "absence of real Go panics / out-of-bounds reads and the allocation class (runtime.MemStats) are evidenced by the "
            "correspondence runs; the Lean theorems prove them for the model's explicit panic outcomes and allocation outputs",
        ],
        assumptions=["grpcweb_body: the trailer block is shorter than 2^32 bytes (uint32 length field)",
                     "error values are chains of the five node kinds of Drpc/Http/GetCode.lean ending in a leaf or in Unwrap()=nil"],
    ),
    "C17": dict(
        modules=["Drpc.Props.C17", "Drpc.Tie.C17"],
        suites=["gen"],
        rule="gen suite: descriptor families (one Go package of 1-4 proto files, optionally a second package holding the message "
             "types) are turned into CodeGeneratorRequests by hand (no protoc), run through protoc-gen-go / protoc-gen-gogo "
             "(module cache) and through protoc-gen-go-drpc BUILT FROM /repo's working tree: the matrix of the 4 method shapes x "
             "4 protolib settings x json on/off/default, every collision class with near misses (incl. split-point families: service/method pairs whose Go names joined by one underscore coincide, which only the _ -> __ doubling keeps apart), several services sharing method names in one file / package, all registered on ONE mux with tagged answers, the oracle rpc-name-fully-qualified (client stub and description carry '/' + proto package + '.' + service + '/' + method, no two methods share a string), hostile names (keywords, "
             "underscores, case-only differences, digits, runtime method names, nested / empty proto packages, go_package "
             "variants incl. ;name and M flags, package and import-path base names drpc/context/errors/proto, source_relative, "
             "multi-file packages, zero services / zero methods, 4x6 methods) and random families (0-4 services x 0-6 methods, "
             "random names from a hostile vocabulary, every option); every declaration of the generated file (types with method "
             "sets and signatures, functions, methods, rpc strings on both sides, every Description case with the receiver's "
             "argument wiring, NumMethods) is compared with the model's emission for the Go names protogen derives; plus "
             "mux.reg: ALL method-expression arities (0-4 inputs over 4 parameter kinds x 0-3 results) registered on a real "
             "drpcmux.Mux, stored rpcData read back and HandleRPC's arguments observed. A generator case is non-trivial when "
             "the package has >= 2 methods, a mux case when it has >= 2 inputs; distinct by hash of the request",
        trusted=["protogen (Go-name derivation, import qualification, output file naming) and protoc-gen-go / protoc-gen-gogo are "
                 "trusted; Go names enter the model as arbitrary identifier strings",
                 "'the generated file type-checks for every descriptor' is NOT a Lean theorem (it would need a model of Go's type "
                 "system): it rests on the go/types runs of the suite over the generated descriptors (all of them) and on go build "
                 "+ execution of a subset (generated client <-> generated server over net.Pipe, every method shape, every protolib)",
                 "reflect (FuncOf, Type.In/NumIn/NumOut) as documented"],
        assumptions=["proto identifiers contain no '/' (rpc_name_injective)",
                     "CollisionFree (decidable, evaluated by suite and model on every descriptor) for names_distinct_partial; "
                     "descriptors outside it are the known finding C17-name-collision"],
        timeout=dict(quick=300, thorough=3600),
    ),
    "C11": dict(
        modules=["Drpc.Props.C11", "Drpc.Props.Request", "Drpc.Tie.C11"],
        suites=["meta"],
        rule="meta suite: (codec) single entries over key/value lengths {0,1,127,128,16383,16384} compared byte for byte, random maps "
             "of 0-20 pairs (empty / boundary-length / binary / duplicate-prone strings) whose Encode output must be the model's "
             "encoding of some ordering of exactly those entries, entry lists with duplicate keys, Decode on ALL strings of length "
             "<= 3 (5 thorough) over {00,01,02,0a,12,7f,80,81,ff}, all entry-shaped strings `0a L body` with body <= 4 (6 thorough) bytes over "
             "{00,01,02,0a,12}, hostile length fields in the three length positions, mutated / truncated valid encodings, random "
             "bytes; (scoping) sequences of 1-4 calls on one connection written as raw frames to a real server-side "
             "drpcmanager.Manager over net.Pipe: calls with / without metadata, metadata abandoned before its invoke, metadata "
             "repeated on one id, empty and undecodable metadata packets, trailing metadata, three ways of ending each stream, "
             "both cancel modes, one write or one write per packet. A case is non-trivial when the input has >= 2 bytes (decode), "
             ">= 1 entry (encode) or >= 2 packets (serve); distinct by hash of the request",
        trusted=COMMON_TRUST + ["a Go map is modelled as the list of its writes in order, observed through `Pairs.get` (last write wins); "
                                "Go's unspecified map iteration order in Encode / AddPairs is covered by proving the codec theorems for "
                                "every order and by checking that Go's bytes are the model's encoding of some order",
                                "scoping is proved for NewServerStream's packet loop as a function of the packets handed to it; which "
                                "packets reach it (manageReader's routing, the reader's id monotonicity) is exercised by the suite on the "
                                "real Manager, not modelled"],
        assumptions=["key length + value length + 22 < 2^64 for every entry (Go strings in memory are far below that)",
                     "the context passed to NewServerStream carries no metadata of its own (drpcmetadata.Add writes into the map of a "
                     "parent context in place; the harness, like drpcserver, uses a metadata-free connection context)"],
    ),
    "C08": dict(
        modules=["Drpc.Props.C08", "Drpc.Tie.C08"],
        suites=["wire"],
        rule="wire suite: exhaustive byte strings over a 12-byte boundary alphabet to length 4 (5 in thorough), all 256 control "
             "bytes x boundary tails, boundary and random varints, structured random frames re-parsed / truncated at every "
             "prefix / mutated, payload splitting; a case is non-trivial when the input has >= 4 bytes (parser), >= 2 bytes "
             "(varint reader), value >= 128 (varint writer), or yields >= 2 frames (split); distinct by hash of the request",
        trusted=COMMON_TRUST + ["absence of real Go panics / out-of-bounds reads is evidenced by the correspondence runs (recover), not proved"],
        assumptions=["frame payload length < 2^64 (Go slice)"],
    ),
    "C09": dict(
        modules=["Drpc.Props.C09", "Drpc.Tie.C09"],
        suites=["reader"],
        rule="(7th chunking `tailtogether`: one of the last complete frames and everything after it arrive in ONE read; family `cutover`: streams ending inside a frame that can never be accepted, tail lengths around max+31/max+32, transport error with and after the last data) reader suite: producible / unusual / malformed / hostile frame sequences (id jumps, superseded packets, control on "
             "a middle frame, kind change, stale and duplicated ids, 10-byte-varint ids, oversize around the maximum, truncated, "
             "garbage tail, non-canonical 31-byte headers) for maxima {1,28,29,31,100,1000,4068,4096,5000}, each under six "
             "chunkings (all-at-once, 1 byte, 7 bytes, frame-aligned, frame-straddling, random) with the final error attached "
             "to or following the last data, plus ALL partitions of streams <= 12 bytes; a case is non-trivial when the stream "
             "has >= 2 frames and the chunking >= 2 reads; distinct by hash of (max, final, stream, chunking)",
        trusted=COMMON_TRUST + ["io.Reader contract: returns 0 <= n <= len(p) bytes in order; the deferred (n>0, err) error is "
                                "modelled as arriving on the next read (tied by the suite running both placements)"],
        assumptions=["transport delivers the bytes in order, in non-empty reads (fewer than 100 consecutive empty reads are shown "
                     "invisible by an oracle on the implementation; 100 give InternalError)"],
    ),
    "C03": dict(
        modules=["Drpc.Props.C03", "Drpc.Tie.C03"],
        suites=["stream"],
        mismatch_is_violation=True,
        rule="stream suite: a real drpcstream.Stream under the director (every transport write parks, every call on its own "
             "goroutine, observation only at stop-the-world-verified quiescence); (A) random sequential histories of 2-10 "
             "calls/packets over the full alphabet (send sizes around the split size, raw kinds, flush, recv incl. a failing "
             "Unmarshal, close, send-error, close-send, send-cancel, cancel, packets of kinds 0..7, 9, 63 with/without control "
             "bit and with a foreign id) under 7 split/flush/writer-buffer configurations; (B) histories of 4-17 actions with "
             "transport writes, Marshal and Unmarshal parked while other calls are issued, writes released ok or failing; "
             "compared after every action: results of returned calls, pending set, parked write, completed writes, "
             "Terminated/Finished/ctx.Done. Non-trivial: >= 2 actions and >= 1 change of the T/F/C flags; distinct by hash",
        trusted=COMMON_TRUST + ["Go runtime: sync.Mutex/Cond/Once, atomics are sequentially consistent; the model merges "
                                "thread-local steps into the preceding shared step (they commute with all other threads' steps)",
                                "quiescence detection: one stop-the-world runtime.Stack snapshot in which every goroutine but the "
                                "director is in a channel/mutex/cond wait, confirmed by a second identical snapshot"],
        assumptions=["histories of the parked kind keep at most one waiter per lock (generator rule), so that the quiescent "
                     "state does not depend on the Go scheduler; user encodings do not retain the lent buffer"],
    ),    "C10": dict(
        modules=["Drpc.Props.C10", "Drpc.Tie.C10"],
        suites=["errs"],
        rule="errs suite: (a) MarshalError/UnmarshalError on codes {0,1,2,12,2^32,2^63,2^64-1,random} x messages {empty, 1 byte, "
             "70000 bytes, '%' verbs, NUL, invalid UTF-8, random}, raw data of every length 0..20 (all strings over a 6-byte "
             "boundary alphabet to length 3, random, verb-laden) and long; (b) drpcerr.Code / Error() / MarshalError on real Go "
             "error values built from a chain description shared with the model (errors.New, WithCode, custom Code() types, "
             "errs.Wrap, class wraps, fmt.Errorf %w, custom Cause/Unwrap types incl. nil-returning, self-returning and "
             "2-cycles) at depths {0,1,2,50,99,100,101} x 6 wrapper mixes x 7 codes, fixed order/collapse cases, random chains; "
             "(c) end-to-end over net.Pipe with a real drpcserver + drpcconn and either a hand-written drpc.Handler or a real "
             "drpcmux with a hand-written description: 4 RPC shapes x k in {0,1,3} responses x message classes x codes, deep "
             "codes, dispatcher failures (hostile unknown rpc names, undecodable request, unmarshallable response), success, "
             "each followed by a probe RPC, every wait bounded by 2 s; a case is non-trivial when (a) the message is non-empty, "
             "(b) the chain has >= 2 wrappers or a non-zero code below a wrapper, (c) the handler sent a message or failed; "
             "distinct by hash of the request",
        trusted=COMMON_TRUST + [
            "error values are modelled as an inductive type (methods present, what they return, Error() text); typed-nil "
            "pointers and Error() methods with side effects are outside the model",
            "the model of strconv.Quote (%q in the unknown-rpc text) is exact for ASCII and for bytes that are not part of a "
            "valid multi-byte UTF-8 sequence; the suite only uses such rpc names",
            "end-to-end statement: the composition server send half -> packets -> client receive half is a sequential model; "
            "in-order delivery of packets to HandlePacket and the absence of transport faults / cancellation are assumed "
            "(C01/C05); the correspondence runs observe the real concurrent code over net.Pipe",
        ],
        assumptions=["the handler did not close its send side before returning an error (excluded point: "
                     "error_after_closesend_counterexample)",
                     "code attached below fewer than 100 wrappers (99 through drpcmux) (excluded point: "
                     "code_depth_100_counterexample)",
                     "the client keeps receiving; no transport fault, no cancellation"],
    ),
    "C18": dict(
        modules=["Drpc.Props.C18", "Drpc.Tie.C18"],
        suites=["compat"],
        rule="compat suite: the released v0.0.17 runs unmodified in a child process (/verif/oldwire, built from the module "
             "cache), the working tree in-process; every byte stream goes through both readers and, via the request line, "
             "through both Lean models under 2-7 chunkings (all-at-once, 1 byte, 7 bytes, frame-aligned, frame-straddling, "
             "scanner-buffer-sized, random). Streams: all 256 first bytes alone and after an unfinished packet; emissions of the "
             "current Writer/SplitN (split sizes {1,7,1024,65536,-1,0}, ids over all varint lengths up to 2^64-1, empty and "
             "multi-frame payloads, 30% control packets: soft cancels, unknown control kinds 8-63, known kinds with the bit) "
             "for reader maxima {4 MiB, 100000, 1000}; a soft-cancel / unknown control packet inserted at every position of a "
             "sequence; emissions of the v0.0.17 Writer/SplitN and of real v0.0.17 Streams driven by API-call scripts; real "
             "current Streams driven by scripts incl. SendCancel at every position; 12 kinds of unusual/malformed mutations "
             "(id reuse, (0,0)/(0,m)/(s,0) ids, kind 0, control flips, control frame with a higher id, swaps, truncation, "
             "garbage tail, over-long varint); many medium frames across the scanner's 4 KiB-1 MiB buffer steps; frames of "
             "1 MiB-1/1 MiB/1 MiB+1 encoded bytes and packets of 4 MiB-1/4 MiB/4 MiB+1 payload bytes; metadata maps (valid "
             "UTF-8, lengths around 127/128 and 16383/16384) encoded by each version and decoded by the other; real Streams fed "
             "every kind 0-63 x control bit (fresh and after CloseSend) and random packet sequences. A case is non-trivial when "
             "the stream has >= 2 frames (read), the packet list >= 2 packets / the packet >= 2 frames (emit/split), the script "
             ">= 2 calls, the map >= 1 entry; distinct by hash of the request",
        trusted=COMMON_TRUST + [
            "v0.0.17 is the module storj.io/drpc@v0.0.17 in the module cache (go.sum-verified), built with go1.26.8: its "
            "bufio.Scanner is today's standard library; the Lean model of the old reader covers token splitting, the "
            "shift/double-up-to-1MiB buffer policy, the atEOF call and the sticky first error, not the 100-empty-reads guard",
            "constants of v0.0.17 (4 KiB/1 MiB scanner buffer, 4 MiB packet limit, 1024 default split) are hand-copied from the "
            "immutable release and tied by the boundary cases of the suite",
            "the (n>0, err) placement of the transport's final error is modelled as arriving on the next read; for v0.0.17 this "
            "is invisible for io.EOF and for complete frame sequences (oracle), not for a non-EOF error on a malformed tail",
            "HandlePacket is modelled as a sequential function of the signals it sets; pbuf.Put hands the message to a waiting "
            "receiver (the suite always has one)",
        ],
        assumptions=["frames within the v0.0.17 token limit (encoded frame <= 1 MiB) and packets within 4 MiB (one byte more: "
                     "ErrTooLong / ProtocolError, exercised by the suite)",
                     "WellFormed sequences: what either writer or stream layer produces (new_emits_wellformed, "
                     "old_emits_wellformed); outside it the readers differ (mixed_control_excluded, id_reuse_excluded)",
                     "metadata keys and values are valid UTF-8 (excluded point: known finding C18-metadata-non-utf8)",
                     "transport delivers bytes in order, in non-empty reads"],
    ),
    "C16": dict(
        modules=["Drpc.Props.C16", "Drpc.Tie.C16"],
        suites=["migrate"],
        rule="(incl. re-registration: Route twice, Close then Route in one burst racing the closed listener's monitor — ops Q/q record which won —, families rereg / rereg-random, oracle live-route-receives) migrate suite, real ListenMux / listener / prefixConn / HeaderConn over in-memory fakes: (mroute) one connection "
             "through the running mux for EVERY split of streams <= 10 bytes (12 in thorough) into reads, prefix lengths "
             "{0,1,4,8}, registered / near-miss / truncated prefixes, final error attached or not, hostile read sizes of the "
             "acceptor, plus random route tables; (hdr) HeaderConn.Write from 2-3 goroutines with the underlying Write parked, "
             "every order of calls and completions (driven by what is really parked), repeated writes, failing underlying "
             "writes, sequential write patterns; (mux) schedules of Route / Accept / Close / cancel / base failure relative to "
             "connections whose bytes arrive piecemeal: all orderings of a 7-operation family for 6 terminating events and 3 "
             "prefix lengths, two connections racing for one route, fixed hostile schedules, random schedules; after every "
             "operation the process runs to quiescence (one stop-the-world goroutine snapshot). Non-trivial: mroute with >= 2 "
             "bytes and >= 2 reads; hdr with a Write called while another is parked; mux with an API call issued while a "
             "routeConn or Accept is blocked. Distinct by hash of the request",
        trusted=COMMON_TRUST + [
            "sync.Once, sync.Mutex, unbuffered channels and select are modelled by their documented semantics (Once.Do blocks "
            "later callers until the function returned; a select with several ready arms may take any)",
            "the critical sections of m.mu that cannot block (Route, routeConn's look-up, monitorListener's delete) and the "
            "functions passed to listener.once / m.once are single atomic steps; Run's blocking critical section is stepwise",
            "quiescence on the Go side = every goroutine but the harness is in a channel / select / mutex / cond wait in one "
            "stop-the-world runtime.Stack snapshot; the deterministic replay on the model serves channel waiters first-come "
            "first-served as the Go runtime does (the theorems cover every choice)",
        ],
        assumptions=["net.Conn contract: Read returns 0 < n <= len(p) bytes in order while data remains, then its final error; "
                     "concurrent Writes on the underlying connection are serialised (completed writes form a sequence)",
                     "header_once_first is stated for runs without a failed underlying write (after a failed write the "
                     "connection is dead; header_n_excludes_header covers failing writes too)",
                     "a client that sends fewer than prefixLen bytes and never closes keeps its routeConn goroutine in "
                     "ReadFull (the code has no timeout there; reported as pending, not as delivered or closed)"],
    ),
    "C15": dict(
        modules=["Drpc.Props.C15", "Drpc.Tie.C15"],
        suites=["pool"],
        rule="(incl. timers firing INSIDE Put/Take/Close while the call holds the pool lock: tokens op@n/e, replayed by the driver's midStep) pool suite, the real drpcpool.Pool with fake connections inside a testing/synctest bubble (fake clock; a fake "
             "connection's Close parks twice when called from an expiry callback, so 'timer fired', 'callback closed the "
             "connection' and 'callback ran removeEntry' are three separately scheduled events): a corpus of the scenarios of "
             "the three repaired defects and their neighbours; ALL sequences of length <= 4 (5 in thorough) over a 10-symbol "
             "alphabet (Put to 2 keys, Take from 2 keys, clock to the next deadline, callback-close, callback-remove, Close, "
             "peer closes a cached connection, block/unblock) for 5 capacity configurations; random scenarios of <= 30 events "
             "over <= 3 keys and <= 8 connections, Capacity and KeyCapacity drawn from {-1,0,1,2,3}, expiration on/off, callback "
             "phases interleaved at every position, with a caller that follows the Take/Put protocol or (1 scenario in 5) puts "
             "connections it does not hold. After every event the observation (result, both list walks and both stored counts "
             "via VerifWalk, who closed which connection how often) is compared with the list-level model and the "
             "pointer-level model. Non-trivial: a timer phase took effect between two API calls. Distinct by hash of the request",
        trusted=COMMON_TRUST + [
            "Put/Take/Close and the callback's removeEntry are atomic (they hold p.mu from entry to exit); time.Timer: Stop() "
            "returns true exactly when the timer has neither fired nor been stopped, and the callback runs once after firing",
            "the theorems are about the list-level model (lists as sequences of entry ids + separately stored counts); the "
            "pointer-level next/prev/head/tail version (Drpc/PoolHeap.lean) is tied to it and to the code by the "
            "correspondence runs only",
            "testing/synctest's fake clock fires time.AfterFunc timers in deadline order (the theorems allow any order)",
        ],
        assumptions=["the per-entry theorems (per Put) hold for every caller; the connection-level theorems "
                     "(held_connection_out_of_reach, one_live_entry_per_connection, take_returns_unheld) are for callers that "
                     "only Put connections they hold, which is what poolConn.Invoke/NewStream do (ghost State.proper); that the "
                     "close counters of a held connection do not move is checked by direct oracles, not proved",
                     "a connection's Closed() channel stays closed once closed"],
    ),
    "C02": dict(
        modules=['Drpc.Props.C02', 'Drpc.Props.Manager', 'Drpc.Props.ManagerSys', 'Drpc.Props.Request', 'Drpc.Props.Conn', 'Drpc.Tie.Manager', 'Drpc.Tie.C11'],
        suites=['e2e', 'meta'],
        rule="meta suite, scoping families: raw frame sequences (metadata for own / other / abandoned ids, repeated, undecodable) written to a real server-side Manager, the (rpc, id, metadata) each handler sees compared with Drpc.Metadata.newServerStream. e2e suite, families delivery+probe: sequences of 1-4 RPCs of all shapes on one connection (real drpcconn.Conn and drpcserver.ServeOne over the director's pipe, 8 configurations, flowing or randomly chunked transport), every payload tagged with (rpc, direction, sequence, length, crc) so that a message delivered to another RPC is recognised; earlier RPCs ended by close or cancel at various points (probe family) before the next begins. Counted: scenarios (#STATS distribution); oracles C02:isolation",
        trusted=COMMON_TRUST + ["Go runtime (goroutines, sync, channels) trusted; the two-endpoint behaviour is explored, not modelled: "
                                "the Lean theorems cover the stream state machine, the wire codec, the reader and the dispatch decision",
                                "quiescence detection by stop-the-world goroutine snapshots; transport = the director's in-memory pipe "
                                "(bytes in order, unmodified, arbitrary pieces and delays; Close/failure make pending and later calls fail)"],
        assumptions=['the scripted handler and the client read payloads only through the public API', 'manager model theorems (Drpc.Props.ManagerSys) hold over ReachP / ReachServe / ReachClient: fresh stream ids, callers of one role per manager, an arriving invoke has an id above the last forwarded one, (server) one NewServerStream call at a time; the deadlock theorems assume EnvQuiet: every stream the manager created has finished and sent its token (discharged for terminated streams, unless an operation is parked in the transport / Marshal / Unmarshal, by the stream model: terminated_quiescent_all_done) and a closed transport fails a pending read; stream.Cancel is assumed not to block on the stream\'s transition lock (the known C04 findings are exactly the cases where it does)'],
    ),
    "C04": dict(
        modules=['Drpc.Props.C04', 'Drpc.Props.ManagerSys', 'Drpc.Tie.Manager'],
        suites=['e2e'],
        rule="e2e suite, family cancel: a streaming RPC (5 handler programs) with a random set of 1-3 operations in flight (receive, small/large send, second send, half-close, close) on a stalled or flowing transport, both cancel modes; the context is cancelled and the process run to quiescence: pending calls, error identities, later calls, a probe RPC on the connection, and the handler's context are judged. Known findings are matched by signature",
        trusted=COMMON_TRUST + ["Go runtime (goroutines, sync, channels) trusted; the two-endpoint behaviour is explored, not modelled: "
                                "the Lean theorems cover the stream state machine, the wire codec, the reader and the dispatch decision",
                                "quiescence detection by stop-the-world goroutine snapshots; transport = the director's in-memory pipe "
                                "(bytes in order, unmodified, arbitrary pieces and delays; Close/failure make pending and later calls fail)"],
        assumptions=['judged at quiescence with no transport action pending'],
    ),
    "C06": dict(
        modules=['Drpc.Props.C06', 'Drpc.Props.Manager', 'Drpc.Props.ManagerSys', 'Drpc.Tie.Manager'],
        suites=['e2e'],
        rule='e2e suite, family probe: 1-2 streaming RPCs over the grid {11 handler programs (return without draining, error without draining, read one, read all, send without reading, wait for cancel, close-send then error, large response ...)} x {0,1,3 client sends} x {half-close or not} x {0,1,5 receives} x {close, cancel} x {soft, hard cancel}, then a probe unary RPC that must complete at quiescence unless the connection reports itself closed',
        trusted=COMMON_TRUST + ["Go runtime (goroutines, sync, channels) trusted; the two-endpoint behaviour is explored, not modelled: "
                                "the Lean theorems cover the stream state machine, the wire codec, the reader and the dispatch decision",
                                "quiescence detection by stop-the-world goroutine snapshots; transport = the director's in-memory pipe "
                                "(bytes in order, unmodified, arbitrary pieces and delays; Close/failure make pending and later calls fail)"],
        assumptions=['the transport keeps moving bytes (flow mode) while the probe runs', 'manager model theorems (Drpc.Props.ManagerSys) hold over ReachP / ReachServe / ReachClient: fresh stream ids, callers of one role per manager, an arriving invoke has an id above the last forwarded one, (server) one NewServerStream call at a time; the deadlock theorems assume EnvQuiet: every stream the manager created has finished and sent its token (discharged for terminated streams, unless an operation is parked in the transport / Marshal / Unmarshal, by the stream model: terminated_quiescent_all_done) and a closed transport fails a pending read; stream.Cancel is assumed not to block on the stream\'s transition lock (the known C04 findings are exactly the cases where it does)'],
    ),
    "C12": dict(
        modules=['Drpc.Props.C12', 'Drpc.Props.Manager', 'Drpc.Props.ManagerSys', 'Drpc.Props.Serve', 'Drpc.Tie.Manager'],
        suites=['e2e'],
        rule='e2e suite, families close+fault: random workloads of 1-2 RPCs driven over a manually stepped transport; at transport step k (every k in the thorough tier, a sample in quick) Conn.Close / server context cancellation / an external transport break is issued; after the transport lets go: Close has returned, the transport end was closed exactly once by the library, every call has returned, no goroutine with a storj.io/drpc frame is left',
        trusted=COMMON_TRUST + ["Go runtime (goroutines, sync, channels) trusted; the two-endpoint behaviour is explored, not modelled: "
                                "the Lean theorems cover the stream state machine, the wire codec, the reader and the dispatch decision",
                                "quiescence detection by stop-the-world goroutine snapshots; transport = the director's in-memory pipe "
                                "(bytes in order, unmodified, arbitrary pieces and delays; Close/failure make pending and later calls fail)"],
        assumptions=['goroutine census by runtime.Stack at quiescence', 'manager model theorems (Drpc.Props.ManagerSys) hold over ReachP / ReachServe / ReachClient: fresh stream ids, callers of one role per manager, an arriving invoke has an id above the last forwarded one, (server) one NewServerStream call at a time; the deadlock theorems assume EnvQuiet: every stream the manager created has finished and sent its token (discharged for terminated streams, unless an operation is parked in the transport / Marshal / Unmarshal, by the stream model: terminated_quiescent_all_done) and a closed transport fails a pending read; stream.Cancel is assumed not to block on the stream\'s transition lock (the known C04 findings are exactly the cases where it does)', 'Serve model (Drpc.Props.Serve): a ServeOne whose context is done returns (serve_completes hypothesis)'],
    ),
    "C01": dict(
        modules=["Drpc.Props.C01", "Drpc.Tie.C08", "Drpc.Tie.C09", "Drpc.Tie.Manager"],
        suites=["e2e", "stream"],
        rule="e2e delivery family: 1-4 RPCs of all shapes per connection, message bodies of {0,1,6,8,20,100,5000,70000} bytes carrying "
             "(rpc, direction, sequence, length, crc), 8 split/writer-buffer/flush/cancel configurations, transport flowing or driven in "
             "random pieces (every acknowledge/deliver step recorded); oracles: order, integrity, no duplication, arrival of every "
             "successful send without a further call, completeness after half-close. stream suite (real Stream under the director, "
             "parked writes/Marshal/Unmarshal): every auto-flushed MsgSend that returned nil is completely in completed transport "
             "writes; observations equal the atomic-step model's",
        trusted=E2E_TRUST,
        assumptions=["user encodings do not retain the lent receive buffer"],
    ),
    "C05": dict(
        modules=["Drpc.Props.C05", "Drpc.Props.ManagerSys", "Drpc.Tie.C09", "Drpc.Tie.Manager"],
        suites=["e2e", "stream"],
        rule="e2e fault family: random workloads of 1-2 RPCs over a manually stepped transport; at I/O step k (every k in the thorough "
             "tier, a sample in quick) the transport of either endpoint breaks (all its reads and writes fail), or an end is taken down "
             "from outside; the application then carries on with the rest of its calls. Judged at quiescence: nothing pending, Closed() "
             "signalled, later calls fail, a write that failed is reported, what was delivered is intact and a prefix, no panic. stream "
             "suite: transport write failures at stream level, packet-buffer wake-ups with a parked Unmarshal",
        trusted=E2E_TRUST,
        assumptions=["transport contract: a broken transport fails all pending and later reads and writes of that end"],
    ),
    "C19": dict(
        modules=["Drpc.Props.C19", "Drpc.Tie.C19"],
        suites=["signal"],
        rule="signal suite: ONE real drpcsignal.Signal (resp. drpcsignal.Chan) shared by 2-3 goroutines with 1-3 operations each "
             "(Signal: Set(e1), Set(e2), Set(nil), Signal, Wait, Get, Err, IsSet; Chan: Close, Make(1), Get, Send, Recv, Full), every "
             "goroutine parked in front of each operation and at every drpcdebug.Point inside setSlow / signalSlow / doSlow / "
             "Close / Get and on the fast paths; the director releases one goroutine at a time and observes only at "
             "stop-the-world-verified quiescence. (A) 2 goroutines x 1 operation: EVERY pair of operations, EVERY complete schedule "
             "(depth-first over the release choices with replay from the start; the number of schedules found on the real code is "
             "compared with the model's own exhaustive count); (B) 2 x 2 operations: every schedule of three fixed and a seeded "
             "selection of program pairs (13 resp. 11 in quick, 73 each in thorough), counts compared likewise; (C) seeded random walks over "
             "2-3 goroutines x 1-3 operations in which goroutines are also sent into a held mutex (at most one waiter); (D) the "
             "double-Close scenarios. Compared per schedule: where every goroutine is after every release (point name / blk / end / "
             "pan), every return value, channel identities (nil / sentinel / c0, c1 by first appearance), which channels are closed "
             "at the end. Non-trivial: a goroutine was preempted inside an operation (context switch away from a goroutine parked "
             "at an internal point) or somebody was blocked at some time; distinct by hash of the request",
        trusted=COMMON_TRUST[:0] + [
            "Go runtime: sync.Mutex, sync/atomic (sequentially consistent), channel close/send/receive as documented; the model's "
            "race_free theorems are what licenses reasoning about the non-atomic fields err/ch under sequential consistency",
            "the granularity of the correspondence is the scheduling points: between two points the real code runs uninterrupted, "
            "the model runs its intermediate atomic steps in program order (interleavings of those steps are covered by the "
            "theorems, not by the trace validation); the positions of the points are part of the fingerprints (Tie.C19)",
            "quiescence detection: the director's bookkeeping (parked at a point / returned) plus a stop-the-world runtime.Stack "
            "snapshot in which every goroutine but the director is in a channel/mutex wait; director.Settle as authoritative "
            "re-check at the end of a sample of schedules and of every schedule that ends with a blocked goroutine",
            "Chan channel operations: the model does not choose between several parked receivers / senders (Go: FIFO); the suite "
            "generates at most one Recv, and next to it at most one Send and no Full; Signal.Wait, Chan.setFresh/setClosed and the "
            "package-level `closed` channel have no fingerprint (their behaviour is covered by the suite)",
        ],
        assumptions=["no_panic_single_closer: at most one Close call ever and no Send/Full next to a Close (double Close and send "
                     "after Close panic exactly like Go's own channels: chan_double_close_counterexample, "
                     "chan_send_after_close_counterexample — recorded as a contract, not as a finding)"],
        timeout=dict(quick=300, thorough=7200),
    ),
    "C13": dict(
        modules=["Drpc.Props.C13", "Drpc.Tie.C08", "Drpc.Tie.C09", "Drpc.Tie.C10", "Drpc.Tie.C11", "Drpc.Tie.C14", "Drpc.Tie.C03", "Drpc.Tie.Manager"],
        suites=["wire", "reader", "meta", "errs", "http", "stream"],
        oracle_filter=r"panic|alloc|bound|memory|hang|leak|regress",
        mismatch_violation_pattern=r"panic",
        rule="all receive paths under recover: the suites of C08 (parser: exhaustive short strings, hostile headers, mutated frames), "
             "C09 (reader: hostile streams, huge declared lengths, every chunking), C10 (error decoder, code extraction incl. cycles and "
             "nil unwraps), C11 (metadata decoder: exhaustive short inputs, mutated encodings), C14 (gateway: header strings exhaustive "
             "to length 5 incl. mostly-'%', bodies around the limits, error values) and the stream suite (packets of every kind in every "
             "state). Counted as violations here: any panic outcome, any memory/allocation-bound oracle, any hang or leaked goroutine",
        trusted=COMMON_TRUST + ["real panics, out-of-bounds reads and allocation sizes are runtime facts: evidenced by running the entry "
                                "points under recover and with allocation measurements, not proved"],
        assumptions=[],
    ),
    "C07": dict(
        modules=["Drpc.Props.C07", "Drpc.Props.Manager", "Drpc.Props.ManagerSys", "Drpc.Props.Compose", "Drpc.Props.ComposeManager", "Drpc.Tie.C03", "Drpc.Tie.Manager"],
        suites=["stream", "e2e"],
        rule="stream suite: every completed transport write of a real Stream (sequential and parked histories incl. parked Marshal, "
             "failing writes, concurrent terminal calls) is parsed by the independent Go reference parser: whole frames, ids "
             "non-decreasing, one kind per id, nothing after a done frame, never two writes in flight; observations equal the "
             "atomic-step model's. e2e families delivery+cancel+fault: the complete byte stream each endpoint handed to the transport "
             "over whole connections (several streams, cancels, faults) satisfies the same, plus: never two reads in flight, the "
             "transport closed at most once per manager",
        trusted=E2E_TRUST,
        assumptions=["manager model theorems (Drpc.Props.ManagerSys) hold over ReachP / ReachServe / ReachClient: fresh stream ids, callers of one role per manager, an arriving invoke has an id above the last forwarded one, (server) one NewServerStream call at a time; the deadlock theorems assume EnvQuiet: every stream the manager created has finished and sent its token (discharged for terminated streams, unless an operation is parked in the transport / Marshal / Unmarshal, by the stream model: terminated_quiescent_all_done) and a closed transport fails a pending read; stream.Cancel is assumed not to block on the stream\'s transition lock (the known C04 findings are exactly the cases where it does)", "the succession of streams on one connection (next stream only after the previous is finished) is explored by "
                     "the e2e suite; the per-stream invariants are theorems"],
    ),
}
