#!/bin/sh
# Build everything the checks need, offline, from files on disk only.
set -e
cd "$(dirname "$0")"
export GOFLAGS=-mod=mod GOPROXY=off GOSUMDB=off GOTOOLCHAIN=local CGO_ENABLED=0
mkdir -p build evidence replays lean/Drpc/Generated
(cd tools/extract && go1.26.8 build -o ../../build/extract .)
build/extract /repo > lean/Drpc/Generated/Consts.lean.tmp && mv lean/Drpc/Generated/Consts.lean.tmp lean/Drpc/Generated/Consts.lean
(cd lean && lake build drpcmodel)
# the whole library (all property and tie modules); a failure here is reported by the individual checks
(cd lean && lake build Drpc) || echo "setup: lake build Drpc failed (individual checks will report it)"
cp /repo/go.sum harness/go.sum
(cd harness && go1.26.8 build -tags verif -o ../build/corr ./cmd/corr)
# C18: the released v0.0.17 (module cache) behind a line protocol; the compat suite also rebuilds it on demand
(cd oldwire && (go1.26.8 build -o ../build/oldwire . || go build -o ../build/oldwire .))
echo setup ok
