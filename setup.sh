#!/bin/sh
# Build everything the checks need, offline, from files on disk only.
set -e
cd "$(dirname "$0")"
export GOFLAGS=-mod=mod GOPROXY=off GOSUMDB=off GOTOOLCHAIN=local CGO_ENABLED=0
mkdir -p build evidence replays lean/Drpc/Generated
(cd tools/extract && go1.26.8 build -o ../../build/extract .)
build/extract /repo > lean/Drpc/Generated/Consts.lean.tmp && mv lean/Drpc/Generated/Consts.lean.tmp lean/Drpc/Generated/Consts.lean
(cd lean && lake build Drpc drpcmodel)
cp /repo/go.sum harness/go.sum
(cd harness && go1.26.8 build -tags verif -o ../build/corr ./cmd/corr)
echo setup ok
