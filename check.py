#!/usr/bin/env python3
"""
check.py <Cnn> [--tier quick|thorough] [--replay FILE]

One entry point for every property.  For property Cnn it
  1. regenerates lean/Drpc/Generated/*.lean from /repo's working tree (tools/extract),
  2. builds the property's Lean modules (theorems + tie lemmas) and the model driver `drpcmodel`,
  3. audits the property theorems (axioms, sorry-freeness; thorough: leanchecker),
  4. builds the Go harness against /repo's working tree with -tags verif,
  5. runs the property's correspondence suites, replays every request on the Lean model and
     compares the answers; the suites also evaluate direct oracles on the implementation
     (the failing-input search),
  6. classifies what it found against known_findings.json,
  7. writes evidence/Cnn.json and prints KNOWN-FINDING / VIOLATION lines; exit 0 or 1.
"""
import sys, os, json, subprocess, time, hashlib, re, fcntl, shutil, argparse

ROOT = os.path.dirname(os.path.abspath(__file__))
LEAN = os.path.join(ROOT, "lean")
HARNESS = os.path.join(ROOT, "harness")
BUILD = os.path.join(ROOT, "build")
REPLAYS = os.path.join(ROOT, "replays")
EVID = os.path.join(ROOT, "evidence")
REPO = os.environ.get("VERIF_REPO", "/repo")  # VERIF_REPO: a scratch worktree (tools/par_matrix.sh only)

GOENV = dict(os.environ, GOFLAGS="-mod=mod", GOPROXY="off", GOSUMDB="off", GOTOOLCHAIN="local",
             CGO_ENABLED="0")
GO = "go1.26.8"

sys.path.insert(0, ROOT)
from props import PROPS  # noqa: E402


def sh(cmd, cwd=None, env=None, timeout=None, input=None):
    p = subprocess.run(cmd, cwd=cwd, env=env, timeout=timeout, input=input,
                       stdout=subprocess.PIPE, stderr=subprocess.PIPE, text=True, errors="replace")
    return p.returncode, p.stdout, p.stderr


class Lock:
    def __init__(self, name):
        os.makedirs(BUILD, exist_ok=True)
        self.path = os.path.join(BUILD, name + ".lock")

    def __enter__(self):
        self.f = open(self.path, "w")
        fcntl.flock(self.f, fcntl.LOCK_EX)

    def __exit__(self, *a):
        fcntl.flock(self.f, fcntl.LOCK_UN)
        self.f.close()


def tree_hash():
    rc, out, _ = sh(["git", "-C", REPO, "rev-parse", "HEAD"])
    head = out.strip()
    rc, diff, _ = sh(["git", "-C", REPO, "diff", "HEAD"])
    return head[:12] + ("+" + hashlib.sha1(diff.encode()).hexdigest()[:8] if diff.strip() else "")


# ---------------------------------------------------------------- build steps

def step_extract(breaks):
    """T1: regenerate constants/tables from the Go source."""
    with Lock("extract"):
        exe = os.path.join(BUILD, "extract")
        rc, out, err = sh([GO, "build", "-o", exe, "."], cwd=os.path.join(ROOT, "tools", "extract"), env=GOENV)
        if rc != 0:
            breaks.append(dict(kind="tie", what="extractor does not build", detail=err[-2000:]))
            return
        gen_dir = os.path.join(LEAN, "Drpc", "Generated")
        os.makedirs(gen_dir, exist_ok=True)
        rc, out, err = sh([exe, REPO], env=GOENV)
        if rc != 0:
            breaks.append(dict(kind="tie", what="extractor failed on /repo (declaration missing?)", detail=(out + err)[-2000:]))
            return
        # out is the content of Consts.lean; move into place only if different
        path = os.path.join(gen_dir, "Consts.lean")
        old = open(path).read() if os.path.exists(path) else None
        if old != out:
            with open(path + ".tmp", "w") as f:
                f.write(out)
            os.replace(path + ".tmp", path)


def parse_lean_errors(text):
    errs = []
    for m in re.finditer(r"error: ([^\s:]+\.lean):(\d+):(\d+): (.*)", text):
        errs.append(dict(file=m.group(1), line=int(m.group(2)), msg=m.group(4)[:300]))
    return errs


def theorem_at(path, line):
    """name of the theorem/def enclosing a line of a Lean file (for naming the broken obligation)"""
    try:
        lines = open(os.path.join(LEAN, path)).read().split("\n")
    except OSError:
        return None
    for i in range(min(line, len(lines)) - 1, -1, -1):
        m = re.match(r"\s*(?:@\[[^\]]*\]\s*)?(?:private\s+|protected\s+)?(theorem|lemma|def|example|instance)\s+([^\s:(\[{]+)?", lines[i])
        if m:
            return (m.group(2) or "example") + f" ({path}:{i+1})"
    return None


def step_lean(prop, cfg, breaks):
    """build the model driver and the property's theorem modules"""
    res = dict(driver=False, modules_ok=[])
    with Lock("lake"):
        rc, out, err = sh(["lake", "build", "drpcmodel"], cwd=LEAN, timeout=3000)
        if rc != 0:
            breaks.append(dict(kind="model", what="model driver does not build", detail=(out + err)[-3000:],
                               errors=parse_lean_errors(out + err)))
        else:
            res["driver"] = True
        for mod in cfg["modules"]:
            rc, out, err = sh(["lake", "build", mod], cwd=LEAN, timeout=3000)
            if rc != 0:
                errs = parse_lean_errors(out + err)
                names = sorted({theorem_at(e["file"], e["line"]) or e["file"] for e in errs})
                breaks.append(dict(kind="proof", what=f"{mod} no longer checks", obligations=names,
                                   errors=errs[:20], detail=(out + err)[-1500:] if not errs else ""))
            else:
                res["modules_ok"].append(mod)
    return res


def step_audit(prop, cfg, leanres, breaks, tier):
    """list the property theorems and their axioms"""
    theorems = []
    mods = [m for m in cfg["modules"] if m in leanres["modules_ok"] and ".Props." in m]
    if not mods:
        return theorems
    rc, out, err = sh(["lake", "env", "lean", "--run", "Audit.lean"] + mods, cwd=LEAN, timeout=1200)
    for line in out.splitlines():
        try:
            theorems.append(json.loads(line))
        except ValueError:
            pass
    bad = [t for t in theorems if not t.get("ok")]
    # compiler-derived theorems (constructor injectivity, sizeOf specs, projections) are audited but not counted
    theorems = [t for t in theorems if not t.get("generated")]
    if rc != 0 or bad or not theorems:
        breaks.append(dict(kind="proof", what="audit failed (unexpected axiom, sorry, or no theorems)",
                           obligations=[t["theorem"] for t in bad], detail=err[-1000:]))
    # textual audit of the sources (comments stripped)
    hits = []
    pat = re.compile(r"\bsorry\b|\badmit\b|^\s*axiom |native_decide|bv_decide|implemented_by|\bunsafe |maxHeartbeats 0", re.M)
    # the sources scanned are the import closure of the property's modules and of the model driver
    # (work-in-progress files nobody imports are not part of any claim)
    todo, seen_files = list(cfg["modules"]) + ["Main"], {}
    while todo:
        m = todo.pop()
        path = os.path.join(LEAN, *m.split(".")) + ".lean"
        if m in seen_files or not os.path.exists(path):
            continue
        txt = open(path).read()
        seen_files[m] = path
        todo += re.findall(r"^import (Drpc[\w.]*)", txt, flags=re.M)
        txt = re.sub(r"/-.*?-/", "", txt, flags=re.S)
        txt = re.sub(r"--[^\n]*", "", txt)
        for mm in pat.finditer(txt):
            hits.append(f"{os.path.relpath(path, LEAN)}: {mm.group(0)}")
    if hits:
        breaks.append(dict(kind="proof", what="forbidden construct in Lean sources", detail="\n".join(hits[:10])))
    if tier == "thorough":
        for m in mods:
            rc, out, err = sh(["lake", "env", "leanchecker", m], cwd=LEAN, timeout=3000)
            if rc != 0:
                breaks.append(dict(kind="proof", what=f"leanchecker rejected {m}", detail=(out + err)[-1500:]))
    return theorems


def step_harness(cfg, breaks):
    with Lock("harness"):
        shutil.copyfile(os.path.join(REPO, "go.sum"), os.path.join(HARNESS, "go.sum"))
        exe = os.path.join(BUILD, "corr")
        rc, out, err = sh([GO, "build", "-tags", "verif", "-o", exe, "./cmd/corr"], cwd=HARNESS, env=GOENV, timeout=1200)
        if rc != 0:
            breaks.append(dict(kind="harness", what="harness does not build against /repo's working tree", detail=err[-3000:]))
            return None
        return exe


# ---------------------------------------------------------------- suites

def run_suite(exe, suite, seed, tier, prop, timeout):
    """returns dict(cases=[(req,ans)], oracles=[(name,input,detail)], stats={}, error=str|None)"""
    args = [exe, suite, "-seed", str(seed)]
    if tier == "thorough":
        args.append("-thorough")
    env = dict(GOENV, GOMEMLIMIT="8GiB", VERIF_PROP=prop, VERIF_ROOT=ROOT, VERIF_REPO=REPO)
    try:
        p = subprocess.run(args, stdout=subprocess.PIPE, stderr=subprocess.PIPE, timeout=timeout, env=env, cwd=BUILD)
    except subprocess.TimeoutExpired as e:
        return dict(cases=[], oracles=[], stats={}, error=f"suite {suite} timed out after {timeout}s",
                    stderr=(e.stderr or b"")[-3000:].decode(errors="replace"))
    out = p.stdout.decode(errors="replace")
    cases, oracles, stats = [], [], {}
    for line in out.split("\n"):
        if not line:
            continue
        if line.startswith("!ORACLE\t"):
            parts = line.split("\t")
            oracles.append((parts[1], parts[2] if len(parts) > 2 else "", parts[3] if len(parts) > 3 else ""))
        elif line.startswith("#STATS\t"):
            stats = json.loads(line.split("\t", 1)[1])
        elif "\t" in line:
            req, ans = line.split("\t", 1)
            cases.append((req, ans))
    error = None
    if p.returncode != 0 or not stats:
        error = f"suite {suite} exited {p.returncode} (crash/panic of the implementation or harness)"
    return dict(cases=cases, oracles=oracles, stats=stats, error=error,
                stderr=p.stderr[-4000:].decode(errors="replace"))


def run_model_part(requests):
    exe = os.path.join(LEAN, ".lake", "build", "bin", "drpcmodel")
    try:
        p = subprocess.run([exe], input=("\n".join(requests) + "\n").encode(), stdout=subprocess.PIPE,
                           stderr=subprocess.PIPE, timeout=900)
    except subprocess.TimeoutExpired:
        return [], 124, "model driver timed out"
    out = p.stdout.decode(errors="replace").split("\n")
    if out and out[-1] == "":
        out.pop()
    return out, p.returncode, p.stderr.decode(errors="replace")[-2000:]


def run_model(requests, jobs=12):
    """requests are stateless, so they are replayed on the model in parallel slices"""
    from concurrent.futures import ThreadPoolExecutor
    if len(requests) < 64:
        return run_model_part(requests)
    # interleave so that expensive requests spread over the slices
    parts = [requests[i::jobs] for i in range(jobs)]
    with ThreadPoolExecutor(jobs) as ex:
        res = list(ex.map(run_model_part, parts))
    out = [None] * len(requests)
    rc, err = 0, ""
    for i, (o, r, e) in enumerate(res):
        if r != 0 or len(o) != len(parts[i]):
            return o, r or 1, e
        out[i::jobs] = o
    return out, rc, err


# ---------------------------------------------------------------- known findings

def load_known():
    path = os.path.join(ROOT, "known_findings.json")
    if not os.path.exists(path):
        return []
    return json.load(open(path)).get("findings", [])


def match_known(known, prop, name, inp, detail):
    for k in known:
        if k.get("property") != prop or k.get("status", "open") != "open":
            continue
        if k.get("oracle") != name and not re.fullmatch(k.get("oracle", ""), name):
            continue
        pat = k.get("match")
        if pat is None or re.search(pat, inp + " || " + detail):
            return k
    return None


# ---------------------------------------------------------------- main

def write_replay(prop, kind, payload):
    os.makedirs(REPLAYS, exist_ok=True)
    body = json.dumps(dict(property=prop, kind=kind, **payload), indent=1, sort_keys=True)
    h = hashlib.sha1(body.encode()).hexdigest()[:10]
    path = os.path.join(REPLAYS, f"{prop}-{kind}-{h}.json")
    with open(path, "w") as f:
        f.write(body)
    return path


def main():
    ap = argparse.ArgumentParser()
    ap.add_argument("prop")
    ap.add_argument("--tier", default=os.environ.get("VERIF_TIER", "quick"))
    ap.add_argument("--replay")
    a = ap.parse_args()
    prop = a.prop
    tier = a.tier if a.tier in ("quick", "thorough") else "quick"
    seed = int(os.environ.get("VERIF_SEED", "1") or 1)
    if prop not in PROPS:
        print(f"unknown property {prop}")
        return 2
    cfg = PROPS[prop]
    replay = None
    if a.replay:
        replay = json.load(open(a.replay))
        seed = replay.get("seed", seed)
        tier = replay.get("tier", tier)
    # several checks may run at once; a seeded-change experiment (tools/try_mutant.sh) takes this lock
    # exclusively while /repo is modified, ordinary runs share it
    os.makedirs(BUILD, exist_ok=True)
    repo_lock = open(os.path.join(BUILD, "repo.lock"), "w")
    if not os.environ.get("VERIF_REPO_LOCKED"):
        fcntl.flock(repo_lock, fcntl.LOCK_SH)
    t0 = time.time()
    breaks = []          # broken proof obligations / ties / correspondences (not yet violations)
    failing = []         # concrete failing inputs on the implementation (direct oracles)
    known_hits = []
    known = load_known()

    step_extract(breaks)
    leanres = step_lean(prop, cfg, breaks)
    theorems = step_audit(prop, cfg, leanres, breaks, tier)
    exe = step_harness(cfg, breaks)

    totals = dict(evaluations=0, distinct_nontrivial=0, oracle_evals=0, mismatches=0)
    dist, samples, suite_stats = {}, [], {}
    mismatches = []
    if exe:
        seeds = [seed]
        for suite in cfg["suites"]:
            budget = cfg.get("timeout", {}).get(tier, 900 if tier == "quick" else 7200)
            r = run_suite(exe, suite, seed, tier, prop, budget)
            if r["error"]:
                breaks.append(dict(kind="harness-run", what=r["error"], detail=r.get("stderr", "")))
                failing.append(dict(oracle="no-crash-no-hang", suite=suite, input=f"suite={suite} seed={seed} tier={tier}",
                                    detail=r["error"] + " :: " + r.get("stderr", "")[-1500:]))
            st = r["stats"]
            suite_stats[suite] = {k: st.get(k) for k in ("cases", "distinct", "distinct_nontrivial", "oracle_violations")}
            totals["evaluations"] += st.get("cases", 0)
            totals["distinct_nontrivial"] += st.get("distinct_nontrivial", 0)
            for k, v in (st.get("distribution") or {}).items():
                dist[suite + "/" + k] = v
                if k.startswith("oracle:"):
                    totals["oracle_evals"] += v
            samples += [f"{suite}: {s}" for s in (st.get("samples") or [])][:4]
            for (name, inp, detail) in r["oracles"]:
                # oracles of shared suites are attributed: "Cnn:name" counts only for property Cnn
                m = re.match(r"^(C\d\d):(.*)$", name)
                if m and m.group(1) != prop:
                    continue
                if cfg.get("oracle_filter") and not m and not re.search(cfg["oracle_filter"], name):
                    continue
                failing.append(dict(oracle=name, suite=suite, input=inp, detail=detail))
            # replay on the model
            if r["cases"] and leanres["driver"]:
                reqs = [c[0] for c in r["cases"]]
                outs, rc, err = run_model(reqs)
                if rc != 0 or len(outs) != len(reqs):
                    breaks.append(dict(kind="correspondence", what=f"model driver failed on suite {suite}",
                                       detail=f"rc={rc} answers={len(outs)}/{len(reqs)} {err}"))
                else:
                    for (req, ans), mo in zip(r["cases"], outs):
                        if "[RACY]" in mo:
                            # the model says the rest of this schedule depends on the Go scheduler: compare the
                            # observations before that point only
                            k = mo.split("] [").index("[RACY]") if mo.split("] [")[0] == "[RACY]" else len(mo.split(" [RACY]")[0].split("] ["))
                            ans = "] [".join(ans.split("] [")[:k])
                            mo = "] [".join(mo.split("] [")[:k])
                            totals["racy"] = totals.get("racy", 0) + 1
                        if ans.rstrip("]") != mo.rstrip("]"):
                            mismatches.append(dict(suite=suite, request=req, impl=ans, model=mo))
    totals["mismatches"] = len(mismatches)
    if mismatches and cfg.get("mismatch_violation_pattern"):
        # only some differences are violations of this property (e.g. the implementation panicked)
        pat = re.compile(cfg["mismatch_violation_pattern"])
        for m in [m for m in mismatches if pat.search(m["impl"])][:50]:
            failing.append(dict(oracle="implementation-outcome", suite=m["suite"], input=m["request"],
                                detail="implementation: " + m["impl"][:1500] + " ||| model: " + m["model"][:1500]))
    # a manager event trace the protocol checker rejects is a concrete history on which a protocol
    # rule (the theorems of Drpc.Props.Manager are stated over accepted traces) is violated
    for m in [m for m in mismatches if m["request"].startswith("mgrtrace ") and m["model"].startswith("reject")][:20]:
        failing.append(dict(oracle="manager-protocol", suite=m["suite"], input=m["request"],
                            detail="the manager's event trace violates its protocol (Drpc.Manager.Proto.allowed): " + m["model"][:300]))
    if mismatches and cfg.get("mismatch_is_violation"):
        # the property itself says "behaves like the (proved) reference": a difference on a concrete
        # input/history is a concrete failing input
        for m in mismatches[:50]:
            failing.append(dict(oracle="behaves-like-model", suite=m["suite"], input=m["request"],
                                detail="implementation: " + m["impl"][:1500] + " ||| model: " + m["model"][:1500]))
    if mismatches:
        breaks.append(dict(kind="correspondence", what=f"{len(mismatches)} case(s) where implementation and model differ",
                           first=mismatches[:5]))

    # ------------------------------------------------ classify
    violations = []
    new_failing = []
    for f in failing:
        k = match_known(known, prop, f["oracle"], f["input"], f["detail"])
        if k:
            known_hits.append((k, f))
        else:
            new_failing.append(f)
    # model-level counterexample theorems replayed on the code are emitted by suites as oracle
    # "known:<id>" lines; nothing else to do here.
    printed = set()
    for k, f in known_hits:
        if k["id"] not in printed:
            printed.add(k["id"])
            print(f"KNOWN-FINDING: property={prop} {k['id']}: {k['what']}")
    exit_code = 0
    if new_failing:
        # group by oracle, report the first (smallest input) of each
        by = {}
        for f in new_failing:
            by.setdefault(f["oracle"], []).append(f)
        for name, fs in by.items():
            fs.sort(key=lambda f: len(f["input"]))
            path = write_replay(prop, "input", dict(oracle=name, suite=fs[0]["suite"], input=fs[0]["input"],
                                                    observed=fs[0]["detail"], count=len(fs), seed=seed, tier=tier,
                                                    tree=tree_hash(), breaks=breaks[:5]))
            print(f"VIOLATION property={prop} replay={path}")
            violations.append(path)
        exit_code = 1
    elif breaks:
        path = write_replay(prop, "obligation", dict(seed=seed, tier=tier, tree=tree_hash(), broken=breaks[:10],
                                                     note="a proof obligation, tie or correspondence no longer checks and "
                                                          "the failing-input search found no input on which the property fails"))
        print(f"VIOLATION property={prop} replay={path} no-failing-input-found")
        violations.append(path)
        exit_code = 1

    # ------------------------------------------------ evidence
    wall = time.time() - t0
    discharged = len([t for t in theorems if t.get("ok")])
    axioms = sorted({a for t in theorems for a in t.get("axioms", [])})
    ev = dict(
        property_id=prop, tier=tier, seed=seed, level="proof",
        coverage=dict(
            obligations=max(len(theorems), 1) if not any(b["kind"] == "proof" for b in breaks) else len(theorems) + 1,
            discharged=discharged,
            checker_cmd=f"cd lean && lake build {' '.join(cfg['modules'])} && lake env lean --run Audit.lean {' '.join(m for m in cfg['modules'] if '.Props.' in m)}"
                        + (" && lake env leanchecker <module>" if tier == "thorough" else ""),
            trusted_base=[
                "Lean 4.33.0 kernel" + (" + leanchecker re-check" if tier == "thorough" else ""),
                "axioms used by the property theorems: " + (", ".join(axioms) if axioms else "none"),
                "hand-written Lean model of the Go code; tie = regenerated constants (tools/extract) + differential "
                "correspondence on sampled/enumerated inputs (agreement outside the samples is not established)",
            ] + cfg.get("trusted", []),
            theorems=[t["theorem"] for t in theorems],
            evaluations=totals["evaluations"],
            distinct_nontrivial=totals["distinct_nontrivial"],
            rule=cfg.get("rule", ""),
            samples=samples[:8] or [t["theorem"] for t in theorems][:5],
            traces_validated_against_impl=totals["evaluations"] - totals["mismatches"],
            oracle_evaluations=totals["oracle_evals"],
            correspondence_mismatches=totals["mismatches"],
            schedules_cut_at_scheduler_dependent_point=totals.get("racy", 0),
            suites=suite_stats,
            distribution=dist,
            exhaustive=False,
            known_findings_seen=sorted(printed),
            broken=[b["what"] for b in breaks],
            tree=tree_hash(),
        ),
        assumptions=cfg.get("assumptions", []),
        wall_s=round(wall, 2),
        violations=len(violations),
    )
    # experiments on a modified tree (tools/try_mutant.sh) must not overwrite the committed evidence
    evid_dir = os.path.join(BUILD, "evidence-scratch") if os.environ.get("VERIF_SCRATCH_EVIDENCE") else EVID
    os.makedirs(evid_dir, exist_ok=True)
    with open(os.path.join(evid_dir, f"{prop}.json"), "w") as f:
        json.dump(ev, f, indent=1, sort_keys=True)
    print(f"{prop} tier={tier} seed={seed}: theorems={len(theorems)} discharged={discharged} cases={totals['evaluations']} "
          f"mismatches={totals['mismatches']} oracle_failures={len(failing)} known={len(printed)} breaks={len(breaks)} wall={wall:.1f}s")
    return exit_code


if __name__ == "__main__":
    sys.exit(main())
